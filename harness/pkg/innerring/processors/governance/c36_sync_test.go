//go:build verif

package governance

import (
	"errors"
	"fmt"
	"math/bits"
	"slices"
	"sync"
	"testing"

	"github.com/nspcc-dev/neo-go/pkg/crypto/keys"
	"github.com/nspcc-dev/neo-go/pkg/util"
	"github.com/nspcc-dev/neofs-node/internal/verifhook"
	"github.com/nspcc-dev/neofs-node/internal/verifkit"
	"github.com/nspcc-dev/neofs-node/pkg/morph/client"
	neofscontract "github.com/nspcc-dev/neofs-node/pkg/morph/client/neofs"
	"go.uber.org/zap"
)

type vf36Bool bool

func (b vf36Bool) IsAlphabet() bool { return bool(b) }

type vf36Epoch uint64

func (e vf36Epoch) EpochCounter() uint64 { return uint64(e) }

// vf36Chain is the recording stand-in for everything processAlphabetSync talks to.
type vf36Chain struct {
	mu sync.Mutex

	mainCli, fsCli *client.Client

	committee, mainnet, innerRing keys.PublicKeys
	irErr                         error

	votes, notary, mainUpdate, irUpdate []keys.PublicKeys
	otherOps                            []string
}

func (c *vf36Chain) VoteForFSChainValidator(l keys.PublicKeys, _ *util.Uint256) error {
	c.mu.Lock()
	defer c.mu.Unlock()
	c.votes = append(c.votes, slices.Clone(l))
	return nil
}

func (c *vf36Chain) InnerRingKeys() (keys.PublicKeys, error) {
	if c.irErr != nil {
		return nil, c.irErr
	}
	return slices.Clone(c.innerRing), nil
}

func (c *vf36Chain) morph(cli any, op string, args []any) (bool, []any) {
	c.mu.Lock()
	defer c.mu.Unlock()
	who := "other"
	if cli == any(c.mainCli) {
		who = "main"
	} else if cli == any(c.fsCli) {
		who = "fs"
	}
	switch {
	case who == "main" && op == "NeoFSAlphabetList":
		return true, []any{slices.Clone(c.mainnet), nil}
	case who == "fs" && op == "Committee":
		return true, []any{slices.Clone(c.committee), nil}
	case op == "CalculateNonceAndVUB":
		return true, []any{uint32(1), uint32(100), nil}
	case who == "fs" && op == "UpdateNeoFSAlphabetList":
		c.irUpdate = append(c.irUpdate, slices.Clone(args[0].(keys.PublicKeys)))
		return true, []any{nil}
	case who == "fs" && op == "UpdateNotaryList":
		c.notary = append(c.notary, slices.Clone(args[0].(keys.PublicKeys)))
		return true, []any{nil}
	case who == "main" && (op == "NotaryInvoke" || op == "Invoke" || op == "NotaryInvokeNotAlpha"):
		// ..., method string, args []any are the two last hook arguments
		method, _ := args[len(args)-2].(string)
		cargs, _ := args[len(args)-1].([]any)
		if method == "alphabetUpdate" && len(cargs) == 2 {
			if l, ok := cargs[1].(keys.PublicKeys); ok {
				c.mainUpdate = append(c.mainUpdate, slices.Clone(l))
				if op == "NotaryInvoke" {
					return true, []any{util.Uint256{}, nil}
				}
				return true, []any{nil}
			}
		}
	}
	c.otherOps = append(c.otherOps, who+"."+op)
	return true, []any{errors.New("verif: unexpected chain call")}
}

// TestVerif_C36_Sync drives the real processAlphabetSync handler with recording chain
// clients and judges the lists it actually proposes.
func TestVerif_C36_Sync(t *testing.T) {
	r := verifkit.Start(t, "C36", "exploration")
	defer r.Finish()
	const uSize = 8
	n := r.Pick(4000, 60000)
	r.SetRule(fmt.Sprintf("%d seeded random (committee, main-net list, inner ring = committee + 0..2 other keys, random orders) tuples over a universe of %d keys pushed through the real processAlphabetSync handler; distinct = (committee, main-net, extras) triples for which the handler proposed something", n, uSize))

	u := vf36Universe(r, "universe", uSize)
	full := uint(1)<<uSize - 1

	ch := &vf36Chain{mainCli: new(client.Client), fsCli: new(client.Client)}
	verifhook.SetMorph(ch.morph)
	defer verifhook.SetMorph(nil)

	nc, err := neofscontract.NewFromMorph(ch.mainCli, util.Uint160{0x36}, 0, neofscontract.TryNotary(), neofscontract.AsAlphabet())
	if err != nil {
		t.Fatal(err)
	}
	gp := &Processor{
		log:           zap.NewNop(),
		neofsClient:   nc,
		alphabetState: vf36Bool(true),
		epochState:    vf36Epoch(7),
		voter:         ch,
		irFetcher:     ch,
		mainnetClient: ch.mainCli,
		fsChainClient: ch.fsCli,
	}

	for i := 0; i < n; i++ {
		rng := r.Rand("sync", i)
		var cur, main, ex uint
		for {
			cur = uint(rng.UintN(uint(full))) + 1
			if c := bits.OnesCount(cur); c >= 1 && c <= 7 {
				break
			}
		}
		for {
			main = uint(rng.UintN(uint(full))) + 1
			// bias towards lists that share most keys with the committee
			if rng.IntN(3) > 0 {
				main |= cur &^ (1 << uint(rng.IntN(uSize)))
			}
			if bits.OnesCount(main) >= bits.OnesCount(cur) {
				break
			}
		}
		rest := full &^ cur
		for k := 0; k < rng.IntN(3); k++ {
			if rest == 0 {
				break
			}
			b := uint(1) << uint(rng.IntN(uSize))
			if b&rest != 0 {
				ex |= b
			}
		}
		ch.committee = vf36Pick(u, cur, rng)
		ch.mainnet = vf36Pick(u, main, rng)
		ch.innerRing = vf36Pick(u, cur|ex, rng)
		if rng.IntN(2) == 0 {
			ch.innerRing = vf36Pick(u, cur|ex, nil)
		}
		ch.irErr = nil
		if rng.IntN(25) == 0 {
			ch.irErr = errors.New("verif: injected inner ring fetch failure")
		}
		ch.votes, ch.notary, ch.mainUpdate, ch.irUpdate, ch.otherOps = nil, nil, nil, nil, nil

		desc := map[string]any{"case": i, "committee": vf36MaskStr(cur, uSize), "mainnet": vf36MaskStr(main, uSize), "inner_ring": vf36MaskStr(cur|ex, uSize), "ir_fetch_fails": ch.irErr != nil}
		if r.Guard(desc, func() { gp.processAlphabetSync(util.Uint256{byte(i), 1}) }) {
			continue
		}
		r.Eval(1)
		for _, o := range ch.otherOps {
			r.Seen("unexpected_chain_ops", o)
		}

		proposals := map[string][]keys.PublicKeys{"vote": ch.votes, "notary-role": ch.notary, "mainnet-update": ch.mainUpdate}
		var ref uint
		haveRef := false
		total := 0
		for _, name := range []string{"vote", "notary-role", "mainnet-update"} {
			ls := proposals[name]
			total += len(ls)
			if len(ls) > 1 {
				r.Violation("sync|"+name+"|proposed-more-than-once", fmt.Sprintf("%s issued %d times for one sync event", name, len(ls)), desc)
			}
			for _, l := range ls {
				r.Count("sync_"+name+"_recorded", 1)
				pm, dup, foreign := vf36Mask(u, l)
				desc[name] = vf36MaskStr(pm, uSize)
				for _, b := range vf36CheckAlphabet(cur, main, len(l), pm, dup, foreign) {
					r.Violation("sync|"+name+"|"+b[0], b[1]+fmt.Sprintf(" (committee %v, mainnet %v, %s list %v/len %d)", desc["committee"], desc["mainnet"], name, desc[name], len(l)), desc)
				}
				if haveRef && pm != ref {
					r.Violation("sync|proposed-alphabets-disagree", fmt.Sprintf("one sync event proposed different new alphabets: %v vs %v", vf36MaskStr(ref, uSize), vf36MaskStr(pm, uSize)), desc)
				}
				ref, haveRef = pm, true
			}
		}
		if len(ch.irUpdate) > 1 {
			r.Violation("sync|ir|proposed-more-than-once", fmt.Sprintf("inner ring list designated %d times for one sync event", len(ch.irUpdate)), desc)
		}
		for _, l := range ch.irUpdate {
			r.Count("sync_inner_ring_update_recorded", 1)
			total++
			gm, gdup, gforeign := vf36Mask(u, l)
			desc["new_inner_ring"] = vf36MaskStr(gm, uSize)
			desc["new_inner_ring_len"] = len(l)
			if !haveRef {
				r.Violation("sync|ir|update-without-alphabet-proposal", "inner ring list designated although no new alphabet was proposed", desc)
				continue
			}
			for _, b := range vf36CheckIR(cur|ex, cur, ref, len(l), gm, gdup, gforeign) {
				r.Violation("sync|"+b[0], b[1]+fmt.Sprintf(" (inner ring %v, alphabet %v -> %v, designated %v/len %d)", desc["inner_ring"], desc["committee"], vf36MaskStr(ref, uSize), desc["new_inner_ring"], len(l)), desc)
			}
			if ex&ref != 0 {
				r.Count("sync_ir_updates_whose_extra_key_enters_alphabet", 1)
			}
		}
		if total == 0 {
			r.Count("sync_events_without_proposal", 1)
		} else {
			r.Count("sync_events_with_proposal", 1)
			r.Distinct(fmt.Sprintf("s/%d/%d/%d", cur, main, ex))
			if i%500 == 0 {
				r.Sample(desc)
			}
		}
	}
	if r.Counter("sync_events_with_proposal") == 0 {
		r.Inconclusive("the sync handler never proposed anything")
	}
}
