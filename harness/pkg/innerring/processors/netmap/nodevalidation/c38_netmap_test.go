//go:build verif

package nodevalidation

import (
	"crypto/sha256"
	"errors"
	"fmt"
	"math/big"
	"math/rand/v2"
	"reflect"
	"slices"
	"sort"
	"strings"
	"sync"
	"testing"
	"time"
	"unsafe"

	"github.com/google/uuid"
	"github.com/nspcc-dev/locode-db/pkg/locodedb"
	"github.com/nspcc-dev/neo-go/pkg/core/mempoolevent"
	"github.com/nspcc-dev/neo-go/pkg/core/native/nativehashes"
	"github.com/nspcc-dev/neo-go/pkg/core/state"
	"github.com/nspcc-dev/neo-go/pkg/core/transaction"
	"github.com/nspcc-dev/neo-go/pkg/crypto/hash"
	"github.com/nspcc-dev/neo-go/pkg/crypto/keys"
	"github.com/nspcc-dev/neo-go/pkg/neorpc/result"
	"github.com/nspcc-dev/neo-go/pkg/network/payload"
	"github.com/nspcc-dev/neo-go/pkg/smartcontract"
	"github.com/nspcc-dev/neo-go/pkg/util"
	"github.com/nspcc-dev/neo-go/pkg/vm/opcode"
	"github.com/nspcc-dev/neo-go/pkg/vm/stackitem"
	netmaprpc "github.com/nspcc-dev/neofs-contract/rpc/netmap"
	"github.com/nspcc-dev/neofs-node/internal/verifhook"
	"github.com/nspcc-dev/neofs-node/internal/verifkit"
	netmapprocessor "github.com/nspcc-dev/neofs-node/pkg/innerring/processors/netmap"
	"github.com/nspcc-dev/neofs-node/pkg/innerring/processors/netmap/nodevalidation/locode"
	"github.com/nspcc-dev/neofs-node/pkg/innerring/processors/netmap/nodevalidation/privatedomains"
	statevalidation "github.com/nspcc-dev/neofs-node/pkg/innerring/processors/netmap/nodevalidation/state"
	"github.com/nspcc-dev/neofs-node/pkg/innerring/processors/netmap/nodevalidation/structure"
	"github.com/nspcc-dev/neofs-node/pkg/morph/client"
	cntClient "github.com/nspcc-dev/neofs-node/pkg/morph/client/container"
	nmClient "github.com/nspcc-dev/neofs-node/pkg/morph/client/netmap"
	"github.com/nspcc-dev/neofs-node/pkg/morph/event"
	"github.com/nspcc-dev/neofs-sdk-go/netmap"
	"github.com/panjf2000/ants/v2"
	"go.uber.org/zap"
)

// ---------------------------------------------------------------------------------------
// recording chain

var vf38Mutating = map[string]bool{
	"Invoke": true, "NotaryInvoke": true, "NotaryInvokeNotAlpha": true, "NotarySignAndInvokeTX": true,
	"TransferGas": true, "SendRawTransaction": true, "SubmitP2PNotaryRequest": true, "DepositNotary": true,
	"DepositEndlessNotary": true, "UpdateNotaryList": true, "UpdateNeoFSAlphabetList": true,
	"CallWithAlphabetWitness": true, "runAlphabetNotaryScript": true,
}

type vf38Call struct {
	Op     string
	Method string
	Args   []any
	Tx     *transaction.Transaction
}

type vf38Chain struct {
	mu sync.Mutex

	cli       *client.Client
	committee keys.PublicKeys
	height    uint32

	// answers of the chain to "does this main transaction script HALT"
	scriptVerdict map[string]vf38Verdict
	scriptAsked   map[string]int

	calls   []vf38Call
	hookOps map[string]int

	// what the chain (RPC node) answers to the auxiliary reads and to the newEpoch call
	// during the current step; nil = the constant answers of the admission part
	wx *vf38Weather
}

// vf38Weather is the behaviour of the RPC node during one step of an epoch history: every
// auxiliary chain read made while a NewEpoch notification is handled (network configuration,
// transaction height, network map listing incl. iterator traversal, container listing) and
// the newEpoch call made on a tick can independently work or break in the ways a real
// connection does.  None of it changes which epoch the chain is in.
type vf38Weather struct {
	cfg      string // "ok" | "rpc-error" | "missing" | "not-integer" | "two-items"
	duration int64
	height   string // "ok" | "rpc-error"
	timerErr bool   // the local epoch timer refuses the reset
	nmap     string // "inline" | "session" | "rpc-error" | "fault" | "no-iterator" | "bad-item" | "bad-state" | "traverse-error"
	nodes    []stackitem.Item
	pending  []stackitem.Item // rest of a session-based iterator
	cnrs     string           // "rpc-error" | "empty" | "some"
	cnrIDs   []stackitem.Item
	newEpoch string // "ok" | "rpc-error"

	served map[string]int
}

var errVf38RPC = errors.New("verif: RPC node temporarily unavailable")

// answer serves the reads the weather covers; handled=false leaves the op to the defaults.
func (w *vf38Weather) answer(c *vf38Chain, op string, args []any) (bool, []any) {
	switch op {
	case "TestInvoke":
		if m, _ := args[1].(string); m != "config" {
			return false, nil
		}
		w.served["config:"+w.cfg]++
		switch w.cfg {
		case "ok":
			return true, []any{[]stackitem.Item{stackitem.Make(w.duration)}, nil}
		case "missing":
			return true, []any{[]stackitem.Item{stackitem.Null{}}, nil}
		case "not-integer":
			return true, []any{[]stackitem.Item{stackitem.NewArray(nil)}, nil}
		case "two-items":
			return true, []any{[]stackitem.Item{stackitem.Make(w.duration), stackitem.Make(1)}, nil}
		}
		return true, []any{nil, errVf38RPC}
	case "TxHeight":
		w.served["height:"+w.height]++
		if w.height == "ok" {
			return true, []any{c.height, nil}
		}
		return true, []any{uint32(0), errVf38RPC}
	case "InvokeFunction":
		if m, _ := args[1].(string); m != "listNodes" {
			return false, nil
		}
		w.served["listNodes:"+w.nmap]++
		switch w.nmap {
		case "rpc-error":
			return true, []any{nil, errVf38RPC}
		case "fault":
			return true, []any{&result.Invoke{State: "FAULT", FaultException: "verif: out of gas"}, nil}
		case "no-iterator":
			return true, []any{&result.Invoke{State: "HALT", Stack: []stackitem.Item{stackitem.Make(7)}}, nil}
		case "session", "traverse-error":
			sid, iid := uuid.UUID{0x38, 1}, uuid.UUID{0x38, 2}
			k := len(w.nodes) / 2
			w.pending = w.nodes[k:]
			return true, []any{&result.Invoke{State: "HALT", Session: sid, Stack: []stackitem.Item{stackitem.NewInterop(result.Iterator{ID: &iid, Values: slices.Clone(w.nodes[:k])})}}, nil}
		}
		// "inline", "bad-item", "bad-state": session-less iterator holding everything
		return true, []any{&result.Invoke{State: "HALT", Stack: []stackitem.Item{stackitem.NewInterop(result.Iterator{Values: slices.Clone(w.nodes)})}}, nil}
	case "TraverseIterator":
		w.served["traverse:"+w.nmap]++
		if w.nmap == "traverse-error" {
			return true, []any{nil, errVf38RPC}
		}
		n, _ := args[2].(int)
		n = min(max(n, 0), len(w.pending))
		batch := w.pending[:n]
		w.pending = w.pending[n:]
		return true, []any{slices.Clone(batch), nil}
	case "TestInvokeIterator":
		w.served["containers:"+w.cnrs]++
		switch w.cnrs {
		case "empty":
			return true, []any{[]stackitem.Item{}, nil}
		case "some":
			return true, []any{slices.Clone(w.cnrIDs), nil}
		}
		return true, []any{nil, errVf38RPC}
	}
	return false, nil
}

type vf38Verdict struct {
	ok  bool
	err error
}

func (c *vf38Chain) take() []vf38Call {
	c.mu.Lock()
	defer c.mu.Unlock()
	r := c.calls
	c.calls = nil
	return r
}

func (c *vf38Chain) morph(cli any, op string, args []any) (bool, []any) {
	c.mu.Lock()
	defer c.mu.Unlock()
	c.hookOps[op]++
	if vf38Mutating[op] {
		call := vf38Call{Op: op}
		switch op {
		case "NotarySignAndInvokeTX":
			call.Tx, _ = args[0].(*transaction.Transaction)
		case "Invoke", "NotaryInvoke", "NotaryInvokeNotAlpha", "CallWithAlphabetWitness":
			for i, a := range args {
				if s, ok := a.(string); ok && i+1 < len(args) {
					call.Method = s
					call.Args, _ = args[i+1].([]any)
				}
			}
		default:
			call.Args = args
		}
		c.calls = append(c.calls, call)
		var err error
		if c.wx != nil && call.Method == "newEpoch" {
			c.wx.served["newEpoch:"+c.wx.newEpoch]++
			if c.wx.newEpoch != "ok" {
				// the request was made (and is recorded); the RPC node did not take it
				err = errVf38RPC
			}
		}
		if op == "NotaryInvoke" {
			return true, []any{util.Uint256{}, err}
		}
		return true, []any{err}
	}
	if c.wx != nil {
		if ok, res := c.wx.answer(c, op, args); ok {
			return true, res
		}
	}
	switch op {
	case "Committee":
		return true, []any{slices.Clone(c.committee), nil}
	case "BlockCount":
		return true, []any{c.height, nil}
	case "TxHeight":
		return true, []any{c.height, nil}
	case "MsPerBlock":
		return true, []any{int64(1000), nil}
	case "CalculateNonceAndVUB":
		return true, []any{uint32(1), c.height + 50, nil}
	case "TerminateSession":
		return true, []any{true, nil}
	case "InvokeFunction":
		if m, _ := args[1].(string); m == "listNodes" {
			// constant empty network map, session-less iterator
			return true, []any{&result.Invoke{State: "HALT", Stack: []stackitem.Item{stackitem.NewInterop(result.Iterator{Values: []stackitem.Item{}})}}, nil}
		}
	case "IsValidScript":
		script, _ := args[0].([]byte)
		c.scriptAsked[string(script)]++
		v, ok := c.scriptVerdict[string(script)]
		if !ok {
			return true, []any{false, errors.New("verif: unknown script")}
		}
		return true, []any{v.ok, v.err}
	}
	// every other read fails like a lost connection would
	return true, []any{nil, errors.New("verif: chain read not served: " + op)}
}

// ---------------------------------------------------------------------------------------
// small helpers

func vf38Key(rng *rand.Rand) *keys.PrivateKey {
	for {
		b := make([]byte, 32)
		for i := range b {
			b[i] = byte(rng.UintN(256))
		}
		if k, err := keys.NewPrivateKeyFromBytes(b); err == nil {
			return k
		}
	}
}

// vf38Pool replaces the processor's worker pool (field "pool", single worker, non-blocking:
// a handler call that finds the worker busy drops its event) by a single-worker pool
// whose Submit waits for the worker instead.  Events are delivered one at a time, so the
// only thing this changes is that the harness' own barrier task can never make the
// next event be dropped.
func vf38Pool(proc any) *ants.Pool {
	f := reflect.ValueOf(proc).Elem().FieldByName("pool")
	if !f.IsValid() {
		return nil
	}
	pp, ok := reflect.NewAt(f.Type(), unsafe.Pointer(f.UnsafeAddr())).Interface().(**ants.Pool)
	if !ok {
		return nil
	}
	np, err := ants.NewPool(1)
	if err != nil {
		return nil
	}
	(*pp).Release()
	*pp = np
	return np
}

// vf38Barrier returns after every task submitted to the single-worker pool before the
// call has finished (FIFO hand-over to the one worker).
func vf38Barrier(r *verifkit.Run, p *ants.Pool) bool {
	done := make(chan struct{})
	if err := p.Submit(func() { close(done) }); err != nil {
		r.Inconclusive("harness: barrier task refused: " + err.Error())
		return false
	}
	select {
	case <-done:
		return true
	case <-time.After(2 * time.Minute):
		r.Inconclusive("watchdog: barrier task never ran")
		return false
	}
}

type vf38Alphabet struct {
	mu sync.Mutex
	v  bool
}

func (a *vf38Alphabet) IsAlphabet() bool { a.mu.Lock(); defer a.mu.Unlock(); return a.v }
func (a *vf38Alphabet) set(v bool)       { a.mu.Lock(); a.v = v; a.mu.Unlock() }

type vf38EpochState struct {
	mu    sync.Mutex
	epoch uint64
	dur   uint64
	reads int
}

func (e *vf38EpochState) SetEpochCounter(v uint64) { e.mu.Lock(); e.epoch = v; e.mu.Unlock() }
func (e *vf38EpochState) EpochCounter() uint64 {
	e.mu.Lock()
	defer e.mu.Unlock()
	e.reads++
	return e.epoch
}
func (e *vf38EpochState) SetEpochDuration(v uint64)    { e.mu.Lock(); e.dur = v; e.mu.Unlock() }
func (e *vf38EpochState) EpochDuration() time.Duration { return time.Duration(e.dur) * time.Second }

type vf38Timer struct {
	resets int
	err    error // answer to the next resets (nil = timer re-armed)
}

func (t *vf38Timer) ResetEpochTimer(uint32) error { t.resets++; return t.err }

// ---------------------------------------------------------------------------------------
// validators: real ones and scripted ones, all behind a recording wrapper

type vf38Named struct {
	name string
	v    netmapprocessor.NodeValidator
	mu   *sync.Mutex
	seen *[]string // "<name>|<hex key>|ok/err"
}

func (n vf38Named) Verify(ni netmap.NodeInfo) error {
	err := n.v.Verify(ni)
	n.mu.Lock()
	*n.seen = append(*n.seen, fmt.Sprintf("%s|%x|%v", n.name, ni.PublicKey(), err == nil))
	n.mu.Unlock()
	return err
}

// vf38Scripted accepts or rejects by a fixed pseudo-random predicate over the node key.
type vf38Scripted struct {
	salt byte
	mod  byte
}

func (s vf38Scripted) Verify(ni netmap.NodeInfo) error {
	h := sha256.Sum256(append([]byte{s.salt}, ni.PublicKey()...))
	if h[0]%s.mod == 0 {
		return errors.New("verif: scripted validator rejects this key")
	}
	return nil
}

type vf38NNS struct{}

func (vf38NNS) CheckDomainRecord(domain, record string) error {
	switch {
	case strings.HasPrefix(domain, "open."):
		return nil
	case strings.HasPrefix(domain, "broken."):
		return errors.New("verif: NNS unavailable")
	}
	return privatedomains.ErrMissingDomainRecord
}

func vf38ValidatorByName(name string) netmapprocessor.NodeValidator {
	switch name {
	case "state":
		return statevalidation.New()
	case "structure":
		return structure.New()
	case "privatedomains":
		return privatedomains.New(vf38NNS{})
	case "locode":
		return locode.New()
	case "scriptedA":
		return vf38Scripted{salt: 1, mod: 3}
	case "scriptedB":
		return vf38Scripted{salt: 2, mod: 4}
	case "scriptedC":
		return vf38Scripted{salt: 3, mod: 2}
	}
	panic("unknown validator " + name)
}

var vf38ValidatorNames = []string{"state", "structure", "privatedomains", "locode", "scriptedA", "scriptedB", "scriptedC"}

// ---------------------------------------------------------------------------------------
// node descriptors

type vf38Node struct {
	Addrs []string          `json:"addresses"`
	Attrs map[string]string `json:"attributes"`
	Key   *keys.PublicKey   `json:"-"`
	KeyS  string            `json:"key"`
	State int64             `json:"state"`
	// how the location attributes were produced (evidence only, the oracle does not read it)
	Locode string `json:"locode_shape,omitempty"`
}

// Locations announced by generated candidates.  The first half are UN/LOCODE records that
// carry a subdivision, the second half records WITHOUT one (the DB has many of those: city
// states, small countries): for them an honest node announces no SubDivCode/SubDiv at all.
var vf38Locodes = []string{
	"RU MOW", "DE BER", "SE STO", "US NYC", "FI HEL", "JP TYO",
	"SG SIN", "HK HKG", "LU LUX", "IS REY", "NL AMS", "AQ MCM",
}

// the LOCODE-derived attributes (names as in the NeoFS API)
var vf38LocodeAttrs = []string{"CountryCode", "Country", "Location", "Continent", "SubDivCode", "SubDiv"}

// vf38LocodeDerived reads the location DB (third-party module, not code under test) and
// returns what the record implies for every LOCODE-derived attribute; "" = the attribute
// must be absent.
func vf38LocodeDerived(lc string) (map[string]string, error) {
	rec, err := locodedb.Get(lc)
	if err != nil {
		return nil, err
	}
	return map[string]string{
		"CountryCode": lc[:locodedb.CountryCodeLen],
		"Country":     rec.Country,
		"Location":    rec.Location,
		"Continent":   rec.Cont.String(),
		"SubDivCode":  rec.SubDivCode,
		"SubDiv":      rec.SubDivName,
	}, nil
}

// vf38ForeignValue returns a non-empty value of attribute attr taken from another location
// of the pool and different from the honest one.
func vf38ForeignValue(rng *rand.Rand, attr, honest string) string {
	start := rng.IntN(len(vf38Locodes))
	for i := range vf38Locodes {
		if d, err := vf38LocodeDerived(vf38Locodes[(start+i)%len(vf38Locodes)]); err == nil && d[attr] != "" && d[attr] != honest {
			return d[attr]
		}
	}
	return "Atlantis"
}

// vf38ForgeLocodeAttr makes one LOCODE-derived attribute of an otherwise honest candidate
// differ from the DB record: a value of another location, presence flipped (dropped where the
// record has a value, invented where the record has none), or a different spelling.
func vf38ForgeLocodeAttr(rng *rand.Rand, n *vf38Node, want map[string]string) string {
	attr := vf38LocodeAttrs[rng.IntN(len(vf38LocodeAttrs))]
	honest := want[attr]
	shape := ""
	switch m := rng.IntN(3); {
	case honest == "":
		n.Attrs[attr] = vf38ForeignValue(rng, attr, honest)
		shape = "invented"
	case m == 0:
		n.Attrs[attr] = vf38ForeignValue(rng, attr, honest)
		shape = "foreign"
	case m == 1:
		delete(n.Attrs, attr)
		shape = "dropped"
	default:
		v := strings.ToLower(honest)
		if v == honest {
			v = honest + "x"
		}
		n.Attrs[attr] = v
		shape = "respelled"
	}
	return attr + ":" + shape
}

func vf38GenNode(rng *rand.Rand) vf38Node {
	n := vf38Node{Attrs: map[string]string{}}
	n.Key = vf38Key(rng).PublicKey()
	n.KeyS = n.Key.StringCompressed()
	goodAddrs := []string{"/ip4/10.1.2.3/tcp/8080", "/dns4/node1.example.org/tcp/8090/tls", "/ip6/::1/tcp/8080", "10.0.0.7:8080", "grpcs://node7.example.org:8443", "node3.example.org:8080"}
	badAddrs := []string{"/ip4/10.1.2.3/udp/8080", "not an address at all", "/tcp/8080", "/ip4/1.2.3.4/tcp/80/tls/http", ""}
	na := 1 + rng.IntN(3)
	for i := 0; i < na; i++ {
		if rng.IntN(6) == 0 {
			n.Addrs = append(n.Addrs, badAddrs[rng.IntN(len(badAddrs))])
		} else {
			n.Addrs = append(n.Addrs, goodAddrs[rng.IntN(len(goodAddrs))])
		}
	}
	if rng.IntN(12) == 0 {
		n.Addrs = nil
	}
	switch rng.IntN(8) {
	case 0:
		n.State = netmaprpc.NodeStateOffline.Int64()
	case 1:
		n.State = netmaprpc.NodeStateMaintenance.Int64()
	case 2:
		n.State = 7 + int64(rng.IntN(3))
	default:
		n.State = netmaprpc.NodeStateOnline.Int64()
	}
	n.Attrs["Capacity"] = fmt.Sprint(rng.IntN(100))
	if rng.IntN(3) == 0 {
		n.Attrs["Price"] = fmt.Sprint(rng.IntN(10))
	}
	switch rng.IntN(6) {
	case 0:
		n.Attrs["VerifiedNodesDomain"] = "open.nodes.example"
	case 1:
		n.Attrs["VerifiedNodesDomain"] = "closed.nodes.example"
	case 2:
		if rng.IntN(3) == 0 {
			n.Attrs["VerifiedNodesDomain"] = "broken.nodes.example"
		}
	}
	if rng.IntN(5) < 2 {
		// a candidate announcing its location: start from what an honest storage node
		// announces (UN-LOCODE + everything the DB record implies, nothing for empty fields) ...
		lc := vf38Locodes[rng.IntN(len(vf38Locodes))]
		want, err := vf38LocodeDerived(lc)
		if err != nil {
			panic("harness: location pool entry not in the DB: " + lc)
		}
		n.Attrs["UN-LOCODE"] = lc
		for _, a := range vf38LocodeAttrs {
			if want[a] != "" {
				n.Attrs[a] = want[a]
			}
		}
		// ... then possibly make it dishonest
		switch x := rng.IntN(20); {
		case x < 7:
			n.Locode = "honest"
		case x < 16:
			n.Locode = "forged " + vf38ForgeLocodeAttr(rng, &n, want)
		case x == 16:
			n.Locode = "forged " + vf38ForgeLocodeAttr(rng, &n, want) + " " + vf38ForgeLocodeAttr(rng, &n, want)
		case x == 17:
			n.Attrs["UN-LOCODE"] = strings.ReplaceAll(lc, " ", "") // compact spelling the DB accepts as well
			n.Locode = "honest compact"
		default:
			n.Attrs["UN-LOCODE"] = []string{"ZZ QQQ", strings.ToLower(lc), lc[:2] + "  " + lc[3:], lc[:2] + " Q0Q", lc + "X", lc[:1]}[rng.IntN(6)]
			n.Locode = "unknown location"
		}
		if want["SubDivCode"] == "" && want["SubDiv"] == "" {
			n.Locode += " (record without subdivision)"
		}
	}
	return n
}

// ---------------------------------------------------------------------------------------
// reference reading of the configured validators' rules (independent of their code)

// addresses the generator uses that break the documented composition of a node address
// (network.VerifyMultiAddress: 2..3 protocols, dns4/ip4/ip6 then tcp then optional tls)
var vf38BadAddr = map[string]string{
	"/ip4/10.1.2.3/udp/8080":       "transport-not-tcp",
	"not an address at all":        "unparseable-address",
	"/tcp/8080":                    "no-network-protocol",
	"/ip4/1.2.3.4/tcp/80/tls/http": "more-than-3-protocols",
}

// vf38MustReject tells, from the descriptor alone, whether the rule the named validator
// stands for forbids this candidate, and why ("" = the reference does not object, which
// includes everything the rule's description is silent about).  It never calls the
// validator: a validator whose own check got weaker is thereby seen as "approved although
// the validator's rule rejects".
//
//	state:          status MUST be ONLINE or MAINTENANCE
//	structure:      every announced address has the documented protocol composition
//	privatedomains: a declared verified-nodes domain must list the node; failure to check = refusal
//	locode:         a declared UN-LOCODE must be in the location DB and every LOCODE-derived
//	                attribute must equal what the DB record says (absent where the record is empty)
func vf38MustReject(validator string, n vf38Node) string {
	switch validator {
	case "state":
		if n.State != netmaprpc.NodeStateOnline.Int64() && n.State != netmaprpc.NodeStateMaintenance.Int64() {
			return "status-not-online-or-maintenance"
		}
	case "structure":
		for _, a := range n.Addrs {
			if why, bad := vf38BadAddr[a]; bad {
				return why
			}
		}
	case "privatedomains":
		if d := n.Attrs["VerifiedNodesDomain"]; d != "" {
			if err := (vf38NNS{}).CheckDomainRecord(d, "any"); errors.Is(err, privatedomains.ErrMissingDomainRecord) {
				return "not-in-domain-access-list"
			} else if err != nil {
				return "domain-check-impossible"
			}
		}
	case "locode":
		lc := n.Attrs["UN-LOCODE"]
		if lc == "" {
			return ""
		}
		want, err := vf38LocodeDerived(lc)
		if err != nil {
			return "location-not-in-db"
		}
		for _, a := range vf38LocodeAttrs {
			if got := n.Attrs[a]; got != want[a] {
				switch {
				case want[a] == "":
					return a + "-claimed-but-record-has-none"
				case got == "":
					return a + "-missing"
				}
				return a + "-differs-from-record"
			}
		}
	}
	return ""
}

// vf38RefInfo is the harness' own rendering of the descriptor as node information.
// ok=false: the state cannot be expressed at all (the oracle abstains on validators).
func vf38RefInfo(n vf38Node) (ni netmap.NodeInfo, ok bool) {
	ni.SetNetworkEndpoints(n.Addrs...)
	ks := make([]string, 0, len(n.Attrs))
	for k := range n.Attrs {
		ks = append(ks, k)
	}
	sort.Strings(ks)
	for _, k := range ks {
		ni.SetAttribute(k, n.Attrs[k])
	}
	ni.SetPublicKey(n.Key.Bytes())
	switch n.State {
	case netmaprpc.NodeStateOnline.Int64():
		ni.SetOnline()
	case netmaprpc.NodeStateMaintenance.Int64():
		ni.SetMaintenance()
	case netmaprpc.NodeStateOffline.Int64():
		ni.SetOffline()
	default:
		return ni, false
	}
	return ni, true
}

func (n vf38Node) rpc() *netmaprpc.NetmapNode2 {
	return &netmaprpc.NetmapNode2{Addresses: n.Addrs, Attributes: n.Attrs, Key: n.Key, State: big.NewInt(n.State)}
}

// ---------------------------------------------------------------------------------------
// notary request construction (shape of a storage-node initiated request: proxy,
// alphabet multi-signature, invoker, notary)

type vf38ReqOpts struct {
	nvb          uint32 // fallback NotValidBefore height
	dropInvoker  bool   // three signers/witnesses only
	badAlphabet  bool   // multisig of a foreign committee
	nkeysDelta   int    // error in NotaryAssisted.NKeys
	presignedIR  bool   // alphabet witness already carries an invocation script
	extraWitness bool
}

func vf38Request(rng *rand.Rand, committee keys.PublicKeys, proxy util.Uint160, script []byte, o vf38ReqOpts) *payload.P2PNotaryRequest {
	invoker := vf38Key(rng)
	cm := committee
	if o.badAlphabet {
		cm = keys.PublicKeys{vf38Key(rng).PublicKey(), vf38Key(rng).PublicKey(), vf38Key(rng).PublicKey(), vf38Key(rng).PublicKey()}
	}
	ms, err := smartcontract.CreateMultiSigRedeemScript(len(cm)*2/3+1, cm)
	if err != nil {
		panic(err)
	}
	dummySig := append([]byte{byte(opcode.PUSHDATA1), 64}, make([]byte, 64)...)
	realSig := append([]byte{byte(opcode.PUSHDATA1), 64}, invoker.Sign(script)...)

	tx := transaction.New(script, 1_0000_0000)
	tx.Nonce = rng.Uint32()
	tx.ValidUntilBlock = o.nvb + 100
	tx.Signers = []transaction.Signer{
		{Account: proxy, Scopes: transaction.None},
		{Account: hash.Hash160(ms), Scopes: transaction.Global},
	}
	tx.Scripts = []transaction.Witness{
		{},
		{VerificationScript: ms},
	}
	nkeys := len(committee)
	if o.presignedIR {
		tx.Scripts[1].InvocationScript = slices.Clone(dummySig)
	}
	if !o.dropInvoker {
		tx.Signers = append(tx.Signers, transaction.Signer{Account: invoker.GetScriptHash(), Scopes: transaction.CalledByEntry})
		tx.Scripts = append(tx.Scripts, transaction.Witness{InvocationScript: realSig, VerificationScript: invoker.PublicKey().GetVerificationScript()})
		nkeys++
	}
	tx.Signers = append(tx.Signers, transaction.Signer{Account: nativehashes.Notary, Scopes: transaction.None})
	tx.Scripts = append(tx.Scripts, transaction.Witness{InvocationScript: slices.Clone(dummySig)})
	if o.extraWitness {
		tx.Signers = append(tx.Signers, transaction.Signer{Account: vf38Key(rng).GetScriptHash(), Scopes: transaction.None})
		tx.Scripts = append(tx.Scripts, transaction.Witness{InvocationScript: slices.Clone(dummySig)})
	}
	tx.Attributes = []transaction.Attribute{{Type: transaction.NotaryAssistedT, Value: &transaction.NotaryAssisted{NKeys: uint8(nkeys + o.nkeysDelta)}}}

	fb := transaction.New([]byte{byte(opcode.RET)}, 0)
	fb.Nonce = tx.Nonce
	fb.ValidUntilBlock = tx.ValidUntilBlock
	fb.Signers = []transaction.Signer{
		{Account: nativehashes.Notary, Scopes: transaction.None},
		{Account: invoker.GetScriptHash(), Scopes: transaction.None},
	}
	fb.Attributes = []transaction.Attribute{
		{Type: transaction.NotaryAssistedT, Value: &transaction.NotaryAssisted{NKeys: 0}},
		{Type: transaction.NotValidBeforeT, Value: &transaction.NotValidBefore{Height: o.nvb}},
		{Type: transaction.ConflictsT, Value: &transaction.Conflicts{Hash: tx.Hash()}},
	}
	fb.Scripts = []transaction.Witness{
		{InvocationScript: slices.Clone(dummySig)},
		{InvocationScript: slices.Clone(realSig), VerificationScript: invoker.PublicKey().GetVerificationScript()},
	}
	return &payload.P2PNotaryRequest{MainTransaction: tx, FallbackTransaction: fb}
}

// ---------------------------------------------------------------------------------------
// fixture

type vf38Fixture struct {
	chain        *vf38Chain
	listener     event.Listener
	proc         *netmapprocessor.Processor
	pool         *ants.Pool
	alphabet     *vf38Alphabet
	epoch        *vf38EpochState
	timer        *vf38Timer
	netmapSH     util.Uint160
	proxy        util.Uint160
	vSeen        []string
	vMu          sync.Mutex
	syncs        int
	deposits     int
	validator    []string
	earlier      []*keys.PublicKey // keys of the requests delivered so far
	approvedKeys map[string]bool   // keys with an approved request so far
}

func vf38NewFixture(t testing.TB, rng *rand.Rand, validators []string) *vf38Fixture {
	f := &vf38Fixture{alphabet: &vf38Alphabet{v: true}, epoch: &vf38EpochState{}, timer: &vf38Timer{}, validator: validators}
	f.netmapSH = util.Uint160{0x38, 1}
	f.proxy = util.Uint160{0x38, 2}
	cnrSH := util.Uint160{0x38, 3}
	f.chain = &vf38Chain{cli: new(client.Client), height: 1000, scriptVerdict: map[string]vf38Verdict{}, scriptAsked: map[string]int{}, hookOps: map[string]int{}}
	for i := 0; i < 4; i++ {
		f.chain.committee = append(f.chain.committee, vf38Key(rng).PublicKey())
	}
	verifhook.SetMorph(f.chain.morph)

	nmc, err := nmClient.NewFromMorph(f.chain.cli, f.netmapSH, nmClient.AsAlphabet())
	if err != nil {
		t.Fatal(err)
	}
	cc, err := cntClient.NewFromMorph(f.chain.cli, cnrSH, cntClient.AsAlphabet())
	if err != nil {
		t.Fatal(err)
	}
	var vv []netmapprocessor.NodeValidator
	for _, name := range validators {
		vv = append(vv, vf38Named{name: name, v: vf38ValidatorByName(name), mu: &f.vMu, seen: &f.vSeen})
	}
	f.proc, err = netmapprocessor.New(&netmapprocessor.Params{
		Log:                  zap.NewNop(),
		PoolSize:             1,
		NetmapClient:         nmc,
		EpochTimer:           f.timer,
		EpochState:           f.epoch,
		AlphabetState:        f.alphabet,
		ContainerWrapper:     cc,
		AlphabetSyncHandler:  func(event.Event) { f.syncs++ },
		NotaryDepositHandler: func(event.Event) { f.deposits++ },
		NodeValidator:        New(vv...),
	})
	if err != nil {
		t.Fatalf("netmap processor: %v", err)
	}
	f.pool = vf38Pool(f.proc)
	if f.pool == nil {
		t.Fatal("cannot find the processor's worker pool")
	}
	f.listener, err = event.NewListener(event.ListenerParams{Logger: zap.NewNop(), Client: f.chain.cli})
	if err != nil {
		t.Fatal(err)
	}
	// same wiring as innerring.New / connectListenerWithProcessor
	f.listener.EnableNotarySupport(f.proxy, vf38Key(rng).GetScriptHash(), f.chain.cli.Committee, f.chain.cli)
	for _, p := range f.proc.ListenerNotificationParsers() {
		f.listener.SetNotificationParser(p)
	}
	for _, h := range f.proc.ListenerNotificationHandlers() {
		f.listener.RegisterNotificationHandler(h)
	}
	for _, p := range f.proc.ListenerNotaryParsers() {
		f.listener.SetNotaryParser(p)
	}
	for _, h := range f.proc.ListenerNotaryHandlers() {
		f.listener.RegisterNotaryHandler(h)
	}
	return f
}

func (f *vf38Fixture) close() { verifhook.SetMorph(nil) }

// ---------------------------------------------------------------------------------------
// part 1: admission

// TestVerif_C38 sends add-node notary requests through the real listener pipeline into
// the real netmap processor under many validator configurations and checks every
// recorded approval against the statement.
func TestVerif_C38(t *testing.T) {
	r := verifkit.Start(t, "C38", "exploration")
	defer r.Finish()
	nCfg := r.Pick(150, 1500)
	perCfg := r.Pick(60, 150)
	r.SetRule(fmt.Sprintf("%d seeded validator configurations (ordered lists of 0..5 of {state, structure, privatedomains, locode, 3 scripted}) x %d add-node notary requests each (random descriptors incl. honest and forged location attribute sets over DB records with and without subdivision; script verdict of the chain HALT/FAULT/error; malformed argument shapes, two-call scripts, update-state calls, broken request structure, expired fallbacks); distinct = (configuration, request kind, chain verdict, set of rejecting validators, approved?) signatures", nCfg, perCfg))
	r.Assume("'request transaction is valid' = the chain client reports HALT for the main transaction's script and signers (IsValidScript)")
	r.Assume("'validator accepts' = Verify of that configured validator returns nil for the node information rendered from the descriptor AND, for the four real validators, the harness' own reading of the validator's rule (status online/maintenance; documented address composition; verified-domain access list; UN-LOCODE known to the location DB with every LOCODE-derived attribute equal to the DB record, absent where the record is empty) does not forbid the descriptor; network-dialling validators (availability, external) are replaced by scripted ones")

	for ci := 0; ci < nCfg; ci++ {
		rng := r.Rand("cfg", ci)
		var cfg []string
		switch {
		case ci == 0:
			cfg = nil
		case ci == 1:
			cfg = []string{"state", "structure", "scriptedA", "privatedomains", "locode"} // order of innerring.New
		default:
			k := rng.IntN(6)
			perm := rng.Perm(len(vf38ValidatorNames))
			for _, p := range perm[:k] {
				cfg = append(cfg, vf38ValidatorNames[p])
			}
		}
		func() {
			f := vf38NewFixture(t, rng, cfg)
			defer f.close()
			r.Seen("validator_configurations", strings.Join(cfg, ">"))
			for qi := 0; qi < perCfg; qi++ {
				vf38AdmissionCase(r, f, rng, ci, qi)
			}
			for op, n := range f.chain.hookOps {
				r.Count("hook_"+op, n)
			}
		}()
	}
	if r.Counter("addnode_approved") == 0 {
		r.Inconclusive("no admission was ever approved")
	}
	if r.Counter("addnode_refused_validator") == 0 || r.Counter("addnode_refused_chain_verdict") == 0 {
		r.Inconclusive("refusal paths were not exercised")
	}
	if r.Counter("addnode_refused_validator_for_key_approved_earlier") == 0 || r.Counter("addnode_approved_again_with_new_descriptor") == 0 {
		r.Inconclusive("no key was announced again with a new descriptor after an approval (both outcomes needed)")
	}
	for _, name := range []string{"state", "structure", "privatedomains", "locode"} {
		if r.Counter("reference_rule_rejects_"+name) == 0 {
			r.Inconclusive("no candidate broke the rule of validator " + name + " while it was configured")
		}
	}
}

func vf38AdmissionCase(r *verifkit.Run, f *vf38Fixture, rng *rand.Rand, ci, qi int) {
	kind := "plain"
	switch x := rng.IntN(20); {
	case x == 0:
		kind = "two-calls"
	case x == 1:
		kind = "bad-shape"
	case x == 2:
		kind = "update-state"
	case x == 3:
		kind = "structure-broken"
	case x == 4:
		kind = "expired"
	case x == 5:
		kind = "unknown-method"
	}
	nodes := []vf38Node{vf38GenNode(rng)}
	if len(f.earlier) > 0 && rng.IntN(4) == 0 {
		// a candidate announcing itself again with other information (restart with a new
		// configuration, or somebody else using its key): same public key as an earlier request
		// of this configuration, fresh descriptor
		nodes[0].Key = f.earlier[rng.IntN(len(f.earlier))]
		nodes[0].KeyS = nodes[0].Key.StringCompressed()
		r.Count("requests_with_key_of_an_earlier_request_and_new_descriptor", 1)
	}
	f.earlier = append(f.earlier, nodes[0].Key)
	keyApprovedEarlier := f.approvedKeys[nodes[0].KeyS]
	b := smartcontract.NewBuilder()
	switch kind {
	case "two-calls":
		nodes = append(nodes, vf38GenNode(rng))
		// make sure the first one is acceptable more often, the interesting case
		b.InvokeMethod(f.netmapSH, "addNode", nodes[0].rpc())
		b.InvokeMethod(f.netmapSH, "addNode", nodes[1].rpc())
	case "bad-shape":
		if rng.IntN(2) == 0 {
			b.InvokeMethod(f.netmapSH, "addNode", nodes[0].rpc(), int64(1))
		} else {
			b.InvokeMethod(f.netmapSH, "addNode", []any{[]any{}, nodes[0].Key.Bytes(), int64(1)})
		}
	case "update-state":
		b.InvokeMethod(f.netmapSH, "updateState", int64(1), nodes[0].Key.Bytes())
		nodes = nil
	case "unknown-method":
		b.InvokeMethod(f.netmapSH, "addNodeNow", nodes[0].rpc())
	default:
		b.InvokeMethod(f.netmapSH, "addNode", nodes[0].rpc())
	}
	script, err := b.Script()
	if err != nil {
		r.Inconclusive("harness: cannot build script: " + err.Error())
		return
	}
	opts := vf38ReqOpts{nvb: f.chain.height + 20}
	if kind == "expired" {
		opts.nvb = f.chain.height - uint32(rng.IntN(2))
	}
	if kind == "structure-broken" {
		switch rng.IntN(4) {
		case 0:
			opts.badAlphabet = true
		case 1:
			opts.nkeysDelta = 1
		case 2:
			opts.extraWitness = true
		case 3:
			opts.dropInvoker, opts.nkeysDelta = true, 1
		}
	}
	if rng.IntN(10) == 0 {
		opts.presignedIR = true
	}
	req := vf38Request(rng, f.chain.committee, f.proxy, script, opts)

	verdict := vf38Verdict{ok: true}
	vs := "halt"
	switch rng.IntN(7) {
	case 0:
		verdict, vs = vf38Verdict{ok: false}, "fault"
	case 1:
		verdict, vs = vf38Verdict{ok: false, err: errors.New("verif: rpc failure")}, "error"
	case 2:
		if rng.IntN(3) == 0 {
			verdict, vs = vf38Verdict{ok: true, err: errors.New("verif: rpc failure with stale result")}, "error+true"
		}
	}
	f.chain.mu.Lock()
	f.chain.scriptVerdict[string(script)] = verdict
	f.chain.mu.Unlock()
	f.vMu.Lock()
	f.vSeen = nil
	f.vMu.Unlock()

	desc := map[string]any{"config_index": ci, "request_index": qi, "validators": f.validator, "kind": kind, "nodes": nodes, "chain_script_verdict": vs, "request_opts": fmt.Sprintf("%+v", opts)}
	if r.Guard(desc, func() {
		event.Verif38HandleNotary(f.listener, &result.NotaryRequestEvent{Type: mempoolevent.TransactionAdded, NotaryRequest: req})
	}) {
		return
	}
	if !vf38Barrier(r, f.pool) {
		return
	}
	r.Eval(1)
	r.Count("requests_kind_"+kind, 1)

	// oracle's own view of the validators
	rejecting := map[string]bool{}
	abstain := false
	for _, n := range nodes {
		ni, ok := vf38RefInfo(n)
		if !ok {
			abstain = true
			continue
		}
		for _, name := range f.validator {
			if err := vf38ValidatorByName(name).Verify(ni); err != nil {
				rejecting[name] = true
				r.Count("oracle_validator_rejects_"+name, 1)
			} else {
				r.Count("oracle_validator_accepts_"+name, 1)
			}
		}
	}
	rej := make([]string, 0, len(rejecting))
	for k := range rejecting {
		rej = append(rej, k)
	}
	sort.Strings(rej)
	desc["oracle_rejecting_validators"] = rej

	// reference reading of the configured validators' rules, from the descriptor alone
	var must []string // "<validator>:<reason>", configured validators only
	for _, n := range nodes {
		if n.Locode != "" {
			r.Seen("location_shapes", n.Locode)
		}
		for _, name := range f.validator {
			why := vf38MustReject(name, n)
			if why == "" {
				continue
			}
			if !slices.Contains(must, name+":"+why) {
				must = append(must, name+":"+why)
			}
			r.Count("reference_rule_rejects_"+name, 1)
			r.Seen("reference_rejection_reasons", name+":"+why)
			if ni, ok := vf38RefInfo(n); ok && vf38ValidatorByName(name).Verify(ni) == nil {
				// not a verdict by itself (the statement speaks about approvals), but shown in the evidence
				r.Count("reference_rule_rejects_but_validator_accepts_"+name, 1)
				r.Seen("reference_rule_rejects_but_validator_accepts", name+":"+why)
			}
		}
	}
	sort.Strings(must)
	desc["reference_rules_rejecting"] = must

	approved := false
	for _, c := range f.chain.take() {
		if c.Op != "NotarySignAndInvokeTX" || c.Tx == nil {
			r.Seen("other_mutating_calls", c.Op+":"+c.Method)
			r.Violation("addnode|unexpected-chain-call|"+c.Op+":"+c.Method, "handling an add-node request produced a chain call other than the co-signature", desc)
			continue
		}
		if c.Tx.Hash() != req.MainTransaction.Hash() {
			r.Violation("addnode|approved-foreign-transaction", "a transaction other than the delivered main transaction was co-signed", desc)
			continue
		}
		if nodes == nil {
			r.Count("updatestate_approved", 1)
			continue
		}
		if approved {
			r.Violation("addnode|approved-twice", "one add-node request was co-signed more than once", desc)
		}
		approved = true
		r.Count("addnode_approved", 1)
		for _, n := range nodes {
			if f.approvedKeys == nil {
				f.approvedKeys = map[string]bool{}
			}
			f.approvedKeys[n.KeyS] = true
		}
		if keyApprovedEarlier {
			r.Count("addnode_approved_again_with_new_descriptor", 1)
		}
		if !(verdict.ok && verdict.err == nil) {
			r.Violation("addnode|approved-although-script-not-valid|"+vs, fmt.Sprintf("admission approved although the chain's verdict on the main script was %q", vs), desc)
		}
		if len(rej) > 0 {
			r.Violation("addnode|approved-although-validator-rejects|"+strings.Join(rej, "+"), fmt.Sprintf("admission approved although configured validators %v reject the node information (configuration %v)", rej, f.validator), desc)
		}
		for _, m := range must {
			r.Violation("addnode|approved-although-validator-rule-rejects|"+m, fmt.Sprintf("admission approved although the rule of configured validator %s forbids this node information (configuration %v; the validator's own answer: rejecting=%v)", m, f.validator, rej), desc)
		}
		if abstain {
			r.Count("addnode_approved_with_unrepresentable_state", 1)
		}
		for _, n := range nodes {
			if n.Locode != "" {
				r.Seen("approved_location_shapes", n.Locode)
			}
		}
		// every configured validator must have been asked about every node of the request and have said yes
		f.vMu.Lock()
		seen := slices.Clone(f.vSeen)
		f.vMu.Unlock()
		for _, n := range nodes {
			for _, name := range f.validator {
				if !slices.Contains(seen, fmt.Sprintf("%s|%x|true", name, n.Key.Bytes())) {
					r.Violation("addnode|approved-without-consulting|"+name, fmt.Sprintf("admission approved but validator %s did not accept this node during the handling (consulted: %v)", name, seen), desc)
				}
			}
		}
	}
	if !approved && nodes != nil {
		switch {
		case kind != "plain":
			r.Count("addnode_refused_kind_"+kind, 1)
		case !(verdict.ok && verdict.err == nil):
			r.Count("addnode_refused_chain_verdict", 1)
		case len(rej) > 0 || abstain:
			r.Count("addnode_refused_validator", 1)
			if keyApprovedEarlier {
				r.Count("addnode_refused_validator_for_key_approved_earlier", 1)
			}
			for _, m := range must {
				r.Seen("refused_and_reference_rule_rejects", m)
			}
		default:
			offline := false
			for _, n := range nodes {
				offline = offline || n.State == netmaprpc.NodeStateOffline.Int64()
			}
			if offline {
				r.Count("addnode_refused_offline_state_without_state_validator", 1)
			} else {
				r.Count("addnode_refused_although_admissible", 1)
			}
		}
	}
	r.Distinct(fmt.Sprintf("%v|%s|%s|%v|%v|%v", f.validator, kind, vs, rej, must, approved))
	if qi == 0 && ci < 3 {
		r.Sample(desc)
	}
}

// ---------------------------------------------------------------------------------------
// part 2: epoch ticks

// vf38GoodNodeItem is a well-formed network map entry as the Netmap contract lists it.
func vf38GoodNodeItem(rng *rand.Rand) stackitem.Item {
	n := &netmaprpc.NetmapNode2{
		Addresses:  []string{fmt.Sprintf("/ip4/10.%d.%d.%d/tcp/8080", rng.IntN(256), rng.IntN(256), rng.IntN(256))},
		Attributes: map[string]string{"Price": fmt.Sprint(rng.IntN(100))},
		Key:        vf38Key(rng).PublicKey(),
		State:      netmaprpc.NodeStateOnline,
	}
	it, err := n.ToStackItem()
	if err != nil {
		panic("verif harness: " + err.Error())
	}
	return it
}

// vf38DrawWeather decides how the RPC node behaves during the next step.  members is the
// network map of the chain (well-formed entries) at that moment.  The returned list names
// what is broken (empty = everything works).
func vf38DrawWeather(rng *rand.Rand, members []stackitem.Item) (*vf38Weather, error, []string) {
	w := &vf38Weather{cfg: "ok", duration: int64(1 + rng.IntN(1000)), height: "ok", nmap: "inline", cnrs: "empty", newEpoch: "ok", served: map[string]int{}}
	var timerErr error
	w.nodes = slices.Clone(members)
	if rng.IntN(2) == 0 {
		w.nmap = "session"
	}
	if rng.IntN(3) == 0 {
		w.cnrs = "some"
		for i := 0; i < 1+rng.IntN(2); i++ {
			id := make([]byte, 32)
			for j := range id {
				id[j] = byte(1 + rng.IntN(255))
			}
			w.cnrIDs = append(w.cnrIDs, stackitem.NewByteArray(id))
		}
	}
	var broken []string
	p := 0 // per-component fault probability in 1/8
	switch rng.IntN(4) {
	case 0: // fair weather
	case 1:
		p = 1
	case 2:
		p = 3
	default:
		p = 6
	}
	hit := func() bool { return rng.IntN(8) < p }
	if hit() {
		w.cfg = []string{"rpc-error", "missing", "not-integer", "two-items"}[rng.IntN(4)]
		broken = append(broken, "config:"+w.cfg)
	}
	if hit() {
		w.height = "rpc-error"
		broken = append(broken, "height:rpc-error")
	}
	if hit() {
		timerErr = errors.New("verif: timer refused the reset")
		w.timerErr = true
		broken = append(broken, "timer:reset-error")
	}
	if hit() {
		w.nmap = []string{"rpc-error", "fault", "no-iterator", "bad-item", "bad-state", "traverse-error"}[rng.IntN(6)]
		switch w.nmap {
		case "bad-item":
			w.nodes = slices.Insert(w.nodes, rng.IntN(len(w.nodes)+1), stackitem.Item(stackitem.Make(5)))
		case "bad-state":
			bad := &netmaprpc.NetmapNode2{Addresses: []string{"/ip4/10.0.0.1/tcp/1"}, Attributes: map[string]string{}, Key: vf38Key(rng).PublicKey(), State: big.NewInt(int64(7 + rng.IntN(100)))}
			it, err := bad.ToStackItem()
			if err != nil {
				panic("verif harness: " + err.Error())
			}
			w.nodes = slices.Insert(w.nodes, rng.IntN(len(w.nodes)+1), it)
		}
		broken = append(broken, "listNodes:"+w.nmap)
	}
	if hit() {
		w.cnrs = "rpc-error"
		broken = append(broken, "containers:rpc-error")
	}
	if hit() {
		w.newEpoch = "rpc-error"
		broken = append(broken, "newEpoch:rpc-error")
	}
	return w, timerErr, broken
}

// TestVerif_C38_Epoch runs histories of new-epoch notifications, timer ticks and alphabet
// membership changes and checks what every tick asks the chain for.
func TestVerif_C38_Epoch(t *testing.T) {
	r := verifkit.Start(t, "C38", "exploration")
	defer r.Finish()
	nHist := r.Pick(400, 6000)
	steps := r.Pick(40, 60)
	r.SetRule(fmt.Sprintf("%d seeded histories of %d steps over {NewEpoch notification with a growing epoch number (through the listener's notification pipeline), epoch timer tick, join alphabet, leave alphabet}, each notification/tick under a seeded RPC-node fault plan (network configuration read, transaction height, timer reset, network map listing incl. iterator traversal and malformed entries, container listing, newEpoch call: each works or breaks independently; network map grows/shrinks between epochs); distinct = (alphabet?, epoch, step kind) triples and (alphabet?, faults of the last notification, newEpoch call outcome) observed; non-trivial = histories contain ticks in both membership states after at least one notification", nHist, steps))

	for h := 0; h < nHist; h++ {
		rng := r.Rand("hist", h)
		f := vf38NewFixture(t, rng, nil)
		cur := uint64(rng.IntN(5)) // epoch the node starts with
		if rng.IntN(4) == 0 {
			cur = uint64(1)<<uint(rng.IntN(63)) - 1 + uint64(rng.IntN(3))
		}
		f.epoch.SetEpochCounter(cur)
		isAlpha := rng.IntN(2) == 0
		f.alphabet.set(isAlpha)
		var trace []string
		var members []stackitem.Item // network map of the chain
		for i := rng.IntN(4); i > 0; i-- {
			members = append(members, vf38GoodNodeItem(rng))
		}
		var afterNotify []string // what was broken while the last notification was handled; nil = no notification yet
		prevTickRefused := false // the previous step was a tick whose newEpoch call the RPC node refused
		for s := 0; s < steps; s++ {
			kind := "tick"
			switch x := rng.IntN(10); {
			case x < 3:
				kind = "notify"
			case x == 3:
				kind = "flip"
			}
			desc := map[string]any{"history": h, "step": s, "trace": trace}
			var w *vf38Weather
			var broken []string
			if kind != "flip" {
				if kind == "notify" && rng.IntN(2) == 0 {
					// the network map of the new epoch differs from the previous one
					if len(members) > 0 && rng.IntN(2) == 0 {
						members = slices.Delete(slices.Clone(members), 0, 1)
					} else {
						members = append(slices.Clone(members), vf38GoodNodeItem(rng))
					}
				}
				var timerErr error
				w, timerErr, broken = vf38DrawWeather(rng, members)
				f.chain.mu.Lock()
				f.chain.wx = w
				f.chain.mu.Unlock()
				f.timer.err = timerErr
				if kind == "tick" {
					// a tick only talks to the RPC node through the newEpoch call
					broken = slices.DeleteFunc(broken, func(b string) bool { return !strings.HasPrefix(b, "newEpoch:") })
				}
				desc["rpc_node_faults"] = broken
			}
			switch kind {
			case "flip":
				isAlpha = !isAlpha
				f.alphabet.set(isAlpha)
				trace = append(trace, fmt.Sprintf("alphabet=%v", isAlpha))
				continue
			case "notify":
				next := cur + 1
				if rng.IntN(5) == 0 {
					next = cur + 1 + uint64(rng.IntN(3))
				}
				trace = append(trace, fmt.Sprintf("notify(%d)%v", next, broken))
				ev := &state.ContainedNotificationEvent{Container: util.Uint256{byte(h), byte(s), 0x38}}
				ev.ScriptHash = f.netmapSH
				ev.Name = "NewEpoch"
				ev.Item = stackitem.NewArray([]stackitem.Item{stackitem.NewBigInteger(new(big.Int).SetUint64(next))})
				if next > 1<<62 {
					// beyond int64 the notification parser's range ends; keep the model in range
					trace = trace[:len(trace)-1]
					continue
				}
				if r.Guard(desc, func() { event.Verif38HandleNotification(f.listener, ev) }) {
					continue
				}
				if !vf38Barrier(r, f.pool) {
					return
				}
				cur = next
				r.Eval(1)
				r.Count("notifications", 1)
				prevTickRefused = false
				afterNotify = []string{}
				for _, b := range broken {
					if !strings.HasPrefix(b, "newEpoch:") {
						afterNotify = append(afterNotify, b)
						r.Count("notifications_handled_with_broken_"+b, 1)
					}
				}
				if len(afterNotify) == 0 {
					r.Count("notifications_handled_with_everything_working", 1)
				}
				for k, n := range w.served {
					r.Count("rpc_node_answers_"+k, n)
				}
				r.Distinct(fmt.Sprintf("%v|notify|%v", isAlpha, afterNotify))
				for _, c := range f.chain.take() {
					if c.Method == "newEpoch" {
						r.Violation("epoch|new-epoch-requested-on-notification", "a NewEpoch notification made the node ask for another epoch", desc)
					}
					r.Seen("calls_after_notification", c.Op+":"+c.Method)
				}
			case "tick":
				trace = append(trace, fmt.Sprintf("tick%v", broken))
				if r.Guard(desc, func() { f.proc.HandleNewEpochTick() }) {
					continue
				}
				if !vf38Barrier(r, f.pool) {
					return
				}
				r.Eval(1)
				var asked []uint64
				for _, c := range f.chain.take() {
					if c.Method != "newEpoch" {
						r.Seen("other_calls_on_tick", c.Op+":"+c.Method)
						r.Violation("epoch|unexpected-chain-call-on-tick|"+c.Op+":"+c.Method, "an epoch timer tick produced a chain call other than newEpoch", desc)
						continue
					}
					if len(c.Args) != 1 {
						r.Violation("epoch|new-epoch-args", fmt.Sprintf("newEpoch called with %d arguments", len(c.Args)), desc)
						continue
					}
					var v uint64
					switch a := c.Args[0].(type) {
					case uint64:
						v = a
					case int64:
						v = uint64(a)
					case int:
						v = uint64(a)
					case *big.Int:
						v = a.Uint64()
					default:
						r.Violation("epoch|new-epoch-args", fmt.Sprintf("newEpoch called with a %T argument", a), desc)
						continue
					}
					asked = append(asked, v)
					r.Seen("new_epoch_call_via", c.Op)
				}
				desc["alphabet"] = isAlpha
				desc["current_epoch"] = cur
				desc["asked_for"] = asked
				if isAlpha {
					r.Count("ticks_in_alphabet_state", 1)
					switch {
					case len(asked) == 0:
						r.Violation("epoch|alphabet-tick-without-request", fmt.Sprintf("alphabet node at epoch %d did not ask for a new epoch on its timer tick", cur), desc)
					case len(asked) > 1:
						r.Violation("epoch|alphabet-tick-multiple-requests", fmt.Sprintf("alphabet node asked %d times on one tick: %v", len(asked), asked), desc)
					case asked[0] != cur+1:
						key, how := "epoch|alphabet-tick-wrong-epoch", ""
						if len(afterNotify) > 0 {
							// names the history shape: the last notification was handled while auxiliary chain reads failed
							key += "|last-notification-handled-under-rpc-faults"
							how = fmt.Sprintf(" (the notification of epoch %d was handled while the RPC node failed %v)", cur, afterNotify)
						}
						desc["faults_while_last_notification_was_handled"] = afterNotify
						r.Violation(key, fmt.Sprintf("alphabet node at epoch %d asked for epoch %d, not %d%s", cur, asked[0], cur+1, how), desc)
					default:
						r.Count("ticks_asking_exactly_next_epoch", 1)
					}
					for _, b := range afterNotify {
						r.Count("alphabet_ticks_after_notification_with_broken_"+b, 1)
					}
					if prevTickRefused {
						r.Count("alphabet_ticks_after_refused_newEpoch_call", 1)
					}
					prevTickRefused = w.newEpoch != "ok" && len(asked) > 0
				} else {
					prevTickRefused = false
					r.Count("ticks_in_non_alphabet_state", 1)
					if len(asked) > 0 {
						r.Violation("epoch|non-alphabet-tick-requests-epoch", fmt.Sprintf("non-alphabet node asked for epoch %v on its timer tick", asked), desc)
					}
				}
				for k, n := range w.served {
					r.Count("rpc_node_answers_"+k, n)
				}
				r.Distinct(fmt.Sprintf("%v|%d|tick", isAlpha, cur))
				r.Distinct(fmt.Sprintf("%v|tick-after|%v|%v", isAlpha, afterNotify, w.newEpoch))
				if h < 2 && s < 6 {
					r.Sample(desc)
				}
			}
		}
		f.close()
	}
	if r.Counter("ticks_in_alphabet_state") == 0 || r.Counter("ticks_in_non_alphabet_state") == 0 || r.Counter("notifications") == 0 {
		r.Inconclusive("histories did not cover ticks in both states and notifications")
	}
	// every auxiliary read of the notification handler must have been seen both working and
	// broken (and really asked), each followed by a tick in alphabet state
	for _, k := range []string{"config:rpc-error", "config:missing", "height:rpc-error", "timer:reset-error",
		"listNodes:rpc-error", "listNodes:fault", "listNodes:bad-item", "listNodes:bad-state", "listNodes:traverse-error", "containers:rpc-error"} {
		if r.Counter("alphabet_ticks_after_notification_with_broken_"+k) == 0 {
			r.Inconclusive("no alphabet tick followed a notification handled while the RPC node answered " + k)
		}
	}
	for _, k := range []string{"config:ok", "config:rpc-error", "height:ok", "height:rpc-error", "listNodes:inline", "listNodes:session",
		"listNodes:rpc-error", "traverse:session", "traverse:traverse-error", "containers:empty", "containers:rpc-error", "newEpoch:ok", "newEpoch:rpc-error"} {
		if r.Counter("rpc_node_answers_"+k) == 0 {
			r.Inconclusive("the node never asked the RPC node for " + k + " (fault plan not exercised)")
		}
	}
	if r.Counter("notifications_handled_with_everything_working") == 0 || r.Counter("alphabet_ticks_after_refused_newEpoch_call") == 0 {
		r.Inconclusive("histories did not cover fault-free notifications and ticks after a refused newEpoch call")
	}
}
