//go:build verif

package nodevalidation

import (
	"crypto/sha256"
	"errors"
	"fmt"
	"maps"
	"math/rand/v2"
	"reflect"
	"slices"
	"sort"
	"strings"
	"sync"
	"testing"
	"testing/synctest"
	"unsafe"

	"github.com/nspcc-dev/neo-go/pkg/core/mempoolevent"
	"github.com/nspcc-dev/neo-go/pkg/crypto/keys"
	"github.com/nspcc-dev/neo-go/pkg/neorpc/result"
	"github.com/nspcc-dev/neo-go/pkg/network/payload"
	"github.com/nspcc-dev/neo-go/pkg/smartcontract"
	"github.com/nspcc-dev/neo-go/pkg/util"
	netmaprpc "github.com/nspcc-dev/neofs-contract/rpc/netmap"
	"github.com/nspcc-dev/neofs-node/internal/verifhook"
	"github.com/nspcc-dev/neofs-node/internal/verifkit"
	netmapprocessor "github.com/nspcc-dev/neofs-node/pkg/innerring/processors/netmap"
	"github.com/nspcc-dev/neofs-node/pkg/morph/client"
	cntClient "github.com/nspcc-dev/neofs-node/pkg/morph/client/container"
	nmClient "github.com/nspcc-dev/neofs-node/pkg/morph/client/netmap"
	"github.com/nspcc-dev/neofs-node/pkg/morph/event"
	"github.com/nspcc-dev/neofs-sdk-go/netmap"
	"github.com/panjf2000/ants/v2"
	"go.uber.org/zap"
)

// ---------------------------------------------------------------------------------------
// part 3: overlapping admission requests
//
// The netmap processor handles events in a worker pool, and some of the validators of a real
// inner ring are slow (availability dials the candidate, external asks an HTTP service).  So
// admission requests overlap: a second request - possibly for the SAME public key with a
// DIFFERENT descriptor - is handled while the first one still sits inside a validator.  The
// statement is per request: each approval needs every configured validator to accept THAT
// request's node information.
//
// Overlap is constructed logically, never by timing: everything runs inside a
// testing/synctest bubble; the slow validator ("gate") parks every call on its own channel
// until the seeded schedule releases it, and after every schedule action synctest.Wait()
// returns exactly when every handler goroutine is durably blocked (parked in the gate, waiting
// for another handler, or idle), whatever the machine load.

// vf38InfoDigest names node information independently of attribute order.
func vf38InfoDigest(ni netmap.NodeInfo) string {
	var parts []string
	parts = append(parts, fmt.Sprintf("key=%x", ni.PublicKey()))
	switch {
	case ni.IsOnline():
		parts = append(parts, "online")
	case ni.IsMaintenance():
		parts = append(parts, "maintenance")
	case ni.IsOffline():
		parts = append(parts, "offline")
	default:
		parts = append(parts, "state?")
	}
	for e := range ni.NetworkEndpoints() {
		parts = append(parts, "addr="+e)
	}
	var attrs []string
	for k, v := range ni.Attributes() {
		attrs = append(attrs, "attr="+k+"="+v)
	}
	sort.Strings(attrs)
	parts = append(parts, attrs...)
	h := sha256.Sum256([]byte(strings.Join(parts, "\x00")))
	return fmt.Sprintf("%x", h[:12])
}

// vf38GateRule is the verdict of the slow scripted validator: like the availability
// validator it depends on the announced addresses (and the key), not on the key alone.
func vf38GateRule(key []byte, addrs []string) error {
	h := sha256.Sum256([]byte(fmt.Sprintf("gate\x00%x\x00%s", key, strings.Join(addrs, "\x00"))))
	if h[0]%6 == 0 {
		return errors.New("verif: slow validator could not reach the node at these addresses")
	}
	return nil
}

type vf38GateEntry struct {
	digest  string
	key     string
	release chan struct{}
}

// vf38Gate is a validator standing for the slow ones: every Verify call parks until the
// schedule lets it go.
type vf38Gate struct {
	mu      sync.Mutex
	waiting []*vf38GateEntry
	entered int
}

func (g *vf38Gate) Verify(ni netmap.NodeInfo) error {
	e := &vf38GateEntry{digest: vf38InfoDigest(ni), key: fmt.Sprintf("%x", ni.PublicKey()), release: make(chan struct{})}
	g.mu.Lock()
	g.waiting = append(g.waiting, e)
	g.entered++
	g.mu.Unlock()
	<-e.release
	return vf38GateRule(ni.PublicKey(), slices.Collect(ni.NetworkEndpoints()))
}

// parked returns the calls currently inside the gate (oldest first).
func (g *vf38Gate) parked() []*vf38GateEntry {
	g.mu.Lock()
	defer g.mu.Unlock()
	return slices.Clone(g.waiting)
}

func (g *vf38Gate) let(e *vf38GateEntry) {
	g.mu.Lock()
	g.waiting = slices.DeleteFunc(g.waiting, func(x *vf38GateEntry) bool { return x == e })
	g.mu.Unlock()
	close(e.release)
}

// vf38Asked records which node information (not just which key) every configured validator
// was shown and what it answered.
type vf38Asked struct {
	name string
	v    netmapprocessor.NodeValidator
	mu   *sync.Mutex
	seen map[string]bool // "<name>|<info digest>" -> accepted at least once
}

func (a vf38Asked) Verify(ni netmap.NodeInfo) error {
	d := vf38InfoDigest(ni)
	err := a.v.Verify(ni)
	a.mu.Lock()
	if err == nil {
		a.seen[a.name+"|"+d] = true
	} else if _, ok := a.seen[a.name+"|"+d]; !ok {
		a.seen[a.name+"|"+d] = false
	}
	a.mu.Unlock()
	return err
}

// vf38GoodNode is a candidate every real validator's rule admits (honest storage node).
func vf38GoodNode(rng *rand.Rand) vf38Node {
	n := vf38Node{Attrs: map[string]string{}}
	n.Key = vf38Key(rng).PublicKey()
	n.KeyS = n.Key.StringCompressed()
	good := []string{"/ip4/10.1.2.3/tcp/8080", "/dns4/node1.example.org/tcp/8090/tls", "/ip6/::1/tcp/8080", "10.0.0.7:8080", "grpcs://node7.example.org:8443", "node3.example.org:8080"}
	for i := 1 + rng.IntN(3); i > 0; i-- {
		n.Addrs = append(n.Addrs, good[rng.IntN(len(good))])
	}
	n.State = netmaprpc.NodeStateOnline.Int64()
	if rng.IntN(5) == 0 {
		n.State = netmaprpc.NodeStateMaintenance.Int64()
	}
	n.Attrs["Capacity"] = fmt.Sprint(rng.IntN(100))
	if rng.IntN(4) == 0 {
		n.Attrs["VerifiedNodesDomain"] = "open.nodes.example"
	}
	if rng.IntN(3) == 0 {
		lc := vf38Locodes[rng.IntN(len(vf38Locodes))]
		want, err := vf38LocodeDerived(lc)
		if err != nil {
			panic("harness: location pool entry not in the DB: " + lc)
		}
		n.Attrs["UN-LOCODE"] = lc
		for _, a := range vf38LocodeAttrs {
			if want[a] != "" {
				n.Attrs[a] = want[a]
			}
		}
		n.Locode = "honest"
	}
	return n
}

type vf38ConcFixture struct {
	chain    *vf38Chain
	listener event.Listener
	proc     *netmapprocessor.Processor
	pool     *ants.Pool
	netmapSH util.Uint160
	proxy    util.Uint160
	gate     *vf38Gate
	aMu      sync.Mutex
	asked    map[string]bool
	config   []string
	// chain verdict per descriptor
	verdictOf map[string]string
}

const vf38ConcWorkers = 8

// vf38NewConcFixture wires the real listener and the real processor like vf38NewFixture but
// keeps the processor's own (non-blocking, multi-worker) pool, as an inner ring runs it.
// Must be called inside the synctest bubble that uses it.
func vf38NewConcFixture(t testing.TB, rng *rand.Rand, config []string) *vf38ConcFixture {
	f := &vf38ConcFixture{gate: &vf38Gate{}, asked: map[string]bool{}, config: config, verdictOf: map[string]string{}}
	f.netmapSH = util.Uint160{0x38, 1}
	f.proxy = util.Uint160{0x38, 2}
	f.chain = &vf38Chain{cli: new(client.Client), height: 1000, scriptVerdict: map[string]vf38Verdict{}, scriptAsked: map[string]int{}, hookOps: map[string]int{}}
	for i := 0; i < 4; i++ {
		f.chain.committee = append(f.chain.committee, vf38Key(rng).PublicKey())
	}
	verifhook.SetMorph(f.chain.morph)
	nmc, err := nmClient.NewFromMorph(f.chain.cli, f.netmapSH, nmClient.AsAlphabet())
	if err != nil {
		t.Fatal(err)
	}
	cc, err := cntClient.NewFromMorph(f.chain.cli, util.Uint160{0x38, 3}, cntClient.AsAlphabet())
	if err != nil {
		t.Fatal(err)
	}
	var vv []netmapprocessor.NodeValidator
	for _, name := range config {
		var v netmapprocessor.NodeValidator
		if name == "slow" {
			v = f.gate
		} else {
			v = vf38ValidatorByName(name)
		}
		vv = append(vv, vf38Asked{name: name, v: v, mu: &f.aMu, seen: f.asked})
	}
	f.proc, err = netmapprocessor.New(&netmapprocessor.Params{
		Log:                  zap.NewNop(),
		PoolSize:             vf38ConcWorkers,
		NetmapClient:         nmc,
		EpochTimer:           &vf38Timer{},
		EpochState:           &vf38EpochState{},
		AlphabetState:        &vf38Alphabet{v: true},
		ContainerWrapper:     cc,
		AlphabetSyncHandler:  func(event.Event) {},
		NotaryDepositHandler: func(event.Event) {},
		NodeValidator:        New(vv...),
	})
	if err != nil {
		t.Fatalf("netmap processor: %v", err)
	}
	pf := reflect.ValueOf(f.proc).Elem().FieldByName("pool")
	if pf.IsValid() {
		if pp, ok := reflect.NewAt(pf.Type(), unsafe.Pointer(pf.UnsafeAddr())).Interface().(**ants.Pool); ok {
			f.pool = *pp
		}
	}
	if f.pool == nil {
		t.Fatal("cannot find the processor's worker pool")
	}
	f.listener, err = event.NewListener(event.ListenerParams{Logger: zap.NewNop(), Client: f.chain.cli})
	if err != nil {
		t.Fatal(err)
	}
	f.listener.EnableNotarySupport(f.proxy, vf38Key(rng).GetScriptHash(), f.chain.cli.Committee, f.chain.cli)
	for _, p := range f.proc.ListenerNotaryParsers() {
		f.listener.SetNotaryParser(p)
	}
	for _, h := range f.proc.ListenerNotaryHandlers() {
		f.listener.RegisterNotaryHandler(h)
	}
	return f
}

// close lets every parked call go and stops the pool's goroutines (a bubble only ends when
// all its goroutines have exited).
func (f *vf38ConcFixture) close() {
	for _, e := range f.gate.parked() {
		f.gate.let(e)
	}
	synctest.Wait()
	f.pool.Release()
	verifhook.SetMorph(nil)
}

type vf38ConcReq struct {
	node    vf38Node
	req     *payload.P2PNotaryRequest
	script  []byte
	verdict string
	digest  string // digest of the node information the harness renders from the descriptor
	// filled by the schedule
	overlapSameKey  []int // requests with the same key and a different descriptor that had been delivered and not yet finished... when this one was delivered
	overlapOtherKey []int
}

// TestVerif_C38_Overlap delivers groups of add-node requests whose handling overlaps (a slow
// validator keeps earlier requests in flight while later ones arrive), many of them for the
// same public key with different descriptors, and judges every approval on its own.
func TestVerif_C38_Overlap(t *testing.T) {
	r := verifkit.Start(t, "C38", "exploration")
	defer r.Finish()
	nCfg := r.Pick(60, 600)
	perCfg := r.Pick(25, 60)
	r.SetRule(fmt.Sprintf("%d seeded validator configurations (ordered lists of 0..4 of {state, structure, privatedomains, locode, 3 scripted} with a slow scripted validator inserted at a seeded position; some configurations without it) x %d episodes of 2..5 add-node notary requests over 1..2 public keys (same key => different descriptors: honest ones and random ones broken in state/addresses/verified domain/location attributes; identical re-sends too), delivered into the processor's own %d-worker pool under a seeded schedule of {deliver next request, let one parked validator call go}; after each action the harness waits until all handler goroutines are blocked or idle (synctest bubble); distinct = (configuration, per request: same-key-overlap?, chain verdict, rejecting rules, approved?) signatures", nCfg, perCfg, vf38ConcWorkers))
	r.Assume("'validator accepts the node's information' additionally means: the validator was shown exactly this information (key, state, addresses, attributes) at some moment and answered yes - an answer given for other information under the same public key does not count; identical information may be answered once")
	r.Assume("the slow validators of an inner ring (availability, external) are represented by a scripted validator that parks every call until the schedule releases it and then decides by a fixed predicate over key and addresses")

	// warm the location DB outside any bubble
	if _, err := vf38LocodeDerived(vf38Locodes[0]); err != nil {
		r.Inconclusive("harness: location DB: " + err.Error())
		return
	}

	for ci := 0; ci < nCfg; ci++ {
		rng := r.Rand("overlap-cfg", ci)
		var cfg []string
		if ci == 0 {
			cfg = []string{"state", "structure", "slow", "privatedomains", "locode"} // order of innerring.New (availability = slow)
		} else {
			k := rng.IntN(5)
			perm := rng.Perm(len(vf38ValidatorNames))
			for _, p := range perm[:k] {
				cfg = append(cfg, vf38ValidatorNames[p])
			}
			if rng.IntN(8) != 0 {
				cfg = slices.Insert(cfg, rng.IntN(len(cfg)+1), "slow")
			}
		}
		r.Seen("overlap_validator_configurations", strings.Join(cfg, ">"))
		synctest.Test(t, func(t *testing.T) {
			f := vf38NewConcFixture(t, rng, cfg)
			defer f.close()
			for ei := 0; ei < perCfg; ei++ {
				if !vf38OverlapEpisode(r, f, rng, ci, ei) {
					return
				}
			}
		})
		if t.Failed() {
			r.Inconclusive("harness: bubble of configuration " + fmt.Sprint(ci) + " failed")
			return
		}
	}
	for _, k := range []string{"overlap_approved", "overlap_refused", "overlap_requests_delivered_while_same_key_other_descriptor_in_flight",
		"overlap_same_key_in_flight_earlier_admissible_later_not", "overlap_same_key_in_flight_earlier_not_admissible_later_admissible",
		"overlap_same_key_in_flight_both_admissible", "overlap_identical_resend_in_flight", "overlap_requests_delivered_while_other_key_in_flight",
		"overlap_approved_while_same_key_was_in_flight", "overlap_refused_while_same_key_was_in_flight"} {
		if r.Counter(k) == 0 {
			r.Inconclusive("overlap workload never produced: " + k)
		}
	}
}

// vf38OverlapEpisode runs one group of overlapping requests; false = stop the configuration.
func vf38OverlapEpisode(r *verifkit.Run, f *vf38ConcFixture, rng *rand.Rand, ci, ei int) bool {
	// --- the requests
	nKeys := 1 + rng.IntN(2)
	var ks []*keys.PublicKey
	for i := 0; i < nKeys; i++ {
		ks = append(ks, vf38Key(rng).PublicKey())
	}
	nReq := 2 + rng.IntN(4)
	reqs := make([]*vf38ConcReq, 0, nReq)
	for i := 0; i < nReq; i++ {
		var n vf38Node
		switch x := rng.IntN(10); {
		case x == 5 && i > 0:
			n = reqs[rng.IntN(i)].node // identical re-send (same key, same descriptor)
			n.Attrs = maps.Clone(n.Attrs)
			n.Addrs = slices.Clone(n.Addrs)
		case x <= 5:
			n = vf38GoodNode(rng)
			n.Key = ks[rng.IntN(nKeys)] // announced under one of the episode's keys
		default:
			n = vf38GenNode(rng)
			n.Key = ks[rng.IntN(nKeys)]
		}
		n.KeyS = n.Key.StringCompressed()
		b := smartcontract.NewBuilder()
		b.InvokeMethod(f.netmapSH, "addNode", n.rpc())
		script, err := b.Script()
		if err != nil {
			r.Inconclusive("harness: cannot build script: " + err.Error())
			return false
		}
		q := &vf38ConcReq{node: n, script: script, verdict: "halt"}
		// the chain has one answer per script, i.e. per descriptor (the script bytes themselves
		// depend on map iteration order, so the descriptor is the key here)
		dk := fmt.Sprintf("%s|%q|%d|%v", n.KeyS, n.Addrs, n.State, n.Attrs)
		if old, ok := f.verdictOf[dk]; ok {
			q.verdict = old
		} else if rng.IntN(8) == 0 {
			q.verdict = "fault"
		}
		f.verdictOf[dk] = q.verdict
		f.chain.mu.Lock()
		f.chain.scriptVerdict[string(script)] = vf38Verdict{ok: q.verdict == "halt"}
		f.chain.mu.Unlock()
		q.req = vf38Request(rng, f.chain.committee, f.proxy, script, vf38ReqOpts{nvb: f.chain.height + 20})
		if ni, ok := vf38RefInfo(n); ok {
			q.digest = vf38InfoDigest(ni)
		}
		reqs = append(reqs, q)
	}

	// --- the schedule
	var trace []string
	desc := map[string]any{"config_index": ci, "episode": ei, "validators": f.config}
	inflight := map[int]bool{} // delivered, handler not known to be finished
	next := 0
	for step := 0; step < 4*nReq+8; step++ {
		parked := f.gate.parked()
		if next >= nReq && len(parked) == 0 {
			break
		}
		deliver := next < nReq && (len(parked) == 0 || rng.IntN(3) != 0)
		if deliver {
			q := reqs[next]
			// which earlier requests are certainly still being handled: those parked in the gate
			for _, e := range parked {
				for j := 0; j < next; j++ {
					if reqs[j].digest != e.digest || !inflight[j] {
						continue
					}
					if reqs[j].node.KeyS == q.node.KeyS {
						if !slices.Contains(q.overlapSameKey, j) {
							q.overlapSameKey = append(q.overlapSameKey, j)
						}
					} else if !slices.Contains(q.overlapOtherKey, j) {
						q.overlapOtherKey = append(q.overlapOtherKey, j)
					}
				}
			}
			inflight[next] = true
			trace = append(trace, fmt.Sprintf("deliver(%d key=%s…)", next, q.node.KeyS[:8]))
			desc["trace"] = trace
			if r.Guard(desc, func() {
				event.Verif38HandleNotary(f.listener, &result.NotaryRequestEvent{Type: mempoolevent.TransactionAdded, NotaryRequest: q.req})
			}) {
				return false
			}
			next++
		} else {
			e := parked[rng.IntN(len(parked))]
			trace = append(trace, "release("+e.key[:8]+"…/"+e.digest[:6]+")")
			f.gate.let(e)
		}
		synctest.Wait()
	}
	// let everything still parked go (one at a time; a released call may make others enter)
	for guard := 0; ; guard++ {
		parked := f.gate.parked()
		if len(parked) == 0 {
			break
		}
		if guard > 100 {
			r.Inconclusive("harness: slow validator keeps receiving calls")
			return false
		}
		e := parked[rng.IntN(len(parked))]
		trace = append(trace, "release("+e.key[:8]+"…/"+e.digest[:6]+")")
		f.gate.let(e)
		synctest.Wait()
	}
	synctest.Wait()
	desc["trace"] = trace

	// --- the oracle, request by request
	calls := f.chain.take()
	f.aMu.Lock()
	asked := maps.Clone(f.asked)
	f.aMu.Unlock()
	approvedN := make([]int, nReq)
	for _, c := range calls {
		if c.Op != "NotarySignAndInvokeTX" || c.Tx == nil {
			r.Violation("addnode|unexpected-chain-call|"+c.Op+":"+c.Method, "handling add-node requests produced a chain call other than the co-signature", desc)
			continue
		}
		found := false
		for i, q := range reqs {
			if c.Tx.Hash() == q.req.MainTransaction.Hash() {
				approvedN[i]++
				found = true
			}
		}
		if !found {
			r.Violation("addnode|approved-foreign-transaction", "a transaction other than a delivered main transaction was co-signed", desc)
		}
	}
	var sig []string
	for i, q := range reqs {
		r.Eval(1)
		qd := map[string]any{"config_index": ci, "episode": ei, "validators": f.config, "trace": trace, "request": i, "node": q.node,
			"chain_script_verdict": q.verdict, "delivered_while_same_key_requests_in_flight": q.overlapSameKey}
		var others []vf38Node
		for _, j := range q.overlapSameKey {
			others = append(others, reqs[j].node)
		}
		qd["descriptors_in_flight_for_the_same_key"] = others

		// what the statement requires for this request alone
		ni, representable := vf38RefInfo(q.node)
		var rej, must []string
		for _, name := range f.config {
			if name == "slow" {
				if vf38GateRule(q.node.Key.Bytes(), q.node.Addrs) != nil {
					rej = append(rej, name)
				}
				continue
			}
			if representable && vf38ValidatorByName(name).Verify(ni) != nil {
				rej = append(rej, name)
			}
			if why := vf38MustReject(name, q.node); why != "" {
				must = append(must, name+":"+why)
			}
		}
		admissible := representable && len(rej) == 0 && len(must) == 0
		qd["oracle_rejecting_validators"] = rej
		qd["reference_rules_rejecting"] = must

		// overlap bookkeeping (evidence)
		sameKeyOverlap, identicalOverlap := false, false
		for _, j := range q.overlapSameKey {
			if reqs[j].digest == q.digest {
				identicalOverlap = true
				continue
			}
			sameKeyOverlap = true
			eni, eok := vf38RefInfo(reqs[j].node)
			eadm := eok
			for _, name := range f.config {
				if name == "slow" {
					eadm = eadm && vf38GateRule(reqs[j].node.Key.Bytes(), reqs[j].node.Addrs) == nil
				} else {
					eadm = eadm && eok && vf38ValidatorByName(name).Verify(eni) == nil && vf38MustReject(name, reqs[j].node) == ""
				}
			}
			switch {
			case eadm && !admissible:
				r.Count("overlap_same_key_in_flight_earlier_admissible_later_not", 1)
			case !eadm && admissible:
				r.Count("overlap_same_key_in_flight_earlier_not_admissible_later_admissible", 1)
			case eadm && admissible:
				r.Count("overlap_same_key_in_flight_both_admissible", 1)
			default:
				r.Count("overlap_same_key_in_flight_neither_admissible", 1)
			}
		}
		if sameKeyOverlap {
			r.Count("overlap_requests_delivered_while_same_key_other_descriptor_in_flight", 1)
		}
		if identicalOverlap {
			r.Count("overlap_identical_resend_in_flight", 1)
		}
		if len(q.overlapOtherKey) > 0 {
			r.Count("overlap_requests_delivered_while_other_key_in_flight", 1)
		}

		how := ""
		if sameKeyOverlap {
			how = "|while-same-key-request-in-flight"
		}
		switch {
		case approvedN[i] > 1 && !slices.ContainsFunc(reqs[:i], func(o *vf38ConcReq) bool { return o.req.MainTransaction.Hash() == q.req.MainTransaction.Hash() }):
			r.Violation("addnode|approved-twice", "one add-node request was co-signed more than once", qd)
			fallthrough
		case approvedN[i] > 0:
			r.Count("overlap_approved", 1)
			if sameKeyOverlap {
				r.Count("overlap_approved_while_same_key_was_in_flight", 1)
			}
			if q.verdict != "halt" {
				r.Violation("addnode|approved-although-script-not-valid|"+q.verdict+how, fmt.Sprintf("admission approved although the chain's verdict on the main script was %q", q.verdict), qd)
			}
			if len(rej) > 0 {
				r.Violation("addnode|approved-although-validator-rejects|"+strings.Join(rej, "+")+how, fmt.Sprintf("admission approved although configured validators %v reject this request's node information (configuration %v)", rej, f.config), qd)
			}
			for _, m := range must {
				r.Violation("addnode|approved-although-validator-rule-rejects|"+m+how, fmt.Sprintf("admission approved although the rule of configured validator %s forbids this request's node information (configuration %v)", m, f.config), qd)
			}
			if representable {
				for _, name := range f.config {
					if !asked[name+"|"+q.digest] {
						r.Violation("addnode|approved-without-consulting|"+name+how, fmt.Sprintf("admission approved but validator %s never accepted this request's node information (it may have accepted other information for the same key)", name), qd)
					}
				}
			}
		default:
			r.Count("overlap_refused", 1)
			if sameKeyOverlap {
				r.Count("overlap_refused_while_same_key_was_in_flight", 1)
			}
			if admissible && q.verdict == "halt" {
				switch {
				case q.node.State == netmaprpc.NodeStateOffline.Int64():
					r.Count("overlap_refused_offline_state_without_state_validator", 1)
				case len(q.node.Addrs) == 0:
					r.Count("overlap_refused_candidate_without_addresses", 1)
				default:
					// not forbidden by the statement ("only if"), shown as evidence
					r.Count("overlap_refused_although_admissible", 1)
				}
			}
		}
		sig = append(sig, fmt.Sprintf("%v/%v/%s/%v/%v/%v", sameKeyOverlap, identicalOverlap, q.verdict, rej, must, approvedN[i] > 0))
	}
	r.Count("overlap_episodes", 1)
	r.Max("overlap_max_calls_parked_in_slow_validator", int64(f.gate.entered))
	f.gate.mu.Lock()
	f.gate.entered = 0
	f.gate.mu.Unlock()
	sort.Strings(sig)
	r.Distinct(fmt.Sprintf("overlap|%v|%v", f.config, sig))
	if ci < 2 && ei == 0 {
		desc["requests"] = len(reqs)
		r.Sample(desc)
	}
	return true
}
