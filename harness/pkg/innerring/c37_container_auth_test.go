//go:build verif

package innerring

import (
	"bytes"
	"fmt"
	"math/rand/v2"
	"slices"
	"sort"
	"strings"
	"testing"
	"time"

	"github.com/nspcc-dev/neo-go/pkg/crypto/keys"
	"github.com/nspcc-dev/neofs-node/internal/verifkit"
	cntClient "github.com/nspcc-dev/neofs-node/pkg/morph/client/container"
	sdkcontainer "github.com/nspcc-dev/neofs-sdk-go/container"
	"github.com/nspcc-dev/neofs-sdk-go/container/acl"
	cid "github.com/nspcc-dev/neofs-sdk-go/container/id"
	"github.com/nspcc-dev/neofs-sdk-go/eacl"
	sdknetmap "github.com/nspcc-dev/neofs-sdk-go/netmap"
	"github.com/nspcc-dev/neofs-sdk-go/session"
	sessionv2 "github.com/nspcc-dev/neofs-sdk-go/session/v2"
	"github.com/nspcc-dev/neofs-sdk-go/user"
)

// The system attributes a container may carry according to the NeoFS protocol at this
// revision (the oracle's own list).
var vf37PermittedSysAttrs = map[string]bool{
	"__NEOFS__NAME": true, "__NEOFS__ZONE": true, "__NEOFS__LOCK_UNTIL": true,
}

// "__NEOFS__METAINFO_CONSISTENCY" is permitted only where chain metadata is enabled.
const vf37SysAttrMeta = "__NEOFS__METAINFO_CONSISTENCY"

// vf37SysAttrPermitted is the oracle's reading of "only permitted system attributes may be
// present" for one attribute key on a node with chain metadata on or off. It is applied to
// EVERY attribute of the container, wherever it stands in the attribute list.
func vf37SysAttrPermitted(key string, metaOn bool) bool {
	if !strings.HasPrefix(key, "__NEOFS__") {
		return true // not a system attribute
	}
	return vf37PermittedSysAttrs[key] || (metaOn && key == vf37SysAttrMeta)
}

// vf37AttrPool: what the extra attributes of a created container are drawn from. class:
// "user" (no system prefix), "ok" (permitted system attribute), "meta" (permitted iff chain
// metadata is on), "bad" (system attribute nobody permits).
var vf37AttrPool = []struct{ key, val, class string }{
	{"__NEOFS__FOO", "1", "bad"},
	{"__NEOFS__DISABLE_HOMOMORPHIC_HASHING", "true", "bad"},
	{"__NEOFS__NAME_", "x", "bad"}, // permitted name plus one character
	{vf37SysAttrMeta, "strict", "meta"},
	{vf37SysAttrMeta, "optimistic", "meta"},
	{vf37SysAttrMeta, "whatever", "meta"},
	{"__NEOFS__LOCK_UNTIL", "4000000000", "ok"},
	{"Tag", "blue", "user"},
	{"NEOFS__FOO", "1", "user"}, // no system prefix
}

// vf37GenAttrs draws 0..4 extra attributes with distinct keys in a random order, so that a
// forbidden system attribute can stand alone, before or after permitted system attributes
// (incl. the metadata one) and ordinary attributes.
func vf37GenAttrs(rng *rand.Rand) (attrs [][2]string, classes []string) {
	n := 0
	switch d := rng.IntN(20); {
	case d < 8:
		n = 0
	case d < 13:
		n = 1
	case d < 17:
		n = 2
	case d < 19:
		n = 3
	default:
		n = 4
	}
	for len(attrs) < n {
		a := vf37AttrPool[rng.IntN(len(vf37AttrPool))]
		if slices.ContainsFunc(attrs, func(x [2]string) bool { return x[0] == a.key }) {
			continue
		}
		attrs = append(attrs, [2]string{a.key, a.val})
		classes = append(classes, a.class)
	}
	return
}

var vf37Kinds = []string{"put", "putNamed", "create", "createV2", "createV2+eacl", "delete", "remove", "setEACL", "putEACL", "setAttribute", "removeAttribute"}

func vf37IsCreation(k string) bool {
	return k == "put" || k == "putNamed" || k == "create" || k == "createV2" || k == "createV2+eacl"
}
func vf37IsEACL(k string) bool { return k == "setEACL" || k == "putEACL" }

func vf37VerbsV1(k string) session.ContainerVerb {
	switch {
	case vf37IsCreation(k):
		return session.VerbContainerPut
	case k == "delete" || k == "remove":
		return session.VerbContainerDelete
	case vf37IsEACL(k):
		return session.VerbContainerSetEACL
	case k == "setAttribute":
		return session.VerbContainerSetAttribute
	}
	return session.VerbContainerRemoveAttribute
}

func vf37VerbsV2(k string) sessionv2.Verb {
	switch {
	case vf37IsCreation(k):
		return sessionv2.VerbContainerPut
	case k == "delete" || k == "remove":
		return sessionv2.VerbContainerDelete
	case vf37IsEACL(k):
		return sessionv2.VerbContainerSetEACL
	case k == "setAttribute":
		return sessionv2.VerbContainerSetAttribute
	}
	return sessionv2.VerbContainerRemoveAttribute
}

// vf37Auth is one generated witness (invocation script, verification script, token) for
// signed data, together with the oracle's verdict on it.
type vf37Auth struct {
	Mode        string   `json:"mode"`
	Detail      []string `json:"detail"`
	Invoc       []byte   `json:"-"`
	Verif       []byte   `json:"-"`
	Token       []byte   `json:"-"`
	DirectValid bool     `json:"direct_owner_signature_valid"`
	TokenKind   string   `json:"token_kind"`
	TokenValid  bool     `json:"token_valid"`
	Why         []string `json:"token_invalid_because"`
	// v2 tokens: contexts of the token (and of the root token of a delegation chain),
	// containers named by role
	Contexts     []string `json:"token_contexts,omitempty"`
	RootContexts []string `json:"root_token_contexts,omitempty"`
	Multi        bool     `json:"-"` // v2 token with several contexts
}

func (a vf37Auth) authorised() bool { return a.DirectValid || a.TokenValid }

type vf37Env struct {
	rng      *rand.Rand
	ch       *vf37Chain
	n        *vf37Node
	owner    *keys.PrivateKey
	ownerID  user.ID
	stranger *keys.PrivateKey
	epoch    uint64
	now      time.Time
	// containers of the owner known to the chain
	siblings []cid.ID
	// chain metadata enabled on the node, and what it registered on the metadata chain
	metaOn bool
	meta   *vf37MetaChain
}

// genAuth builds a witness for data. verbV1/verbV2 are the verbs the operation needs;
// target is the container the operation applies to (nil for creation); noVerif: the
// request type has no verification script argument (legacy delete).
func (e *vf37Env) genAuth(data []byte, kind string, target *cid.ID, newID *cid.ID, noVerif bool) vf37Auth {
	rng := e.rng
	a := vf37Auth{}
	mode := rng.IntN(100)
	switch {
	case mode < 22 && !noVerif:
		a.Mode = "owner-signature"
		a.Invoc, a.Verif = vf37SignRFC6979(e.owner, data)
		a.DirectValid = true
	case mode < 30 && !noVerif:
		a.Mode = "stranger-signature"
		a.Invoc, a.Verif = vf37SignRFC6979(e.stranger, data)
	case mode < 36 && !noVerif:
		a.Mode = "owner-key-foreign-signature"
		a.Invoc, _ = vf37SignRFC6979(e.stranger, data)
		a.Verif = e.owner.PublicKey().Bytes()
	case mode < 42 && !noVerif:
		a.Mode = "owner-signature-of-other-data"
		a.Invoc, a.Verif = vf37SignRFC6979(e.owner, append([]byte{1}, data...))
	case mode < 50 || (noVerif && mode < 64):
		// contract-style witness: the chain decides
		ok := rng.IntN(2) == 0
		a.Mode = fmt.Sprintf("n3-witness-chain-says-%v", ok)
		a.Invoc = vf37Bytes(rng, 70)
		if !noVerif {
			a.Verif = append([]byte{0x00}, vf37Bytes(rng, 40)...)
		}
		script := slices.Concat(a.Invoc, a.Verif)
		e.ch.lock(func() { e.ch.n3Verdict[string(script)] = ok })
		a.DirectValid = ok
	case mode < 75:
		a = e.genV1(data, kind, target)
	default:
		a = e.genV2(data, kind, target, newID)
	}
	return a
}

func (e *vf37Env) genV1(data []byte, kind string, target *cid.ID) vf37Auth {
	rng := e.rng
	a := vf37Auth{Mode: "session-v1", TokenKind: "v1", TokenValid: true}
	sessKey := vf37Key(rng)
	o := vf37TokV1Opts{Verb: vf37VerbsV1(kind), Iat: e.epoch - 1, Nbf: e.epoch - 1, Exp: e.epoch + 5, Issuer: e.owner, AuthKey: sessKey}
	bad := func(w string) { a.TokenValid = false; a.Why = append(a.Why, w) }
	if rng.IntN(4) == 0 {
		all := []session.ContainerVerb{session.VerbContainerPut, session.VerbContainerDelete, session.VerbContainerSetEACL, session.VerbContainerSetAttribute, session.VerbContainerRemoveAttribute}
		o.Verb = all[rng.IntN(len(all))]
		if o.Verb != vf37VerbsV1(kind) {
			bad("verb")
		}
		a.Detail = append(a.Detail, fmt.Sprintf("verb=%d", o.Verb))
	}
	switch rng.IntN(5) {
	case 0:
		if target != nil {
			o.Cnr = target
			a.Detail = append(a.Detail, "bound-to-target")
		}
	case 1:
		other := cid.ID(vf37Bytes(rng, 32))
		o.Cnr = &other
		a.Detail = append(a.Detail, "bound-to-other-container")
		if target != nil {
			bad("container")
		}
	}
	switch rng.IntN(7) {
	case 0:
		o.Exp = e.epoch - 1
		o.Nbf, o.Iat = e.epoch-2, e.epoch-2
		bad("expired")
		a.Detail = append(a.Detail, "expired")
	case 1:
		o.Nbf = e.epoch + 1
		bad("not-yet-valid")
		a.Detail = append(a.Detail, "nbf-in-future")
	case 2:
		o.Exp = e.epoch // last valid epoch
		a.Detail = append(a.Detail, "exp=now")
	}
	switch rng.IntN(8) {
	case 0:
		o.Issuer = e.stranger
		bad("issuer")
		a.Detail = append(a.Detail, "issued-by-stranger")
	case 1:
		o.Issuer = e.stranger
		o.WrongIss = &e.ownerID
		bad("issuer-signature")
		a.Detail = append(a.Detail, "signed-by-stranger-claims-owner")
	case 2:
		o.BreakSig = true
		bad("token-signature")
		a.Detail = append(a.Detail, "token-signature-broken")
	}
	a.Token = vf37TokenV1(o)
	signer := sessKey
	if rng.IntN(6) == 0 {
		signer = e.stranger
		a.Detail = append(a.Detail, "request-not-signed-by-session-key")
	}
	a.Invoc, a.Verif = vf37SignRFC6979(signer, data)
	return a
}

var vf37VerbPoolV2 = []sessionv2.Verb{sessionv2.VerbObjectPut, sessionv2.VerbObjectGet, sessionv2.VerbObjectHead, sessionv2.VerbObjectSearch, sessionv2.VerbObjectDelete, sessionv2.VerbObjectRange,
	sessionv2.VerbContainerPut, sessionv2.VerbContainerDelete, sessionv2.VerbContainerSetEACL, sessionv2.VerbContainerSetAttribute, sessionv2.VerbContainerRemoveAttribute}

// vf37CtxVerdict is the oracle's reading of "a session token … for that verb and
// container": some context that applies to the target container (the wildcard context or
// the context of exactly this container; with no target – creation – any context) must
// delegate the needed verb itself. A verb delegated for another container, or another
// verb delegated for this container, is not an authorisation. Returns nil if the contexts
// authorise, else the reasons.
func vf37CtxVerdict(ctxs []vf37Ctx, need sessionv2.Verb, target *cid.ID) []string {
	anyNeed, anyApplicable := false, false
	for _, c := range ctxs {
		has := slices.Contains(c.Verbs, need)
		app := target == nil || c.Cnr.IsZero() || c.Cnr == *target
		if has && app {
			return nil
		}
		anyNeed = anyNeed || has
		anyApplicable = anyApplicable || app
	}
	var why []string
	if !anyNeed {
		why = append(why, "verb")
	}
	if !anyApplicable {
		why = append(why, "container")
	}
	if len(why) == 0 {
		why = append(why, "verb-delegated-for-other-container-only")
	}
	return why
}

// vf37NormCtxs brings a context list into the form the SDK accepts (sorted unique verbs,
// contexts ordered by container, an explicit context never repeats exactly the wildcard's
// verb set – then one object verb that the oracle does not care about is added).
func vf37NormCtxs(ctxs []vf37Ctx) []vf37Ctx {
	res := make([]vf37Ctx, 0, len(ctxs))
	for _, c := range ctxs {
		vs := slices.Clone(c.Verbs)
		slices.Sort(vs)
		res = append(res, vf37Ctx{Cnr: c.Cnr, Verbs: slices.Compact(vs)})
	}
	sort.SliceStable(res, func(i, j int) bool { return bytes.Compare(res[i].Cnr[:], res[j].Cnr[:]) < 0 })
	if len(res) > 0 && res[0].Cnr.IsZero() {
		for i := 1; i < len(res); i++ {
			if !slices.Equal(res[i].Verbs, res[0].Verbs) {
				continue
			}
			for _, f := range []sessionv2.Verb{sessionv2.VerbObjectSearch, sessionv2.VerbObjectRange, sessionv2.VerbObjectHead, sessionv2.VerbObjectGet, sessionv2.VerbObjectPut, sessionv2.VerbObjectDelete} {
				if !slices.Contains(res[i].Verbs, f) {
					res[i].Verbs = append(res[i].Verbs, f)
					slices.Sort(res[i].Verbs)
					break
				}
			}
		}
	}
	return res
}

// vf37CtxString renders contexts for replay descriptions with the containers named by
// their role.
func (e *vf37Env) vf37CtxString(ctxs []vf37Ctx, target, newID *cid.ID) []string {
	var res []string
	for _, c := range ctxs {
		res = append(res, fmt.Sprintf("%s:%v", e.cnrRole(c.Cnr, target, newID), c.Verbs))
	}
	return res
}

func (e *vf37Env) cnrRole(id cid.ID, target, newID *cid.ID) string {
	switch {
	case id.IsZero():
		return "wildcard"
	case target != nil && id == *target:
		return "target"
	case newID != nil && id == *newID:
		return "new-id"
	case slices.Contains(e.siblings, id):
		return "sibling"
	}
	return "other"
}

// genV2Contexts builds a token with several contexts: a mix of the wildcard, the target
// (or the ID of the container being created), other containers of the same owner and
// unrelated containers, each with its own verb set that may or may not contain the needed
// verb – so the verb and the container can meet in one context, only via the wildcard, or
// live in different contexts.
func (e *vf37Env) genV2Contexts(need sessionv2.Verb, target, newID *cid.ID) []vf37Ctx {
	rng := e.rng
	var cnrs []cid.ID
	if rng.IntN(10) < 3 {
		cnrs = append(cnrs, cid.ID{})
	}
	if target != nil {
		if rng.IntN(10) < 7 {
			cnrs = append(cnrs, *target)
		}
	} else if newID != nil && rng.IntN(10) < 4 {
		cnrs = append(cnrs, *newID)
	}
	for _, s := range e.siblings {
		if (target == nil || s != *target) && rng.IntN(10) < 6 {
			cnrs = append(cnrs, s)
		}
	}
	for n := rng.IntN(3); n > 0 || len(cnrs) < 2; n-- {
		cnrs = append(cnrs, cid.ID(vf37Bytes(rng, 32)))
	}
	ctxs := make([]vf37Ctx, 0, len(cnrs))
	for _, id := range cnrs {
		var vs []sessionv2.Verb
		for _, v := range vf37VerbPoolV2 {
			if v != need && rng.IntN(4) == 0 {
				vs = append(vs, v)
			}
		}
		if rng.IntN(2) == 0 {
			vs = append(vs, need)
		}
		if len(vs) == 0 {
			vs = []sessionv2.Verb{sessionv2.VerbObjectGet}
		}
		ctxs = append(ctxs, vf37Ctx{Cnr: id, Verbs: vs})
	}
	// generation order; the caller normalises. (Container IDs are not reproducible between
	// runs – the SDK puts a random nonce into every container –, so nothing random may be
	// drawn in the ID-sorted order.)
	return ctxs
}

func (e *vf37Env) genV2(data []byte, kind string, target *cid.ID, newID *cid.ID) vf37Auth {
	rng := e.rng
	a := vf37Auth{Mode: "session-v2", TokenKind: "v2", TokenValid: true}
	bad := func(w ...string) { a.TokenValid = false; a.Why = append(a.Why, w...) }
	need := vf37VerbsV2(kind)
	subj := vf37Key(rng)
	o := vf37TokV2Opts{Iat: e.now.Add(-time.Minute), Nbf: e.now.Add(-time.Minute), Exp: e.now.Add(time.Hour), Issuer: e.owner, Subject: vf37User(subj)}
	var raw []vf37Ctx // in generation order
	if rng.IntN(100) < 45 {
		raw = e.genV2Contexts(need, target, newID)
		a.Multi = true
		// low-cardinality tag: where the needed verb lives
		var in []string
		for _, c := range raw {
			if role := e.cnrRole(c.Cnr, target, newID); slices.Contains(c.Verbs, need) && !slices.Contains(in, role) {
				in = append(in, role)
			}
		}
		sort.Strings(in)
		a.Detail = append(a.Detail, "multi-context:needed-verb-in="+strings.Join(in, "+"))
	} else {
		single := vf37Ctx{Verbs: []sessionv2.Verb{need}}
		// verbs
		switch rng.IntN(5) {
		case 0, 1:
			// a set without the needed verb
			var vs []sessionv2.Verb
			for _, v := range vf37VerbPoolV2 {
				if v != need && rng.IntN(3) == 0 {
					vs = append(vs, v)
				}
			}
			if len(vs) == 0 {
				vs = []sessionv2.Verb{sessionv2.VerbObjectGet}
			}
			single.Verbs = vs
			a.Detail = append(a.Detail, fmt.Sprintf("verbs-without-needed=%v", vs))
		case 2:
			single.Verbs = []sessionv2.Verb{sessionv2.VerbObjectGet, need}
		}
		// container of the single context
		switch rng.IntN(4) {
		case 0:
			if target != nil {
				single.Cnr = *target
				a.Detail = append(a.Detail, "context-for-target")
			} else if newID != nil {
				single.Cnr = *newID
				a.Detail = append(a.Detail, "context-for-new-id")
			}
		case 1:
			single.Cnr = cid.ID(vf37Bytes(rng, 32))
			a.Detail = append(a.Detail, "context-for-other-container")
			// creation: the statement names no container to compare with, the oracle does not judge this
		case 2:
			// a real container of the same owner, but not the one the request is about
			if target != nil && len(e.siblings) > 0 {
				if s := e.siblings[rng.IntN(len(e.siblings))]; s != *target {
					single.Cnr = s
					a.Detail = append(a.Detail, "context-for-sibling-container")
				}
			}
		}
		raw = []vf37Ctx{single}
	}
	ctxs := vf37NormCtxs(raw)
	// the normalised contexts, but in generation order (see genV2Contexts)
	for i := range raw {
		raw[i] = ctxs[slices.IndexFunc(ctxs, func(c vf37Ctx) bool { return c.Cnr == raw[i].Cnr })]
	}
	o.Ctxs = ctxs
	a.Contexts = e.vf37CtxString(ctxs, target, newID)
	if why := vf37CtxVerdict(ctxs, need, target); why != nil {
		bad(why...)
	}
	switch rng.IntN(7) {
	case 0:
		o.Iat, o.Nbf, o.Exp = e.now.Add(-2*time.Hour), e.now.Add(-2*time.Hour), e.now.Add(-time.Hour)
		bad("expired")
		a.Detail = append(a.Detail, "expired")
	case 1:
		o.Nbf = e.now.Add(time.Minute)
		bad("not-yet-valid")
		a.Detail = append(a.Detail, "nbf-in-future")
	}
	switch rng.IntN(8) {
	case 0:
		o.Issuer = e.stranger
		bad("issuer")
		a.Detail = append(a.Detail, "issued-by-stranger")
	case 1:
		o.BreakSig = true
		bad("token-signature")
		a.Detail = append(a.Detail, "token-signature-broken")
	case 2, 3:
		// delegation: owner (or a stranger) -> middle -> subject
		middle := vf37Key(rng)
		root := e.owner
		if rng.IntN(3) == 0 {
			root = e.stranger
			bad("issuer")
			a.Detail = append(a.Detail, "delegation-rooted-at-stranger")
		} else {
			a.Detail = append(a.Detail, "delegated-by-owner")
		}
		ro := o
		ro.Issuer, ro.Subject, ro.BreakSig = root, vf37User(middle), false
		switch rng.IntN(4) {
		case 0:
			// the root token delegates more than the final one passes on
			wide := make([]vf37Ctx, 0, len(raw))
			for _, c := range raw {
				vs := slices.Clone(c.Verbs)
				for _, v := range vf37VerbPoolV2 {
					if !slices.Contains(vs, v) && rng.IntN(3) == 0 {
						vs = append(vs, v)
					}
				}
				wide = append(wide, vf37Ctx{Cnr: c.Cnr, Verbs: vs})
			}
			ro.Ctxs = vf37NormCtxs(wide)
			a.Detail = append(a.Detail, "root-delegates-more")
		case 1:
			// the root token does not delegate the needed verb for the target; only the
			// re-issued token claims it
			changed := false
			narrow := make([]vf37Ctx, 0, len(raw))
			for _, c := range raw {
				vs := slices.Clone(c.Verbs)
				if (target == nil || c.Cnr.IsZero() || c.Cnr == *target) && slices.Contains(vs, need) {
					vs = slices.DeleteFunc(vs, func(v sessionv2.Verb) bool { return v == need })
					if len(vs) == 0 {
						vs = []sessionv2.Verb{sessionv2.VerbObjectGet}
					}
					changed = true
				}
				narrow = append(narrow, vf37Ctx{Cnr: c.Cnr, Verbs: vs})
			}
			if changed {
				ro.Ctxs = vf37NormCtxs(narrow)
				a.Detail = append(a.Detail, "root-lacks-needed-verb")
			}
		}
		// "a session token from the owner for that verb and container": the token the
		// owner signed is the root of the chain
		if why := vf37CtxVerdict(ro.Ctxs, need, target); why != nil {
			for _, w := range why {
				bad("root-token-" + w)
			}
		}
		a.RootContexts = e.vf37CtxString(ro.Ctxs, target, newID)
		origin, _ := vf37TokenV2(ro)
		o.Issuer = middle
		o.Origin = &origin
	}
	var tok sessionv2.Token
	tok, a.Token = vf37TokenV2(o)
	if a.TokenValid && !tok.VerifySignature() {
		a.TokenValid = false
		a.Why = append(a.Why, "harness:signature-does-not-verify")
	}
	a.Invoc, a.Verif = vf37SignRFC6979(subj, data)
	return a
}

// vf37SysShape names where the first forbidden system attribute stands among the system
// attributes of a container (list order; "p" permitted, "m" the metadata attribute where it
// is permitted, "F" forbidden).
func vf37SysShape(shape []string) string {
	if len(shape) == 0 {
		return "no-system-attribute"
	}
	f := slices.Index(shape, "F")
	switch {
	case f < 0 && slices.Contains(shape, "m"):
		return "all-permitted-with-metadata-attribute"
	case f < 0:
		return "all-permitted"
	case len(shape) == 1:
		return "forbidden-only"
	case f == 0:
		return "forbidden-first-then-others"
	case slices.Contains(shape[:f], "m"):
		return "forbidden-after-metadata-attribute"
	}
	return "forbidden-after-permitted"
}

func vf37Bytes(rng *rand.Rand, n int) []byte {
	b := make([]byte, n)
	for i := range b {
		b[i] = byte(rng.UintN(256))
	}
	return b
}

// TestVerif_C37 sends container-change notary requests with all kinds of witnesses
// through the real listener into the real container processor of an alphabet node and
// judges every co-signature with a reference authorisation predicate.
func TestVerif_C37(t *testing.T) {
	r := verifkit.Start(t, "C37", "exploration")
	defer r.Finish()
	nWorlds := r.Pick(80, 600)
	perWorld := r.Pick(100, 250)
	r.SetRule(fmt.Sprintf("%d seeded nodes (alphabet member; EC allowed on every second one, chain metadata enabled on nodes 2,3 of every four) x %d container requests each: kind in %v; witness in {owner RFC6979 signature, stranger signature, owner key with foreign signature, owner signature of other data, N3 witness accepted/refused by the chain, session v1 token, session v2 token (one context, or several contexts over wildcard / target / other containers of the owner / unrelated containers with independent verb sets; delegation with equal, wider or narrower root token)} with mutated verbs, container binding, lifetimes, issuers, token signatures; creation content with valid/invalid REP, EC, REP+EC policies and 0-4 extra attributes in random order drawn from forbidden system attributes, permitted ones, the chain-metadata attribute (permitted iff the node has chain metadata enabled - crossed with the EC switch over the nodes) and ordinary attributes, domain attributes before or after them; eACL tables targeting others/user/system roles on extendable/final containers; distinct = (kind, witness mode, oracle verdict components, approved?) signatures", nWorlds, perWorld, vf37Kinds))
	r.Assume("a contract-style (N3) witness counts as the owner's signature iff the chain's script run returns true")
	r.Assume("permitted system attributes = __NEOFS__NAME, __NEOFS__ZONE, __NEOFS__LOCK_UNTIL, and __NEOFS__METAINFO_CONSISTENCY on nodes with chain metadata enabled (every second pair of nodes); the rule applies to every attribute of the container wherever it stands in the list")
	r.Assume("a v2 token is 'for that verb and container' iff one of its contexts that applies to the container (wildcard or exactly this container) lists the verb; in a delegation chain this must also hold for the root token, the one the owner signed")
	r.Assume("for creation with a v2 token the oracle only demands that some context carries CONTAINER_PUT (the statement names no container to match)")

	for wi := 0; wi < nWorlds; wi++ {
		rng := r.Rand("world", wi)
		ch := vf37NewChain()
		for i := 0; i < 4; i++ {
			ch.committee = append(ch.committee, vf37Key(rng).PublicKey())
		}
		w := vf37NewWorld(rng, ch, 3)
		allowEC := wi%2 == 1
		// the two node switches are crossed: (EC, chain metadata) = off/off, on/off, off/on, on/on
		metaOn := wi%4 >= 2
		var metaChain *vf37MetaChain
		if metaOn {
			metaChain = &vf37MetaChain{}
		}
		n := vf37NewNode(t, rng, ch, vf37NodeOpts{AlphabetContracts: 4, AllowEC: allowEC, MetaEnabled: metaOn, MetaChain: metaChain})
		ch.committee[rng.IntN(4)] = n.key.PublicKey() // the node is an alphabet member
		ch.irKeys = slices.Clone(ch.committee)
		// a second stored container of the same owner whose basic ACL is final
		final := vf37Container(rng, w.OwnerID, vf37CnrOpts{BasicACL: acl.PublicRW})
		finalID := cid.NewFromMarshalledContainer(final.Marshal())
		ch.containers[finalID] = final.Marshal()

		e := &vf37Env{rng: rng, ch: ch, n: n, owner: w.Owner, ownerID: w.OwnerID, stranger: vf37Key(rng), epoch: ch.epoch, now: n.now, siblings: []cid.ID{w.CnrID, finalID}, metaOn: metaOn, meta: metaChain}
		for qi := 0; qi < perWorld; qi++ {
			vf37OneRequest(r, e, w, finalID, allowEC, wi, qi)
		}
		n.close()
	}
	if r.Counter("approved") == 0 || r.Counter("refused") == 0 {
		r.Inconclusive("approvals and refusals were not both observed")
	}
	if r.Counter("v2_multi_context_authorising_approved") == 0 || r.Counter("v2_multi_context_verb-and-container-in-different-contexts_refused") == 0 {
		r.Inconclusive("v2 tokens with several contexts: an approval with verb and container in one context and a refusal with verb and container in different contexts were not both observed")
	}
	if r.Counter("sysattr_metadata-on_all-permitted-with-metadata-attribute_approved") == 0 {
		r.Inconclusive("no creation carrying the metadata attribute was approved by a node with chain metadata enabled")
	}
	for _, sh := range []string{"forbidden-only", "forbidden-first-then-others", "forbidden-after-permitted", "forbidden-after-metadata-attribute"} {
		if r.Counter("sysattr_else-fine_"+sh+"_refused")+r.Counter("sysattr_else-fine_"+sh+"_approved") == 0 {
			r.Inconclusive("no otherwise approvable creation with system attribute order '" + sh + "' was generated")
		}
	}
	for _, k := range vf37Kinds {
		if r.Counter("approved_kind_"+k) == 0 {
			r.Inconclusive("no approval observed for request kind " + k)
		}
	}
}

func vf37OneRequest(r *verifkit.Run, e *vf37Env, w *vf37World, finalID cid.ID, allowEC bool, wi, qi int) {
	rng := e.rng
	kind := vf37Kinds[rng.IntN(len(vf37Kinds))]
	cnrSH := e.n.srv.contracts.container
	desc := map[string]any{"world": wi, "request": qi, "kind": kind, "ec_allowed": allowEC, "chain_metadata_enabled": e.metaOn}
	var (
		calls      []vf37Invoke
		auth       vf37Auth
		eaclAuth   *vf37Auth
		policyOK   = true
		sysOK      = true
		exists     = true
		extendable = true
		touchesSys = false
		contentTag []string
		sysShape   string // creation: order of permitted / forbidden system attributes
	)

	genEACL := func(id cid.ID) ([]byte, bool) {
		role := eacl.RoleOthers
		switch rng.IntN(5) {
		case 0:
			role = eacl.RoleSystem
		case 1:
			role = eacl.RoleUser
		}
		t := vf37EACL(id, role, "")
		if role != eacl.RoleSystem && rng.IntN(6) == 0 {
			// a second record that touches the system role
			recs := append(t.Records(), eacl.ConstructRecord(eacl.ActionAllow, eacl.OperationGet, []eacl.Target{eacl.NewTargetByRole(eacl.RoleSystem)}))
			t = eacl.NewTableForContainer(id, recs)
			role = eacl.RoleSystem
		}
		contentTag = append(contentTag, fmt.Sprintf("eacl-role=%v", role))
		return t.Marshal(), role == eacl.RoleSystem
	}

	switch {
	case vf37IsCreation(kind):
		o := vf37CnrOpts{}
		switch rng.IntN(10) {
		case 0:
			o.Policy, policyOK = "REP 9", false
		case 1:
			o.Policy, policyOK = "REP 8 CBF 100", false
		case 2:
			o.Policy, policyOK = "REP 1 IN Y", false
		case 3:
			o.Policy = "EC 2/1"
		case 4:
			o.Policy = "REP 1 EC 2/1"
		case 5:
			o.Policy = "REP 2 IN X CBF 1 SELECT 2 FROM * AS X"
		}
		if o.Policy != "" {
			contentTag = append(contentTag, "policy="+o.Policy)
		}
		o.Attrs, _ = vf37GenAttrs(rng)
		o.DomainFirst = rng.IntN(2) == 0
		if rng.IntN(3) == 0 {
			o.BasicACL = acl.PublicRW // final
			extendable = false
		}
		name, zone := "", ""
		if kind == "putNamed" || (kind == "create" && rng.IntN(2) == 0) {
			name, zone = fmt.Sprintf("c%d-%d", wi, qi), "container"
			o.Name, o.Zone = name, zone
		}
		cn := vf37Container(rng, e.ownerID, o)
		for k := range cn.Attributes() {
			if k != "Nonce" {
				contentTag = append(contentTag, "attr="+k)
			}
		}
		// the oracle's own look at the content: every attribute, in the order of the list
		var shape []string // permitted ("p") / forbidden ("F") system attributes in list order
		for k := range cn.Attributes() {
			if !strings.HasPrefix(k, "__NEOFS__") {
				continue
			}
			if vf37SysAttrPermitted(k, e.metaOn) {
				if k == vf37SysAttrMeta {
					shape = append(shape, "m")
				} else {
					shape = append(shape, "p")
				}
			} else {
				sysOK = false
				shape = append(shape, "F")
			}
		}
		sysShape = vf37SysShape(shape)
		policyOK = cn.PlacementPolicy().Verify() == nil
		b := cn.Marshal()
		var info any
		if strings.HasPrefix(kind, "createV2") {
			ci := vf37CnrInfo(cn)
			rt, err := cntClient.ContainerFromStruct(*ci)
			if err != nil {
				r.Inconclusive("harness: container structure does not convert back: " + err.Error())
				return
			}
			b = rt.Marshal()
			info = ci
		}
		newID := cid.NewFromMarshalledContainer(b)
		auth = e.genAuth(b, kind, nil, &newID, false)
		switch kind {
		case "put":
			calls = []vf37Invoke{{cnrSH, "put", []any{b, auth.Invoc, auth.Verif, auth.Token}}}
		case "putNamed":
			calls = []vf37Invoke{{cnrSH, "putNamed", []any{b, auth.Invoc, auth.Verif, auth.Token, name, zone}}}
		case "create":
			calls = []vf37Invoke{{cnrSH, "create", []any{b, auth.Invoc, auth.Verif, auth.Token, name, zone, false}}}
		default:
			calls = []vf37Invoke{{cnrSH, "createV2", []any{info, auth.Invoc, auth.Verif, auth.Token}}}
			if kind == "createV2+eacl" {
				tid := newID
				if rng.IntN(8) == 0 {
					tid = w.CnrID
					contentTag = append(contentTag, "eacl-for-other-container")
				}
				tb, sys := genEACL(tid)
				touchesSys = sys
				ea := e.genAuth(tb, "putEACL", &newID, nil, false)
				eaclAuth = &ea
				calls = append(calls, vf37Invoke{cnrSH, "putEACL", []any{tb, ea.Invoc, ea.Verif, ea.Token}})
			}
		}
	case vf37IsEACL(kind):
		target := w.CnrID
		switch rng.IntN(6) {
		case 0:
			target, extendable = finalID, false
			contentTag = append(contentTag, "final-basic-acl")
		case 1:
			target, exists = cid.ID(vf37Bytes(rng, 32)), false
			contentTag = append(contentTag, "unknown-container")
		}
		tb, sys := genEACL(target)
		touchesSys = sys
		auth = e.genAuth(tb, kind, &target, nil, false)
		calls = []vf37Invoke{{cnrSH, kind, []any{tb, auth.Invoc, auth.Verif, auth.Token}}}
	default:
		target := w.CnrID
		if rng.IntN(8) == 0 {
			target, exists = cid.ID(vf37Bytes(rng, 32)), false
			contentTag = append(contentTag, "unknown-container")
		}
		until := time.Now().Add(time.Hour).Unix()
		switch kind {
		case "delete":
			auth = e.genAuth(target[:], kind, &target, nil, true)
			calls = []vf37Invoke{{cnrSH, "delete", []any{target[:], auth.Invoc, auth.Token}}}
		case "remove":
			auth = e.genAuth(target[:], kind, &target, nil, false)
			calls = []vf37Invoke{{cnrSH, "remove", []any{target[:], auth.Invoc, auth.Verif, auth.Token}}}
		case "setAttribute":
			auth = e.genAuth(vf37AttrSetSigned(target, "CORS", "v", until), kind, &target, nil, false)
			calls = []vf37Invoke{{cnrSH, "setAttribute", []any{target[:], "CORS", "v", until, auth.Invoc, auth.Verif, auth.Token}}}
		case "removeAttribute":
			auth = e.genAuth(vf37AttrRemoveSigned(target, "CORS", until), kind, &target, nil, false)
			calls = []vf37Invoke{{cnrSH, "removeAttribute", []any{target[:], "CORS", until, auth.Invoc, auth.Verif, auth.Token}}}
		}
	}
	desc["witness"] = auth
	desc["content"] = contentTag
	if eaclAuth != nil {
		desc["eacl_witness"] = *eaclAuth
	}

	req := vf37Request(rng, e.ch.committee, e.n.proxy, vf37Script(calls...), vf37ReqOpts{NVB: e.ch.height + 20})
	e.ch.take()
	if r.Guard(desc, func() { e.n.notaryFS(req) }) {
		return
	}
	if !e.n.settle(r) {
		return
	}
	r.Eval(1)
	approved := false
	for _, c := range e.ch.take() {
		if c.Op != "NotarySignAndInvokeTX" {
			r.Seen("follow_up_calls", c.String())
			continue
		}
		if c.Tx == nil || c.Tx.Hash() != req.MainTransaction.Hash() {
			r.Violation(kind+"|co-signed-foreign-transaction", "a transaction other than the delivered main transaction was co-signed", desc)
			continue
		}
		if approved {
			r.Violation(kind+"|co-signed-twice", "the request was co-signed twice", desc)
		}
		approved = true
	}
	mode := auth.Mode
	if e.meta != nil {
		r.Count("metadata_chain_registrations", len(e.meta.takeRegistered()))
	}
	// what was observed about system attributes: where the first forbidden one stands, on
	// nodes with chain metadata on/off; "else-fine" = witness and policy would allow approval
	if vf37IsCreation(kind) {
		out := "refused"
		if approved {
			out = "approved"
		}
		cfg := "metadata-off"
		if e.metaOn {
			cfg = "metadata-on"
		}
		r.Count("sysattr_"+cfg+"_"+sysShape+"_"+out, 1)
		if auth.authorised() && policyOK && (eaclAuth == nil || eaclAuth.authorised()) {
			r.Count("sysattr_else-fine_"+sysShape+"_"+out, 1)
		}
	}
	// what was observed about v2 tokens with several contexts
	for _, au := range []*vf37Auth{&auth, eaclAuth} {
		if au == nil || !au.Multi {
			continue
		}
		verdict := "authorising"
		if slices.Contains(au.Why, "verb-delegated-for-other-container-only") {
			verdict = "verb-and-container-in-different-contexts"
		} else if slices.Contains(au.Why, "verb") {
			verdict = "verb-nowhere"
		} else if slices.Contains(au.Why, "container") {
			verdict = "no-context-for-container"
		}
		out := "refused"
		if approved {
			out = "approved"
		}
		r.Count("v2_multi_context_"+verdict+"_"+out, 1)
	}
	if approved {
		r.Count("approved", 1)
		r.Count("approved_kind_"+kind, 1)
		r.Count("approved_witness_"+mode, 1)
		if !auth.authorised() {
			why := "signature"
			if auth.TokenKind != "" {
				why = "token-" + strings.Join(auth.Why, "+")
			}
			r.Violation(kind+"|"+mode+"|approved-without-owner-authorisation|"+why,
				fmt.Sprintf("%s request approved although the owner did not authorise it: witness %s %v, invalid because %v", kind, mode, auth.Detail, auth.Why), desc)
		}
		if !exists {
			r.Violation(kind+"|approved-for-unknown-container", "request for a container the chain does not know was approved", desc)
		}
		if vf37IsCreation(kind) {
			if !policyOK {
				r.Violation(kind+"|approved-with-invalid-policy", fmt.Sprintf("container creation approved with an invalid placement policy (%v)", contentTag), desc)
			}
			if !sysOK {
				r.Violation(kind+"|approved-with-forbidden-system-attribute|"+sysShape, fmt.Sprintf("container creation approved with a system attribute that is not permitted (attributes in list order %v; chain metadata enabled: %v)", contentTag, e.metaOn), desc)
			}
		}
		if vf37IsEACL(kind) || kind == "createV2+eacl" {
			if !extendable {
				r.Violation(kind+"|eacl-approved-against-final-basic-acl", "eACL change approved although the container's basic ACL forbids extension", desc)
			}
			if touchesSys {
				r.Violation(kind+"|eacl-approved-touching-system-role", "eACL change approved although a record targets the system role", desc)
			}
		}
		if eaclAuth != nil && !eaclAuth.authorised() {
			r.Violation(kind+"|"+eaclAuth.Mode+"|eacl-part-approved-without-owner-authorisation",
				fmt.Sprintf("creation with eACL approved although the eACL part is not authorised by the owner: %s %v %v", eaclAuth.Mode, eaclAuth.Detail, eaclAuth.Why), desc)
		}
	} else {
		r.Count("refused", 1)
		ok := auth.authorised() && exists && policyOK && sysOK && (!(vf37IsEACL(kind) || kind == "createV2+eacl") || (extendable && !touchesSys)) && (eaclAuth == nil || eaclAuth.authorised())
		if ok {
			r.Count("refused_although_oracle_would_allow", 1)
			// which of the known stricter node rules explains the refusal ("unexplained" = none)
			joined := strings.Join(contentTag, ",") + "," + strings.Join(auth.Detail, ",")
			if eaclAuth != nil {
				joined += "," + strings.Join(eaclAuth.Detail, ",")
			}
			rule := "unexplained"
			switch {
			case strings.Contains(joined, "policy=REP 1 EC 2/1"):
				rule = "rep+ec-mix"
			case strings.Contains(joined, "policy=EC 2/1") && !allowEC:
				rule = "ec-switch-off"
			case strings.Contains(joined, "request-not-signed-by-session-key"):
				rule = "request-not-signed-by-session-key"
			case strings.Contains(joined, "eacl-for-other-container"):
				rule = "eacl-of-createV2-names-other-container"
			}
			r.Count("refused_although_allowed_because_"+rule, 1)
			// attribute lists are summarised by their shape to keep this set small
			tags := slices.DeleteFunc(slices.Clone(contentTag), func(t string) bool { return strings.HasPrefix(t, "attr=") })
			if sysShape != "" {
				tags = append(tags, "sysattrs="+sysShape)
			}
			r.Seen("refused_although_allowed_shapes", mode+"|"+strings.Join(auth.Detail, ",")+"|"+strings.Join(tags, ","))
		}
	}
	r.Distinct(fmt.Sprintf("%s|%s|%v|%v|%v|%v|%v|%v|%v|%v|%v|%s", kind, mode, auth.authorised(), auth.Why, exists, policyOK, sysOK, extendable, touchesSys, approved, e.metaOn, sysShape))
	if qi < 2 && wi < 3 {
		r.Sample(desc)
	}
}

var (
	_ = sdkcontainer.Container{}
	_ = sdknetmap.PlacementPolicy{}
)
