//go:build verif

package innerring

// Membership histories of the C35 monitor: one node with a *caching* inner ring indexer
// (cache timeout far beyond the run time, so the cache only ends when the history ends it
// logically) lives through several steps.  Between steps the chain changes the committee,
// the list lookups start/stop failing (lost RPC connection) and the index cache is ended
// the two ways the real node ends it (Server.restartFSChain's reset after a connection
// loss; the timeout running out).  At every step a live event is delivered and the chain
// calls are judged by a membership oracle that knows nothing about the indexer's inside.

import (
	"errors"
	"fmt"
	"math/rand/v2"
	"slices"
	"sort"
	"strings"
	"testing"
	"time"

	"github.com/nspcc-dev/neofs-node/internal/verifkit"
)

// vf35CacheTimeout is the indexer cache timeout of history nodes.  No run lasts that long:
// cached indexes end only through vf35Node.endIndexCache, i.e. at logical points.
const vf35CacheTimeout = 1000 * time.Hour

const (
	vf35FaultNone      = "none"
	vf35FaultIR        = "inner-ring-lookup-fails"
	vf35FaultCommittee = "committee-lookup-fails"
	vf35FaultBoth      = "both-lookups-fail"

	vf35KeepCache  = "kept"
	vf35ResetCache = "reset"   // innerRingIndexer.reset(), what restartFSChain does
	vf35AgedCache  = "aged-out" // the cache timeout has run out
)

var vf35Faults = []string{vf35FaultIR, vf35FaultCommittee, vf35FaultBoth}
var vf35Endings = []string{vf35ResetCache, vf35AgedCache}

// vf35HStep is one step of a history: the chain state it is delivered in and the event.
type vf35HStep struct {
	Member bool   `json:"truth_member"`  // the node's key is in the committee at this step
	InIR   bool   `json:"in_inner_ring"` // a non-member that is in the inner ring list
	Fault  string `json:"lookup_fault"`
	Cache  string `json:"index_cache"` // what happened to the index cache right before the step
	Event  string `json:"event"`
	ev     int

	Calls []string `json:"authority_calls,omitempty"`
	Judge string   `json:"oracle,omitempty"`
}

// endIndexCache ends the validity of the cached indexes.
func (n *vf35Node) endIndexCache(how string) {
	ix := n.srv.statusIndex
	switch how {
	case vf35ResetCache:
		ix.reset()
	case vf35AgedCache:
		// the same as waiting for two timeouts, without waiting
		ix.Lock()
		if !ix.lastAccess.IsZero() {
			ix.lastAccess = ix.lastAccess.Add(-2 * ix.timeout)
		}
		ix.Unlock()
	}
}

// vf35ApplyStep makes the chain answer according to the step.
func vf35ApplyStep(c *vf35Case, st vf35HStep, rng *rand.Rand) {
	var committee, ir = slices.Clone(c.others[:4]), append(slices.Clone(c.others[:4]), c.extra)
	switch {
	case st.Member:
		committee = vf35At(c.others[:3], rng.IntN(4), c.k())
		ir = append(slices.Clone(committee), c.extra)
	case st.InIR:
		ir = vf35At(ir, rng.IntN(len(ir)+1), c.k())
	}
	c.ch.lock(func() {
		c.ch.committee, c.ch.irKeys = committee, ir
		c.ch.irErr, c.ch.committeeErr = nil, nil
		if st.Fault == vf35FaultIR || st.Fault == vf35FaultBoth {
			c.ch.irErr = errors.New("verif: injected inner ring list failure")
		}
		if st.Fault == vf35FaultCommittee || st.Fault == vf35FaultBoth {
			c.ch.committeeErr = errors.New("verif: injected committee failure")
		}
	})
}

// vf35Justified is the membership oracle for step i.  A node may use alphabet authority at
// step i when it is a member now, or - because the index cache is part of the design and
// the statement does not bound its age - when membership could have been *observed* since
// the cache last ended: at some step of the current cache period (the step that ended the
// cache included: ending precedes delivery) the key was in the committee and the committee
// lookup worked.  Nothing else can tell a node that it is a member.
func vf35Justified(h []vf35HStep, i int) (now, cached bool) {
	if h[i].Member {
		return true, false
	}
	for j := i; j >= 0; j-- {
		if h[j].Member && h[j].Fault != vf35FaultCommittee && h[j].Fault != vf35FaultBoth {
			return false, true
		}
		if j == 0 || h[j].Cache != vf35KeepCache {
			break
		}
	}
	return false, false
}

// vf35Shape names the class of history a judged step belongs to.
func vf35Shape(h []vf35HStep, i int) string {
	was := "never-member"
	for j := 0; j < i; j++ {
		if h[j].Member {
			was = "former-member"
		}
	}
	failedBefore, ended := false, "empty-cache"
	for j := i; j >= 0; j-- {
		if j < i && h[j].Fault != vf35FaultNone {
			failedBefore = true
		}
		if j > 0 && h[j].Cache != vf35KeepCache {
			ended = "cache-" + h[j].Cache
			break
		}
		if j == 0 {
			break
		}
	}
	s := was + "|" + ended
	if failedBefore {
		s += "|after-failed-lookup"
	}
	if h[i].Fault != vf35FaultNone {
		s += "|while-" + h[i].Fault
	}
	return s
}

// ---------------------------------------------------------------------------------------
// history generators

// vf35Skeletons: the stale-authority windows, each for every event type.
//
//	A  a node that never was a member meets failing lookups from its first lookup on, then
//	   the chain is reachable again;
//	B  a member leaves the committee; the cache ends while the lookups fail; more events
//	   follow while they fail and after they work again;
//	C  a member leaves the committee and the cache ends with a healthy chain.
func vf35Skeletons(nEvents int, evIdx []int, rng func(string, int) *rand.Rand) (res [][]vf35HStep, kinds []string) {
	for _, e := range evIdx {
		for fi, f := range vf35Faults {
			g := rng("skeleton/A", e*8+fi)
			inIR := g.IntN(3) > 0
			res = append(res, []vf35HStep{
				{Member: false, InIR: inIR, Fault: f, Cache: vf35KeepCache, ev: e},
				{Member: false, InIR: inIR, Fault: f, Cache: vf35KeepCache, ev: e},
				{Member: false, InIR: inIR, Fault: vf35FaultNone, Cache: vf35KeepCache, ev: e},
			})
			kinds = append(kinds, "A")
			for ci, end := range vf35Endings {
				g := rng("skeleton/B", (e*8+fi)*2+ci)
				inIR := g.IntN(3) > 0
				res = append(res, []vf35HStep{
					{Member: true, Fault: vf35FaultNone, Cache: vf35KeepCache, ev: e},
					{Member: false, InIR: inIR, Fault: f, Cache: end, ev: e},
					{Member: false, InIR: inIR, Fault: f, Cache: vf35KeepCache, ev: e},
					{Member: false, InIR: inIR, Fault: vf35FaultNone, Cache: vf35KeepCache, ev: e},
				})
				kinds = append(kinds, "B")
			}
		}
		for ci, end := range vf35Endings {
			g := rng("skeleton/C", e*2+ci)
			inIR := g.IntN(3) > 0
			res = append(res, []vf35HStep{
				{Member: true, Fault: vf35FaultNone, Cache: vf35KeepCache, ev: e},
				{Member: false, InIR: inIR, Fault: vf35FaultNone, Cache: end, ev: e},
				{Member: false, InIR: inIR, Fault: vf35FaultNone, Cache: vf35KeepCache, ev: e},
			})
			kinds = append(kinds, "C")
		}
	}
	_ = nEvents
	return
}

// vf35RandomHistory: 3..7 steps; membership flips, lookup faults, cache endings and events
// are drawn independently per step.
func vf35RandomHistory(g *rand.Rand, evIdx []int) []vf35HStep {
	n := 3 + g.IntN(5)
	member, inIR := g.IntN(2) == 0, g.IntN(3) > 0
	h := make([]vf35HStep, 0, n)
	for i := 0; i < n; i++ {
		if i > 0 && g.IntN(10) < 3 {
			member = !member
		}
		if g.IntN(10) < 2 {
			inIR = !inIR
		}
		st := vf35HStep{Member: member, InIR: inIR, Fault: vf35FaultNone, Cache: vf35KeepCache, ev: evIdx[g.IntN(len(evIdx))]}
		if g.IntN(2) == 0 {
			st.Fault = vf35Faults[g.IntN(len(vf35Faults))]
		}
		if i > 0 && g.IntN(2) == 0 {
			st.Cache = vf35Endings[g.IntN(len(vf35Endings))]
		}
		h = append(h, st)
	}
	return h
}

// ---------------------------------------------------------------------------------------

// vf35Histories runs the skeleton and the random histories.  false = stop the test (the
// run has been marked inconclusive).
func vf35Histories(t testing.TB, r *verifkit.Run, events []vf35Event) bool {
	var evIdx []int
	for i, ev := range events {
		if !ev.control {
			evIdx = append(evIdx, i)
		}
	}
	plans, kinds := vf35Skeletons(len(events), evIdx, r.Rand)
	nRandom := r.Pick(150, 4000)
	for i := 0; i < nRandom; i++ {
		plans = append(plans, vf35RandomHistory(r.Rand("history/plan", i), evIdx))
		kinds = append(kinds, "random")
	}

	for hi, plan := range plans {
		rng := r.Rand("history/run", hi)
		c := vf35NewCaseTimeout(t, rng, vf35CacheTimeout)
		c.ch.mainAlphabet = append(slices.Clone(c.others[1:4]), vf35Key(rng).PublicKey())
		c.n.srv.predefinedValidators = slices.Clone(c.others[:4])
		for i := range plan {
			plan[i].Event = events[plan[i].ev].name
		}
		desc := map[string]any{"history_kind": kinds[hi], "history_index": hi, "node_key": c.k().StringCompressed(),
			"indexer_cache_timeout": vf35CacheTimeout.String(), "alphabet_contracts": c.nc}
		r.Count("histories_"+kinds[hi], 1)

		var sig []string
		nontrivial, ok := false, true
		for i := range plan {
			st := &plan[i]
			ev := events[st.ev]
			vf35ApplyStep(c, *st, rng)
			if i > 0 {
				c.n.endIndexCache(st.Cache)
			}
			desc["steps"] = plan[:i+1]
			desc["failing_step"] = i

			var fire func()
			if r.Guard(desc, func() { fire = ev.deliver(c) }) {
				ok = false
				break
			}
			c.ch.take()
			if r.Guard(desc, fire) {
				ok = false
				break
			}
			if !c.n.settle(r) {
				c.n.close()
				return false
			}
			var auth []vf35Call
			for _, cl := range c.ch.take() {
				if vf35Authority(cl) {
					auth = append(auth, cl)
				}
			}
			r.Count("history_steps", 1)
			r.Count("history_steps_cache_"+st.Cache, 1)
			r.Count("history_steps_fault_"+st.Fault, 1)

			names := map[string]bool{}
			var sigs []string
			for _, cl := range auth {
				names[cl.String()] = true
				sigs = append(sigs, cl.Sig())
			}
			for nm := range names {
				st.Calls = append(st.Calls, nm)
			}
			sort.Strings(st.Calls)

			now, cached := vf35Justified(plan, i)
			shape := vf35Shape(plan, i)
			switch {
			case now:
				st.Judge = "member"
				if len(auth) > 0 && st.Fault == vf35FaultNone {
					r.Count("history_member_steps_acted", 1)
				}
				sort.Strings(sigs)
				for k := 1; k < len(sigs); k++ {
					if sigs[k] == sigs[k-1] {
						r.Violation("history|member|same-call-twice|"+ev.name+"|"+strings.SplitN(sigs[k], "/", 2)[0],
							fmt.Sprintf("alphabet member issued the identical chain call twice for one %q event (step %d of a membership history): %s", ev.name, i, sigs[k]), desc)
					}
				}
			case cached:
				// left the committee, but membership was observable within the current cache period
				st.Judge = "non-member, membership observable within the cache period: not judged"
				r.Count("history_steps_in_cache_period_after_leaving(not judged)", 1)
				if len(auth) > 0 {
					r.Count("history_steps_in_cache_period_after_leaving_acted(not judged)", 1)
				}
			default:
				st.Judge = "non-member, no membership observable since the cache ended: must not act"
				nontrivial = true
				r.Count("history_steps_judged_non_member", 1)
				r.Seen("history_shapes_judged", shape)
				if strings.Contains(shape, "after-failed-lookup") {
					r.Count("history_steps_judged_after_failed_lookup", 1)
				}
				if st.Fault != vf35FaultNone {
					r.Count("history_steps_judged_while_lookup_fails", 1)
				}
				if strings.HasPrefix(shape, "former-member") {
					r.Count("history_steps_judged_former_member", 1)
				}
				for _, nm := range st.Calls {
					r.Violation("stale-authority|"+shape+"|"+ev.name+"|"+nm,
						fmt.Sprintf("step %d of a membership history (%s): the node is not in the committee and could not have seen itself there since its index cache ended, yet it reacted to %q with %s", i, shape, ev.name, nm), desc)
				}
				if len(auth) == 0 {
					r.Count("history_steps_judged_silent", 1)
				}
			}
			sig = append(sig, fmt.Sprintf("%v/%v/%s/%s/%s/%v", st.Member, st.InIR, st.Fault, st.Cache, ev.name, st.Calls))
		}
		c.n.close()
		if !ok {
			continue
		}
		r.Eval(1)
		if nontrivial {
			r.Distinct("history|" + strings.Join(sig, ";"))
		}
		if hi%97 == 0 {
			delete(desc, "failing_step")
			r.Sample(desc)
		}
	}

	// the situations the histories exist for must have been produced and the nodes must have been alive
	for _, k := range []string{"history_member_steps_acted", "history_steps_judged_non_member", "history_steps_judged_after_failed_lookup",
		"history_steps_judged_while_lookup_fails", "history_steps_judged_former_member"} {
		if r.Counter(k) == 0 {
			r.Inconclusive("membership histories never produced the situation counted by " + k)
		}
	}
	return true
}
