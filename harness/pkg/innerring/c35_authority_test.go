//go:build verif

package innerring

import (
	"context"
	"errors"
	"fmt"
	"math/big"
	"math/rand/v2"
	"slices"
	"sort"
	"strings"
	"testing"
	"time"

	"github.com/nspcc-dev/neo-go/pkg/core/native/noderoles"
	"github.com/nspcc-dev/neo-go/pkg/core/transaction"
	"github.com/nspcc-dev/neo-go/pkg/crypto/keys"
	"github.com/nspcc-dev/neo-go/pkg/network/payload"
	"github.com/nspcc-dev/neo-go/pkg/rpcclient/rolemgmt"
	"github.com/nspcc-dev/neo-go/pkg/util"
	"github.com/nspcc-dev/neo-go/pkg/vm/stackitem"
	"github.com/nspcc-dev/neofs-node/internal/verifkit"
	cntClient "github.com/nspcc-dev/neofs-node/pkg/morph/client/container"
	"github.com/nspcc-dev/neofs-node/pkg/morph/event"
	"github.com/nspcc-dev/neofs-node/pkg/innerring/processors/settlement"
	reputationcommon "github.com/nspcc-dev/neofs-node/pkg/services/reputation/common"
	cid "github.com/nspcc-dev/neofs-sdk-go/container/id"
	neofsecdsa "github.com/nspcc-dev/neofs-sdk-go/crypto/ecdsa"
	"github.com/nspcc-dev/neofs-sdk-go/eacl"
	sdkreputation "github.com/nspcc-dev/neofs-sdk-go/reputation"
)

// ---------------------------------------------------------------------------------------
// membership states

type vf35State struct {
	name   string
	member bool // ground truth: the node's key is in the FS chain committee
	apply  func(c *vf35Case)
}

type vf35Case struct {
	rng    *rand.Rand
	ch     *vf35Chain
	n      *vf35Node
	w      *vf35World
	others keys.PublicKeys // four more inner ring keys
	extra  *keys.PublicKey
	nc     int // number of alphabet contracts
}

func (c *vf35Case) k() *keys.PublicKey { return c.n.key.PublicKey() }

func vf35At(l keys.PublicKeys, i int, k *keys.PublicKey) keys.PublicKeys {
	r := slices.Clone(l)
	return slices.Insert(r, min(i, len(r)), k)
}

var vf35States = []vf35State{
	{"member", true, func(c *vf35Case) {
		c.ch.committee = vf35At(c.others[:3], c.rng.IntN(4), c.k())
		c.ch.irKeys = append(slices.Clone(c.ch.committee), c.extra)
	}},
	{"member-beyond-contracts", true, func(c *vf35Case) {
		c.ch.committee = vf35At(c.others[:4], 4, c.k()) // index 4 with 4 alphabet contracts
		c.ch.irKeys = slices.Clone(c.ch.committee)
	}},
	{"member-ir-lookup-fails", true, func(c *vf35Case) {
		c.ch.committee = vf35At(c.others[:3], c.rng.IntN(4), c.k())
		c.ch.irErr = errors.New("verif: injected inner ring list failure")
	}},
	{"inner-ring-only-low-index", false, func(c *vf35Case) {
		c.ch.committee = slices.Clone(c.others[:4])
		c.ch.irKeys = vf35At(c.others[:4], c.rng.IntN(4), c.k()) // inner ring index below the number of alphabet contracts
	}},
	{"inner-ring-only-high-index", false, func(c *vf35Case) {
		c.ch.committee = slices.Clone(c.others[:4])
		c.ch.irKeys = append(append(slices.Clone(c.others[:4]), c.extra), c.k()) // index 5
	}},
	{"outsider", false, func(c *vf35Case) {
		c.ch.committee = slices.Clone(c.others[:4])
		c.ch.irKeys = append(slices.Clone(c.others[:4]), c.extra) // both indexes -1
	}},
	{"non-member-ir-lookup-fails", false, func(c *vf35Case) {
		c.ch.committee = slices.Clone(c.others[:4])
		c.ch.irErr = errors.New("verif: injected inner ring list failure")
	}},
	{"non-member-committee-lookup-fails", false, func(c *vf35Case) {
		c.ch.committee = slices.Clone(c.others[:4])
		c.ch.committeeErr = errors.New("verif: injected committee failure")
		c.ch.irKeys = vf35At(c.others[:4], c.rng.IntN(4), c.k())
	}},
}

// ---------------------------------------------------------------------------------------
// events

type vf35Event struct {
	name    string
	covers  []string // registration keys "<notif|notary>/<contract>/<type>" this generator exercises
	deliver func(c *vf35Case) func()
	// notary requests can be redelivered (the same main transaction comes back from the
	// notary pool with more signatures)
	redeliver bool
	// control-service actions (operator commands) are not among the triggers the property
	// quantifies over (event handlers, timers, startup): what a non-member does there is
	// recorded as an observation only
	control bool
}

func vf35Bytes(rng *rand.Rand, n int) []byte {
	b := make([]byte, n)
	for i := range b {
		b[i] = byte(rng.UintN(256))
	}
	return b
}

func vf35BI(v int64) stackitem.Item { return stackitem.NewBigInteger(big.NewInt(v)) }
func vf35BA(b []byte) stackitem.Item { return stackitem.NewByteArray(b) }

func (c *vf35Case) notary(calls ...vf35Invoke) *payload.P2PNotaryRequest {
	return vf35Request(c.rng, c.ch.committee, c.n.proxy, vf35Script(calls...), vf35ReqOpts{NVB: c.ch.height + 20})
}

func (c *vf35Case) cnr() util.Uint160 { return c.n.srv.contracts.container }

func vf35Events() []vf35Event {
	notifFS := func(c *vf35Case, contract util.Uint160, name string, items ...stackitem.Item) func() {
		ev := vf35Notification(contract, name, util.Uint256{byte(c.rng.UintN(256)), 0x35}, items...)
		return func() { event.Verif35HandleNotification(c.n.fsL, ev) }
	}
	notifMain := func(c *vf35Case, contract util.Uint160, name string, items ...stackitem.Item) func() {
		ev := vf35Notification(contract, name, util.Uint256{byte(c.rng.UintN(256)), 0x36}, items...)
		return func() { event.Verif35HandleNotification(c.n.mainL, ev) }
	}
	nr := func(c *vf35Case, calls ...vf35Invoke) func() {
		req := c.notary(calls...)
		return func() { c.n.notaryFS(req) }
	}
	cs := func(c *vf35Case) *contracts { return c.n.srv.contracts }

	return []vf35Event{
		{name: "notification NewEpoch (netmap changed)", covers: []string{"notif/netmap/NewEpoch"}, deliver: func(c *vf35Case) func() {
			// the map differs from the one the processor cached at start => placement update path
			k := vf35Key(c.rng)
			c.ch.lock(func() { c.ch.nodes = append(c.ch.nodes, vf35NetmapNode(k, len(c.ch.nodes))) })
			c.w.NodeKeys = append(c.w.NodeKeys, k) // later generators of a history look node keys up here
			return notifFS(c, cs(c).netmap, "NewEpoch", vf35BI(int64(c.ch.epoch)+1))
		}},
		{name: "notification balance.Lock", covers: []string{"notif/balance/Lock"}, deliver: func(c *vf35Case) func() {
			return notifFS(c, cs(c).balance, "Lock", vf35BA(vf35Bytes(c.rng, 32)), vf35BA(vf35Bytes(c.rng, 20)), vf35BA(vf35Bytes(c.rng, 20)), vf35BI(1_0000_0000_0000), vf35BI(30))
		}},
		{name: "notification neofs.Deposit", covers: []string{"notif/neofs/Deposit"}, deliver: func(c *vf35Case) func() {
			return notifMain(c, cs(c).neofs, "Deposit", vf35BA(vf35Bytes(c.rng, 20)), vf35BI(5_0000_0000), vf35BA(vf35Bytes(c.rng, 20)), vf35BA(vf35Bytes(c.rng, 32)))
		}},
		{name: "notification neofs.Withdraw", covers: []string{"notif/neofs/Withdraw"}, deliver: func(c *vf35Case) func() {
			return notifMain(c, cs(c).neofs, "Withdraw", vf35BA(vf35Bytes(c.rng, 20)), vf35BI(3_0000_0000), vf35BA(vf35Bytes(c.rng, 32)))
		}},
		{name: "notification neofs.Cheque", covers: []string{"notif/neofs/Cheque"}, deliver: func(c *vf35Case) func() {
			return notifMain(c, cs(c).neofs, "Cheque", vf35BA(vf35Bytes(c.rng, 32)), vf35BA(vf35Bytes(c.rng, 20)), vf35BI(3_0000_0000), vf35BA(vf35Bytes(c.rng, 20)))
		}},
		{name: "notification neofs.SetConfig", covers: []string{"notif/neofs/SetConfig"}, deliver: func(c *vf35Case) func() {
			return notifMain(c, cs(c).neofs, "SetConfig", vf35BA(vf35Bytes(c.rng, 32)), vf35BA([]byte("MaxObjectSize")), vf35BA([]byte{0, 0, 1}))
		}},
		{name: "notification RoleManagement.Designation(NeoFSAlphabet)", covers: []string{"notif/designate/Designation"}, deliver: func(c *vf35Case) func() {
			return notifMain(c, rolemgmt.Hash, "Designation", vf35BI(int64(noderoles.NeoFSAlphabet)), vf35BI(int64(c.ch.height)), stackitem.NewArray(nil), stackitem.NewArray(nil))
		}},
		{name: "notary netmap.addNode", covers: []string{"notary/netmap/addNode"}, redeliver: true, deliver: func(c *vf35Case) func() {
			return nr(c, vf35Invoke{cs(c).netmap, "addNode", []any{vf35NetmapNode(vf35Key(c.rng), 9)}})
		}},
		{name: "notary netmap.updateState", covers: []string{"notary/netmap/updateState"}, redeliver: true, deliver: func(c *vf35Case) func() {
			return nr(c, vf35Invoke{cs(c).netmap, "updateState", []any{int64(1), c.w.NodeKeys[0].PublicKey().Bytes()}})
		}},
		{name: "notary container.put", covers: []string{"notary/container/put"}, redeliver: true, deliver: func(c *vf35Case) func() {
			cn := vf35Container(c.rng, c.w.OwnerID, vf35CnrOpts{})
			b := cn.Marshal()
			sig, pub := vf35SignRFC6979(c.w.Owner, b)
			return nr(c, vf35Invoke{c.cnr(), "put", []any{b, sig, pub, []byte{}}})
		}},
		{name: "notary container.putNamed", covers: []string{"notary/container/putNamed"}, redeliver: true, deliver: func(c *vf35Case) func() {
			cn := vf35Container(c.rng, c.w.OwnerID, vf35CnrOpts{Name: "mycnr", Zone: "container"})
			b := cn.Marshal()
			sig, pub := vf35SignRFC6979(c.w.Owner, b)
			return nr(c, vf35Invoke{c.cnr(), "putNamed", []any{b, sig, pub, []byte{}, "mycnr", "container"}})
		}},
		{name: "notary container.create", covers: []string{"notary/container/create"}, redeliver: true, deliver: func(c *vf35Case) func() {
			cn := vf35Container(c.rng, c.w.OwnerID, vf35CnrOpts{})
			b := cn.Marshal()
			sig, pub := vf35SignRFC6979(c.w.Owner, b)
			return nr(c, vf35Invoke{c.cnr(), "create", []any{b, sig, pub, []byte{}, "", "", false}})
		}},
		{name: "notary container.createV2", covers: []string{"notary/container/createV2"}, redeliver: true, deliver: func(c *vf35Case) func() {
			info := vf35CnrInfo(vf35Container(c.rng, c.w.OwnerID, vf35CnrOpts{}))
			cn, err := cntClient.ContainerFromStruct(*info)
			if err != nil {
				panic(err)
			}
			sig, pub := vf35SignRFC6979(c.w.Owner, cn.Marshal())
			return nr(c, vf35Invoke{c.cnr(), "createV2", []any{info, sig, pub, []byte{}}})
		}},
		{name: "notary container.delete", covers: []string{"notary/container/delete"}, redeliver: true, deliver: func(c *vf35Case) func() {
			// legacy delete has no verification script argument: the witness goes through the N3 script run
			sig := vf35Bytes(c.rng, 64)
			c.ch.lock(func() { c.ch.n3Verdict[string(sig)] = true })
			return nr(c, vf35Invoke{c.cnr(), "delete", []any{c.w.CnrID[:], sig, []byte{}}})
		}},
		{name: "notary container.remove", covers: []string{"notary/container/remove"}, redeliver: true, deliver: func(c *vf35Case) func() {
			sig, pub := vf35SignRFC6979(c.w.Owner, c.w.CnrID[:])
			return nr(c, vf35Invoke{c.cnr(), "remove", []any{c.w.CnrID[:], sig, pub, []byte{}}})
		}},
		{name: "notary container.setEACL", covers: []string{"notary/container/setEACL"}, redeliver: true, deliver: func(c *vf35Case) func() {
			t := vf35EACL(c.w.CnrID, eacl.RoleOthers, "").Marshal()
			sig, pub := vf35SignRFC6979(c.w.Owner, t)
			return nr(c, vf35Invoke{c.cnr(), "setEACL", []any{t, sig, pub, []byte{}}})
		}},
		{name: "notary container.putEACL", covers: []string{"notary/container/putEACL"}, redeliver: true, deliver: func(c *vf35Case) func() {
			t := vf35EACL(c.w.CnrID, eacl.RoleOthers, "").Marshal()
			sig, pub := vf35SignRFC6979(c.w.Owner, t)
			return nr(c, vf35Invoke{c.cnr(), "putEACL", []any{t, sig, pub, []byte{}}})
		}},
		{name: "notary container.putReport", covers: []string{"notary/container/putReport"}, redeliver: true, deliver: func(c *vf35Case) func() {
			// the reporter must be a container node: with REP 1 over the whole map try every node key until one matches
			nm, err := c.n.srv.netmapClient.NetMap()
			if err != nil {
				panic(err)
			}
			vv, err := nm.ContainerNodes(c.w.Cnr.PlacementPolicy(), c.w.CnrID)
			if err != nil || len(vv) == 0 || len(vv[0]) == 0 {
				panic(fmt.Sprint("harness: no container nodes: ", err))
			}
			return nr(c, vf35Invoke{c.cnr(), "putReport", []any{c.w.CnrID[:], int64(1000), int64(10), vv[0][0].PublicKey()}})
		}},
		{name: "notary container.setAttribute", covers: []string{"notary/container/setAttribute"}, redeliver: true, deliver: func(c *vf35Case) func() {
			until := time.Now().Add(time.Hour).Unix()
			sig, pub := vf35SignRFC6979(c.w.Owner, vf35AttrSetSigned(c.w.CnrID, "CORS", "x", until))
			return nr(c, vf35Invoke{c.cnr(), "setAttribute", []any{c.w.CnrID[:], "CORS", "x", until, sig, pub, []byte{}}})
		}},
		{name: "notary container.removeAttribute", covers: []string{"notary/container/removeAttribute"}, redeliver: true, deliver: func(c *vf35Case) func() {
			until := time.Now().Add(time.Hour).Unix()
			sig, pub := vf35SignRFC6979(c.w.Owner, vf35AttrRemoveSigned(c.w.CnrID, "CORS", until))
			return nr(c, vf35Invoke{c.cnr(), "removeAttribute", []any{c.w.CnrID[:], "CORS", until, sig, pub, []byte{}}})
		}},
		{name: "notary reputation.put", covers: []string{"notary/reputation/put"}, redeliver: true, deliver: func(c *vf35Case) func() {
			peerKey := c.w.NodeKeys[0]
			var peer sdkreputation.PeerID
			peer.SetPublicKey(peerKey.PublicKey().Bytes())
			epoch := c.ch.epoch - 1
			mm, err := reputationcommon.NewManagerBuilder(reputationcommon.ManagersPrm{NetMapSource: c.n.srv.netmapClient}).BuildManagers(epoch, peer)
			if err != nil || len(mm) == 0 {
				panic(fmt.Sprint("harness: managers: ", err))
			}
			var mk *keys.PrivateKey
			for _, k := range c.w.NodeKeys {
				if slices.Equal(k.PublicKey().Bytes(), mm[0].PublicKey()) {
					mk = k
				}
			}
			var mng sdkreputation.PeerID
			mng.SetPublicKey(mk.PublicKey().Bytes())
			var tr sdkreputation.Trust
			tr.SetPeer(peer)
			tr.SetValue(0.5)
			var gt sdkreputation.GlobalTrust
			gt.Init()
			gt.SetManager(mng)
			gt.SetTrust(tr)
			if err := gt.Sign(neofsecdsa.Signer(mk.PrivateKey)); err != nil {
				panic(err)
			}
			return nr(c, vf35Invoke{cs(c).reputation, "put", []any{int64(epoch), peerKey.PublicKey().Bytes(), gt.Marshal()}})
		}},
		{name: "timer epoch tick", deliver: func(c *vf35Case) func() {
			return func() { c.n.srv.netmapProcessor.HandleNewEpochTick() }
		}},
		{name: "timer basic income", deliver: func(c *vf35Case) func() {
			return func() { c.n.settlement.HandleBasicIncomeEvent(settlement.NewBasicIncomeEvent(c.ch.epoch - 1)) }
		}},
		{name: "startup vote for predefined validators", deliver: func(c *vf35Case) func() {
			return func() {
				_ = c.n.srv.voteForFSChainValidator(context.Background(), c.n.srv.predefinedValidators, nil)
			}
		}},
		{name: "startup notary deposits", deliver: func(c *vf35Case) func() {
			return func() {
				_ = c.n.srv.depositMainNotary(context.Background())
				_ = c.n.srv.depositFSNotary(context.Background())
			}
		}},
		{name: "control RequestNotary(newEpoch)", control: true, deliver: func(c *vf35Case) func() {
			return func() { _, _ = c.n.srv.RequestNotary("newEpoch") }
		}},
		{name: "control RequestNotary(setConfig)", control: true, deliver: func(c *vf35Case) func() {
			return func() { _, _ = c.n.srv.RequestNotary("setConfig", []byte("MaxObjectSize"), []byte("1024")) }
		}},
		{name: "control RequestNotary(removeNode)", control: true, deliver: func(c *vf35Case) func() {
			return func() { _, _ = c.n.srv.RequestNotary("removeNode", c.w.NodeKeys[0].PublicKey().Bytes()) }
		}},
		{name: "control SignNotary", control: true, deliver: func(c *vf35Case) func() {
			req := c.notary(vf35Invoke{c.n.srv.contracts.netmap, "newEpoch", []any{int64(c.ch.epoch) + 1}})
			h := req.MainTransaction.Hash()
			c.ch.lock(func() { c.ch.rawNotary[h] = req.MainTransaction })
			return func() { _ = c.n.srv.SignNotary(h) }
		}},
	}
}

// vf35Registered lists what the processors registered: "<notif|notary>/<contract name>/<type>".
func vf35Registered(n *vf35Node) []string {
	cs := n.srv.contracts
	cname := map[util.Uint160]string{cs.netmap: "netmap", cs.balance: "balance", cs.container: "container", cs.reputation: "reputation", cs.neofs: "neofs", rolemgmt.Hash: "designate"}
	set := map[string]bool{}
	for _, p := range n.procs {
		for _, h := range p.ListenerNotificationHandlers() {
			set["notif/"+cname[h.ScriptHash()]+"/"+h.GetType().String()] = true
		}
		for _, h := range p.ListenerNotaryHandlers() {
			set["notary/"+cname[h.ScriptHash()]+"/"+h.RequestType().String()] = true
		}
		for _, h := range p.TimersHandlers() {
			set["timer/"+cname[h.ScriptHash()]+"/"+h.GetType().String()] = true
		}
	}
	res := make([]string, 0, len(set))
	for k := range set {
		res = append(res, k)
	}
	sort.Strings(res)
	return res
}

// vf35Authority tells whether a recorded chain call needs alphabet authority.  Notary
// deposits are plain GAS transfers from the node's own account to the Notary contract
// and are made by every inner ring node.
func vf35Authority(c vf35Call) bool {
	return c.Op != "DepositNotary" && c.Op != "DepositEndlessNotary"
}

func vf35NewCase(t testing.TB, rng *rand.Rand) *vf35Case {
	return vf35NewCaseTimeout(t, rng, 0)
}

func vf35NewCaseTimeout(t testing.TB, rng *rand.Rand, indexerTimeout time.Duration) *vf35Case {
	c := &vf35Case{rng: rng, ch: vf35NewChain(), nc: 4}
	for i := 0; i < 5; i++ {
		c.others = append(c.others, vf35Key(rng).PublicKey())
	}
	c.extra = c.others[4]
	c.ch.committee = slices.Clone(c.others[:4]) // provisional, the state sets the real lists
	c.ch.config["BasicIncomeRate"] = 5
	c.w = vf35NewWorld(rng, c.ch, 3)
	c.n = vf35NewNode(t, rng, c.ch, vf35NodeOpts{AlphabetContracts: c.nc, StorageEmission: 1_0000_0000, IndexerTimeout: indexerTimeout})
	return c
}

// TestVerif_C35 drives every registered event handler, the timers, the startup actions and
// the control-service actions of an inner ring node in every membership state and checks
// which chain calls come out.
func TestVerif_C35(t *testing.T) {
	r := verifkit.Start(t, "C35", "exploration")
	defer r.Finish()
	reps := r.Pick(5, 40)
	events := vf35Events()
	r.SetRule(fmt.Sprintf("%d membership states (member; member whose index is beyond the alphabet contracts; member with failing inner-ring lookup; non-member with low/high inner ring index; outsider; non-member with failing inner-ring / committee lookup) x %d live events (every notification and notary request type the processors register, epoch and basic-income timers, startup vote and deposits, control-service actions) x %d seeded repetitions on a fresh node each (real Server state + indexer, real processors and listeners, recording chain); notary requests are delivered twice; distinct = (state, event, multiset of chain calls) signatures.  Then membership histories on one node with a caching indexer (timeout never reached by wall clock): per step the committee may gain/lose the node, inner-ring/committee lookups start or stop failing, the index cache is ended (reset as after a connection loss / timeout run out) and a live event is delivered; skeletons (never-member meeting failed lookups; member that left while the refresh failed; member that left with healthy refresh) x every non-control event x fault kind x cache ending, plus %d seeded random histories of 3-7 steps; distinct = per-step (membership, fault, cache, event, calls) sequences that contain a judged non-member step", len(vf35States), len(events), reps, r.Pick(150, 4000)))
	r.Assume("alphabet member = the node's key is in the FS chain committee (what Server.IsAlphabet/AlphabetIndex look up); 'needs alphabet authority' = every chain-mutating morph client wrapper except the node's own notary deposits")
	r.Assume("the statement does not bound the age of the configured index cache: a node that left the committee is judged only once its cached indexes have ended (reset / timeout) or if it could never have seen itself in the committee during the current cache period")

	// inventory: every registered handler must have a generator
	{
		c := vf35NewCase(t, r.Rand("inventory", 0))
		covered := map[string]bool{}
		for _, e := range events {
			for _, k := range e.covers {
				covered[k] = true
			}
		}
		for _, reg := range vf35Registered(c.n) {
			r.Seen("registered_handlers", reg)
			if !covered[reg] {
				r.Inconclusive("registered handler without an event generator: " + reg)
			}
		}
		c.n.close()
	}

	live := map[string]int{}
	for si, st := range vf35States {
		for ei, ev := range events {
			for rep := 0; rep < reps; rep++ {
				rng := r.Rand(fmt.Sprintf("case/%d/%d", si, ei), rep)
				c := vf35NewCase(t, rng)
				st.apply(c)
				c.ch.mainAlphabet = append(slices.Clone(c.ch.committee[1:]), vf35Key(rng).PublicKey()) // one key rotated on the main chain
				c.n.srv.predefinedValidators = slices.Clone(c.ch.committee)
				desc := map[string]any{"state": st.name, "event": ev.name, "repetition": rep, "truth_member": st.member,
					"node_key": c.k().StringCompressed(), "committee": vf35KeysStr(c.ch.committee), "inner_ring": vf35KeysStr(c.ch.irKeys),
					"alphabet_contracts": c.nc, "ir_lookup_fails": c.ch.irErr != nil, "committee_lookup_fails": c.ch.committeeErr != nil}

				deliveries := 1
				if ev.redeliver {
					deliveries = 2
				}
				var fire func()
				if r.Guard(desc, func() { fire = ev.deliver(c) }) {
					c.n.close()
					continue
				}
				c.ch.take() // forget what the generator itself may have caused
				var all []vf35Call
				ok := true
				for d := 0; d < deliveries && ok; d++ {
					if r.Guard(desc, fire) {
						ok = false
						break
					}
					if !c.n.settle(r) {
						c.n.close()
						return
					}
					calls := c.ch.take()
					if d == 1 {
						for _, cl := range calls {
							if vf35Authority(cl) {
								r.Violation("redelivery|"+ev.name+"|"+cl.String(), fmt.Sprintf("the same notary request delivered a second time made the node act again: %s", cl.String()), desc)
							}
						}
					}
					all = append(all, calls...)
				}
				c.n.close()
				if !ok {
					continue
				}
				r.Eval(1)

				var sigs, names []string
				nAuth := 0
				for _, cl := range all {
					names = append(names, cl.String())
					if vf35Authority(cl) {
						nAuth++
						sigs = append(sigs, cl.Sig())
					} else {
						r.Count("own_deposit_calls", 1)
					}
				}
				sort.Strings(names)
				desc["chain_calls"] = names
				r.Count("chain_calls_recorded", len(all))
				for _, nm := range names {
					r.Seen("call_kinds_seen", nm)
				}

				if !st.member {
					r.Count("cases_non_member", 1)
					seen := map[string]bool{}
					for _, cl := range all {
						if vf35Authority(cl) && !seen[cl.String()] {
							seen[cl.String()] = true
							if ev.control {
								r.Seen("observed_outside_quantifier(control service action by non-member)", st.name+": "+ev.name+" -> "+cl.String())
								continue
							}
							r.Violation("non-member|"+st.name+"|"+ev.name+"|"+cl.String(),
								fmt.Sprintf("node outside the alphabet (state %q) reacted to %q with %s", st.name, ev.name, cl.String()), desc)
						}
					}
					if nAuth == 0 {
						r.Count("cases_non_member_silent", 1)
					}
				} else {
					r.Count("cases_member", 1)
					if nAuth > 0 {
						r.Count("cases_member_acted", 1)
						if st.name == "member" {
							live[ev.name]++
						}
					}
					sort.Strings(sigs)
					for i := 1; i < len(sigs); i++ {
						if sigs[i] == sigs[i-1] {
							r.Violation("member|same-call-twice|"+ev.name+"|"+strings.SplitN(sigs[i], "/", 2)[0],
								fmt.Sprintf("alphabet member issued the identical chain call twice for one %q event: %s", ev.name, sigs[i]), desc)
						}
					}
				}
				r.Distinct(fmt.Sprintf("%s|%s|%v", st.name, ev.name, names))
				if rep == 0 && (si == 0 || si == 5) && ei%7 == 0 {
					r.Sample(desc)
				}
			}
		}
	}
	for _, ev := range events {
		if ev.name == "startup notary deposits" {
			continue // no authority call expected from it in any state
		}
		if live[ev.name] == 0 {
			r.Inconclusive("event never led to a chain call even for an alphabet member (generator not live): " + ev.name)
		}
		r.Count("live_in_member_state: "+ev.name, live[ev.name])
	}

	// second part: membership histories on nodes with a caching indexer
	r.SetMaxSamples(9)
	vf35Histories(t, r, events)
}

func vf35KeysStr(l keys.PublicKeys) []string {
	res := make([]string, len(l))
	for i := range l {
		res[i] = l[i].StringCompressed()[:12]
	}
	return res
}

var _ = transaction.Signer{}
var _ = cid.ID{}
