//go:build verif

package objectcore

import (
	"bytes"
	"errors"
	"fmt"
	"math/big"
	"math/rand/v2"
	"sort"
	"strings"
	"testing"

	"github.com/nspcc-dev/neofs-node/internal/signed256"
	"github.com/nspcc-dev/neofs-node/internal/verifkit"
	"github.com/nspcc-dev/neofs-sdk-go/client"
	"github.com/nspcc-dev/neofs-sdk-go/object"
	oid "github.com/nspcc-dev/neofs-sdk-go/object/id"
)

// Reference reader of C05 (from the property text): an integer is an optionally signed,
// non-empty ASCII digit string whose value lies in [-(2^256-1), 2^256-1].

var vf05Max = new(big.Int).Sub(new(big.Int).Lsh(big.NewInt(1), 256), big.NewInt(1))

func vf05Classify(s string) (isInt bool, v *big.Int) {
	d := s
	neg := false
	if d != "" && (d[0] == '+' || d[0] == '-') {
		neg = d[0] == '-'
		d = d[1:]
	}
	if d == "" {
		return false, nil
	}
	v = new(big.Int)
	ten := big.NewInt(10)
	for i := 0; i < len(d); i++ {
		if d[i] < '0' || d[i] > '9' {
			return false, nil
		}
		v.Mul(v, ten)
		v.Add(v, big.NewInt(int64(d[i]-'0')))
	}
	if neg {
		v.Neg(v)
	}
	return true, v
}

func vf05InRange(v *big.Int) bool { return v.CmpAbs(vf05Max) <= 0 }

func vf05Valid(s string) (bool, *big.Int) {
	isInt, v := vf05Classify(s)
	return isInt && vf05InRange(v), v
}

func vf05StrClass(s string) string {
	isInt, v := vf05Classify(s)
	switch {
	case !isInt:
		if len(s) > 1 && (s[0] == '+' || s[0] == '-') && (s[1] == '+' || s[1] == '-') {
			return "double-sign"
		}
		if s == "" || s == "+" || s == "-" {
			return "no-digits"
		}
		return "malformed"
	case !vf05InRange(v):
		return "out-of-range"
	}
	c := "int"
	if s[0] == '+' {
		c += "+plus"
	} else if s[0] == '-' {
		c += "+minus"
	}
	if d := strings.TrimLeft(s, "+-"); len(d) > 1 && d[0] == '0' {
		c += "+zeros"
	}
	if v.CmpAbs(vf05Max) == 0 {
		c += "+extreme"
	}
	return c
}

// vf05Strings: sign prefixes x leading zeros x digit bodies x range neighbours x foreign
// characters (same construction as the signed256 part, smaller).
func vf05Strings(rng *rand.Rand, nRandom int) []string {
	var out []string
	bodies := []string{"0", "1", "5", "9", "10", "42", "18446744073709551615", "18446744073709551616",
		"9999999999999999999", "10000000000000000000", "99999999999999999999", "100000000000000000000",
		vf05Max.String(),
		new(big.Int).Sub(vf05Max, big.NewInt(1)).String(),
		new(big.Int).Add(vf05Max, big.NewInt(1)).String(),
		new(big.Int).Add(vf05Max, big.NewInt(2)).String(),
		new(big.Int).Mul(vf05Max, big.NewInt(10)).String(),
		"2" + vf05Max.String()[1:], "1" + strings.Repeat("0", 77), "1" + strings.Repeat("0", 78), strings.Repeat("9", 77), strings.Repeat("9", 78), strings.Repeat("9", 79)}
	for l := 1; l <= 80; l += 1 + rng.IntN(3) {
		b := make([]byte, l)
		for i := range b {
			b[i] = byte('0' + rng.IntN(10))
		}
		if b[0] == '0' {
			b[0] = '1'
		}
		bodies = append(bodies, string(b))
	}
	prefixes := []string{"", "+", "-", "++", "--", "+-", "-+", " ", " +", "+ ", "- ", "0x", "0+", "0-", "+0+", "-0-", "−"}
	zeros := []string{"", "0", "00", strings.Repeat("0", 19), strings.Repeat("0", 70)}
	suffixes := []string{" ", "\n", "_", "-", "+", "e1", ".0", "\x00"}
	for _, b := range bodies {
		for _, p := range prefixes {
			for _, z := range zeros {
				out = append(out, p+z+b)
			}
		}
		for _, s := range suffixes {
			out = append(out, b+s, "-"+b+s, "+"+b+s)
		}
	}
	out = append(out, "", "+", "-", "++", "--", "+-", "-+", " ", "0", "+0", "-0", "00", "+00", "-00", "-+0", "++0", "++5", "-+5", "+-5", "--5", "5-", "5+",
		"1_0", "1_000", "0x1", "0x10", "0b1", "0o7", " 1", "1 ", "１", "٣", "१२", "1e3", "1.0", "1,000", "+_1", "_1", "1__0", "\x001", "1\x00", "+\x00", "Inf", "NaN")
	foreign := []byte{'+', '-', '_', ' ', '.', 'a', '/', ':', 0, 0xff}
	for i := 0; i < nRandom; i++ {
		b := bodies[rng.IntN(len(bodies))]
		s := []string{"", "+", "-"}[rng.IntN(3)] + zeros[rng.IntN(3)] + b
		switch rng.IntN(3) {
		case 0:
			out = append(out, s)
		case 1:
			pos := rng.IntN(len(s) + 1)
			out = append(out, s[:pos]+string(foreign[rng.IntN(len(foreign))])+s[pos:])
		default:
			k := []int{19, 38, 57, 76, 20, 18, 1, 0}[rng.IntN(8)]
			if k > len(s) {
				k = len(s)
			}
			pos := len(s) - k
			out = append(out, s[:pos]+string(foreign[rng.IntN(len(foreign))])+s[pos:])
		}
	}
	return out
}

func vf05CheckReader(r *verifkit.Run, place, s string, accepted bool, got *big.Int) {
	want, v := vf05Valid(s)
	desc := map[string]string{"place": place, "input": s}
	switch {
	case accepted && !want:
		r.Violation(place+"|accepts|"+vf05StrClass(s), fmt.Sprintf("%s accepts %q (read as %v); it is not an optionally signed decimal number in range", place, s, got), desc)
	case !accepted && want:
		r.Violation(place+"|rejects|"+vf05StrClass(s), fmt.Sprintf("%s rejects the decimal integer %q", place, s), desc)
	case accepted && got != nil && got.Cmp(v) != 0:
		r.Violation(place+"|wrong-value|"+vf05StrClass(s), fmt.Sprintf("%s reads %q as %s", place, s, got), desc)
	}
}

// vf05KeyToBig turns a 33-byte index key into a number using the codec (whose own
// round-trip/order obligations are monitored by the signed256 part).
func vf05KeyToBig(b []byte) (*big.Int, error) {
	n, err := signed256.DecodeBytes(b)
	if err != nil {
		return nil, err
	}
	ok, v := vf05Classify(n.String())
	if !ok {
		return nil, fmt.Errorf("codec printed %q", n.String())
	}
	return v, nil
}

var vf05NumOps = []object.SearchMatchType{object.MatchNumGT, object.MatchNumGE, object.MatchNumLT, object.MatchNumLE}

func vf05OpHolds(x *big.Int, op object.SearchMatchType, v *big.Int) bool {
	c := x.Cmp(v)
	switch op {
	case object.MatchNumGT:
		return c > 0
	case object.MatchNumGE:
		return c >= 0
	case object.MatchNumLT:
		return c < 0
	default:
		return c <= 0
	}
}

// vf05CheckParseIntFilters feeds one numeric filter (alone, or second after a numeric
// primary on the same / another attribute) to parseIntFilters.
func vf05CheckParseIntFilters(r *verifkit.Run, s string, op object.SearchMatchType, shape int) {
	var fs object.SearchFilters
	idx := 0
	switch shape {
	case 1:
		fs.AddFilter("attr", "0", object.MatchNumGE)
		fs.AddFilter("attr", s, op)
		idx = 1
	case 2:
		fs.AddFilter("attr", "0", object.MatchNumGE)
		fs.AddFilter("other", s, op)
		idx = 1
	case 3:
		fs.AddFilter("plain", "x", object.MatchStringEqual)
		fs.AddFilter("attr", s, op)
		idx = 1
	default:
		fs.AddFilter("attr", s, op)
	}
	place := "objectcore.parseIntFilters"
	desc := map[string]any{"place": place, "input": s, "op": op.String(), "shape": shape}
	r.Guard(desc, func() {
		ofs, err := parseIntFilters(fs)
		want, v := vf05Valid(s)
		min := new(big.Int).Neg(vf05Max)
		switch {
		case errors.Is(err, ErrUnreachableQuery):
			// "valid but nothing can match": the value was read as an integer
			if !want {
				r.Violation(place+"|accepts|"+vf05StrClass(s), fmt.Sprintf("%s treats %q as an integer (unreachable query)", place, s), desc)
			} else if !(op == object.MatchNumGT && v.Cmp(vf05Max) == 0 || op == object.MatchNumLT && v.Cmp(min) == 0) {
				r.Violation(place+"|unreachable-but-satisfiable", fmt.Sprintf("%s declares %s %s unreachable", place, op, s), desc)
			}
			r.Count("parseIntFilters_unreachable", 1)
		case err != nil:
			vf05CheckReader(r, place, s, false, nil)
		default:
			if !want {
				vf05CheckReader(r, place, s, true, nil)
				return
			}
			f := ofs[idx]
			if f.AutoMatch {
				r.Count("parseIntFilters_automatch", 1)
				// every integer of the range must satisfy the filter
				if !(vf05OpHolds(min, op, v) && vf05OpHolds(vf05Max, op, v)) {
					r.Violation(place+"|automatch-not-tautology", fmt.Sprintf("%s marks %s %s as matching everything", place, op, s), desc)
				}
				return
			}
			if shape == 0 || shape == 1 {
				if f.Raw == nil {
					r.Violation(place+"|primary-raw-missing", fmt.Sprintf("%s produced no key for primary numeric filter %s %q", place, op, s), desc)
					return
				}
			}
			if f.Raw != nil {
				got, derr := vf05KeyToBig(f.Raw)
				if derr != nil {
					r.Violation(place+"|raw-undecodable", fmt.Sprintf("%s produced an undecodable key for %q: %v", place, s, derr), desc)
				} else {
					vf05CheckReader(r, place, s, true, got)
				}
			} else {
				// lazily parsed later by parseNumericFilterValue
				n, perr := parseNumericFilterValue(f)
				if perr != nil {
					r.Violation(place+"|accepted-then-unparsable", fmt.Sprintf("filter value %q accepted by %s but rejected by parseNumericFilterValue: %v", s, place, perr), desc)
				} else if _, g := vf05Classify(n.String()); g == nil || g.Cmp(v) != 0 {
					r.Violation(place+"|wrong-value|"+vf05StrClass(s), fmt.Sprintf("parseNumericFilterValue reads %q as %s", s, n.String()), desc)
				}
			}
		}
	})
}

func TestVerif_C05(t *testing.T) {
	r := verifkit.Start(t, "C05", "exploration")
	defer r.Finish()
	r.SetRule("readers of pkg/core/object: generated strings (sign prefixes x leading zeros x digit bodies of length 1..80 x range neighbours x foreign characters) through splitIntString+ParseNormalizedDecimal (parseNumericFilterValue), parseIntFilters (4 matchers x 4 filter shapes), CalculateCursor's numeric branch, compareIntStrings (pairs) and the numeric order of MergeSearchResults; distinct = string class x place, and (sign,size) classes of compared pairs")
	strs := vf05Strings(r.Rand("strings", 0), r.Pick(20000, 600000))
	r.Count("reader_strings", len(strs))
	var ints []string // valid integer spellings collected for the pair checks
	rs := r.Rand("shape", 0)
	for _, s := range strs {
		cls := vf05StrClass(s)
		r.Seen("string_classes", cls)
		r.Count("strings_"+cls, 1)
		desc := map[string]string{"input": s}
		if ok, _ := vf05Valid(s); ok && len(ints) < 6000 {
			ints = append(ints, s)
		}

		// (1) splitIntString alone only tokenises: it must reject everything that is not an
		// optionally signed digit string, and sign+digits must denote the same number.
		r.Guard(desc, func() {
			neg, digits, err := splitIntString(s)
			isInt, v := vf05Classify(s)
			place := "objectcore.splitIntString"
			if err == nil && !isInt {
				r.Violation(place+"|accepts|"+cls, fmt.Sprintf("%s accepts %q", place, s), desc)
			} else if err != nil && isInt {
				r.Violation(place+"|rejects|"+cls, fmt.Sprintf("%s rejects %q", place, s), desc)
			} else if err == nil {
				w := digits
				if neg {
					w = "-" + digits
				}
				if ok, g := vf05Classify(w); !ok || g.Cmp(v) != 0 || strings.ContainsAny(digits, "+-") {
					r.Violation(place+"|wrong-value|"+cls, fmt.Sprintf("%s(%q) = (%v, %q)", place, s, neg, digits), desc)
				}
			}
		})
		// (2) the reader used for secondary numeric filters: split + ParseNormalizedDecimal
		r.Guard(desc, func() {
			var fs object.SearchFilters
			fs.AddFilter("attr", s, object.MatchNumGE)
			n, err := parseNumericFilterValue(SearchFilter{SearchFilter: fs[0]})
			var got *big.Int
			if err == nil {
				_, got = vf05Classify(n.String())
				if got == nil {
					got = big.NewInt(0).SetBit(big.NewInt(0), 300, 1)
				}
			}
			vf05CheckReader(r, "objectcore.parseNumericFilterValue", s, err == nil, got)
		})
		// (3) parseIntFilters
		op := vf05NumOps[rs.IntN(4)]
		vf05CheckParseIntFilters(r, s, op, rs.IntN(4))
		if _, v := vf05Classify(s); v != nil && v.CmpAbs(vf05Max) == 0 {
			for _, o := range vf05NumOps { // the extremes hit the AutoMatch / unreachable branches
				vf05CheckParseIntFilters(r, s, o, 0)
			}
		}
		// (4) CalculateCursor rebuilds a numeric index key from an attribute value
		r.Guard(desc, func() {
			var fs object.SearchFilters
			fs.AddFilter("attr", "0", op)
			var id oid.ID
			id[0], id[31] = 7, 9
			c, err := CalculateCursor(&fs[0], client.SearchResultItem{ID: id, Attributes: []string{s}})
			var got *big.Int
			if err == nil {
				pref := append([]byte("attr"), 0)
				if len(c) != len(pref)+signed256.EncodedLen+oid.Size || !bytes.HasPrefix(c, pref) || !bytes.HasSuffix(c, id[:]) {
					r.Violation("objectcore.CalculateCursor|numeric-key-shape", fmt.Sprintf("cursor for numeric value %q is not attr|0|key|oid: %x", s, c), desc)
					return
				}
				var derr error
				if got, derr = vf05KeyToBig(c[len(pref) : len(pref)+signed256.EncodedLen]); derr != nil {
					r.Violation("objectcore.CalculateCursor|numeric-key-undecodable", fmt.Sprintf("cursor for numeric value %q carries an undecodable key: %v", s, derr), desc)
					return
				}
			}
			vf05CheckReader(r, "objectcore.CalculateCursor(numeric)", s, err == nil, got)
		})
		r.Distinct("str|" + cls)
		r.Eval(4)
	}

	// (5) compareIntStrings / numeric merge order on pairs
	nPairs := r.Pick(200000, 6000000)
	pr := r.Rand("pairs", 0)
	bad := []string{"", "+", "-", "++5", "-+5", "+-5", "--5", "5-", "1_0", " 1", "1 ", "0x10", "１", "1e3",
		new(big.Int).Add(vf05Max, big.NewInt(1)).String(), "-" + new(big.Int).Add(vf05Max, big.NewInt(1)).String(), "1" + strings.Repeat("0", 90)}
	pick := func() string {
		if pr.IntN(12) == 0 {
			return bad[pr.IntN(len(bad))]
		}
		return ints[pr.IntN(len(ints))]
	}
	for i := 0; i < nPairs; i++ {
		a, b := pick(), pick()
		if pr.IntN(6) == 0 { // same number, other spelling / neighbour
			if ok, v := vf05Valid(a); ok {
				d := new(big.Int).Add(v, big.NewInt(int64(pr.IntN(3)-1)))
				if vf05InRange(d) {
					b = d.String()
					if pr.IntN(2) == 0 {
						b = strings.Replace("+00"+b, "+00-", "-00", 1)
					}
				}
			}
		}
		desc := map[string]string{"a": a, "b": b}
		okA, va := vf05Valid(a)
		okB, vb := vf05Valid(b)
		r.Guard(desc, func() {
			c, err := compareIntStrings(a, b)
			place := "objectcore.compareIntStrings"
			switch {
			case err == nil && !(okA && okB):
				off := a
				if okA {
					off = b
				}
				r.Violation(place+"|accepts|"+vf05StrClass(off), fmt.Sprintf("%s(%q, %q) = %d without error; %q is not a decimal integer in range", place, a, b, c, off), desc)
			case err != nil && okA && okB:
				r.Violation(place+"|rejects|"+vf05StrClass(a)+"|"+vf05StrClass(b), fmt.Sprintf("%s(%q, %q) fails: %v", place, a, b, err), desc)
			case err == nil && c != va.Cmp(vb):
				r.Violation(place+"|wrong-order|"+vf05StrClass(a)+"|"+vf05StrClass(b), fmt.Sprintf("%s(%q, %q) = %d, numeric = %d", place, a, b, c, va.Cmp(vb)), desc)
			}
		})
		if okA && okB {
			if i%16 == 0 {
				r.Distinct(fmt.Sprintf("cmp|%d/%d|%d/%d|%d", va.Sign(), va.BitLen()/64, vb.Sign(), vb.BitLen()/64, va.Cmp(vb)))
			}
			r.Count("compare_valid_pairs", 1)
		} else {
			r.Count("compare_pairs_with_non_integer", 1)
		}
	}
	r.Eval(nPairs)

	// (6) numeric merge: sets sorted by (value, ID) must merge into one list sorted by (value, ID)
	nMerges := r.Pick(6000, 200000)
	mr := r.Rand("merge", 0)
	type it struct {
		v  *big.Int
		it client.SearchResultItem
	}
	less := func(a, b it) bool {
		if c := a.v.Cmp(b.v); c != 0 {
			return c < 0
		}
		return bytes.Compare(a.it.ID[:], b.it.ID[:]) < 0
	}
	for i := 0; i < nMerges; i++ {
		nSets := 2 + mr.IntN(3)
		var all []it
		sets := make([][]client.SearchResultItem, nSets)
		mores := make([]bool, nSets)
		for s := 0; s < nSets; s++ {
			var cur []it
			for k, n := 0, mr.IntN(4); k < n; k++ {
				str := ints[mr.IntN(len(ints))]
				if len(all) > 0 && mr.IntN(3) == 0 {
					str = all[mr.IntN(len(all))].it.Attributes[0] // equal primary values, order decided by ID
				}
				_, v := vf05Valid(str)
				cur = append(cur, it{v, client.SearchResultItem{ID: verifkit.RandOID(mr), Attributes: []string{str}}})
			}
			sort.Slice(cur, func(a, b int) bool { return less(cur[a], cur[b]) })
			for _, c := range cur {
				sets[s] = append(sets[s], c.it)
			}
			all = append(all, cur...)
		}
		if len(all) < 2 {
			continue
		}
		sort.Slice(all, func(a, b int) bool { return less(all[a], all[b]) })
		desc := map[string]any{"sets": sets}
		r.Guard(desc, func() {
			res, more, err := MergeSearchResults(1000, "attr", true, sets, mores)
			if err != nil {
				r.Violation("objectcore.MergeSearchResults|numeric-merge-fails", "numeric merge of integer attributes failed: "+err.Error(), desc)
				return
			}
			if more || len(res) != len(all) {
				r.Violation("objectcore.MergeSearchResults|numeric-merge-count", fmt.Sprintf("numeric merge returned %d of %d items (more=%v)", len(res), len(all), more), desc)
				return
			}
			for k := range res {
				if res[k].ID != all[k].it.ID {
					r.Violation("objectcore.MergeSearchResults|numeric-merge-order", fmt.Sprintf("numeric merge position %d: got value %q, want %q", k, res[k].Attributes[0], all[k].it.Attributes[0]), desc)
					return
				}
			}
		})
		r.Eval(1)
		r.Count("numeric_merges", 1)
		r.Count("numeric_merge_items", len(all))
		if i < 2 {
			r.Sample(map[string]any{"merged_values": func() []string {
				var o []string
				for _, a := range all {
					o = append(o, a.it.Attributes[0])
				}
				return o
			}()})
		}
	}

	// (7) IntBytes / RestoreIntAttribute round trip on valid spellings
	for _, s := range ints {
		_, v := vf05Valid(s)
		desc := map[string]string{"input": s}
		r.Guard(desc, func() {
			n, err := signed256.ParseDecimal(s)
			if err != nil {
				return // reported by the signed256 part
			}
			got, err := RestoreIntAttribute(IntBytes(&n))
			if ok, g := vf05Classify(got); err != nil || !ok || g.Cmp(v) != 0 {
				r.Violation("objectcore.RestoreIntAttribute|roundtrip", fmt.Sprintf("RestoreIntAttribute(IntBytes(%s)) = %q, %v", s, got, err), desc)
			}
		})
	}
	r.Count("restore_roundtrips", len(ints))
	r.Eval(len(ints))
}
