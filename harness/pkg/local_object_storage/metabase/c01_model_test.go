//go:build verif

package meta

// Reference status model of property C01 (object visibility).  Written from the property
// statement, not from the metabase code:
//
//   removed    – a stored tombstone targets the address
//   not found  – the address carries a (default) garbage mark, or its container is removed
//   expired    – the object is present and the epoch is past its expiration epoch
//   available  – otherwise
//   a live lock (stored, unexpired, not itself removed) overrides expiry and garbage marks
//   a child inherits a worse status from its parent (nesting <= 2)
//
// The statement does not order overlapping conditions (e.g. expired AND tombstoned) and
// does not say whether marks propagate to relatives; in those spots the model returns the
// *set* of statuses it accepts instead of inventing an order.  Marks the model cannot know
// (set implicitly by the store on relatives) are "unknown" and resolved per step from the
// garbage view.

import (
	"fmt"
	"math/rand/v2"
	"sort"
	"strconv"
	"strings"

	iec "github.com/nspcc-dev/neofs-node/internal/ec"
	"github.com/nspcc-dev/neofs-node/internal/verifkit"
	cid "github.com/nspcc-dev/neofs-sdk-go/container/id"
	"github.com/nspcc-dev/neofs-sdk-go/object"
	oid "github.com/nspcc-dev/neofs-sdk-go/object/id"
	"github.com/nspcc-dev/neofs-sdk-go/user"
)

// status classes (bit set: the model may accept several).
const (
	vf01Avail uint8 = 1 << iota
	vf01NotFound
	vf01Removed
	vf01Expired
)

func vf01SetString(s uint8) string {
	var p []string
	if s&vf01Avail != 0 {
		p = append(p, "avail")
	}
	if s&vf01NotFound != 0 {
		p = append(p, "notfound")
	}
	if s&vf01Removed != 0 {
		p = append(p, "removed")
	}
	if s&vf01Expired != 0 {
		p = append(p, "expired")
	}
	return strings.Join(p, "+")
}

type vf01Mark uint8

const (
	vf01MarkNone vf01Mark = iota
	vf01MarkDefault
	vf01MarkRedundant
	vf01MarkUnknown // possibly marked by the store itself (relatives of a marked/tombstoned object …)
)

// vf01Slot is one address of the universe with the static facts of the object that may
// live there (content addressing: an ID always denotes the same object).
type vf01Slot struct {
	Name   string
	Kind   string // regular, vparent, v2first, v2mid, v2last, v2link, v1mid, v1last, v1link, ecpart, tomb, lock, ghost
	ci     int
	id     oid.ID
	obj    *object.Object // nil when the address cannot be put directly (virtual parents, ghost)
	typ    object.Type
	par    oid.ID // parent ID carried in the header
	first  oid.ID
	split  string
	exp    int64 // -1: no expiration
	target oid.ID
	ecRule int
	ecIdx  int
	size   uint64
	root   bool
}

type vf01Universe struct {
	cnrs  []cid.ID
	slots [][]*vf01Slot
	byID  []map[oid.ID]*vf01Slot
}

func (u *vf01Universe) slot(ci int, id oid.ID) *vf01Slot { return u.byID[ci][id] }

func (u *vf01Universe) describe() []string {
	var res []string
	for ci := range u.slots {
		for _, s := range u.slots[ci] {
			d := fmt.Sprintf("%s kind=%s exp=%d", s.Name, s.Kind, s.exp)
			if !s.par.IsZero() {
				if p := u.slot(ci, s.par); p != nil {
					d += " parent=" + p.Name
				}
			}
			if !s.target.IsZero() {
				if p := u.slot(ci, s.target); p != nil {
					d += " target=" + p.Name
				}
			}
			if s.ecRule >= 0 {
				d += fmt.Sprintf(" ec=%d/%d", s.ecRule, s.ecIdx)
			}
			res = append(res, d)
		}
	}
	return res
}

func vf01Exp(rng *rand.Rand, p float64) int64 {
	if rng.Float64() < p {
		return int64(rng.IntN(10))
	}
	return -1
}

func vf01NewObj(rng *rand.Rand, cnr cid.ID, owner user.ID, size int, exp int64) *object.Object {
	o := verifkit.NewObject(rng, cnr, owner, size)
	if rng.IntN(3) == 0 {
		verifkit.AddAttr(o, "k"+strconv.Itoa(rng.IntN(2)), "v"+strconv.Itoa(rng.IntN(3)))
	}
	if exp >= 0 {
		verifkit.SetExpiration(o, uint64(exp))
	}
	return o
}

func vf01Header(rng *rand.Rand, cnr cid.ID, owner user.ID, size uint64, exp int64) *object.Object {
	o := vf01NewObj(rng, cnr, owner, 0, exp)
	o.SetPayload(nil)
	o.SetPayloadSize(size)
	return o
}

func vf01BuildUniverse(rng *rand.Rand) *vf01Universe {
	u := &vf01Universe{}
	nc := 2 + rng.IntN(2)
	owner := verifkit.RandUser(rng)
	for ci := 0; ci < nc; ci++ {
		cnr := verifkit.RandCID(rng)
		var sl []*vf01Slot
		add := func(name, kind string, o *object.Object, direct bool) *vf01Slot {
			s := &vf01Slot{Name: fmt.Sprintf("c%d.%s", ci, name), Kind: kind, ci: ci, id: o.GetID(), typ: o.Type(),
				par: o.GetParentID(), first: o.GetFirstID(), split: string(o.SplitID().ToV2()), exp: -1, ecRule: -1, ecIdx: -1,
				size: o.PayloadSize()}
			if direct {
				s.obj = o
			}
			for _, a := range o.Attributes() {
				switch a.Key() {
				case object.AttributeExpirationEpoch:
					if v, err := strconv.ParseUint(a.Value(), 10, 64); err == nil {
						s.exp = int64(v)
					}
				case iec.AttributeRuleIdx:
					s.ecRule, _ = strconv.Atoi(a.Value())
				case iec.AttributePartIdx:
					s.ecIdx, _ = strconv.Atoi(a.Value())
				}
			}
			if s.typ == object.TypeTombstone || s.typ == object.TypeLock {
				s.target = o.AssociatedObject()
			}
			s.root = s.typ == object.TypeRegular && !o.HasParent()
			sl = append(sl, s)
			return s
		}
		sz := func() int { return 1 + rng.IntN(64) }

		// plain regular objects
		add("r0", "regular", vf01NewObj(rng, cnr, owner, sz(), -1), true)
		add("r1", "regular", vf01NewObj(rng, cnr, owner, sz(), vf01Exp(rng, 0.9)), true)
		add("r2", "regular", vf01NewObj(rng, cnr, owner, sz(), vf01Exp(rng, 0.7)), true)

		// size-split object, V2 scheme (first ID links the chain)
		{
			pexp := vf01Exp(rng, 0.5)
			cexp := int64(-1)
			if rng.IntN(2) == 0 {
				cexp = pexp // children repeat the parent's expiration in some universes
			}
			s1, s2, s3 := sz(), sz(), sz()
			pv := vf01Header(rng, cnr, owner, uint64(s1+s2+s3), pexp)
			noID := *pv
			noID.ResetID()
			vf := vf01NewObj(rng, cnr, owner, s1, cexp)
			vf.SetParent(&noID)
			vm := vf01NewObj(rng, cnr, owner, s2, cexp)
			vm.SetFirstID(vf.GetID())
			vm.SetPreviousID(vf.GetID())
			vl := vf01NewObj(rng, cnr, owner, s3, cexp)
			vl.SetFirstID(vf.GetID())
			vl.SetPreviousID(vm.GetID())
			vl.SetParent(pv)
			vk := vf01NewObj(rng, cnr, owner, 8, cexp)
			vk.SetType(object.TypeLink)
			vk.SetFirstID(vf.GetID())
			vk.SetParent(pv)
			add("pv", "vparent", pv, false)
			add("vf", "v2first", vf, true)
			add("vm", "v2mid", vm, true)
			add("vl", "v2last", vl, true)
			add("vk", "v2link", vk, true)
		}
		// size-split object, V1 scheme (split ID links the chain)
		if rng.IntN(5) < 3 {
			sid := object.NewSplitIDFromV2(verifkit.RandBytes(rng, 16))
			s1, s2 := sz(), sz()
			pw := vf01Header(rng, cnr, owner, uint64(s1+s2), vf01Exp(rng, 0.4))
			wa := vf01NewObj(rng, cnr, owner, s1, -1)
			wa.SetSplitID(sid)
			wb := vf01NewObj(rng, cnr, owner, s2, -1)
			wb.SetSplitID(sid)
			wb.SetPreviousID(wa.GetID())
			wb.SetParent(pw)
			wk := vf01NewObj(rng, cnr, owner, 0, -1)
			wk.SetPayload(nil)
			wk.SetPayloadSize(0)
			wk.SetSplitID(sid)
			wk.SetParent(pw)
			wk.SetChildren(wa.GetID(), wb.GetID())
			add("pw", "vparent", pw, false)
			add("wa", "v1mid", wa, true)
			add("wb", "v1last", wb, true)
			add("wk", "v1link", wk, true)
		}
		ecPart := func(par *object.Object, rule, idx int) *object.Object {
			o := verifkit.NewObject(rng, cnr, owner, sz())
			o.SetParent(par)
			verifkit.AddAttr(o, iec.AttributeRuleIdx, strconv.Itoa(rule))
			verifkit.AddAttr(o, iec.AttributePartIdx, strconv.Itoa(idx))
			return o
		}
		// EC object
		{
			pe := vf01Header(rng, cnr, owner, uint64(sz()), vf01Exp(rng, 0.5))
			add("pe", "vparent", pe, false)
			add("e0", "ecpart", ecPart(pe, 0, 0), true)
			add("e1", "ecpart", ecPart(pe, 0, 1), true)
			add("e2", "ecpart", ecPart(pe, 0, 2), true)
			add("e3", "ecpart", ecPart(pe, 1, 0), true)
		}
		// nesting 2: EC parts of a size-split child of a root object
		if rng.IntN(2) == 0 {
			pn := vf01Header(rng, cnr, owner, uint64(sz()), vf01Exp(rng, 0.4))
			cn := vf01Header(rng, cnr, owner, uint64(sz()), -1)
			cn.SetParent(pn)
			cn.SetFirstID(verifkit.RandOID(rng))
			add("pn", "vparent", pn, false)
			add("cn", "vparent", cn, false)
			add("n0", "ecpart", ecPart(cn, 0, 0), true)
			add("n1", "ecpart", ecPart(cn, 0, 1), true)
		}
		ghost := verifkit.RandOID(rng)
		// targets of tombstones and locks are fixed per slot (same ID = same object)
		pick := func(kinds ...string) oid.ID {
			var c []oid.ID
			for _, s := range sl {
				for _, k := range kinds {
					if s.Kind == k {
						c = append(c, s.id)
					}
				}
			}
			if len(c) == 0 {
				return ghost
			}
			return c[rng.IntN(len(c))]
		}
		target := func(forLock bool) oid.ID {
			x := rng.IntN(100)
			switch {
			case x < 45:
				return pick("regular")
			case x < 70:
				return pick("vparent")
			case x < 88:
				return pick("v2first", "v2mid", "v2last", "v2link", "v1mid", "v1last", "v1link", "ecpart")
			case x < 94:
				return ghost
			default:
				return oid.ID{} // resolved below to a tombstone/lock slot
			}
		}
		type assoc struct {
			o    *object.Object
			lock bool
		}
		var as []assoc
		for i := 0; i < 3; i++ {
			as = append(as, assoc{vf01NewObj(rng, cnr, owner, 0, vf01Exp(rng, 0.5)), false})
		}
		for i := 0; i < 3; i++ {
			as = append(as, assoc{vf01NewObj(rng, cnr, owner, 0, vf01Exp(rng, 0.6)), true})
		}
		for i, a := range as {
			t := target(a.lock)
			// dense relations: second lock on the same target, second tombstone on the same
			// target, tombstone aimed at a locked target
			switch {
			case i == 1 && rng.IntN(4) == 0:
				t = as[0].o.AssociatedObject()
			case i == 4 && rng.IntN(3) == 0:
				t = as[3].o.AssociatedObject()
			case i == 3 && rng.IntN(3) == 0:
				t = as[2].o.AssociatedObject()
			}
			if t.IsZero() {
				t = as[(i+1+rng.IntN(len(as)-1))%len(as)].o.GetID() // another tombstone/lock object
			}
			if t == a.o.GetID() {
				t = ghost // an object cannot reference itself (IDs are content hashes)
			}
			a.o.SetPayload(nil)
			if a.lock {
				a.o.AssociateLocked(t)
				add("k"+strconv.Itoa(i-3), "lock", a.o, true)
			} else {
				a.o.AssociateDeleted(t)
				add("t"+strconv.Itoa(i), "tomb", a.o, true)
			}
		}
		g := &vf01Slot{Name: fmt.Sprintf("c%d.ghost", ci), Kind: "ghost", ci: ci, id: ghost, exp: -1, ecRule: -1, ecIdx: -1}
		sl = append(sl, g)

		m := map[oid.ID]*vf01Slot{}
		for _, s := range sl {
			m[s.id] = s
		}
		u.cnrs = append(u.cnrs, cnr)
		u.slots = append(u.slots, sl)
		u.byID = append(u.byID, m)
	}
	return u
}

// ---------------------------------------------------------------------------------------
// model state

type vf01CnrState struct {
	gone    bool
	touched bool // something was recorded for the container since its last physical cleanup
	stored  map[oid.ID]bool
	mark    map[oid.ID]vf01Mark
	// cover: removal actions (tombstone put, default garbage mark) that were accepted for an
	// ancestor of the object while the object was stored, see coverParts
	cover map[oid.ID][]vf01Cover
	// rhint: a redundant mark was requested for the object or an ancestor since it was
	// stored/revived (evidence only: how often removal actions meet such objects)
	rhint map[oid.ID]bool
}

// vf01Cover names one removal action that covered a stored part of a composite object.
type vf01Cover struct {
	by   oid.ID // tomb: ID of the tombstone object; otherwise ID of the marked ancestor
	tomb bool
}

func vf01NewCnrState() *vf01CnrState {
	return &vf01CnrState{stored: map[oid.ID]bool{}, mark: map[oid.ID]vf01Mark{}, cover: map[oid.ID][]vf01Cover{}, rhint: map[oid.ID]bool{}}
}

type vf01Model struct {
	u     *vf01Universe
	epoch uint64
	c     []*vf01CnrState
}

func vf01NewModel(u *vf01Universe) *vf01Model {
	m := &vf01Model{u: u}
	for range u.cnrs {
		m.c = append(m.c, vf01NewCnrState())
	}
	return m
}

// present: physically stored, or known through the parent header of a present object.
func (m *vf01Model) present(ci int, id oid.ID) bool {
	if m.c[ci].stored[id] {
		return true
	}
	return m.hasChildren(ci, id)
}

func (m *vf01Model) hasChildren(ci int, id oid.ID) bool {
	for _, s := range m.u.slots[ci] {
		if s.par == id && m.present(ci, s.id) {
			return true
		}
	}
	return false
}

func (m *vf01Model) presentIDs(ci int) []oid.ID {
	var res []oid.ID
	for _, s := range m.u.slots[ci] {
		if m.present(ci, s.id) {
			res = append(res, s.id)
		}
	}
	return res
}

// descendants present in the store (children by carried parent ID, and members of the
// split chain of such children), transitively.
func (m *vf01Model) relatives(ci int, id oid.ID) []oid.ID {
	seen := map[oid.ID]bool{}
	var walk func(p oid.ID, depth int)
	walk = func(p oid.ID, depth int) {
		if depth > 3 {
			return
		}
		for _, s := range m.u.slots[ci] {
			if s.par != p || seen[s.id] {
				continue
			}
			seen[s.id] = true
			walk(s.id, depth+1)
			for _, t := range m.u.slots[ci] {
				if seen[t.id] {
					continue
				}
				if (!s.first.IsZero() && (t.first == s.first || t.id == s.first)) || (s.split != "" && t.split == s.split) {
					seen[t.id] = true
					walk(t.id, depth+1)
				}
			}
		}
	}
	walk(id, 0)
	res := make([]oid.ID, 0, len(seen))
	for k := range seen {
		res = append(res, k)
	}
	return res
}

// parentOf mirrors what can be known from stored headers: the carried parent ID, or the
// parent ID carried by a present member of the same split chain.
func (m *vf01Model) parentOf(ci int, id oid.ID) oid.ID {
	s := m.u.slot(ci, id)
	if s == nil || !m.present(ci, id) {
		return oid.ID{}
	}
	if !s.par.IsZero() {
		return s.par
	}
	for _, t := range m.u.slots[ci] {
		if t.par.IsZero() || !m.present(ci, t.id) {
			continue
		}
		if (!s.first.IsZero() && t.first == s.first) || (s.first.IsZero() && s.split != "" && t.split == s.split) {
			return t.par
		}
	}
	return oid.ID{}
}

func (m *vf01Model) tombstoned(ci int, id oid.ID) bool {
	for _, s := range m.u.slots[ci] {
		if s.typ == object.TypeTombstone && s.target == id && m.c[ci].stored[s.id] {
			return true
		}
	}
	return false
}

// ancestors: the parent and grandparent the stored headers tell about (nesting <= 2).
func (m *vf01Model) ancestors(ci int, id oid.ID) []oid.ID {
	var res []oid.ID
	for p := m.parentOf(ci, id); !p.IsZero() && len(res) < 2; p = m.parentOf(ci, p) {
		res = append(res, p)
	}
	return res
}

// coverParts records that a removal action aimed at anc was accepted while the listed
// objects were stored parts (children, grandchildren) of anc.  The statement makes such a
// part inherit the removed / not found status of anc, and listing has to omit "exactly
// the objects marked for removal": a stored part of an object that was tombstoned or
// garbage-marked as a whole is marked for removal for as long as that action stands.
// Parts that arrive later, were revived on their own or lost the header that ties them to
// anc are not covered (the statement is silent there).  Returns the covered parts.
func (m *vf01Model) coverParts(ci int, anc oid.ID, cv vf01Cover) []oid.ID {
	c := m.c[ci]
	var res []oid.ID
	for _, s := range m.u.slots[ci] {
		if !c.stored[s.id] || s.id == anc || !vf01Contains(m.ancestors(ci, s.id), anc) {
			continue
		}
		dup := false
		for _, o := range c.cover[s.id] {
			dup = dup || o == cv
		}
		if !dup {
			c.cover[s.id] = append(c.cover[s.id], cv)
		}
		res = append(res, s.id)
	}
	return res
}

// coveredBy tells whether a removal action that covered the stored part still stands:
// the tombstone is still stored / the ancestor still carries its default garbage mark, and
// the stored headers still tie the part to that ancestor.
func (m *vf01Model) coveredBy(ci int, id oid.ID) (string, bool) {
	c := m.c[ci]
	if !c.stored[id] || len(c.cover[id]) == 0 {
		return "", false
	}
	anc := m.ancestors(ci, id)
	for _, cv := range c.cover[id] {
		if cv.tomb {
			t := m.u.slot(ci, cv.by)
			if t != nil && c.stored[cv.by] && vf01Contains(anc, t.target) {
				return "tombstone " + t.Name + " of ancestor " + m.u.slot(ci, t.target).Name, true
			}
		} else if c.mark[cv.by] == vf01MarkDefault && vf01Contains(anc, cv.by) {
			return "garbage mark of ancestor " + m.u.slot(ci, cv.by).Name, true
		}
	}
	return "", false
}

func (m *vf01Model) uncover(ci int, id oid.ID) {
	c := m.c[ci]
	delete(c.cover, id)
	delete(c.rhint, id)
	// actions that are withdrawn together with id (a deleted tombstone, a lifted mark)
	for k, l := range c.cover {
		n := l[:0]
		for _, cv := range l {
			if cv.by != id {
				n = append(n, cv)
			}
		}
		c.cover[k] = n
	}
}

// markOf returns (definitely default-marked, possibly default-marked).  obs is the set of
// IDs the garbage view listed in this step; it settles "unknown" marks.
func (m *vf01Model) markOf(ci int, id oid.ID, obs map[oid.ID]bool) (def, poss bool) {
	switch m.c[ci].mark[id] {
	case vf01MarkDefault:
		return true, true
	case vf01MarkUnknown:
		return false, obs[id]
	}
	return false, false
}

// locked returns (a lock is certainly live, a lock is possibly live) at the epoch.
func (m *vf01Model) locked(ci int, id oid.ID, epoch uint64, obs map[oid.ID]bool) (def, poss bool) {
	def, poss, _ = m.lockedEx(ci, id, epoch, obs)
	return
}

// lockedEx additionally tells whether, next to a live lock, the same target carries
// another stored, unexpired lock object that is itself removed (not live).
func (m *vf01Model) lockedEx(ci int, id oid.ID, epoch uint64, obs map[oid.ID]bool) (def, poss, shadow bool) {
	dead := false
	for _, l := range m.u.slots[ci] {
		if l.typ != object.TypeLock || l.target != id || !m.c[ci].stored[l.id] {
			continue
		}
		if l.exp >= 0 && epoch > uint64(l.exp) {
			continue
		}
		if m.tombstoned(ci, l.id) {
			dead = true
			continue
		}
		md, mp := m.markOf(ci, l.id, obs)
		if md {
			dead = true
			continue
		}
		poss = true
		if !mp {
			def = true
		}
	}
	return def, poss, def && dead
}

type vf01Facts struct {
	T, Gdef, Gposs, E, Ldef, Lposs, Lshadow bool
}

func (f vf01Facts) String() string {
	var p []string
	add := func(b bool, s string) {
		if b {
			p = append(p, s)
		}
	}
	add(f.T, "T")
	add(f.Gdef, "G")
	add(f.Gposs && !f.Gdef, "G?")
	add(f.E, "E")
	add(f.Ldef && !f.Lshadow, "L")
	add(f.Lshadow, "Ls")
	add(f.Lposs && !f.Ldef, "L?")
	if len(p) == 0 {
		return "-"
	}
	return strings.Join(p, "")
}

func (m *vf01Model) facts(ci int, id oid.ID, epoch uint64, obs map[oid.ID]bool, ignoreExp bool) vf01Facts {
	var f vf01Facts
	f.T = m.tombstoned(ci, id)
	f.Gdef, f.Gposs = m.markOf(ci, id, obs)
	if s := m.u.slot(ci, id); s != nil && !ignoreExp && s.exp >= 0 && epoch > uint64(s.exp) && m.present(ci, id) {
		f.E = true
	}
	f.Ldef, f.Lposs, f.Lshadow = m.lockedEx(ci, id, epoch, obs)
	return f
}

func vf01Direct(f vf01Facts) uint8 {
	var dc, pc uint8
	if f.T {
		dc |= vf01Removed
	}
	if f.Gdef {
		dc |= vf01NotFound
	}
	if f.E {
		dc |= vf01Expired
	}
	pc = dc
	if f.Gposs {
		pc |= vf01NotFound
	}
	var acc uint8
	if f.Lposs {
		// a live lock overrides expiry and garbage marks; the statement is silent about a
		// (normally impossible) tombstone next to a live lock
		acc |= vf01Avail
		if f.T {
			acc |= vf01Removed
		}
	}
	if !f.Ldef {
		acc |= pc
		if dc == 0 {
			acc |= vf01Avail
		}
	}
	return acc
}

// status returns the set of statuses the reference rules accept for the address.
func (m *vf01Model) status(ci int, id oid.ID, epoch uint64, obs map[oid.ID]bool, ignoreExp bool) uint8 {
	if m.c[ci].gone {
		return vf01NotFound
	}
	return m.statusNested(ci, id, epoch, obs, ignoreExp, 0)
}

func (m *vf01Model) statusNested(ci int, id oid.ID, epoch uint64, obs map[oid.ID]bool, ignoreExp bool, level int) uint8 {
	own := vf01Direct(m.facts(ci, id, epoch, obs, ignoreExp))
	if level >= 2 {
		return own
	}
	p := m.parentOf(ci, id)
	if p.IsZero() {
		return own
	}
	ps := m.statusNested(ci, p, epoch, obs, ignoreExp, level+1)
	var res uint8
	for _, a := range []uint8{vf01Avail, vf01NotFound, vf01Removed, vf01Expired} {
		if own&a == 0 {
			continue
		}
		for _, b := range []uint8{vf01Avail, vf01NotFound, vf01Removed, vf01Expired} {
			if ps&b == 0 {
				continue
			}
			switch {
			case a == vf01Avail:
				res |= b
			case b == vf01Avail:
				res |= a
			default: // both bad: the statement does not rank them
				res |= a | b
			}
		}
	}
	return res
}

// explain gives a compact description of why the model expects what it expects.
func (m *vf01Model) explain(ci int, id oid.ID, epoch uint64, obs map[oid.ID]bool) string {
	if m.c[ci].gone {
		return "container-gone"
	}
	s := "own:" + m.facts(ci, id, epoch, obs, false).String()
	p := m.parentOf(ci, id)
	for lvl := 1; !p.IsZero() && lvl <= 2; lvl++ {
		s += fmt.Sprintf("/p%d:%s", lvl, m.facts(ci, p, epoch, obs, false).String())
		p = m.parentOf(ci, p)
	}
	return s
}

// ---------------------------------------------------------------------------------------
// transitions (driven by what the store acknowledged)

func (m *vf01Model) setUnknownUnlessDefault(ci int, id oid.ID) {
	if m.c[ci].mark[id] != vf01MarkDefault {
		m.c[ci].mark[id] = vf01MarkUnknown
	}
}

// applyPut returns the stored parts covered by the put (tombstones only).
func (m *vf01Model) applyPut(s *vf01Slot) (covered []oid.ID, overRedundant int) {
	c := m.c[s.ci]
	was := c.stored[s.id]
	c.stored[s.id] = true
	c.touched = true
	if s.typ == object.TypeTombstone {
		// the store may mark the target and its relatives on its own
		m.setUnknownUnlessDefault(s.ci, s.target)
		for _, r := range m.relatives(s.ci, s.target) {
			m.setUnknownUnlessDefault(s.ci, r)
		}
		if !was {
			// a repeated put of a stored tombstone is acknowledged without any effect
			covered = m.coverParts(s.ci, s.target, vf01Cover{by: s.id, tomb: true})
			for _, id := range covered {
				if c.rhint[id] {
					overRedundant++
				}
			}
		}
	}
	return
}

func (m *vf01Model) applyMark(ci int, ids []oid.ID, redundant bool) (covered, overRedundant int) {
	c := m.c[ci]
	if c.gone {
		return
	}
	for _, id := range ids {
		old := c.mark[id]
		if c.touched && !redundant {
			l := m.coverParts(ci, id, vf01Cover{by: id})
			covered += len(l)
			for _, p := range l {
				if c.rhint[p] {
					overRedundant++
				}
			}
		}
		if redundant {
			if c.stored[id] {
				c.rhint[id] = true
			}
			for _, s := range m.u.slots[ci] {
				if c.stored[s.id] && vf01Contains(m.ancestors(ci, s.id), id) {
					c.rhint[s.id] = true
				}
			}
		}
		switch {
		case !c.touched:
			// nothing was ever recorded for the container: whether a mark on an absent
			// object sticks is unspecified
			c.mark[id] = vf01MarkUnknown
		case !redundant:
			c.mark[id] = vf01MarkDefault
		case old == vf01MarkNone:
			c.mark[id] = vf01MarkRedundant
		case old == vf01MarkUnknown:
			// stays unknown (either kind)
		}
		for _, r := range m.relatives(ci, id) {
			m.setUnknownUnlessDefault(ci, r)
		}
	}
	return
}

// applyDelete: physical removal of the listed objects (and, as documented for Delete, of
// the EC parts of a listed parent).  Virtual objects cannot be deleted directly; they
// vanish with their last child.
func (m *vf01Model) applyDelete(ci int, ids []oid.ID) {
	c := m.c[ci]
	before := map[oid.ID]bool{}
	for _, id := range m.presentIDs(ci) {
		before[id] = true
	}
	all := append([]oid.ID(nil), ids...)
	for _, id := range ids {
		for _, s := range m.u.slots[ci] {
			if s.par == id && s.ecRule >= 0 && c.stored[s.id] {
				all = append(all, s.id)
			}
		}
	}
	for _, id := range all {
		if c.stored[id] {
			delete(c.stored, id)
			c.mark[id] = vf01MarkNone
			m.uncover(ci, id)
		}
	}
	for _, id := range all {
		// listed virtual objects are untouched while a child keeps them known; listed
		// addresses that are (now) absent lose their mark
		if !m.present(ci, id) {
			c.mark[id] = vf01MarkNone
		}
	}
	for id := range before {
		if !m.present(ci, id) && !vf01Contains(all, id) {
			// a virtual parent vanished with its last child; what happens to its mark is unspecified
			if c.mark[id] != vf01MarkNone {
				c.mark[id] = vf01MarkUnknown
			}
		}
	}
}

func vf01Contains(l []oid.ID, id oid.ID) bool {
	for _, x := range l {
		if x == id {
			return true
		}
	}
	return false
}

func (m *vf01Model) applyRevive(ci int, id oid.ID, tomb oid.ID) {
	c := m.c[ci]
	c.mark[id] = vf01MarkNone
	m.uncover(ci, id)
	if !tomb.IsZero() {
		delete(c.stored, tomb)
		c.mark[tomb] = vf01MarkNone
		m.uncover(ci, tomb)
	}
}

func (m *vf01Model) applyInhumeContainer(ci int) { m.c[ci].gone = true; m.c[ci].touched = true }

func (m *vf01Model) applyDeleteContainer(ci int) {
	m.c[ci] = vf01NewCnrState()
}

func (m *vf01Model) nonTrivial() bool {
	for ci := range m.c {
		if len(m.presentIDs(ci)) > 0 {
			return true
		}
	}
	return false
}

// stateHash summarises the model state (for the "distinct states" evidence).
func (m *vf01Model) stateHash() string {
	var b strings.Builder
	fmt.Fprintf(&b, "e%d", m.epoch)
	for ci, c := range m.c {
		fmt.Fprintf(&b, "|c%d g%v:", ci, c.gone)
		var p []string
		for _, s := range m.u.slots[ci] {
			if c.stored[s.id] || c.mark[s.id] != vf01MarkNone {
				p = append(p, fmt.Sprintf("%s%v%d", s.Name, c.stored[s.id], c.mark[s.id]))
			}
		}
		sort.Strings(p)
		b.WriteString(strings.Join(p, ","))
	}
	return b.String()
}
