//go:build verif

package meta

// Old-format writer of the C42 monitor.
//
// There is no writer of metabase formats 10 and 9 in the tree any more, so the monitor
// produces old-format databases by DOWN-CONVERTING a database written by the current
// code.  The conversion is written from pkg/local_object_storage/metabase/VERSION.md
// only and works on the raw bbolt file; it deliberately does not use any constant or
// helper of package meta, so that an edit of the code under test cannot silently change
// what "old format" means.
//
//	format 11 -> 10 (VERSION.md "Version 11"):
//	  * `__NEOFS__ASSOCIATE` values in both plain attribute indexes (`2`+attr+0x00+value+0x00+OID
//	    and `3`+OID+attr+0x00+value) go back from the raw 32-byte object ID to its Base58 string;
//	  * homomorphic hash field indexes (`$Object:homomorphicHash`, 64 raw bytes) are added
//	    for a chosen subset of the indexed objects;
//	  * optionally the per-container garbage counter (`11`) is inflated ("GC mark double
//	    counting", the defect the version 11 resync repairs);
//	  * `version` := 10.
//	format 10 -> 9 (VERSION.md "Version 10"):
//	  * per-container counters (`6`..`12`) are removed from the metadata buckets;
//	  * the deprecated global `phy_counter`/`logic_counter` keys are written to the
//	    auxiliary bucket (`5`) and the deprecated container volume bucket (`3`, one nested
//	    bucket per container with keys `0` = size and `1` = objects number) is created;
//	  * `version` := 9.

import (
	"bytes"
	"encoding/binary"
	"fmt"
	"math/rand/v2"
	"slices"

	"github.com/nspcc-dev/bbolt"
	oid "github.com/nspcc-dev/neofs-sdk-go/object/id"
)

const (
	vf42BktInfo     = 5   // auxiliary bucket name
	vf42BktMeta     = 255 // metadata bucket name prefix
	vf42BktVolume   = 3   // deprecated container volume bucket (dropped in 10)
	vf42KeyID       = 0   // `0` + OID
	vf42KeyAttrInt  = 1   // integer attribute index
	vf42KeyAttrID   = 2   // attribute -> ID plain index
	vf42KeyIDAttr   = 3   // ID -> attribute index
	vf42KeyCnrGC    = 4   // container-level GC mark
	vf42KeyGarbage  = 5   // garbage mark
	vf42KeyCntFirst = 6   // counters 6..12
	vf42KeyCntLast  = 12
	vf42KeyCntGC    = 11
	vf42KeyCntPhy   = 6
	vf42KeyCntPay   = 12
	vf42AssocAttr   = "__NEOFS__ASSOCIATE"
	vf42HomoAttr    = "$Object:homomorphicHash"
	vf42HomoLen     = 64
	vf42VersionKey  = "version"
	vf42OldPhyKey   = "phy_counter"
	vf42OldLogicKey = "logic_counter"
)

// vf42DownSpec says which old image to produce.
type vf42DownSpec struct {
	Version   int     // 10 or 9
	HomoFrac  float64 // fraction of indexed objects that get a homomorphic hash index
	PerturbGC bool    // inflate per-container garbage counters (format 10 only)
}

// vf42DownStats reports what the conversion wrote (evidence + non-triviality).
type vf42DownStats struct {
	Assoc      int            // associate attribute entries rewritten to Base58 (pairs)
	AssocByCnr map[string]int // per metadata bucket
	Homo       int            // homomorphic index pairs added
	HomoByCnr  map[string]int
	GCPerturb  int // containers whose GC counter was inflated
	Cnrs       int
}

func vf42U64(v uint64) []byte {
	b := make([]byte, 8)
	binary.LittleEndian.PutUint64(b, v)
	return b
}

// vf42HomoValue makes a 64-byte "Tillich-Zemor hash" with hostile byte patterns
// (embedded 0x00 delimiters, 0xFF runs) in some of the values.
func vf42HomoValue(rng *rand.Rand) []byte {
	v := make([]byte, vf42HomoLen)
	for i := range v {
		v[i] = byte(rng.Uint32())
	}
	switch rng.IntN(8) {
	case 0:
		for i := range v {
			v[i] = 0
		}
	case 1:
		for i := range v {
			v[i] = 0xFF
		}
	case 2:
		v[0], v[vf42HomoLen-1] = 0, 0
	case 3:
		v[rng.IntN(vf42HomoLen)] = 0
	}
	return v
}

// vf42Downconvert rewrites the current-format bbolt file at path into an image of the
// requested older format.
func vf42Downconvert(path string, spec vf42DownSpec, rng *rand.Rand) (vf42DownStats, error) {
	st := vf42DownStats{AssocByCnr: map[string]int{}, HomoByCnr: map[string]int{}}
	if spec.Version != 10 && spec.Version != 9 {
		return st, fmt.Errorf("unsupported target format %d", spec.Version)
	}
	opts := *bbolt.DefaultOptions
	opts.NoSync = true
	bdb, err := bbolt.Open(path, 0o600, &opts)
	if err != nil {
		return st, err
	}
	defer bdb.Close()

	a2iPref := slices.Concat([]byte{vf42KeyAttrID}, []byte(vf42AssocAttr), []byte{0})
	err = bdb.Update(func(tx *bbolt.Tx) error {
		var names [][]byte
		if err := tx.ForEach(func(name []byte, _ *bbolt.Bucket) error {
			if len(name) == 33 && name[0] == vf42BktMeta {
				names = append(names, slices.Clone(name))
			}
			return nil
		}); err != nil {
			return err
		}
		st.Cnrs = len(names)
		var totalPhy uint64
		type vol struct{ size, num uint64 }
		vols := map[string]vol{}
		for _, name := range names {
			b := tx.Bucket(name)
			cnrKey := fmt.Sprintf("%x", name[1:5])
			var del, put [][]byte
			var ids [][]byte
			c := b.Cursor()
			for k, _ := c.First(); k != nil; k, _ = c.Next() {
				switch {
				case k[0] == vf42KeyID && len(k) == 33:
					ids = append(ids, slices.Clone(k[1:]))
				case k[0] == vf42KeyAttrID && bytes.HasPrefix(k, a2iPref):
					// `2` attr 0x00 raw(32) 0x00 OID(32)
					if len(k) != len(a2iPref)+32+1+32 || k[len(a2iPref)+32] != 0 {
						return fmt.Errorf("unexpected associate attr->id key %x", k)
					}
					raw := oid.ID(k[len(a2iPref) : len(a2iPref)+32])
					id := k[len(k)-32:]
					del = append(del, slices.Clone(k))
					put = append(put, slices.Concat(a2iPref, []byte(raw.EncodeToString()), []byte{0}, id))
					st.Assoc++
					st.AssocByCnr[cnrKey]++
				case k[0] == vf42KeyIDAttr && len(k) > 33 && bytes.HasPrefix(k[33:], a2iPref[1:]):
					// `3` OID attr 0x00 raw(32)
					if len(k) != 33+len(a2iPref)-1+32 {
						return fmt.Errorf("unexpected associate id->attr key %x", k)
					}
					raw := oid.ID(k[len(k)-32:])
					del = append(del, slices.Clone(k))
					put = append(put, slices.Concat(k[:33+len(a2iPref)-1], []byte(raw.EncodeToString())))
				}
			}
			for _, k := range del {
				if err := b.Delete(k); err != nil {
					return err
				}
			}
			for _, k := range put {
				if err := b.Put(k, nil); err != nil {
					return err
				}
			}
			for _, id := range ids {
				if rng.Float64() >= spec.HomoFrac {
					continue
				}
				v := vf42HomoValue(rng)
				if err := b.Put(slices.Concat([]byte{vf42KeyAttrID}, []byte(vf42HomoAttr), []byte{0}, v, []byte{0}, id), nil); err != nil {
					return err
				}
				if err := b.Put(slices.Concat([]byte{vf42KeyIDAttr}, id, []byte(vf42HomoAttr), []byte{0}, v), nil); err != nil {
					return err
				}
				st.Homo++
				st.HomoByCnr[cnrKey]++
			}
			rd := func(k byte) uint64 {
				if v := b.Get([]byte{k}); len(v) == 8 {
					return binary.LittleEndian.Uint64(v)
				}
				return 0
			}
			phy, gc, pay := rd(vf42KeyCntPhy), rd(vf42KeyCntGC), rd(vf42KeyCntPay)
			totalPhy += phy
			num := uint64(0)
			if phy > gc {
				num = phy - gc
			}
			vols[string(name[1:])] = vol{size: pay, num: num}
			if spec.Version == 10 && spec.PerturbGC {
				if err := b.Put([]byte{vf42KeyCntGC}, vf42U64(gc+1+uint64(rng.IntN(5)))); err != nil {
					return err
				}
				st.GCPerturb++
			}
			if spec.Version == 9 {
				for k := vf42KeyCntFirst; k <= vf42KeyCntLast; k++ {
					if err := b.Delete([]byte{byte(k)}); err != nil {
						return err
					}
				}
			}
		}
		info, err := tx.CreateBucketIfNotExists([]byte{vf42BktInfo})
		if err != nil {
			return err
		}
		if spec.Version == 9 {
			if err := info.Put([]byte(vf42OldPhyKey), vf42U64(totalPhy)); err != nil {
				return err
			}
			if err := info.Put([]byte(vf42OldLogicKey), vf42U64(totalPhy/2+uint64(rng.IntN(3)))); err != nil {
				return err
			}
			vb, err := tx.CreateBucketIfNotExists([]byte{vf42BktVolume})
			if err != nil {
				return err
			}
			for cnr, v := range vols {
				cb, err := vb.CreateBucketIfNotExists([]byte(cnr))
				if err != nil {
					return err
				}
				if err := cb.Put([]byte{0}, vf42U64(v.size)); err != nil {
					return err
				}
				if err := cb.Put([]byte{1}, vf42U64(v.num)); err != nil {
					return err
				}
			}
		}
		return info.Put([]byte(vf42VersionKey), vf42U64(uint64(spec.Version)))
	})
	return st, err
}

// vf42RawVersion reads the stored format version straight from the file layout.
func vf42RawVersion(bdb *bbolt.DB) (uint64, bool) {
	var v uint64
	var ok bool
	_ = bdb.View(func(tx *bbolt.Tx) error {
		if b := tx.Bucket([]byte{vf42BktInfo}); b != nil {
			if d := b.Get([]byte(vf42VersionKey)); len(d) == 8 {
				v, ok = binary.LittleEndian.Uint64(d), true
			}
		}
		return nil
	})
	return v, ok
}

// vf42RawCounters reads the seven per-container counters (`6`..`12`) of one container.
func vf42RawCounters(bdb *bbolt.DB, cnr []byte) (res [7]uint64, present bool) {
	_ = bdb.View(func(tx *bbolt.Tx) error {
		b := tx.Bucket(slices.Concat([]byte{vf42BktMeta}, cnr))
		if b == nil {
			return nil
		}
		present = true
		for k := vf42KeyCntFirst; k <= vf42KeyCntLast; k++ {
			if v := b.Get([]byte{byte(k)}); len(v) == 8 {
				res[k-vf42KeyCntFirst] = binary.LittleEndian.Uint64(v)
			}
		}
		return nil
	})
	return
}

// vf42RawLeftovers counts what an upgrade to the current format must not leave behind
// according to VERSION.md: homomorphic index keys, Base58 (non 32-byte) associate values,
// the deprecated volume bucket and the deprecated global counter keys.  Informational
// (reported in the evidence; the verdict is taken on the observable views).
func vf42RawLeftovers(bdb *bbolt.DB, skip map[string]bool) (homo, assoc58, legacy int) {
	a2iPref := slices.Concat([]byte{vf42KeyAttrID}, []byte(vf42AssocAttr), []byte{0})
	hPref := slices.Concat([]byte{vf42KeyAttrID}, []byte(vf42HomoAttr), []byte{0})
	_ = bdb.View(func(tx *bbolt.Tx) error {
		if tx.Bucket([]byte{vf42BktVolume}) != nil {
			legacy++
		}
		if b := tx.Bucket([]byte{vf42BktInfo}); b != nil {
			if b.Get([]byte(vf42OldPhyKey)) != nil {
				legacy++
			}
			if b.Get([]byte(vf42OldLogicKey)) != nil {
				legacy++
			}
		}
		return tx.ForEach(func(name []byte, b *bbolt.Bucket) error {
			if len(name) != 33 || name[0] != vf42BktMeta || skip[string(name[1:])] {
				return nil
			}
			c := b.Cursor()
			for k, _ := c.First(); k != nil; k, _ = c.Next() {
				switch {
				case bytes.HasPrefix(k, hPref):
					homo++
				case k[0] == vf42KeyIDAttr && len(k) > 33 && bytes.HasPrefix(k[33:], hPref[1:]):
					homo++
				case bytes.HasPrefix(k, a2iPref) && len(k) != len(a2iPref)+32+1+32:
					assoc58++
				case k[0] == vf42KeyIDAttr && len(k) > 33 && bytes.HasPrefix(k[33:], a2iPref[1:]) && len(k) != 33+len(a2iPref)-1+32:
					assoc58++
				}
			}
			return nil
		})
	})
	return
}
