//go:build verif

package meta

import (
	"fmt"
	"math/big"
	"math/rand/v2"
	"strings"
	"testing"

	"github.com/nspcc-dev/neofs-node/internal/verifkit"
)

// Reference reader of C05 (from the property text): an integer is an optionally signed,
// non-empty ASCII digit string whose value lies in [-(2^256-1), 2^256-1].

var vf05Max = new(big.Int).Sub(new(big.Int).Lsh(big.NewInt(1), 256), big.NewInt(1))

func vf05Classify(s string) (isInt bool, v *big.Int) {
	d := s
	neg := false
	if d != "" && (d[0] == '+' || d[0] == '-') {
		neg = d[0] == '-'
		d = d[1:]
	}
	if d == "" {
		return false, nil
	}
	v = new(big.Int)
	ten := big.NewInt(10)
	for i := 0; i < len(d); i++ {
		if d[i] < '0' || d[i] > '9' {
			return false, nil
		}
		v.Mul(v, ten)
		v.Add(v, big.NewInt(int64(d[i]-'0')))
	}
	if neg {
		v.Neg(v)
	}
	return true, v
}

func vf05InRange(v *big.Int) bool { return v.CmpAbs(vf05Max) <= 0 }

func vf05Valid(s string) (bool, *big.Int) {
	isInt, v := vf05Classify(s)
	return isInt && vf05InRange(v), v
}

func vf05StrClass(s string) string {
	isInt, v := vf05Classify(s)
	switch {
	case !isInt:
		if len(s) > 1 && (s[0] == '+' || s[0] == '-') && (s[1] == '+' || s[1] == '-') {
			return "double-sign"
		}
		if s == "" || s == "+" || s == "-" {
			return "no-digits"
		}
		return "malformed"
	case !vf05InRange(v):
		return "out-of-range"
	}
	c := "int"
	if s[0] == '+' {
		c += "+plus"
	} else if s[0] == '-' {
		c += "+minus"
	}
	if d := strings.TrimLeft(s, "+-"); len(d) > 1 && d[0] == '0' {
		c += "+zeros"
	}
	if v.CmpAbs(vf05Max) == 0 {
		c += "+extreme"
	}
	return c
}

// vf05Strings: sign prefixes x leading zeros x digit bodies x range neighbours x foreign
// characters (same construction as the signed256 part, smaller).
func vf05Strings(rng *rand.Rand, nRandom int) []string {
	var out []string
	bodies := []string{"0", "1", "5", "9", "10", "42", "18446744073709551615", "18446744073709551616",
		"9999999999999999999", "10000000000000000000", "99999999999999999999", "100000000000000000000",
		vf05Max.String(),
		new(big.Int).Sub(vf05Max, big.NewInt(1)).String(),
		new(big.Int).Add(vf05Max, big.NewInt(1)).String(),
		new(big.Int).Add(vf05Max, big.NewInt(2)).String(),
		new(big.Int).Mul(vf05Max, big.NewInt(10)).String(),
		"2" + vf05Max.String()[1:], "1" + strings.Repeat("0", 77), "1" + strings.Repeat("0", 78), strings.Repeat("9", 77), strings.Repeat("9", 78), strings.Repeat("9", 79)}
	for l := 1; l <= 80; l += 1 + rng.IntN(3) {
		b := make([]byte, l)
		for i := range b {
			b[i] = byte('0' + rng.IntN(10))
		}
		if b[0] == '0' {
			b[0] = '1'
		}
		bodies = append(bodies, string(b))
	}
	prefixes := []string{"", "+", "-", "++", "--", "+-", "-+", " ", " +", "+ ", "- ", "0x", "0+", "0-", "+0+", "-0-", "−"}
	zeros := []string{"", "0", "00", strings.Repeat("0", 19), strings.Repeat("0", 70)}
	suffixes := []string{" ", "\n", "_", "-", "+", "e1", ".0", "\x00"}
	for _, b := range bodies {
		for _, p := range prefixes {
			for _, z := range zeros {
				out = append(out, p+z+b)
			}
		}
		for _, s := range suffixes {
			out = append(out, b+s, "-"+b+s, "+"+b+s)
		}
	}
	out = append(out, "", "+", "-", "++", "--", "+-", "-+", " ", "0", "+0", "-0", "00", "+00", "-00", "-+0", "++0", "++5", "-+5", "+-5", "--5", "5-", "5+",
		"1_0", "1_000", "0x1", "0x10", "0b1", "0o7", " 1", "1 ", "１", "٣", "१२", "1e3", "1.0", "1,000", "+_1", "_1", "1__0", "\x001", "1\x00", "+\x00", "Inf", "NaN")
	foreign := []byte{'+', '-', '_', ' ', '.', 'a', '/', ':', 0, 0xff}
	for i := 0; i < nRandom; i++ {
		b := bodies[rng.IntN(len(bodies))]
		s := []string{"", "+", "-"}[rng.IntN(3)] + zeros[rng.IntN(3)] + b
		switch rng.IntN(3) {
		case 0:
			out = append(out, s)
		case 1:
			pos := rng.IntN(len(s) + 1)
			out = append(out, s[:pos]+string(foreign[rng.IntN(len(foreign))])+s[pos:])
		default:
			k := []int{19, 38, 57, 76, 20, 18, 1, 0}[rng.IntN(8)]
			if k > len(s) {
				k = len(s)
			}
			pos := len(s) - k
			out = append(out, s[:pos]+string(foreign[rng.IntN(len(foreign))])+s[pos:])
		}
	}
	return out
}

func vf05CheckReader(r *verifkit.Run, place, s string, accepted bool, got *big.Int) {
	want, v := vf05Valid(s)
	desc := map[string]string{"place": place, "input": s}
	switch {
	case accepted && !want:
		r.Violation(place+"|accepts|"+vf05StrClass(s), fmt.Sprintf("%s accepts %q (read as %v); it is not an optionally signed decimal number in range", place, s, got), desc)
	case !accepted && want:
		r.Violation(place+"|rejects|"+vf05StrClass(s), fmt.Sprintf("%s rejects the decimal integer %q", place, s), desc)
	case accepted && got != nil && got.Cmp(v) != 0:
		r.Violation(place+"|wrong-value|"+vf05StrClass(s), fmt.Sprintf("%s reads %q as %s", place, s, got), desc)
	}
}


// TestVerif_C05 (metabase part): parseInt decides whether an attribute value is indexed
// as a number; it must accept exactly the optionally signed decimal numbers of the range
// and agree on their value.
func TestVerif_C05(t *testing.T) {
	r := verifkit.Start(t, "C05", "exploration")
	defer r.Finish()
	r.SetRule("metabase parseInt on generated strings (sign prefixes x leading zeros x digit bodies of length 1..80 x range neighbours x foreign characters); distinct = string classes; non-trivial = every string")
	strs := vf05Strings(r.Rand("strings", 0), r.Pick(20000, 600000))
	r.Count("reader_strings", len(strs))
	for _, s := range strs {
		cls := vf05StrClass(s)
		r.Seen("string_classes", cls)
		r.Count("strings_"+cls, 1)
		r.Distinct("str|" + cls)
		desc := map[string]string{"input": s}
		r.Guard(desc, func() {
			n, ok := parseInt(s)
			var got *big.Int
			if ok {
				if _, got = vf05Classify(n.String()); got == nil {
					r.Violation("meta.parseInt|unprintable", fmt.Sprintf("parseInt(%q) gives a value printed as %q", s, n.String()), desc)
					return
				}
				// the index key of the value must be the key of the number it denotes
				if want, v := vf05Valid(s); want {
					var a, b [intValLen]byte
					putInt(a[:], &n)
					c, _ := parseInt(v.String())
					putInt(b[:], &c)
					if a != b {
						r.Violation("meta.parseInt|same-integer-other-key", fmt.Sprintf("parseInt(%q) and parseInt(%q) give different index keys", s, v.String()), desc)
					}
				}
			}
			vf05CheckReader(r, "meta.parseInt", s, ok, got)
		})
		r.Eval(1)
	}
	r.Sample(map[string]any{"reader_inputs": strs[:8]})
}
