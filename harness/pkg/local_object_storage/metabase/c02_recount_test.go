//go:build verif

package meta

// Monitor of property C02 (metabase part): seeded histories biased to the counter-drift
// recipes run on a real meta.DB; after every step DB.ObjectCounters / DB.GetContainerInfo
// are compared with an independent recount made straight from the bbolt layout documented
// in metabase/VERSION.md (the code's own counter-sync routines are never used as oracle).

import (
	"bytes"
	"encoding/binary"
	"encoding/json"
	"errors"
	"fmt"
	"math/rand/v2"
	"os"
	"path/filepath"
	"runtime/debug"
	"sort"
	"strconv"
	"strings"
	"testing"
	"time"

	"github.com/nspcc-dev/bbolt"
	"github.com/nspcc-dev/neofs-node/internal/verifkit"
	"github.com/nspcc-dev/neofs-node/pkg/local_object_storage/blobstor/common"
	apistatus "github.com/nspcc-dev/neofs-sdk-go/client/status"
	cid "github.com/nspcc-dev/neofs-sdk-go/container/id"
	"github.com/nspcc-dev/neofs-sdk-go/object"
	oid "github.com/nspcc-dev/neofs-sdk-go/object/id"
	"go.uber.org/zap"
)

// ---------------------------------------------------------------------------------------
// raw reader (VERSION.md, "Current"): metadata bucket 255+CID;
//   0+OID                      object is indexed
//   3+OID+attr+0x00+value      attribute of an indexed object
//   4                          container-level GC mark
//   5+OID                      garbage mark of an object
//   6..12                      PHY, ROOT, TS, LOCK, LINK, garbage, payload counters (LE uint64)

type vf02RawObj struct {
	attrs map[string][]byte
}

type vf02RawCnr struct {
	objs     map[oid.ID]*vf02RawObj
	garbage  map[oid.ID][]byte
	removed  bool
	counters map[byte]uint64
	orphans  int // attribute keys of IDs that are not indexed
}

func vf02ReadRaw(tx *bbolt.Tx) (map[cid.ID]*vf02RawCnr, error) {
	res := map[cid.ID]*vf02RawCnr{}
	err := tx.ForEach(func(name []byte, b *bbolt.Bucket) error {
		if len(name) != 33 || name[0] != 255 {
			return nil
		}
		var cnr cid.ID
		copy(cnr[:], name[1:])
		rc, err := vf02ReadRawCnr(b)
		if err != nil {
			return err
		}
		res[cnr] = rc
		return nil
	})
	return res, err
}

// vf02ReadRawCnr reads one metadata bucket.
func vf02ReadRawCnr(b *bbolt.Bucket) (*vf02RawCnr, error) {
	rc := &vf02RawCnr{objs: map[oid.ID]*vf02RawObj{}, garbage: map[oid.ID][]byte{}, counters: map[byte]uint64{}}
	attrs := map[oid.ID]map[string][]byte{}
	err := b.ForEach(func(k, v []byte) error {
		if len(k) == 0 {
			return nil
		}
		switch {
		case k[0] == 0 && len(k) == 33:
			var id oid.ID
			copy(id[:], k[1:])
			rc.objs[id] = &vf02RawObj{}
		case k[0] == 3 && len(k) > 34:
			var id oid.ID
			copy(id[:], k[1:33])
			a, val, ok := bytes.Cut(k[33:], []byte{0})
			if !ok {
				return fmt.Errorf("attribute key without delimiter: %x", k)
			}
			if attrs[id] == nil {
				attrs[id] = map[string][]byte{}
			}
			attrs[id][string(a)] = bytes.Clone(val)
		case k[0] == 4 && len(k) == 1:
			rc.removed = true
		case k[0] == 5 && len(k) == 33:
			var id oid.ID
			copy(id[:], k[1:])
			rc.garbage[id] = bytes.Clone(v)
		case k[0] >= 6 && k[0] <= 12 && len(k) == 1:
			if len(v) != 8 {
				return fmt.Errorf("counter %d has %d bytes", k[0], len(v))
			}
			rc.counters[k[0]] = binary.LittleEndian.Uint64(v)
		}
		return nil
	})
	if err != nil {
		return nil, err
	}
	for id, a := range attrs {
		if o := rc.objs[id]; o != nil {
			o.attrs = a
		} else {
			rc.orphans++
		}
	}
	for _, o := range rc.objs {
		if o.attrs == nil {
			o.attrs = map[string][]byte{}
		}
	}
	return rc, nil
}

func (o *vf02RawObj) phy() bool   { return string(o.attrs[object.FilterPhysical]) == "1" }
func (o *vf02RawObj) root() bool  { return string(o.attrs[object.FilterRoot]) == "1" }
func (o *vf02RawObj) typ() string { return string(o.attrs[object.FilterType]) }
func (o *vf02RawObj) size() uint64 {
	n, _ := strconv.ParseUint(string(o.attrs[object.FilterPayloadSize]), 10, 64)
	return n
}
func (o *vf02RawObj) parent() (oid.ID, bool) {
	v := o.attrs[object.FilterParentID]
	if len(v) != 32 {
		return oid.ID{}, false
	}
	return oid.ID(v), true
}

// chainParent resolves the parent of an indexed split-chain member that carries no parent
// header itself (middle parts): the parent named by any indexed sibling with the same first
// ID (V2) or split ID (V1).  Absent addresses have no attributes, hence no chain parent.
func (rc *vf02RawCnr) chainParent(id oid.ID) (oid.ID, bool) {
	if rc == nil {
		return oid.ID{}, false
	}
	o := rc.objs[id]
	if o == nil {
		return oid.ID{}, false
	}
	if _, ok := o.parent(); ok {
		return oid.ID{}, false
	}
	var ids []oid.ID
	for sid := range rc.objs {
		ids = append(ids, sid)
	}
	sort.Slice(ids, func(i, j int) bool { return bytes.Compare(ids[i][:], ids[j][:]) < 0 })
	for _, attr := range []string{object.FilterFirstSplitObject, object.FilterSplitID} {
		val, ok := o.attrs[attr]
		if !ok {
			continue
		}
		for _, sid := range ids {
			sib := rc.objs[sid]
			if sv, ok := sib.attrs[attr]; ok && bytes.Equal(sv, val) {
				if p, ok := sib.parent(); ok {
					return p, true
				}
			}
		}
		return oid.ID{}, false
	}
	return oid.ID{}, false
}

// vf02Expect is what the statement demands for one container, recounted from the raw state.
type vf02Expect struct {
	removed                  bool
	phy, root, ts, lock, lnk uint64
	objLo, objHi             uint64 // stored physical objects not marked for removal
	sizeLo, sizeHi           uint64 // their total payload
}

func (rc *vf02RawCnr) tombTargets() map[oid.ID]bool {
	res := map[oid.ID]bool{}
	for _, o := range rc.objs {
		if o.typ() == object.TypeTombstone.String() {
			if v := o.attrs[object.AttributeAssociatedObject]; len(v) == 32 {
				res[oid.ID(v)] = true
			}
		}
	}
	return res
}

func (rc *vf02RawCnr) expect() vf02Expect {
	var e vf02Expect
	e.removed = rc.removed
	tt := rc.tombTargets()
	for id, o := range rc.objs {
		if o.phy() {
			e.phy++
		}
		if o.root() {
			e.root++
		}
		switch o.typ() {
		case object.TypeTombstone.String():
			e.ts++
		case object.TypeLock.String():
			e.lock++
		case object.TypeLink.String():
			e.lnk++
		}
		if !o.phy() || rc.removed {
			continue
		}
		// marked for removal: own garbage mark (either kind) or target of a stored tombstone
		if _, marked := rc.garbage[id]; marked || tt[id] {
			continue
		}
		// not marked itself, but an ancestor is: the statement does not say which way such a
		// relative counts -> it widens the accepted range
		ambiguous := false
		cur := o
		for lvl := 0; lvl < 2; lvl++ {
			p, ok := cur.parent()
			if !ok {
				break
			}
			if _, marked := rc.garbage[p]; marked || tt[p] {
				ambiguous = true
			}
			if cur = rc.objs[p]; cur == nil {
				break
			}
		}
		e.objHi++
		e.sizeHi += o.size()
		if !ambiguous {
			e.objLo++
			e.sizeLo += o.size()
		}
	}
	return e
}

// prestate letter code of an address in a raw snapshot: P physical / V virtual / A absent,
// then d/r default/redundant mark, then t if a stored tombstone targets it.
func (rc *vf02RawCnr) prestate(id oid.ID) string {
	if rc == nil {
		return "A"
	}
	s := "A"
	if o := rc.objs[id]; o != nil {
		s = "V"
		if o.phy() {
			s = "P"
		}
	}
	if v, ok := rc.garbage[id]; ok {
		if len(v) > 0 {
			s += "r"
		} else {
			s += "d"
		}
	}
	if rc.tombTargets()[id] {
		s += "t"
	}
	if rc.removed {
		s += "x"
	}
	return s
}

// ---------------------------------------------------------------------------------------

type vf02Epoch struct{ e uint64 }

func (s *vf02Epoch) CurrentEpoch() uint64 { return s.e }

func vf02OpenDB(t testing.TB, path string, es EpochState) *DB {
	opts := *bbolt.DefaultOptions
	opts.NoSync = true
	opts.NoGrowSync = true
	opts.NoFreelistSync = true
	opts.Timeout = 5 * time.Second
	db := New(WithPath(path), WithPermissions(0o600), WithEpochState(es), WithMaxBatchDelay(time.Microsecond),
		WithMaxBatchSize(1), WithBoltDBOptions(&opts), WithLogger(zap.NewNop()))
	if err := db.Open(false); err != nil {
		t.Fatalf("open metabase: %v", err)
	}
	if err := db.Init(common.ID{}); err != nil {
		t.Fatalf("init metabase: %v", err)
	}
	return db
}

type vf02Op struct {
	Kind           string   `json:"kind"`
	Cnr            int      `json:"cnr"`
	Slots          []string `json:"slots,omitempty"`
	Mark           string   `json:"mark,omitempty"`
	Epoch          uint64   `json:"epoch,omitempty"`
	Res            string   `json:"res,omitempty"`
	Pre            string   `json:"pre,omitempty"` // pre-state class of the addresses the step touches
	own            []string // pre-state of every touched address
	tgts           []string // pre-state of the targets of the tombstones being put
	par            []string // pre-state of the parents (2 levels) of the touched objects
	tomb           bool
	tombNonRegular bool     // a tombstone being put targets a stored non-REGULAR object
	inBatch        []string // relations between the elements of one batch (evidence only)
	decidedInBatch bool     // the shape differs from what the state before the batch suggests (evidence only)
}

func (o vf02Op) String() string {
	s := o.Kind
	if len(o.Slots) > 0 {
		s += "(" + strings.Join(o.Slots, ",") + ")"
	} else {
		s += fmt.Sprintf("(c%d)", o.Cnr)
	}
	if o.Mark != "" {
		s += ":" + o.Mark
	}
	if o.Kind == "epoch" {
		s += fmt.Sprintf("=%d", o.Epoch)
	}
	return s + "[" + o.Pre + "]->" + o.Res
}

type vf02Run struct {
	t         *testing.T
	r         *verifkit.Run
	path      string
	db        *DB
	es        *vf02Epoch
	u         *vf02Universe
	hist      int
	ops       []vf02Op
	drift     map[string]int64  // last seen drift per container/counter
	cause     map[string]string // history shape of the step that last enlarged a latent discrepancy
	taint     map[string]string // container/group -> first executed step shape with known mis-accounting
	clean     bool              // workload avoids the shapes with known mis-accounting
	flatBatch bool              // annotate: classify all elements of a batch against the state before the batch (evidence only)
	curCi     int               // container being compared
	raw       map[cid.ID]*vf02RawCnr
	nviol     int
}

func vf02ErrClass(err error) string {
	if err == nil {
		return "ok"
	}
	return "err"
}

// TestVerif_C02 is the metabase part of the C02 check.
func TestVerif_C02(t *testing.T) {
	r := verifkit.Start(t, "C02", "exploration")
	defer r.Finish()
	defer debug.SetGCPercent(debug.SetGCPercent(400))
	r.SetRule("seeded histories of 40-120 steps on a real meta.DB (duplicate puts, PutBatch incl. the same object twice / a tombstone or lock with its target / several children of one parent in one batch, objects with parent headers, tombstones of stored/absent/child/virtual targets, " +
		"repeated and redundant-then-default garbage marks, revivals, random and GC-like deletions incl. a parent through its last child, container removal/cleanup, reopen); " +
		"one evaluation = one step followed by ObjectCounters + GetContainerInfo of every container vs a recount from the raw bbolt layout; " +
		"distinct = distinct (operation kind, kind of touched object, pre-state class of the touched address) triples; the elements of a batch are classified in batch order")
	nHist := r.Pick(150, 3000)
	if v := os.Getenv("VERIF_C02_HISTORIES"); v != "" { // development knob
		fmt.Sscan(v, &nHist)
	}
	if p := os.Getenv("VERIF_REPLAY"); p != "" {
		// re-run the recorded steps of one violating history (universe of the same seed)
		h, ops, err := vf02LoadReplay(p)
		if err != nil {
			r.Inconclusive("cannot use replay file: " + err.Error())
			return
		}
		vf02History(t, r, h, ops)
		return
	}
	for h := 0; h < nHist; h++ {
		vf02History(t, r, h, nil)
	}
	if r.Counter("comparisons") == 0 {
		r.Inconclusive("nothing compared")
	}
}

// vf02LoadReplay reads the history number and the executed steps out of a replay file
// written by this monitor ("ops": the String() form of every step).
func vf02LoadReplay(path string) (int, []vf02Op, error) {
	b, err := os.ReadFile(path)
	if err != nil {
		return 0, nil, err
	}
	var doc struct {
		Case struct {
			History int      `json:"history"`
			Ops     []string `json:"ops"`
		} `json:"case"`
	}
	if err := json.Unmarshal(b, &doc); err != nil {
		return 0, nil, err
	}
	if len(doc.Case.Ops) == 0 {
		return 0, nil, errors.New("no steps recorded")
	}
	var ops []vf02Op
	for _, s := range doc.Case.Ops {
		i, j, k := strings.IndexByte(s, '('), strings.IndexByte(s, ')'), strings.IndexByte(s, '[')
		if i < 0 || j < i || k < j {
			return 0, nil, fmt.Errorf("malformed step %q", s)
		}
		op := vf02Op{Kind: s[:i]}
		args, mid := s[i+1:j], s[j+1:k]
		if strings.Contains(args, ".") {
			op.Slots = strings.Split(args, ",")
			args = op.Slots[0]
		}
		if _, err := fmt.Sscanf(args, "c%d", &op.Cnr); err != nil {
			return 0, nil, fmt.Errorf("malformed step %q", s)
		}
		switch {
		case strings.HasPrefix(mid, ":"):
			op.Mark = mid[1:]
		case strings.HasPrefix(mid, "="):
			if _, err := fmt.Sscan(mid[1:], &op.Epoch); err != nil {
				return 0, nil, fmt.Errorf("malformed step %q", s)
			}
		}
		ops = append(ops, op)
	}
	return doc.Case.History, ops, nil
}

func vf02History(t *testing.T, r *verifkit.Run, h int, fixed []vf02Op) {
	rng := r.Rand("history", h)
	dir, err := os.MkdirTemp("", "vf02-")
	if err != nil {
		t.Fatal(err)
	}
	defer os.RemoveAll(dir)
	es := &vf02Epoch{}
	x := &vf02Run{t: t, r: r, path: filepath.Join(dir, "meta.db"), es: es, u: vf02BuildUniverse(rng), hist: h, drift: map[string]int64{}, cause: map[string]string{}, taint: map[string]string{}, clean: h%2 == 0}
	x.db = vf02OpenDB(t, x.path, es)
	defer func() { x.db.Close() }()
	x.raw = map[cid.ID]*vf02RawCnr{}
	steps := 40 + rng.IntN(81)
	if fixed != nil {
		steps = len(fixed)
	}
	r.Count("histories", 1)
	for i := 0; i < steps; i++ {
		var op vf02Op
		if fixed != nil {
			op = fixed[i]
		} else if r.Guard(map[string]any{"history": h, "step": i, "phase": "draw next step"}, func() { op = x.genOp(rng, i) }) {
			return
		}
		desc := map[string]any{"history": h, "step": i, "op": op}
		if r.Guard(desc, func() { x.exec(op) }) {
			return
		}
		if r.Guard(desc, func() { x.check() }) {
			return
		}
		r.Eval(1)
		if x.nviol > 6 {
			return
		}
	}
	if h < 2 {
		var l []string
		for _, o := range x.ops {
			l = append(l, o.String())
		}
		r.Sample(map[string]any{"history": h, "ops": l})
	}
}

// genOp draws the next step.  Every second history is "clean": shapes whose accounting is
// known to be off (see vf02Cause) are not generated, so that any discrepancy there is new.
func (x *vf02Run) genOp(rng *rand.Rand, step int) vf02Op {
	for try := 0; ; try++ {
		op := x.genAny(rng, step)
		if !x.clean {
			return op
		}
		probe := op
		x.annotate(&probe)
		if strings.Contains(vf02Cause(probe), "|") {
			return op
		}
		if try > 50 {
			return vf02Op{Kind: "epoch", Epoch: min(x.es.e+1, 10)}
		}
	}
}

func (x *vf02Run) genAny(rng *rand.Rand, step int) vf02Op {
	u := x.u
	ci := rng.IntN(len(u.cnrs))
	sl := u.slots[ci]
	any1 := func() string { return sl[rng.IntN(len(sl))].Name }
	putable := func() string {
		for {
			s := sl[rng.IntN(len(sl))]
			if s.obj != nil {
				return s.Name
			}
		}
	}
	w := rng.IntN(100)
	if step < 12 && w >= 30 {
		w = rng.IntN(52)
	}
	switch {
	case w < 40:
		return vf02Op{Kind: "put", Cnr: ci, Slots: []string{putable()}}
	case w < 52:
		return vf02Op{Kind: "putbatch", Cnr: ci, Slots: x.genBatch(rng, ci)}
	case w < 66:
		mk := "default"
		if rng.IntN(5) < 2 {
			mk = "redundant"
		}
		return vf02Op{Kind: "mark", Cnr: ci, Slots: []string{any1()}, Mark: mk}
	case w < 73:
		return vf02Op{Kind: "delete", Cnr: ci, Slots: []string{any1()}}
	case w < 79:
		return vf02Op{Kind: "gcdelete", Cnr: ci}
	case w < 88:
		return vf02Op{Kind: "revive", Cnr: ci, Slots: []string{any1()}}
	case w < 94:
		return vf02Op{Kind: "epoch", Epoch: min(x.es.e+1+uint64(rng.IntN(2)), 10)}
	case w < 96:
		return vf02Op{Kind: "inhume-container", Cnr: ci}
	case w < 98:
		return vf02Op{Kind: "cleanup-container", Cnr: ci}
	default:
		return vf02Op{Kind: "reopen"}
	}
}

// family lists the putable members of the object whose (virtual) parent is p: the holders
// of a parent header naming p (directly or through a nested parent) and the parts of the
// same split chain that carry no parent header.
func (x *vf02Run) family(ci int, p oid.ID) []*vf02Slot {
	sl := x.u.slots[ci]
	in := map[oid.ID]bool{}
	firsts := map[oid.ID]bool{}
	splits := map[string]bool{}
	for _, s := range sl {
		anc := s.par
		for lvl := 0; !anc.IsZero() && lvl < 2; lvl++ {
			if anc == p {
				in[s.id] = true
				if !s.first.IsZero() {
					firsts[s.first] = true
				}
				if s.split != "" {
					splits[s.split] = true
				}
			}
			ps := x.u.slot(ci, anc)
			if ps == nil {
				break
			}
			anc = ps.par
		}
	}
	var res []*vf02Slot
	for _, s := range sl {
		if s.obj == nil {
			continue
		}
		if in[s.id] || firsts[s.id] || (!s.first.IsZero() && firsts[s.first]) || (s.split != "" && splits[s.split]) {
			res = append(res, s)
		}
	}
	return res
}

// genBatch draws the elements of a PutBatch.  Besides independent elements it produces the
// shapes in which the elements of one batch interact: the same object more than once, a
// tombstone/lock together with its target (or with members of its virtual target) in either
// order, several children of one parent.
func (x *vf02Run) genBatch(rng *rand.Rand, ci int) []string {
	sl := x.u.slots[ci]
	var direct, assocs, vparents []*vf02Slot
	for _, s := range sl {
		switch {
		case s.obj != nil && (s.typ == object.TypeTombstone || s.typ == object.TypeLock):
			assocs = append(assocs, s)
			direct = append(direct, s)
		case s.obj != nil:
			direct = append(direct, s)
		case s.Kind == "vparent":
			vparents = append(vparents, s)
		}
	}
	rnd := func(l []*vf02Slot) *vf02Slot { return l[rng.IntN(len(l))] }
	// every second time prefer addresses that carry a garbage mark right now (the put of such
	// an address is where the accounting of a put goes wrong)
	hot := func(l []*vf02Slot) *vf02Slot {
		if rc := x.raw[x.u.cnrs[ci]]; rc != nil && rng.IntN(2) == 0 {
			var m []*vf02Slot
			for _, s := range l {
				if _, ok := rc.garbage[s.id]; ok {
					m = append(m, s)
				}
			}
			if len(m) > 0 {
				return rnd(m)
			}
		}
		return rnd(l)
	}
	var l []*vf02Slot
	switch v := rng.IntN(100); {
	case v < 30: // independent elements
		for n := 2 + rng.IntN(3); n > 0; n-- {
			l = append(l, rnd(direct))
		}
	case v < 50: // the same object more than once
		l = append(l, hot(direct))
		for n := rng.IntN(3); n > 0; n-- {
			l = append(l, rnd(direct))
		}
		l = append(l, l[rng.IntN(len(l))])
		if rng.IntN(3) == 0 {
			l = append(l, l[rng.IntN(len(l))])
		}
	case v < 78: // tombstone/lock and what it aims at
		a := rnd(assocs)
		var rel []*vf02Slot
		if t := x.u.slot(ci, a.target); t != nil && t.obj != nil {
			rel = append(rel, t)
		} else if t != nil {
			if fam := x.family(ci, t.id); len(fam) > 0 {
				rel = append(rel, rnd(fam))
				if rng.IntN(2) == 0 {
					rel = append(rel, rnd(fam))
				}
			}
		}
		if len(rel) == 0 || rng.IntN(4) == 0 {
			rel = append(rel, rnd(direct))
		}
		if rng.IntN(2) == 0 {
			l = append(append(l, a), rel...)
		} else {
			l = append(append(l, rel...), a)
		}
		if rng.IntN(4) == 0 { // a second tombstone/lock, often of the same target
			b := rnd(assocs)
			for _, c := range assocs {
				if c != a && c.target == a.target && rng.IntN(2) == 0 {
					b = c
				}
			}
			l = append(l, b)
		}
		if rng.IntN(4) == 0 {
			l = append(l, l[rng.IntN(len(l))])
		}
	default: // several members of one parent
		fam := x.family(ci, hot(vparents).id)
		if len(fam) == 0 {
			fam = direct
		}
		for n := 2 + rng.IntN(2); n > 0; n-- {
			l = append(l, rnd(fam))
		}
		if rng.IntN(3) == 0 {
			l = append(l, rnd(direct))
		}
	}
	var names []string
	for _, s := range l {
		names = append(names, s.Name)
	}
	return names
}

func (x *vf02Run) slotByName(ci int, name string) *vf02Slot {
	for _, s := range x.u.slots[ci] {
		if s.Name == name {
			return s
		}
	}
	panic("verif harness: unknown slot " + name)
}

var errVf02Rollback = errors.New("verif: dry run of a batch, always rolled back")

func vf02NonCritical(err error) bool {
	return errors.Is(err, apistatus.ErrObjectAlreadyRemoved) || errors.Is(err, ErrObjectIsExpired) || errors.Is(err, apistatus.ErrObjectLocked)
}

// batchStates returns, for every element of a PutBatch, the raw state of the container
// right before that element is processed.  PutBatch applies its elements in order inside
// one transaction, so an element sees what its predecessors in the same batch did (an
// address put a moment ago, a tombstone that has just marked its target and the target's
// children).  The states are obtained by applying the elements one by one with the package's
// own put() inside a transaction that is always rolled back; they are used only to NAME the
// shape of the step (pre-state classes), never to judge the counters.
func (x *vf02Run) batchStates(ci int, slots []string) []*vf02RawCnr {
	cnr := x.u.cnrs[ci]
	res := make([]*vf02RawCnr, 0, len(slots))
	epoch := x.es.e
	err := x.db.boltDB.Update(func(tx *bbolt.Tx) error {
		dead := false // a critical error: the real batch is rolled back as a whole
		for _, n := range slots {
			var rc *vf02RawCnr
			if b := tx.Bucket(append([]byte{255}, cnr[:]...)); b != nil {
				var err error
				if rc, err = vf02ReadRawCnr(b); err != nil {
					return err
				}
			}
			res = append(res, rc)
			if dead {
				continue
			}
			if _, err := x.db.put(tx, x.slotByName(ci, n).obj, 0, epoch); err != nil && !vf02NonCritical(err) {
				dead = true
			}
		}
		return errVf02Rollback
	})
	if !errors.Is(err, errVf02Rollback) {
		panic(fmt.Sprintf("verif harness: dry run of a batch: %v", err))
	}
	x.r.Count("batch_elements_classified_in_batch_order", len(slots))
	return res
}

// annotate records the pre-state classes of everything the step is going to touch.  The
// elements of a batch are classified in batch order, each against the state its
// predecessors left behind (see batchStates).
func (x *vf02Run) annotate(op *vf02Op) {
	ci := op.Cnr
	pre := x.raw[x.u.cnrs[ci]]
	op.own, op.tgts, op.par, op.tomb, op.tombNonRegular, op.inBatch = nil, nil, nil, false, false, nil
	isPut := op.Kind == "put" || op.Kind == "putbatch"
	parents := func(sl *vf02Slot, pre *vf02RawCnr) string {
		d := ""
		lvl := 0
		p := sl.par
		if p.IsZero() && isPut {
			// a stored middle part of a split chain: the code resolves its parent through
			// the siblings (exists() of a put consults it)
			if cp, ok := pre.chainParent(sl.id); ok {
				d += "~" + pre.prestate(cp)
				op.par = append(op.par, pre.prestate(cp))
				lvl++
				p = oid.ID{}
				if ps := x.u.slot(ci, cp); ps != nil {
					p = ps.par
				}
			}
		}
		for ; !p.IsZero() && lvl < 2; lvl++ {
			d += "^" + pre.prestate(p)
			op.par = append(op.par, pre.prestate(p))
			ps := x.u.slot(ci, p)
			if ps == nil {
				break
			}
			p = ps.par
		}
		return d
	}
	switch {
	case len(op.Slots) > 0:
		var states []*vf02RawCnr
		if op.Kind == "putbatch" && !x.flatBatch {
			states = x.batchStates(ci, op.Slots)
		}
		var parts []string
		seen := map[oid.ID]int{}
		for i, n := range op.Slots {
			sl := x.slotByName(ci, n)
			pre := pre
			if states != nil {
				pre = states[i]
			}
			d := sl.Kind + ":" + pre.prestate(sl.id)
			op.own = append(op.own, pre.prestate(sl.id))
			if isPut && (sl.typ == object.TypeTombstone || sl.typ == object.TypeLock) {
				tk := "ghost"
				ts := x.u.slot(ci, sl.target)
				if ts != nil {
					tk = ts.Kind
				}
				tp := pre.prestate(sl.target)
				d += ">" + tk + ":" + tp
				if sl.typ == object.TypeTombstone {
					op.tomb = true
					op.tgts = append(op.tgts, tp)
					if ts != nil && ts.typ != object.TypeRegular && strings.HasPrefix(tp, "P") {
						op.tombNonRegular = true
					}
				}
				if _, ok := seen[sl.target]; ok {
					op.inBatch = append(op.inBatch, "target-then-"+sl.Kind)
				}
			}
			if op.Kind == "putbatch" {
				if seen[sl.id] > 0 {
					op.inBatch = append(op.inBatch, "duplicate")
				}
				for id := range seen {
					if o := x.u.slot(ci, id); o != nil && o.target == sl.id && (o.typ == object.TypeTombstone || o.typ == object.TypeLock) {
						op.inBatch = append(op.inBatch, o.Kind+"-then-target")
					}
					if o := x.u.slot(ci, id); o != nil && id != sl.id && !o.par.IsZero() && o.par == sl.par {
						op.inBatch = append(op.inBatch, "siblings")
					}
				}
				seen[sl.id]++
			}
			d += parents(sl, pre)
			parts = append(parts, d)
		}
		op.Pre = strings.Join(parts, ",")
	case op.Kind == "gcdelete" && pre != nil:
		for id := range pre.garbage {
			op.own = append(op.own, pre.prestate(id))
			if sl := x.u.slot(ci, id); sl != nil {
				parents(sl, pre)
			}
		}
		if pre.removed {
			op.Pre = "x"
		}
	case pre != nil && pre.removed:
		op.Pre = "x"
	}
	if op.Kind == "reopen" {
		// Init re-counts containers that miss a counter key.  Its recount is known to differ
		// from the statement when redundant marks or marks of non-physical addresses exist.
		for _, rc := range x.raw {
			for id, v := range rc.garbage {
				if o := rc.objs[id]; len(v) > 0 || o == nil || !o.phy() {
					op.Pre = "redundant-or-nonphysical-marks"
				}
			}
		}
	}
}

func (x *vf02Run) exec(op vf02Op) {
	db := x.db
	ci := op.Cnr
	cnr := x.u.cnrs[ci]
	pre := x.raw[cnr]
	var first *vf02Slot
	if len(op.Slots) > 0 {
		first = x.slotByName(ci, op.Slots[0])
	}
	x.annotate(&op)
	for _, rel := range op.inBatch {
		x.r.Count("batch_shape_"+rel, 1)
	}
	if op.Kind == "putbatch" {
		// evidence: how often the shape of a batch is decided by what an earlier element of
		// the same batch did (classification against the state before the batch would differ)
		flat := op
		x.flatBatch = true
		x.annotate(&flat)
		x.flatBatch = false
		if c, f := vf02Cause(op), vf02Cause(flat); c != f {
			op.decidedInBatch = true
			x.r.Count("batches_whose_shape_is_decided_inside_the_batch", 1)
			if !strings.Contains(c, "|") {
				x.r.Count("batches_with_in_batch_"+c, 1)
			}
		}
	}
	if cause := vf02Cause(op); !strings.Contains(cause, "|") {
		// a shape with known mis-accounting is about to run: whatever the counters of this
		// container show from now on may be its echo (errors cancel and resurface later)
		groups := []string{"container-info"}
		if strings.HasPrefix(cause, "reput-") || strings.HasPrefix(cause, "revive-") {
			groups = append(groups, "type-counters")
		}
		for cj := range x.u.cnrs {
			if cj != ci && op.Kind != "reopen" {
				continue
			}
			for _, g := range groups {
				k := fmt.Sprintf("c%d/%s", cj, g)
				if x.taint[k] == "" {
					x.taint[k] = cause
				}
			}
		}
		x.r.Count("steps_with_known_misaccounting_shape", 1)
	}
	res := "ok"
	switch op.Kind {
	case "put":
		res = vf02ErrClass(db.Put(first.obj))
	case "putbatch":
		var objs []*object.Object
		for _, n := range op.Slots {
			objs = append(objs, x.slotByName(ci, n).obj)
		}
		res = vf02ErrClass(db.PutBatch(objs))
	case "mark":
		mk := GarbageMarkDefault
		if op.Mark == "redundant" {
			mk = GarbageMarkRedundant
		}
		_, err := db.MarkGarbage(cnr, []oid.ID{first.id}, mk)
		res = vf02ErrClass(err)
	case "delete":
		_, _, err := db.Delete(cnr, []oid.ID{first.id})
		res = vf02ErrClass(err)
	case "gcdelete":
		bins, err := db.GetGarbage(1000)
		res = vf02ErrClass(err)
		for _, b := range bins {
			if b.Container != cnr {
				continue
			}
			if len(b.Objects) == 0 {
				_ = db.DeleteContainer(cnr)
				res = "ok:cleaned"
			} else if _, _, err := db.Delete(cnr, b.Objects); err != nil {
				res = "err"
			}
		}
	case "revive":
		st, err := db.ReviveObject(oid.NewAddress(cnr, first.id))
		res = vf02ErrClass(err)
		if err == nil {
			if st.StatusType() == ReviveStatusGraveyard {
				res = "ok:graveyard"
			} else {
				res = "ok:garbage"
			}
		}
	case "epoch":
		x.es.e = op.Epoch
	case "inhume-container":
		_, err := db.InhumeContainer(cnr)
		res = vf02ErrClass(err)
		if err == nil {
			// the removal overwrites the counters with absolute values (and the reported
			// container info of a removed container is empty): no echo of an earlier known
			// mis-accounting can pass through it, so what is seen from here on is judged
			// (and keyed) on its own
			for _, g := range []string{"type-counters", "container-info"} {
				if k := fmt.Sprintf("c%d/%s", ci, g); x.taint[k] != "" {
					delete(x.taint, k)
					x.r.Count("known_shape_echo_ended_by_container_removal", 1)
				}
			}
		}
	case "cleanup-container":
		if pre == nil || !pre.removed {
			res = "skipped"
			break
		}
		res = vf02ErrClass(db.DeleteContainer(cnr))
	case "reopen":
		// the recount is repeated on the closed file through a plain bbolt handle
		if err := db.Close(); err != nil {
			x.t.Fatalf("close: %v", err)
		}
		x.checkFile()
		x.db = vf02OpenDB(x.t, x.path, x.es)
	}
	op.Res = res
	x.ops = append(x.ops, op)
	x.r.Count("ops_"+op.Kind+"_"+strings.SplitN(res, ":", 2)[0], 1)
	if res != "err" && res != "skipped" && op.Pre != "" {
		x.r.Distinct(op.Kind + op.Mark + "|" + op.Pre)
	}
}

func (x *vf02Run) violation(counter string, delta int64, what string, extra map[string]any) {
	x.violationCause(vf02Cause(x.ops[len(x.ops)-1]), counter, delta, what, extra)
}

func (x *vf02Run) violationCause(cause, counter string, delta int64, what string, extra map[string]any) {
	op := x.ops[len(x.ops)-1]
	sign := "+"
	if delta < 0 {
		sign = "-"
	}
	group := "type-counters"
	if strings.HasPrefix(counter, "container-") {
		group = "container-info"
	}
	if strings.Contains(cause, "|") && !strings.HasPrefix(cause, "counter-wrapped") {
		// no known shape in this step itself: in a container whose counters were already hit
		// by a known shape the discrepancy is keyed by that shape
		if t := x.taint[fmt.Sprintf("c%d/%s", x.curCi, group)]; t != "" {
			cause = t
		}
	}
	key := fmt.Sprintf("drift|%s|%s", cause, group)
	if strings.Contains(cause, "|") { // not one of the named shapes: keep every detail
		key = fmt.Sprintf("drift|%s|%s|%s", cause, counter, sign)
	}
	var l []string
	for _, o := range x.ops {
		l = append(l, o.String())
	}
	rep := map[string]any{"history": x.hist, "step": len(x.ops) - 1, "counter": counter, "delta": delta, "ops": l, "universe": x.u.describe()}
	for k, v := range extra {
		rep[k] = v
	}
	x.nviol++
	if op.decidedInBatch {
		x.r.Count("discrepancies_reported_at_batches_decided_inside_the_batch", 1)
	}
	x.r.Violation(key, fmt.Sprintf("history %d step %d %s: %s", x.hist, len(x.ops)-1, op.String(), what), rep)
}

// vf02Cause names the history shape of a mis-accounting step: the operation and the
// pre-state class of what it touched (presence A/V/P, m = carries a garbage mark,
// t = target of a stored tombstone, x = container removed).
func vf02Cause(op vf02Op) string {
	norm := func(p string) string { // presence + marked? + tombstoned?
		if p == "" {
			return "A"
		}
		r := p[:1]
		if strings.ContainsAny(p, "dr") {
			r += "m"
		}
		if strings.Contains(p, "t") {
			r += "t"
		}
		if strings.Contains(p, "x") {
			r += "x"
		}
		return r
	}
	set := func(l []string) string {
		m := map[string]bool{}
		for _, p := range l {
			m[norm(p)] = true
		}
		var k []string
		for p := range m {
			k = append(k, p)
		}
		sort.Strings(k)
		return strings.Join(k, ",")
	}
	has := func(l []string, f func(string) bool) bool {
		for _, p := range l {
			if f(norm(p)) {
				return true
			}
		}
		return false
	}
	indexedMarked := func(p string) bool {
		return (p[0] == 'P' || p[0] == 'V') && strings.Contains(p, "m") && !strings.Contains(p, "x")
	}
	absentMarked := func(p string) bool { return p[0] == 'A' && strings.Contains(p, "m") && !strings.Contains(p, "x") }
	nonPhysical := func(p string) bool { return p[0] != 'P' }
	res := strings.SplitN(op.Res, ":", 2)[0]
	markedNonPhysical := func(p string) bool { return nonPhysical(p) && strings.Contains(p, "m") }
	switch op.Kind {
	case "put", "putbatch":
		// the known mis-accounting shapes of a put, most specific first
		switch {
		case has(op.own, indexedMarked) || has(op.par, indexedMarked):
			return "reput-of-indexed-garbage-marked-object"
		case has(op.own, absentMarked):
			return "put-of-address-marked-while-absent"
		case op.tomb && has(op.tgts, func(p string) bool { return nonPhysical(p) || strings.ContainsAny(p, "mt") }):
			return "tombstone-of-nonphysical-or-already-marked-target"
		case op.tombNonRegular:
			return "tombstone-of-stored-non-regular-object"
		}
		s := "put|own=" + set(op.own)
		if op.tomb {
			s += "|tombstone-target=" + set(op.tgts)
		}
		if len(op.par) > 0 {
			s += "|parent=" + set(op.par)
		}
		if len(op.inBatch) > 0 { // relations between the elements of the batch
			m := map[string]bool{}
			var k []string
			for _, rel := range op.inBatch {
				if !m[rel] {
					m[rel] = true
					k = append(k, rel)
				}
			}
			sort.Strings(k)
			s += "|in-batch=" + strings.Join(k, "+")
		}
		return s + "|" + res
	case "mark":
		if has(op.own, nonPhysical) {
			return "mark-of-nonphysical-address"
		}
		return "mark|" + set(op.own) + "|" + res
	case "revive":
		if has(op.own, nonPhysical) {
			return "revive-of-nonphysical-address"
		}
		return "revive-of-physical-object"
	case "delete", "gcdelete":
		if has(op.own, markedNonPhysical) || has(op.par, markedNonPhysical) {
			return "delete-of-marked-nonphysical-address"
		}
		return op.Kind + "|" + set(op.own) + "|" + res
	case "reopen":
		if op.Pre != "" {
			return "counter-resync-at-init"
		}
		return "reopen||" + res
	}
	return op.Kind + "|" + op.Pre + "|" + res
}

func vf02Dist(v, lo, hi uint64) int64 {
	switch {
	case v < lo:
		return -int64(lo - v)
	case v > hi:
		return int64(v - hi)
	}
	return 0
}

func (x *vf02Run) check() {
	var raw map[cid.ID]*vf02RawCnr
	err := x.db.boltDB.View(func(tx *bbolt.Tx) error {
		var err error
		raw, err = vf02ReadRaw(tx)
		return err
	})
	if err != nil {
		x.r.Inconclusive("raw reader failed: " + err.Error())
		return
	}
	x.raw = raw
	x.compare(raw, true)
}

// checkFile recounts from the closed database file and compares with the stored counters.
func (x *vf02Run) checkFile() {
	bdb, err := bbolt.Open(x.path, 0o600, &bbolt.Options{ReadOnly: true, Timeout: 5 * time.Second})
	if err != nil {
		x.r.Inconclusive("cannot open closed metabase file: " + err.Error())
		return
	}
	defer bdb.Close()
	var raw map[cid.ID]*vf02RawCnr
	if err := bdb.View(func(tx *bbolt.Tx) error {
		var err error
		raw, err = vf02ReadRaw(tx)
		return err
	}); err != nil {
		x.r.Inconclusive("raw reader failed on file: " + err.Error())
		return
	}
	x.r.Count("file_level_recounts", 1)
	x.compare(raw, false)
}

func (x *vf02Run) compare(raw map[cid.ID]*vf02RawCnr, viaAPI bool) {
	r := x.r
	var sumLo, sumHi [5]uint64
	names := [5]string{"phy", "root", "ts", "lock", "link"}
	var cnrs []cid.ID
	for c := range raw {
		cnrs = append(cnrs, c)
	}
	sort.Slice(cnrs, func(i, j int) bool { return bytes.Compare(cnrs[i][:], cnrs[j][:]) < 0 })
	for _, c := range cnrs {
		rc := raw[c]
		e := rc.expect()
		ci := -1
		for i := range x.u.cnrs {
			if x.u.cnrs[i] == c {
				ci = i
			}
		}
		x.curCi = ci
		exp := [5]uint64{e.phy, e.root, e.ts, e.lock, e.lnk}
		// A removed container may be accounted as empty or as what is still indexed (the
		// statement does not say whether the objects of a removed container that await GC
		// are "indexed"), but it is ONE container: all five counters must follow the same
		// reading.  The reading is the one most counters that can tell (indexed number > 0)
		// agree with; a tie reads "empty" (what a removal that resets the counters means).
		reading := [5]uint64{}
		var asEmpty, asIndexed []string
		if e.removed {
			for i := range exp {
				switch got := rc.counters[byte(6+i)]; {
				case exp[i] == 0:
				case got == 0:
					asEmpty = append(asEmpty, names[i])
				case got == exp[i]:
					asIndexed = append(asIndexed, names[i])
				}
				if exp[i] > 0 {
					r.Count("removed_container_comparisons_with_indexed_"+names[i], 1)
				}
			}
			if len(asIndexed) > len(asEmpty) {
				reading = exp
				r.Count("removed_containers_accounted_as_still_indexed", 1)
			} else if len(asEmpty) > 0 {
				r.Count("removed_containers_accounted_as_empty", 1)
			}
		}
		for i := range exp {
			got := rc.counters[byte(6+i)]
			lo, hi := exp[i], exp[i]
			if e.removed {
				lo = 0
			}
			sumLo[i] += lo
			sumHi[i] += hi
			if got > 1<<62 {
				x.violationCause("counter-wrapped|"+names[i], names[i], 1, fmt.Sprintf("counter %s of c%d wrapped: %d", names[i], ci, got), nil)
			}
			if e.removed {
				x.noteDrift(fmt.Sprintf("c%d/%s", ci, names[i]), names[i], int64(got)-int64(reading[i]),
					fmt.Sprintf("stored %s counter of removed container c%d is %d while %d such objects are still indexed; the other counters of this container read: reset to 0 although objects are indexed %v, equal to the indexed number %v (a removed container is accounted as empty or as what is still indexed, all types alike)",
						names[i], ci, got, exp[i], asEmpty, asIndexed))
			} else {
				x.noteDrift(fmt.Sprintf("c%d/%s", ci, names[i]), names[i], int64(got)-int64(exp[i]), fmt.Sprintf("stored %s counter of c%d is %d, metadata indexes %d such objects", names[i], ci, got, exp[i]))
			}
			r.Count("comparisons", 1)
		}
		if viaAPI {
			info, err := x.db.GetContainerInfo(c)
			if err != nil {
				x.violation("container-info", 1, "GetContainerInfo failed: "+err.Error(), nil)
				continue
			}
			lo, hi, slo, shi := e.objLo, e.objHi, e.sizeLo, e.sizeHi
			if e.removed {
				lo, hi, slo, shi = 0, 0, 0, 0
			}
			if info.ObjectsNumber > 1<<62 || info.StorageSize > 1<<62 || rc.counters[11] > 1<<62 || rc.counters[12] > 1<<62 {
				x.violationCause("counter-wrapped|container-info", "container-info", 1, fmt.Sprintf("container info of c%d wrapped: %+v (gc-counter=%d payload-counter=%d)", ci, info, rc.counters[11], rc.counters[12]), nil)
			}
			// ObjectsNumber is derived (phy counter - garbage counter, clipped at 0): a wrong
			// garbage counter can stay latent behind the clipping and surface at a later,
			// innocent step.  The latent quantity is tracked to name the step that caused it.
			q := int64(rc.counters[6]) - int64(rc.counters[11])
			var dq int64
			switch {
			case q < int64(lo):
				dq = q - int64(lo)
			case q > int64(hi):
				dq = q - int64(hi)
			}
			qslot := fmt.Sprintf("c%d/q", ci)
			pq := x.drift[qslot]
			x.drift[qslot] = dq
			if vf02Grew(pq, dq) {
				x.cause[qslot] = vf02Cause(x.ops[len(x.ops)-1])
				r.Count("latent_container_object_miscounts", 1)
			}
			aslot := fmt.Sprintf("c%d/objects", ci)
			da := vf02Dist(info.ObjectsNumber, lo, hi)
			pa := x.drift[aslot]
			x.drift[aslot] = da
			if vf02Grew(pa, da) {
				cause := x.cause[qslot]
				if cause == "" || dq == 0 {
					cause = "container-objects-not-derived-from-counters|" + vf02Cause(x.ops[len(x.ops)-1])
				}
				x.violationCause(cause, "container-objects", da-pa,
					fmt.Sprintf("GetContainerInfo(c%d).ObjectsNumber=%d, stored physical objects not marked for removal: %d..%d (phy-counter=%d gc-counter=%d garbage-marks=%d; mis-accounting shape: %s)", ci, info.ObjectsNumber, lo, hi, rc.counters[6], rc.counters[11], len(rc.garbage), cause),
					map[string]any{"previous_drift": pa, "drift": da, "latent_drift": dq})
			}
			x.noteDrift(fmt.Sprintf("c%d/size", ci), "container-size", vf02Dist(info.StorageSize, slo, shi),
				fmt.Sprintf("GetContainerInfo(c%d).StorageSize=%d, payload of stored physical objects not marked for removal: %d..%d", ci, info.StorageSize, slo, shi))
			r.Count("comparisons", 2)
			if hi > 0 {
				r.Count("container_info_nonzero_checks", 1)
			}
		}
	}
	if viaAPI {
		oc, err := x.db.ObjectCounters()
		if err != nil {
			x.violation("object-counters", 1, "ObjectCounters failed: "+err.Error(), nil)
			return
		}
		got := [5]uint64{oc.Phy, oc.Root, oc.TS, oc.Lock, oc.Link}
		var stored [5]uint64
		for _, rc := range raw {
			for i := range stored {
				stored[i] += rc.counters[byte(6+i)]
			}
		}
		for i := range got {
			// the API must report what is stored; the stored values are judged above
			if got[i] != stored[i] {
				x.violation("api-sum|"+names[i], int64(got[i])-int64(stored[i]), fmt.Sprintf("ObjectCounters.%s=%d but per-container counters sum to %d", names[i], got[i], stored[i]), nil)
			}
			if d := vf02Dist(got[i], sumLo[i], sumHi[i]); d != 0 {
				r.Max("max_abs_drift_"+names[i], max(d, -d))
			}
			r.Count("comparisons", 1)
		}
	}
}

// vf02Grew: the discrepancy appeared, changed sign or got larger.
func vf02Grew(prev, d int64) bool {
	if d == 0 || d == prev {
		return false
	}
	if (prev > 0 && d > 0 && d < prev) || (prev < 0 && d < 0 && d > prev) {
		return false
	}
	return true
}

// noteDrift reports a discrepancy when it appears or changes, attributing it to the step
// that has just been executed.
func (x *vf02Run) noteDrift(slot, counter string, d int64, what string) {
	prev := x.drift[slot]
	x.drift[slot] = d
	if d == prev {
		return
	}
	if d == 0 {
		x.r.Count("drift_healed_"+counter, 1)
		return
	}
	// a correct step never enlarges an existing discrepancy (floored subtraction can only
	// shrink it); shrinking is the echo of an earlier mis-accounting, not a new one
	if (prev > 0 && d > 0 && d < prev) || (prev < 0 && d < 0 && d > prev) {
		x.r.Count("drift_shrunk_"+counter, 1)
		return
	}
	x.violation(counter, d-prev, what, map[string]any{"previous_drift": prev, "drift": d})
}

var _ = errors.New
var _ = verifkit.Addr
