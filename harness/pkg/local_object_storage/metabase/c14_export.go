//go:build verif

package meta

import "github.com/nspcc-dev/bbolt"

// Verif14View runs fn in a read transaction of the metabase's OWN bbolt handle. The C14
// monitor needs it when the shard keeps the metabase opened writable (exclusive file lock)
// while the shard itself reports a read-only mode, so no second handle can be opened.
// open=false: there is no handle; writable tells how the handle was opened.
func (db *DB) Verif14View(fn func(*bbolt.Tx) error) (writable, open bool, err error) {
	db.modeMtx.RLock()
	defer db.modeMtx.RUnlock()
	if db.boltDB == nil {
		return false, false, nil
	}
	return !db.boltDB.IsReadOnly(), true, db.boltDB.View(fn)
}
