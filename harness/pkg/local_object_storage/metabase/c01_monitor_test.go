//go:build verif

package meta

// Monitor of property C01: seeded mixed histories on a real meta.DB; after every step every
// address of the (small, dense) universe is queried through every read API and compared
// with the reference status model of c01_model_test.go.

import (
	"encoding/base64"
	"encoding/json"
	"errors"
	"fmt"
	"math/rand/v2"
	"os"
	"path/filepath"
	"runtime/debug"
	"sort"
	"strings"
	"testing"
	"time"

	"github.com/nspcc-dev/bbolt"
	iec "github.com/nspcc-dev/neofs-node/internal/ec"
	ierrors "github.com/nspcc-dev/neofs-node/internal/errors"
	"github.com/nspcc-dev/neofs-node/internal/verifkit"
	objectcore "github.com/nspcc-dev/neofs-node/pkg/core/object"
	"github.com/nspcc-dev/neofs-node/pkg/local_object_storage/blobstor/common"
	apistatus "github.com/nspcc-dev/neofs-sdk-go/client/status"
	"github.com/nspcc-dev/neofs-sdk-go/object"
	oid "github.com/nspcc-dev/neofs-sdk-go/object/id"
	"go.uber.org/zap"
)

type vf01Epoch struct{ e uint64 }

func (s *vf01Epoch) CurrentEpoch() uint64 { return s.e }

func vf01ErrClass(err error) string {
	var si *object.SplitInfoError
	switch {
	case err == nil:
		return "ok"
	case errors.Is(err, ierrors.ErrParentObject):
		return "parent"
	case errors.As(err, &si):
		return "splitinfo"
	case errors.Is(err, apistatus.ErrObjectAlreadyRemoved):
		return "removed"
	case errors.Is(err, ErrObjectIsExpired):
		return "expired"
	case errors.Is(err, apistatus.ErrObjectNotFound):
		return "notfound"
	case errors.Is(err, apistatus.ErrObjectLocked):
		return "locked"
	case errors.Is(err, ErrLockObjectRemoval):
		return "lock-removal"
	case errors.Is(err, apistatus.ErrLockNonRegularObject):
		return "lock-non-regular"
	case errors.Is(err, ErrObjectWasNotRemoved):
		return "was-not-removed"
	case errors.Is(err, ErrReviveFromContainerGarbage):
		return "revive-container-garbage"
	}
	return "other"
}

type vf01Op struct {
	Kind  string   `json:"kind"`
	Cnr   int      `json:"cnr"`
	Slots []string `json:"slots,omitempty"`
	Mark  string   `json:"mark,omitempty"`
	Epoch uint64   `json:"epoch,omitempty"`
	Res   string   `json:"res,omitempty"`
}

type vf01Run struct {
	r     *verifkit.Run
	db    *DB
	es    *vf01Epoch
	u     *vf01Universe
	m     *vf01Model
	hist  int
	ops   []vf01Op
	obs   []map[oid.ID]bool // garbage view of the current step, per container
	nviol int
	hot   [][]string // per container: addresses related to a tombstone/lock target (lazy)
}

// hotSlots: targets of the container's tombstone and lock objects together with their
// parents, children and split-chain relatives.  Marks, deletions and revivals are biased
// towards them so that removal actions meet objects that already carry marks, locks or
// tombstones (and the other way round) in every order.
func (x *vf01Run) hotSlots(ci int) []string {
	if x.hot == nil {
		x.hot = make([][]string, len(x.u.cnrs))
		for cj := range x.u.cnrs {
			set := map[oid.ID]bool{}
			for _, a := range x.u.slots[cj] {
				if a.target.IsZero() {
					continue
				}
				t := x.u.slot(cj, a.target)
				if t == nil || t.Kind == "ghost" {
					continue
				}
				set[t.id] = true
				if !t.par.IsZero() {
					set[t.par] = true
				}
				for _, r := range x.m.relatives(cj, t.id) {
					set[r] = true
				}
			}
			for _, s := range x.u.slots[cj] { // slot order keeps the list deterministic
				if set[s.id] {
					x.hot[cj] = append(x.hot[cj], s.Name)
				}
			}
		}
	}
	return x.hot[ci]
}

func (x *vf01Run) violation(view string, s *vf01Slot, want, got, why string, extra map[string]any) {
	key := fmt.Sprintf("%s|kind=%s|want=%s|got=%s|%s", view, s.Kind, want, got, why)
	if strings.Contains(why, "Ls") {
		// one defect shape, many symptoms: a live lock next to a removed lock object on the same target
		fam := "status-views"
		switch {
		case view == "IsLocked", view == "IterateExpired":
			fam = view
		}
		key = "live-lock-shadowed-by-removed-lock|" + fam
	}
	rep := map[string]any{"history": x.hist, "step": len(x.ops) - 1, "slot": s.Name, "view": view, "want": want, "got": got,
		"why": why, "epoch": x.m.epoch, "ops": x.ops, "universe": x.u.describe()}
	for k, v := range extra {
		rep[k] = v
	}
	x.nviol++
	x.r.Violation(key, fmt.Sprintf("history %d step %d (%s): %s of %s reports %q, reference rules accept %q (%s)",
		x.hist, len(x.ops)-1, vf01OpString(x.ops[len(x.ops)-1]), view, s.Name, got, want, why), rep)
}

func vf01OpString(o vf01Op) string {
	s := o.Kind
	if len(o.Slots) > 0 {
		s += "(" + strings.Join(o.Slots, ",") + ")"
	} else {
		s += fmt.Sprintf("(c%d)", o.Cnr)
	}
	if o.Mark != "" {
		s += ":" + o.Mark
	}
	if o.Kind == "epoch" {
		s += fmt.Sprintf("=%d", o.Epoch)
	}
	return s + "->" + o.Res
}

func vf01OpenDB(t testing.TB, dir string, es EpochState) *DB {
	opts := *bbolt.DefaultOptions
	opts.NoSync = true // durability is not the subject; keeps steps cheap
	opts.NoGrowSync = true
	opts.NoFreelistSync = true
	opts.Timeout = 5 * time.Second
	db := New(
		WithPath(filepath.Join(dir, "meta.db")),
		WithPermissions(0o600),
		WithEpochState(es),
		WithMaxBatchDelay(time.Microsecond),
		WithMaxBatchSize(1),
		WithBoltDBOptions(&opts),
		WithLogger(zap.NewNop()),
	)
	if err := db.Open(false); err != nil {
		t.Fatalf("open metabase: %v", err)
	}
	if err := db.Init(common.ID{}); err != nil {
		t.Fatalf("init metabase: %v", err)
	}
	return db
}

// TestVerif_C01 is the entry point of the C01 check.
func TestVerif_C01(t *testing.T) {
	r := verifkit.Start(t, "C01", "exploration")
	defer r.Finish()
	defer debug.SetGCPercent(debug.SetGCPercent(400)) // many short-lived read transactions
	r.SetRule("seeded histories of 40-120 steps (put of regular/split-child/EC-part/link/tombstone/lock objects, default and redundant garbage marks, " +
		"GC-like and random deletions, revivals, container removal and cleanup, epoch advances) over 2-3 containers x ~25 addresses; one evaluation = one step after which " +
		"every address is read through Exists(x2), Get(x2), IsLocked, ResolveECPart, Search, ListWithCursor, IterateExpired, GetGarbage and compared with the reference model; " +
		"distinct = distinct (operation kind, reference model state) pairs; trivial (empty-store) states are not counted")
	nHist := r.Pick(100, 1500)
	if v := os.Getenv("VERIF_C01_HISTORIES"); v != "" { // development knob
		fmt.Sscan(v, &nHist)
	}
	first, last := 0, nHist
	if p := os.Getenv("VERIF_REPLAY"); p != "" {
		var doc struct {
			Case struct {
				History int `json:"history"`
			} `json:"case"`
		}
		if b, err := os.ReadFile(p); err == nil && json.Unmarshal(b, &doc) == nil {
			first, last = doc.Case.History, doc.Case.History+1
		}
	}
	for h := first; h < last; h++ {
		vf01History(t, r, h)
		if r.Violations() > 40 {
			break
		}
	}
	if r.Counter("comparisons_crisp") == 0 {
		r.Inconclusive("no crisp comparison was made")
	}
}

func vf01History(t *testing.T, r *verifkit.Run, h int) {
	rng := r.Rand("history", h)
	dir, err := os.MkdirTemp("", "vf01-")
	if err != nil {
		t.Fatal(err)
	}
	defer os.RemoveAll(dir)
	es := &vf01Epoch{}
	db := vf01OpenDB(t, dir, es)
	defer db.Close()
	u := vf01BuildUniverse(rng)
	x := &vf01Run{r: r, db: db, es: es, u: u, m: vf01NewModel(u), hist: h}
	steps := 40 + rng.IntN(81)
	if h < 2 {
		r.Sample(map[string]any{"history": h, "steps": steps, "universe": u.describe()})
	}
	r.Count("histories", 1)
	for i := 0; i < steps; i++ {
		op := x.genOp(rng, i)
		desc := map[string]any{"history": h, "step": i, "op": op}
		if r.Guard(desc, func() { x.exec(op) }) {
			return
		}
		if r.Guard(desc, func() { x.checkAll(rng) }) {
			return
		}
		r.Eval(1)
		if x.m.nonTrivial() {
			r.Distinct(op.Kind + "|" + x.m.stateHash())
		}
		if x.nviol > 3 {
			return // a broken history only repeats itself
		}
	}
	if h < 2 {
		var l []string
		for _, o := range x.ops {
			l = append(l, vf01OpString(o))
		}
		r.Sample(map[string]any{"history": h, "ops": l})
	}
}

// ---------------------------------------------------------------------------------------
// workload

func (x *vf01Run) genOp(rng *rand.Rand, step int) vf01Op {
	u := x.u
	ci := rng.IntN(len(u.cnrs))
	sl := u.slots[ci]
	hot := x.hotSlots(ci)
	pickSlots := func(n int) []string {
		var res []string
		for i := 0; i < n; i++ {
			if len(hot) > 0 && rng.IntN(5) < 2 {
				res = append(res, hot[rng.IntN(len(hot))])
				continue
			}
			res = append(res, sl[rng.IntN(len(sl))].Name)
		}
		return res
	}
	putable := func() string {
		if rng.IntN(6) == 0 {
			// removal / protection of something that is there: a not yet stored tombstone or
			// lock whose target is present
			var c []string
			for _, s := range sl {
				if s.obj != nil && !s.target.IsZero() && !x.m.c[ci].stored[s.id] && x.m.present(ci, s.target) {
					c = append(c, s.Name)
				}
			}
			if len(c) > 0 {
				return c[rng.IntN(len(c))]
			}
		}
		for {
			s := sl[rng.IntN(len(sl))]
			if s.obj != nil {
				return s.Name
			}
		}
	}
	w := rng.IntN(100)
	if step < 12 && w >= 30 {
		w = rng.IntN(50) // fill the store first
	}
	switch {
	case w < 50:
		return vf01Op{Kind: "put", Cnr: ci, Slots: []string{putable()}}
	case w < 64:
		mk := "default"
		if rng.IntN(5) < 2 {
			mk = "redundant"
		}
		return vf01Op{Kind: "mark", Cnr: ci, Slots: pickSlots(1 + rng.IntN(2)), Mark: mk}
	case w < 71:
		return vf01Op{Kind: "delete", Cnr: ci, Slots: pickSlots(1 + rng.IntN(3))}
	case w < 76:
		return vf01Op{Kind: "gcdelete", Cnr: ci}
	case w < 84:
		return vf01Op{Kind: "revive", Cnr: ci, Slots: pickSlots(1)}
	case w < 96:
		return vf01Op{Kind: "epoch", Epoch: min(x.m.epoch+1+uint64(rng.IntN(2)), 10)}
	case w < 98:
		return vf01Op{Kind: "inhume-container", Cnr: ci}
	default:
		return vf01Op{Kind: "cleanup-container", Cnr: ci}
	}
}

func (x *vf01Run) slotByName(ci int, name string) *vf01Slot {
	for _, s := range x.u.slots[ci] {
		if s.Name == name {
			return s
		}
	}
	panic("verif harness: unknown slot " + name)
}

func (x *vf01Run) exec(op vf01Op) {
	r, db, m := x.r, x.db, x.m
	ci := op.Cnr
	var ids []oid.ID
	for _, n := range op.Slots {
		ids = append(ids, x.slotByName(ci, n).id)
	}
	res := "ok"
	switch op.Kind {
	case "put":
		s := x.slotByName(ci, op.Slots[0])
		err := db.Put(s.obj)
		res = vf01ErrClass(err)
		if err == nil {
			cov, red := m.applyPut(s)
			r.Count("parts_covered_by_tombstone_put", len(cov))
			r.Count("parts_covered_by_removal_after_redundant_mark", red)
		}
		r.Seen("put_outcomes", s.Kind+":"+res)
	case "mark":
		mk := GarbageMarkDefault
		if op.Mark == "redundant" {
			mk = GarbageMarkRedundant
		}
		_, err := db.MarkGarbage(x.u.cnrs[ci], ids, mk)
		res = vf01ErrClass(err)
		if err == nil {
			cov, red := m.applyMark(ci, ids, op.Mark == "redundant")
			r.Count("parts_covered_by_default_mark", cov)
			r.Count("parts_covered_by_removal_after_redundant_mark", red)
		}
	case "delete":
		_, _, err := db.Delete(x.u.cnrs[ci], ids)
		res = vf01ErrClass(err)
		if err == nil {
			m.applyDelete(ci, ids)
		}
	case "gcdelete":
		// what the shard's GC does with the garbage view: delete the listed objects, clean
		// up a removed container once it is empty
		bins, err := db.GetGarbage(1000)
		res = vf01ErrClass(err)
		n := 0
		for _, b := range bins {
			if b.Container != x.u.cnrs[ci] {
				continue
			}
			if len(b.Objects) == 0 {
				if err := db.DeleteContainer(b.Container); err == nil {
					m.applyDeleteContainer(ci)
					res = "ok:cleaned"
				}
				continue
			}
			n = len(b.Objects)
			if _, _, err := db.Delete(b.Container, b.Objects); err == nil {
				m.applyDelete(ci, b.Objects)
			} else {
				res = vf01ErrClass(err)
			}
		}
		if res == "ok" {
			res = fmt.Sprintf("ok:%d", min(n, 3))
		}
	case "revive":
		st, err := db.ReviveObject(oid.NewAddress(x.u.cnrs[ci], ids[0]))
		res = vf01ErrClass(err)
		if err == nil {
			m.applyRevive(ci, ids[0], st.TombstoneAddress().Object())
			if st.StatusType() == ReviveStatusGraveyard {
				res = "ok:graveyard"
			} else {
				res = "ok:garbage"
			}
		}
	case "epoch":
		x.es.e = op.Epoch
		m.epoch = op.Epoch
	case "inhume-container":
		_, err := db.InhumeContainer(x.u.cnrs[ci])
		res = vf01ErrClass(err)
		if err == nil {
			m.applyInhumeContainer(ci)
		}
	case "cleanup-container":
		// physical cleanup happens only for removed containers (as the shard's GC does)
		if !m.c[ci].gone {
			res = "skipped"
			break
		}
		err := db.DeleteContainer(x.u.cnrs[ci])
		res = vf01ErrClass(err)
		if err == nil {
			m.applyDeleteContainer(ci)
		}
	}
	op.Res = res
	x.ops = append(x.ops, op)
	r.Count("ops_"+op.Kind+"_"+strings.SplitN(res, ":", 2)[0], 1)
	if res == "other" {
		r.Count("ops_unclassified_error", 1)
	}
}

// ---------------------------------------------------------------------------------------
// views

func (x *vf01Run) existsClass(s *vf01Slot, ignoreExp bool) string {
	ok, err := x.db.Exists(oid.NewAddress(x.u.cnrs[s.ci], s.id), ignoreExp)
	if err == nil {
		if ok {
			return "true"
		}
		return "absent"
	}
	return vf01ErrClass(err)
}

func (x *vf01Run) getClass(s *vf01Slot, raw bool) string {
	hdr, err := x.db.Get(oid.NewAddress(x.u.cnrs[s.ci], s.id), raw)
	if err != nil {
		return vf01ErrClass(err)
	}
	if hdr.GetID() != s.id || hdr.GetContainerID() != x.u.cnrs[s.ci] || hdr.Type() != s.typ || hdr.PayloadSize() != s.size {
		return "wrong-header"
	}
	return "hdr"
}

// allowed outcome names of the point views for a status set.
func vf01Allowed(set uint8, present, hasChildren bool, view string) map[string]bool {
	a := map[string]bool{}
	if set&vf01Removed != 0 {
		a["removed"] = true
	}
	if set&vf01Expired != 0 {
		a["expired"] = true
	}
	if set&vf01NotFound != 0 {
		a["notfound"] = true
		if strings.HasPrefix(view, "Exists") {
			a["absent"] = true
		}
	}
	if set&vf01Avail != 0 {
		switch {
		case !present && strings.HasPrefix(view, "Exists"):
			a["absent"] = true
			a["notfound"] = true
		case !present:
			a["notfound"] = true
		case strings.HasPrefix(view, "Exists"):
			if hasChildren {
				a["parent"] = true
			} else {
				a["true"] = true
			}
		case view == "Get(raw)" && hasChildren:
			a["parent"] = true
		default:
			a["hdr"] = true
		}
	}
	return a
}

func vf01Keys(m map[string]bool) string {
	var l []string
	for k := range m {
		l = append(l, k)
	}
	sort.Strings(l)
	return strings.Join(l, "/")
}

func vf01Base(cls string) string {
	switch cls {
	case "true", "parent", "hdr":
		return "avail"
	case "absent", "notfound":
		return "notfound"
	}
	return cls
}

func (x *vf01Run) checkAll(rng *rand.Rand) {
	r, m, u := x.r, x.m, x.u
	epoch := m.epoch

	// garbage view first: it settles the marks the model cannot know
	x.obs = make([]map[oid.ID]bool, len(u.cnrs))
	for i := range x.obs {
		x.obs[i] = map[oid.ID]bool{}
	}
	binsSeen := map[int]bool{}
	bins, err := x.db.GetGarbage(4096)
	if err != nil {
		x.violation("GetGarbage", u.slots[0][0], "ok", "error", err.Error(), nil)
	}
	for _, b := range bins {
		for ci := range u.cnrs {
			if u.cnrs[ci] == b.Container {
				binsSeen[ci] = true
				for _, id := range b.Objects {
					x.obs[ci][id] = true
				}
			}
		}
	}
	for ci := range u.cnrs {
		x.checkGarbage(ci, binsSeen[ci])
	}

	for ci := range u.cnrs {
		inSearch := x.checkSearch(ci, epoch)
		for _, s := range u.slots[ci] {
			set := m.status(ci, s.id, epoch, x.obs[ci], false)
			present, kids := m.present(ci, s.id), m.hasChildren(ci, s.id)
			why := m.explain(ci, s.id, epoch, x.obs[ci])
			crisp := set&(set-1) == 0
			if crisp {
				r.Count("comparisons_crisp", 4)
			} else {
				r.Count("comparisons_multi_status_accepted", 4)
			}
			r.Seen("model_status_sets", vf01SetString(set))

			// Exists
			e := x.existsClass(s, false)
			r.Seen("exists_classes", e)
			if al := vf01Allowed(set, present, kids, "Exists"); !al[e] {
				x.violation("Exists", s, vf01Keys(al), e, why, nil)
			}
			// Exists ignoring expiration: expiry of the object and its ancestors is ignored;
			// whether expired locks count is not specified -> both readings accepted
			setIgn := m.status(ci, s.id, 0, x.obs[ci], true) | m.status(ci, s.id, epoch, x.obs[ci], true)
			ei := x.existsClass(s, true)
			r.Seen("exists_ignoreexp_classes", ei)
			if al := vf01Allowed(setIgn, present, kids, "Exists(ignoreExp)"); !al[ei] {
				x.violation("Exists(ignoreExp)", s, vf01Keys(al), ei, why, nil)
			}
			// Get
			g := x.getClass(s, false)
			r.Seen("get_classes", g)
			if al := vf01Allowed(set, present, kids, "Get"); !al[g] {
				x.violation("Get", s, vf01Keys(al), g, why, nil)
			}
			gr := x.getClass(s, true)
			r.Seen("get_raw_classes", gr)
			if al := vf01Allowed(set, present, kids, "Get(raw)"); !al[gr] {
				x.violation("Get(raw)", s, vf01Keys(al), gr, why, nil)
			}
			// the views must tell the same story about one address
			if vf01Base(e) != vf01Base(g) || vf01Base(g) != vf01Base(gr) {
				x.violation("views-disagree", s, "same status", fmt.Sprintf("Exists=%s,Get=%s,Get(raw)=%s", e, g, gr), why, nil)
			}
			if (vf01Base(e) == "avail") != inSearch[s.id] {
				x.violation("views-disagree", s, "same status", fmt.Sprintf("Exists=%s,Search-listed=%v", e, inSearch[s.id]), why, nil)
			}
			// IsLocked
			ld, lp := m.locked(ci, s.id, epoch, x.obs[ci])
			if m.c[ci].gone {
				ld, lp = false, false
			}
			locked, err := x.db.IsLocked(oid.NewAddress(u.cnrs[ci], s.id))
			if err != nil {
				x.violation("IsLocked", s, "answer", "error", err.Error(), nil)
			} else if (locked && !lp) || (!locked && ld) {
				x.violation("IsLocked", s, fmt.Sprint(ld), fmt.Sprint(locked), why, nil)
			}
			if locked {
				r.Count("islocked_true", 1)
			}
			x.checkResolve(s, set, present, kids, why)
		}
		x.checkList(ci, rng)
		x.checkExpired(ci, epoch)
		if e2 := uint64(rng.IntN(12)); e2 != epoch {
			x.checkExpired(ci, e2)
		}
	}
}

func (x *vf01Run) checkGarbage(ci int, binSeen bool) {
	m, c := x.m, x.m.c[ci]
	anySlot := x.u.slots[ci][0]
	if c.gone {
		// everything recorded for a removed container is garbage
		for _, s := range x.u.slots[ci] {
			if m.present(ci, s.id) != x.obs[ci][s.id] {
				x.violation("GetGarbage", s, fmt.Sprintf("listed=%v", m.present(ci, s.id)), fmt.Sprintf("listed=%v", x.obs[ci][s.id]), "container-gone", nil)
			}
		}
		if !binSeen {
			x.violation("GetGarbage", anySlot, "bin for removed container", "no bin", "container-gone", nil)
		}
		return
	}
	for _, s := range x.u.slots[ci] {
		switch c.mark[s.id] {
		case vf01MarkDefault, vf01MarkRedundant:
			if !x.obs[ci][s.id] {
				x.violation("GetGarbage", s, "listed", "not-listed", fmt.Sprintf("mark=%d", c.mark[s.id]), nil)
			}
		case vf01MarkNone:
			if x.obs[ci][s.id] {
				x.violation("GetGarbage", s, "not-listed", "listed", "never marked: scheduled for physical removal", nil)
			}
		default:
			if x.obs[ci][s.id] {
				x.r.Count("implicit_marks_observed", 1)
			}
		}
	}
}

func (x *vf01Run) search(ci int, fs object.SearchFilters, page uint16) (map[oid.ID]bool, error) {
	res := map[oid.ID]bool{}
	cursor := ""
	for guard := 0; guard < 1000; guard++ {
		ofs, c, err := objectcore.PreprocessSearchQuery(fs, nil, cursor)
		if err != nil {
			return nil, err
		}
		items, nc, err := x.db.Search(x.u.cnrs[ci], ofs, nil, c, page)
		if err != nil {
			return nil, err
		}
		for _, it := range items {
			if res[it.ID] {
				return nil, fmt.Errorf("duplicate %s in search result", it.ID)
			}
			res[it.ID] = true
		}
		if len(nc) == 0 {
			return res, nil
		}
		cursor = base64.StdEncoding.EncodeToString(nc)
	}
	return nil, errors.New("search did not terminate")
}

func (x *vf01Run) checkSearch(ci int, epoch uint64) map[oid.ID]bool {
	m, u := x.m, x.u
	type q struct {
		name string
		fs   object.SearchFilters
		sel  func(*vf01Slot) bool
		page uint16
	}
	var root, phy, ts, lk object.SearchFilters
	root.AddRootFilter()
	phy.AddPhyFilter()
	ts.AddTypeFilter(object.MatchStringEqual, object.TypeTombstone)
	lk.AddTypeFilter(object.MatchStringEqual, object.TypeLock)
	qs := []q{
		{"Search(all)", nil, func(*vf01Slot) bool { return true }, 128},
		{"Search(all,page=3)", nil, func(*vf01Slot) bool { return true }, 3},
		{"Search(ROOT)", root, func(s *vf01Slot) bool { return s.root }, 128},
		{"Search(PHY)", phy, func(s *vf01Slot) bool { return m.c[ci].stored[s.id] }, 4},
		{"Search(TOMBSTONE)", ts, func(s *vf01Slot) bool { return s.typ == object.TypeTombstone }, 128},
		{"Search(LOCK)", lk, func(s *vf01Slot) bool { return s.typ == object.TypeLock }, 2},
	}
	var all map[oid.ID]bool
	for _, qq := range qs {
		got, err := x.search(ci, qq.fs, qq.page)
		if err != nil {
			x.violation(qq.name, u.slots[ci][0], "result", "error", err.Error(), nil)
			continue
		}
		if all == nil {
			all = got
		}
		for id := range got {
			if u.slot(ci, id) == nil {
				x.violation(qq.name, u.slots[ci][0], "known address", "foreign id "+id.String(), "", nil)
			}
		}
		for _, s := range u.slots[ci] {
			set := m.status(ci, s.id, epoch, x.obs[ci], false)
			cand := m.present(ci, s.id) && qq.sel(s)
			must := cand && set == vf01Avail
			mustNot := !cand || set&vf01Avail == 0
			if must && !got[s.id] {
				x.violation(qq.name, s, "listed", "omitted", m.explain(ci, s.id, epoch, x.obs[ci]), nil)
			}
			if mustNot && got[s.id] {
				x.violation(qq.name, s, "omitted("+vf01SetString(set)+")", "listed", m.explain(ci, s.id, epoch, x.obs[ci]), nil)
			}
		}
		x.r.Count("search_queries", 1)
		x.r.Count("search_items", len(got))
	}
	if all == nil {
		all = map[oid.ID]bool{}
	}
	return all
}

func (x *vf01Run) checkResolve(s *vf01Slot, set uint8, present, kids bool, why string) {
	m, u, ci := x.m, x.u, s.ci
	type pi struct{ rule, idx int }
	pis := []pi{{0, 0}, {0, -1}}
	if s.Kind == "vparent" {
		pis = []pi{{0, 0}, {0, 1}, {0, 2}, {0, 3}, {0, -1}, {1, 0}, {1, -1}, {2, 0}}
	}
	for _, p := range pis {
		got, err := x.db.ResolveECPart(u.cnrs[ci], s.id, iec.PartInfo{RuleIndex: p.rule, Index: p.idx})
		cls := vf01ErrClass(err)
		al := map[string]bool{}
		if set&vf01Removed != 0 {
			al["removed"] = true
		}
		if set&vf01Expired != 0 {
			al["expired"] = true
		}
		if set&vf01NotFound != 0 {
			al["notfound"] = true
		}
		var want oid.ID
		if set&vf01Avail != 0 {
			minIdx := -1
			for _, c := range u.slots[ci] {
				if c.par != s.id || c.ecRule != p.rule || !m.c[ci].stored[c.id] {
					continue
				}
				if p.idx >= 0 && c.ecIdx == p.idx {
					want = c.id
				}
				if p.idx < 0 && (minIdx < 0 || c.ecIdx < minIdx) {
					minIdx, want = c.ecIdx, c.id
				}
			}
			switch {
			case !want.IsZero():
				al["part"] = true
			case kids:
				// a parent without the requested part: split info for size-split parents where
				// the store can tell, not found otherwise
				al["splitinfo"] = true
				al["notfound"] = true
			case present && (s.typ == object.TypeTombstone || s.typ == object.TypeLock || s.typ == object.TypeLink):
				al["self"] = true
			default:
				al["notfound"] = true
			}
		}
		if err == nil {
			switch {
			case !want.IsZero() && got == want:
				cls = "part"
			case got == s.id:
				cls = "self"
			default:
				cls = "wrong-id"
			}
			if cls == "part" {
				if ps := m.status(ci, got, m.epoch, x.obs[ci], false); ps&vf01Avail == 0 {
					x.r.Count("resolve_returned_part_that_is_itself_unavailable", 1) // observation only
				}
			}
		}
		x.r.Seen("resolve_classes", cls)
		x.r.Count("resolve_calls", 1)
		view := fmt.Sprintf("ResolveECPart(rule=%d,idx=0)", p.rule)
		if p.idx > 0 {
			view = fmt.Sprintf("ResolveECPart(rule=%d,idx>0)", p.rule)
		} else if p.idx < 0 {
			view = fmt.Sprintf("ResolveECPart(rule=%d,idx<0)", p.rule)
		}
		if !al[cls] {
			x.violation(view, s, vf01Keys(al), cls, why, map[string]any{"part_info": fmt.Sprint(p)})
		}
	}
}

func (x *vf01Run) checkList(ci int, rng *rand.Rand) {
	// listing is global; evaluate it once per step (when called for container 0)
	if ci != 0 {
		return
	}
	m, u := x.m, x.u
	coverReported := map[*vf01Slot]bool{} // one report per address and step, not one per page size
	for _, page := range []int{1, 2 + rng.IntN(5), 128} {
		seen := map[oid.Address]object.Type{}
		var cur *Cursor
		ended := false
		for guard := 0; guard < 2000; guard++ {
			items, nc, err := x.db.ListWithCursor(page, cur)
			if err != nil {
				if errors.Is(err, ErrEndOfListing) {
					ended = true
				} else {
					x.violation("ListWithCursor", u.slots[0][0], "page", "error", err.Error(), nil)
				}
				break
			}
			if len(items) == 0 || len(items) > page {
				x.violation("ListWithCursor", u.slots[0][0], "1..count items", fmt.Sprintf("%d items", len(items)), "", nil)
				break
			}
			for _, it := range items {
				if _, dup := seen[it.Address]; dup {
					x.violation("ListWithCursor", u.slots[0][0], "each once", "duplicate", it.Address.String(), nil)
				}
				seen[it.Address] = it.Type
			}
			cur = nc
		}
		if !ended {
			x.violation("ListWithCursor", u.slots[0][0], "end of listing", "no end", fmt.Sprintf("page=%d", page), nil)
		}
		x.r.Count("list_walks", 1)
		x.r.Count("list_items", len(seen))
		for a := range seen {
			known := false
			for cj := range u.cnrs {
				if u.cnrs[cj] == a.Container() && u.slot(cj, a.Object()) != nil {
					known = true
				}
			}
			if !known {
				x.violation("ListWithCursor", u.slots[0][0], "known address", "foreign "+a.String(), "", nil)
			}
		}
		for cj := range u.cnrs {
			c := m.c[cj]
			for _, s := range u.slots[cj] {
				typ, listed := seen[oid.NewAddress(u.cnrs[cj], s.id)]
				stored := c.stored[s.id]
				t := m.tombstoned(cj, s.id)
				mk := c.mark[s.id]
				// "listing omits exactly the objects marked for removal": unmarked stored
				// objects of live containers are listed whatever their expiry or locks;
				// redundant copies stay readable, so their listing is not constrained
				must := stored && !c.gone && !t && (mk == vf01MarkNone || (mk == vf01MarkUnknown && !x.obs[cj][s.id]))
				mustNot := !stored || c.gone || t || mk == vf01MarkDefault
				why := fmt.Sprintf("stored=%v gone=%v tombstoned=%v mark=%d page=%d", stored, c.gone, t, mk, page)
				// a stored part of a composite object that was tombstoned / garbage-marked as a
				// whole is marked for removal while that action stands
				if by, cov := m.coveredBy(cj, s.id); cov && !c.gone {
					if !mustNot {
						x.r.Count("list_checks_of_parts_covered_by_ancestor_removal", 1)
						why = fmt.Sprintf("part covered by %s; stored=%v mark=%d page=%d", by, stored, mk, page)
						if listed && coverReported[s] {
							continue
						}
						if listed {
							coverReported[s] = true
							x.violation("ListWithCursor", s, "omitted", "listed", vf01CoverKey(by)+"; "+m.explain(cj, s.id, m.epoch, x.obs[cj]), map[string]any{"detail": why})
							continue
						}
					}
					mustNot = true
				} else if listed && stored && !c.gone && page == 128 && m.status(cj, s.id, m.epoch, x.obs[cj], true)&vf01Avail == 0 {
					// observation only: the point views call it removed / not found through an
					// ancestor, listing shows it (a part that arrived after the action, or was revived)
					x.r.Count("list_shows_part_whose_ancestor_is_removed_uncovered", 1)
				}
				if must && !listed {
					x.violation("ListWithCursor", s, "listed", "omitted", why, nil)
				}
				if mustNot && listed {
					x.violation("ListWithCursor", s, "omitted", "listed", why, nil)
				}
				if listed && typ != s.typ {
					x.violation("ListWithCursor", s, s.typ.String(), typ.String(), "type", nil)
				}
			}
		}
	}
}

// vf01CoverKey reduces the description of a covering action to its kind (class key).
func vf01CoverKey(by string) string {
	if strings.HasPrefix(by, "tombstone") {
		return "part-of-tombstoned-ancestor"
	}
	return "part-of-garbage-marked-ancestor"
}

func (x *vf01Run) checkExpired(ci int, epoch uint64) {
	// iteration is global; evaluate it once per call for container 0
	if ci != 0 {
		return
	}
	m, u := x.m, x.u
	got := map[oid.Address]object.Type{}
	err := x.db.IterateExpired(epoch, func(a oid.Address, typ object.Type) error {
		if _, dup := got[a]; dup {
			x.violation("IterateExpired", u.slots[0][0], "each once", "duplicate", a.String(), nil)
		}
		got[a] = typ
		return nil
	})
	if err != nil {
		x.violation("IterateExpired", u.slots[0][0], "iteration", "error", err.Error(), nil)
		return
	}
	x.r.Count("expired_iterations", 1)
	x.r.Count("expired_items", len(got))
	for cj := range u.cnrs {
		c := m.c[cj]
		for _, s := range u.slots[cj] {
			typ, yielded := got[oid.NewAddress(u.cnrs[cj], s.id)]
			f := m.facts(cj, s.id, epoch, x.obs[cj], false)
			inherited := m.status(cj, s.id, epoch, x.obs[cj], false)&vf01Expired != 0
			must := f.E && !f.Lposs && !c.gone && !f.T && !f.Gposs
			mustNot := c.gone || f.Ldef || (!f.E && !inherited)
			why := fmt.Sprintf("at-epoch=%d %s", epoch, m.explain(cj, s.id, epoch, x.obs[cj]))
			if must && !yielded {
				x.violation("IterateExpired", s, "yielded", "omitted", why, nil)
			}
			if mustNot && yielded {
				x.violation("IterateExpired", s, "omitted", "yielded", why, nil)
			}
			if yielded && typ != s.typ {
				x.violation("IterateExpired", s, s.typ.String(), typ.String(), "type", nil)
			}
		}
	}
}
