//go:build verif

package meta

// Private copy (for property C02) of the small dense object universe used by the C01
// monitor: per container a few regular objects, a V2 and a V1 size-split chain, an EC
// object, an EC-of-split-child nesting, three tombstones and three locks with fixed
// targets.  cNN_ files are overlaid only for their own property, hence the copy.

import (
	"fmt"
	"math/rand/v2"
	"strconv"

	iec "github.com/nspcc-dev/neofs-node/internal/ec"
	"github.com/nspcc-dev/neofs-node/internal/verifkit"
	cid "github.com/nspcc-dev/neofs-sdk-go/container/id"
	"github.com/nspcc-dev/neofs-sdk-go/object"
	oid "github.com/nspcc-dev/neofs-sdk-go/object/id"
	"github.com/nspcc-dev/neofs-sdk-go/user"
)

// vf02Slot is one address of the universe with the static facts of the object that may
// live there (content addressing: an ID always denotes the same object).
type vf02Slot struct {
	Name   string
	Kind   string // regular, vparent, v2first, v2mid, v2last, v2link, v1mid, v1last, v1link, ecpart, tomb, lock, ghost
	ci     int
	id     oid.ID
	obj    *object.Object // nil when the address cannot be put directly (virtual parents, ghost)
	typ    object.Type
	par    oid.ID // parent ID carried in the header
	first  oid.ID
	split  string
	exp    int64 // -1: no expiration
	target oid.ID
	ecRule int
	ecIdx  int
	size   uint64
	root   bool
}

type vf02Universe struct {
	cnrs  []cid.ID
	slots [][]*vf02Slot
	byID  []map[oid.ID]*vf02Slot
}

func (u *vf02Universe) slot(ci int, id oid.ID) *vf02Slot { return u.byID[ci][id] }

func (u *vf02Universe) describe() []string {
	var res []string
	for ci := range u.slots {
		for _, s := range u.slots[ci] {
			d := fmt.Sprintf("%s kind=%s exp=%d", s.Name, s.Kind, s.exp)
			if !s.par.IsZero() {
				if p := u.slot(ci, s.par); p != nil {
					d += " parent=" + p.Name
				}
			}
			if !s.target.IsZero() {
				if p := u.slot(ci, s.target); p != nil {
					d += " target=" + p.Name
				}
			}
			if s.ecRule >= 0 {
				d += fmt.Sprintf(" ec=%d/%d", s.ecRule, s.ecIdx)
			}
			res = append(res, d)
		}
	}
	return res
}

func vf02Exp(rng *rand.Rand, p float64) int64 {
	if rng.Float64() < p {
		return int64(rng.IntN(10))
	}
	return -1
}

func vf02NewObj(rng *rand.Rand, cnr cid.ID, owner user.ID, size int, exp int64) *object.Object {
	o := verifkit.NewObject(rng, cnr, owner, size)
	if rng.IntN(3) == 0 {
		verifkit.AddAttr(o, "k"+strconv.Itoa(rng.IntN(2)), "v"+strconv.Itoa(rng.IntN(3)))
	}
	if exp >= 0 {
		verifkit.SetExpiration(o, uint64(exp))
	}
	return o
}

func vf02Header(rng *rand.Rand, cnr cid.ID, owner user.ID, size uint64, exp int64) *object.Object {
	o := vf02NewObj(rng, cnr, owner, 0, exp)
	o.SetPayload(nil)
	o.SetPayloadSize(size)
	return o
}

func vf02BuildUniverse(rng *rand.Rand) *vf02Universe {
	u := &vf02Universe{}
	nc := 2 + rng.IntN(2)
	owner := verifkit.RandUser(rng)
	for ci := 0; ci < nc; ci++ {
		cnr := verifkit.RandCID(rng)
		var sl []*vf02Slot
		add := func(name, kind string, o *object.Object, direct bool) *vf02Slot {
			s := &vf02Slot{Name: fmt.Sprintf("c%d.%s", ci, name), Kind: kind, ci: ci, id: o.GetID(), typ: o.Type(),
				par: o.GetParentID(), first: o.GetFirstID(), split: string(o.SplitID().ToV2()), exp: -1, ecRule: -1, ecIdx: -1,
				size: o.PayloadSize()}
			if direct {
				s.obj = o
			}
			for _, a := range o.Attributes() {
				switch a.Key() {
				case object.AttributeExpirationEpoch:
					if v, err := strconv.ParseUint(a.Value(), 10, 64); err == nil {
						s.exp = int64(v)
					}
				case iec.AttributeRuleIdx:
					s.ecRule, _ = strconv.Atoi(a.Value())
				case iec.AttributePartIdx:
					s.ecIdx, _ = strconv.Atoi(a.Value())
				}
			}
			if s.typ == object.TypeTombstone || s.typ == object.TypeLock {
				s.target = o.AssociatedObject()
			}
			s.root = s.typ == object.TypeRegular && !o.HasParent()
			sl = append(sl, s)
			return s
		}
		sz := func() int { return 1 + rng.IntN(64) }

		// plain regular objects
		add("r0", "regular", vf02NewObj(rng, cnr, owner, sz(), -1), true)
		add("r1", "regular", vf02NewObj(rng, cnr, owner, sz(), vf02Exp(rng, 0.9)), true)
		add("r2", "regular", vf02NewObj(rng, cnr, owner, sz(), vf02Exp(rng, 0.7)), true)

		// size-split object, V2 scheme (first ID links the chain)
		{
			pexp := vf02Exp(rng, 0.5)
			cexp := int64(-1)
			if rng.IntN(2) == 0 {
				cexp = pexp // children repeat the parent's expiration in some universes
			}
			s1, s2, s3 := sz(), sz(), sz()
			pv := vf02Header(rng, cnr, owner, uint64(s1+s2+s3), pexp)
			noID := *pv
			noID.ResetID()
			vf := vf02NewObj(rng, cnr, owner, s1, cexp)
			vf.SetParent(&noID)
			vm := vf02NewObj(rng, cnr, owner, s2, cexp)
			vm.SetFirstID(vf.GetID())
			vm.SetPreviousID(vf.GetID())
			vl := vf02NewObj(rng, cnr, owner, s3, cexp)
			vl.SetFirstID(vf.GetID())
			vl.SetPreviousID(vm.GetID())
			vl.SetParent(pv)
			vk := vf02NewObj(rng, cnr, owner, 8, cexp)
			vk.SetType(object.TypeLink)
			vk.SetFirstID(vf.GetID())
			vk.SetParent(pv)
			add("pv", "vparent", pv, false)
			add("vf", "v2first", vf, true)
			add("vm", "v2mid", vm, true)
			add("vl", "v2last", vl, true)
			add("vk", "v2link", vk, true)
		}
		// size-split object, V1 scheme (split ID links the chain)
		if rng.IntN(5) < 3 {
			sid := object.NewSplitIDFromV2(verifkit.RandBytes(rng, 16))
			s1, s2 := sz(), sz()
			pw := vf02Header(rng, cnr, owner, uint64(s1+s2), vf02Exp(rng, 0.4))
			wa := vf02NewObj(rng, cnr, owner, s1, -1)
			wa.SetSplitID(sid)
			wb := vf02NewObj(rng, cnr, owner, s2, -1)
			wb.SetSplitID(sid)
			wb.SetPreviousID(wa.GetID())
			wb.SetParent(pw)
			wk := vf02NewObj(rng, cnr, owner, 0, -1)
			wk.SetPayload(nil)
			wk.SetPayloadSize(0)
			wk.SetSplitID(sid)
			wk.SetParent(pw)
			wk.SetChildren(wa.GetID(), wb.GetID())
			add("pw", "vparent", pw, false)
			add("wa", "v1mid", wa, true)
			add("wb", "v1last", wb, true)
			add("wk", "v1link", wk, true)
		}
		ecPart := func(par *object.Object, rule, idx int) *object.Object {
			o := verifkit.NewObject(rng, cnr, owner, sz())
			o.SetParent(par)
			verifkit.AddAttr(o, iec.AttributeRuleIdx, strconv.Itoa(rule))
			verifkit.AddAttr(o, iec.AttributePartIdx, strconv.Itoa(idx))
			return o
		}
		// EC object
		{
			pe := vf02Header(rng, cnr, owner, uint64(sz()), vf02Exp(rng, 0.5))
			add("pe", "vparent", pe, false)
			add("e0", "ecpart", ecPart(pe, 0, 0), true)
			add("e1", "ecpart", ecPart(pe, 0, 1), true)
			add("e2", "ecpart", ecPart(pe, 0, 2), true)
			add("e3", "ecpart", ecPart(pe, 1, 0), true)
		}
		// nesting 2: EC parts of a size-split child of a root object
		if rng.IntN(2) == 0 {
			pn := vf02Header(rng, cnr, owner, uint64(sz()), vf02Exp(rng, 0.4))
			cn := vf02Header(rng, cnr, owner, uint64(sz()), -1)
			cn.SetParent(pn)
			cn.SetFirstID(verifkit.RandOID(rng))
			add("pn", "vparent", pn, false)
			add("cn", "vparent", cn, false)
			add("n0", "ecpart", ecPart(cn, 0, 0), true)
			add("n1", "ecpart", ecPart(cn, 0, 1), true)
		}
		ghost := verifkit.RandOID(rng)
		// targets of tombstones and locks are fixed per slot (same ID = same object)
		pick := func(kinds ...string) oid.ID {
			var c []oid.ID
			for _, s := range sl {
				for _, k := range kinds {
					if s.Kind == k {
						c = append(c, s.id)
					}
				}
			}
			if len(c) == 0 {
				return ghost
			}
			return c[rng.IntN(len(c))]
		}
		target := func(forLock bool) oid.ID {
			x := rng.IntN(100)
			switch {
			case x < 45:
				return pick("regular")
			case x < 70:
				return pick("vparent")
			case x < 88:
				return pick("v2first", "v2mid", "v2last", "v2link", "v1mid", "v1last", "v1link", "ecpart")
			case x < 94:
				return ghost
			default:
				return oid.ID{} // resolved below to a tombstone/lock slot
			}
		}
		type assoc struct {
			o    *object.Object
			lock bool
		}
		var as []assoc
		for i := 0; i < 3; i++ {
			as = append(as, assoc{vf02NewObj(rng, cnr, owner, 0, vf02Exp(rng, 0.5)), false})
		}
		for i := 0; i < 3; i++ {
			as = append(as, assoc{vf02NewObj(rng, cnr, owner, 0, vf02Exp(rng, 0.6)), true})
		}
		for i, a := range as {
			t := target(a.lock)
			// dense relations: second lock on the same target, second tombstone on the same
			// target, tombstone aimed at a locked target
			switch {
			case i == 1 && rng.IntN(4) == 0:
				t = as[0].o.AssociatedObject()
			case i == 4 && rng.IntN(3) == 0:
				t = as[3].o.AssociatedObject()
			case i == 3 && rng.IntN(3) == 0:
				t = as[2].o.AssociatedObject()
			}
			if t.IsZero() {
				t = as[(i+1+rng.IntN(len(as)-1))%len(as)].o.GetID() // another tombstone/lock object
			}
			if t == a.o.GetID() {
				t = ghost // an object cannot reference itself (IDs are content hashes)
			}
			a.o.SetPayload(nil)
			if a.lock {
				a.o.AssociateLocked(t)
				add("k"+strconv.Itoa(i-3), "lock", a.o, true)
			} else {
				a.o.AssociateDeleted(t)
				add("t"+strconv.Itoa(i), "tomb", a.o, true)
			}
		}
		g := &vf02Slot{Name: fmt.Sprintf("c%d.ghost", ci), Kind: "ghost", ci: ci, id: ghost, exp: -1, ecRule: -1, ecIdx: -1}
		sl = append(sl, g)

		m := map[oid.ID]*vf02Slot{}
		for _, s := range sl {
			m[s.id] = s
		}
		u.cnrs = append(u.cnrs, cnr)
		u.slots = append(u.slots, sl)
		u.byID = append(u.byID, m)
	}
	return u
}
