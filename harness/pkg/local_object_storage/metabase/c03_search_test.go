//go:build verif

package meta

import (
	"bytes"
	"encoding/base64"
	"encoding/hex"
	"errors"
	"fmt"
	"math/big"
	"math/rand/v2"
	"os"
	"path/filepath"
	"regexp"
	"slices"
	"sort"
	"strings"
	"testing"
	"time"

	"github.com/google/uuid"
	"github.com/nspcc-dev/bbolt"
	"github.com/nspcc-dev/neofs-node/internal/verifkit"
	objectcore "github.com/nspcc-dev/neofs-node/pkg/core/object"
	"github.com/nspcc-dev/neofs-node/pkg/local_object_storage/blobstor/common"
	"github.com/nspcc-dev/neofs-sdk-go/checksum"
	"github.com/nspcc-dev/neofs-sdk-go/client"
	cid "github.com/nspcc-dev/neofs-sdk-go/container/id"
	"github.com/nspcc-dev/neofs-sdk-go/object"
	oid "github.com/nspcc-dev/neofs-sdk-go/object/id"
	"github.com/nspcc-dev/neofs-sdk-go/user"
	"github.com/nspcc-dev/neofs-sdk-go/version"
)

// ---------------------------------------------------------------------------------------
// Reference side (written from the property statement and the NeoFS API text, not from
// the index code):
//   * an object is a map attribute -> value; system header fields are attributes under
//     their "$Object:" names and carry their API string form (owner/IDs Base58, checksum
//     lower-case hex, split ID canonical UUID, type/version names, sizes decimal);
//   * EQ / NE / PREFIX compare the string form and need the attribute to be present,
//     NOT_PRESENT needs it absent, numeric matchers need the attribute value to be an
//     optionally signed decimal number in [-(2^256-1), 2^256-1] and compare numerically;
//   * the result is the set of AVAILABLE objects satisfying all filters, ordered by the
//     first requested attribute (numerically for a numeric first filter; identifiers -
//     owner, parent, first, associate - as binary identifiers exactly like the object ID
//     tie-break; everything else byte-wise) and then by object ID; without requested
//     attributes by object ID;
//   * following the returned cursor yields the list exactly once for any page size.
// ---------------------------------------------------------------------------------------

var vf03Max = new(big.Int).Sub(new(big.Int).Lsh(big.NewInt(1), 256), big.NewInt(1))

func vf03Int(s string) (*big.Int, bool) {
	d := s
	neg := false
	if d != "" && (d[0] == '+' || d[0] == '-') {
		neg = d[0] == '-'
		d = d[1:]
	}
	if d == "" {
		return nil, false
	}
	for i := 0; i < len(d); i++ {
		if d[i] < '0' || d[i] > '9' {
			return nil, false
		}
	}
	v, ok := new(big.Int).SetString(d, 10)
	if !ok {
		return nil, false
	}
	if neg {
		v.Neg(v)
	}
	if v.CmpAbs(vf03Max) > 0 {
		return nil, false
	}
	return v, true
}

type vf03Val struct {
	str string   // API string form
	ord []byte   // order key among values of this attribute for non-numeric ordering
	n   *big.Int // non-nil iff the value counts as an integer
}

func vf03Plain(s string) vf03Val {
	n, _ := vf03Int(s)
	return vf03Val{str: s, ord: []byte(s), n: n}
}

func vf03Bin(str string, raw []byte) vf03Val { return vf03Val{str: str, ord: raw} }

type vf03Obj struct {
	id    oid.ID
	attrs map[string]vf03Val
	avail bool
	why   string // why unavailable
	plain bool   // no split relations, not a parent: may be removed / expire
	exp   uint64 // expiration epoch (0 = none)
	obj   *object.Object
}

type vf03Filter struct {
	Key string `json:"key"`
	Op  int    `json:"op"`
	Val string `json:"val"`
}

func (f vf03Filter) op() object.SearchMatchType { return object.SearchMatchType(f.Op) }

func vf03IsNum(op object.SearchMatchType) bool {
	return op == object.MatchNumGT || op == object.MatchNumGE || op == object.MatchNumLT || op == object.MatchNumLE
}

func vf03Matches(o *vf03Obj, f vf03Filter) bool {
	a, present := o.attrs[f.Key]
	if f.Key == object.FilterRoot || f.Key == object.FilterPhysical {
		return present
	}
	op := f.op()
	if op == object.MatchNotPresent {
		return !present
	}
	if !present {
		return false
	}
	switch op {
	case object.MatchStringEqual:
		return a.str == f.Val
	case object.MatchStringNotEqual:
		return a.str != f.Val
	case object.MatchCommonPrefix:
		return strings.HasPrefix(a.str, f.Val)
	}
	if !vf03IsNum(op) {
		return false
	}
	fv, ok := vf03Int(f.Val)
	if !ok || a.n == nil {
		return false
	}
	c := a.n.Cmp(fv)
	switch op {
	case object.MatchNumGT:
		return c > 0
	case object.MatchNumGE:
		return c >= 0
	case object.MatchNumLT:
		return c < 0
	default:
		return c <= 0
	}
}

type vf03Query struct {
	Filters []vf03Filter `json:"filters"`
	Attrs   []string     `json:"attrs"`
}

type vf03Item struct {
	id    oid.ID
	attrs []string
}

// vf03Expected evaluates the query on the model.
func vf03Expected(objs []*vf03Obj, q vf03Query) []vf03Item {
	var sel []*vf03Obj
	for _, o := range objs {
		if !o.avail {
			continue
		}
		ok := true
		for _, f := range q.Filters {
			if !vf03Matches(o, f) {
				ok = false
				break
			}
		}
		if ok {
			sel = append(sel, o)
		}
	}
	byAttr := len(q.Attrs) > 0 && q.Filters[0].op() != object.MatchNotPresent
	numeric := byAttr && vf03IsNum(q.Filters[0].op()) && q.Filters[0].Key != object.FilterRoot && q.Filters[0].Key != object.FilterPhysical
	sort.SliceStable(sel, func(i, j int) bool {
		if byAttr {
			a, b := sel[i].attrs[q.Attrs[0]], sel[j].attrs[q.Attrs[0]]
			var c int
			if numeric {
				c = a.n.Cmp(b.n) // present and integer, otherwise the filter would not match
			} else {
				c = bytes.Compare(a.ord, b.ord)
			}
			if c != 0 {
				return c < 0
			}
		}
		return bytes.Compare(sel[i].id[:], sel[j].id[:]) < 0
	})
	res := make([]vf03Item, len(sel))
	for i, o := range sel {
		res[i].id = o.id
		res[i].attrs = make([]string, len(q.Attrs))
		for k, a := range q.Attrs {
			res[i].attrs[k] = o.attrs[a].str // "" when absent
		}
	}
	return res
}

// ---------------------------------------------------------------------------------------
// Corpus generation

type vf03Epoch struct{ e *uint64 }

func (s vf03Epoch) CurrentEpoch() uint64 { return *s.e }

var vf03IntPool = []string{"0", "-0", "+0", "00", "1", "-1", "+1", "5", "+5", "05", "007", "-007", "7", "9", "10", "11", "-11", "100",
	"18446744073709551615", "18446744073709551616", "-18446744073709551615", "-18446744073709551616",
	"115792089237316195423570985008687907853269984665640564039457584007913129639935",
	"-115792089237316195423570985008687907853269984665640564039457584007913129639935",
	"115792089237316195423570985008687907853269984665640564039457584007913129639934",
	"+115792089237316195423570985008687907853269984665640564039457584007913129639935",
	"000115792089237316195423570985008687907853269984665640564039457584007913129639935",
	"340282366920938463463374607431768211456", "-340282366920938463463374607431768211456"}

var vf03NearIntPool = []string{"++5", "-+5", "+-5", "--5", "1_0", "0x10", " 1", "1 ", "1e3", "1.0", "-", "+", "５",
	"115792089237316195423570985008687907853269984665640564039457584007913129639936",
	"-115792089237316195423570985008687907853269984665640564039457584007913129639936", "11a", "-1a", "5-"}

var vf03StrPool = []string{"a", "ab", "abc", "abd", "b", "a\x01", "a\xff", "ab\xff", "A", "val", "value", "val_1", "path/to", "path/to/x", "z", "\xff", "\x01"}

var vf03UserKeys = []string{"A", "Ab", "B", "N", "Num", "path"}

func vf03ValClass(present bool, v vf03Val, sys bool) string {
	switch {
	case !present:
		return "absent"
	case sys:
		return "sys"
	case v.n != nil:
		s := v.str
		c := "int"
		if s[0] == '+' {
			c += "+plus"
		} else if s[0] == '-' {
			c += "+minus"
		}
		if d := strings.TrimLeft(s, "+-"); len(d) > 1 && d[0] == '0' {
			c += "+zeros"
		}
		if v.n.CmpAbs(vf03Max) == 0 {
			c += "+extreme"
		}
		return c
	}
	s := v.str
	if len(s) > 1 && (s[0] == '+' || s[0] == '-') && (s[1] == '+' || s[1] == '-') {
		return "double-sign"
	}
	if strings.ContainsAny(s, "0123456789") && strings.Trim(s, "+-0123456789") == "" {
		return "near-int"
	}
	if _, ok := new(big.Int).SetString(strings.TrimLeft(s, "+-"), 10); ok {
		return "out-of-range"
	}
	return "str"
}

func vf03KeyClass(k string) string {
	switch k {
	case object.FilterOwnerID:
		return "owner"
	case object.FilterParentID:
		return "parent"
	case object.FilterFirstSplitObject:
		return "first"
	case object.AttributeAssociatedObject:
		return "associate"
	case object.FilterPayloadChecksum:
		return "checksum"
	case object.FilterSplitID:
		return "splitid"
	case object.FilterVersion:
		return "version"
	case object.FilterType:
		return "type"
	case object.FilterCreationEpoch:
		return "creationEpoch"
	case object.FilterPayloadSize:
		return "payloadLength"
	case object.FilterRoot:
		return "ROOT"
	case object.FilterPhysical:
		return "PHY"
	case object.AttributeExpirationEpoch:
		return "expiration"
	}
	return "user"
}

func vf03IsEncoded(k string) bool {
	switch k {
	case object.FilterOwnerID, object.FilterParentID, object.FilterFirstSplitObject, object.AttributeAssociatedObject,
		object.FilterPayloadChecksum, object.FilterSplitID:
		return true
	}
	return false
}

func vf03IsSys(k string) bool { return vf03KeyClass(k) != "user" && vf03KeyClass(k) != "expiration" }

type vf03Corpus struct {
	cnr    cid.ID
	objs   []*vf03Obj
	byID   map[oid.ID]*vf03Obj
	epoch  *uint64
	values map[string][]string // attribute -> API string values seen (for query generation)
}

func vf03RandID(rng *rand.Rand) oid.ID {
	id := verifkit.RandOID(rng)
	switch rng.IntN(5) {
	case 0:
		id[0] = byte(rng.IntN(3)) // short Base58 forms, leading zero byte
	case 1:
		id[0] = 0xff
	case 2:
		id[0] = 0x80
		id[1] = byte(rng.IntN(2))
	}
	if rng.IntN(6) == 0 {
		id[rng.IntN(32)] = 0 // delimiter byte inside a binary value
	}
	if id.IsZero() {
		id[31] = 1
	}
	return id
}

// vf03Model derives the attribute map the API exposes for a header.
func vf03Model(o *object.Object, phy bool) map[string]vf03Val {
	m := map[string]vf03Val{}
	ver := o.Version()
	var vs string
	if ver != nil {
		vs = fmt.Sprintf("v%d.%d", ver.Major(), ver.Minor())
	} else {
		vs = "v0.0"
	}
	m[object.FilterVersion] = vf03Plain(vs)
	m[object.FilterVersion] = vf03Val{str: vs, ord: []byte(vs)}
	ow := o.Owner()
	m[object.FilterOwnerID] = vf03Bin(ow.EncodeToString(), bytes.Clone(ow[:]))
	ts := o.Type().String()
	m[object.FilterType] = vf03Val{str: ts, ord: []byte(ts)}
	m[object.FilterCreationEpoch] = vf03Plain(fmt.Sprint(o.CreationEpoch()))
	m[object.FilterPayloadSize] = vf03Plain(fmt.Sprint(o.PayloadSize()))
	if cs, ok := o.PayloadChecksum(); ok {
		m[object.FilterPayloadChecksum] = vf03Bin(hex.EncodeToString(cs.Value()), bytes.Clone(cs.Value()))
	}
	split := false
	if sid := o.SplitID(); sid != nil {
		raw := sid.ToV2()
		var u uuid.UUID
		copy(u[:], raw)
		m[object.FilterSplitID] = vf03Bin(u.String(), raw)
		split = true
	}
	if f := o.GetFirstID(); !f.IsZero() {
		m[object.FilterFirstSplitObject] = vf03Bin(f.EncodeToString(), bytes.Clone(f[:]))
		split = true
	}
	if p := o.GetParentID(); !p.IsZero() {
		m[object.FilterParentID] = vf03Bin(p.EncodeToString(), bytes.Clone(p[:]))
		split = true
	}
	if !split && o.Type() == object.TypeRegular {
		m[object.FilterRoot] = vf03Val{str: "1", ord: []byte("1")}
	}
	if phy {
		m[object.FilterPhysical] = vf03Val{str: "1", ord: []byte("1")}
	}
	for _, a := range o.Attributes() {
		if a.Key() == object.AttributeAssociatedObject {
			var id oid.ID
			if err := id.DecodeString(a.Value()); err == nil {
				m[a.Key()] = vf03Bin(a.Value(), bytes.Clone(id[:]))
			}
			continue
		}
		m[a.Key()] = vf03Plain(a.Value())
	}
	return m
}

func vf03NewHeader(rng *rand.Rand, cnr cid.ID, owners []user.ID, sums [][]byte, id oid.ID) *object.Object {
	o := object.New(cnr, owners[rng.IntN(len(owners))])
	ver := version.New(2, uint32(16+rng.IntN(3)))
	o.SetVersion(&ver)
	o.SetID(id)
	o.SetType(object.TypeRegular)
	o.SetCreationEpoch([]uint64{0, 1, 2, 10, 10, 1<<64 - 1}[rng.IntN(6)])
	o.SetPayloadSize([]uint64{0, 1, 20, 20, 21, 1<<64 - 1}[rng.IntN(6)])
	var cs [32]byte
	copy(cs[:], sums[rng.IntN(len(sums))])
	o.SetPayloadChecksum(checksum.NewSHA256(cs))
	return o
}

func vf03UserAttrs(rng *rand.Rand, o *object.Object) {
	n := rng.IntN(5)
	perm := rng.Perm(len(vf03UserKeys))
	for i := 0; i < n && i < len(perm); i++ {
		k := vf03UserKeys[perm[i]]
		var v string
		switch x := rng.IntN(10); {
		case k == "N" || k == "Num":
			switch {
			case x < 7:
				v = vf03IntPool[rng.IntN(len(vf03IntPool))]
			case x < 9:
				v = vf03NearIntPool[rng.IntN(len(vf03NearIntPool))]
			default:
				v = vf03StrPool[rng.IntN(len(vf03StrPool))]
			}
		case x < 6:
			v = vf03StrPool[rng.IntN(len(vf03StrPool))]
		case x < 9:
			v = vf03IntPool[rng.IntN(len(vf03IntPool))]
		default:
			v = vf03NearIntPool[rng.IntN(len(vf03NearIntPool))]
		}
		verifkit.AddAttr(o, k, v)
	}
}

// vf03Build creates the objects of one case in db and returns the model.
func vf03Build(r *verifkit.Run, rng *rand.Rand, db *DB, epoch *uint64, nObj int) (*vf03Corpus, error) {
	*epoch = 0
	c := &vf03Corpus{cnr: verifkit.RandCID(rng), byID: map[oid.ID]*vf03Obj{}, epoch: epoch, values: map[string][]string{}}
	owners := []user.ID{verifkit.RandUser(rng), verifkit.RandUser(rng), verifkit.RandUser(rng)}
	// checksums: collisions, shared prefixes, 0x00 / 0xff bytes inside
	base := verifkit.RandBytes(rng, 32)
	sums := [][]byte{base}
	for i := 0; i < 4; i++ {
		s := bytes.Clone(base)
		switch i {
		case 0:
			s[31]++
		case 1:
			s[16] = 0
		case 2:
			s[0] = 0xff
			s[1] = 0
		default:
			s = verifkit.RandBytes(rng, 32)
		}
		if strings.Trim(hex.EncodeToString(s), "0123456789") == "" {
			s[5] = 0xab // the hex form must not look like a number
		}
		sums = append(sums, s)
	}
	idPool := make([]oid.ID, 5) // parents / first / associate targets (collisions wanted)
	for i := range idPool {
		idPool[i] = vf03RandID(rng)
	}
	splitIDs := make([]*object.SplitID, 2)
	for i := range splitIDs {
		var u uuid.UUID
		copy(u[:], verifkit.RandBytes(rng, 16))
		u[6] = (u[6] & 0x0f) | 0x40
		u[8] = (u[8] & 0x3f) | 0x80
		if i == 1 {
			u[0] = 0
		}
		s := object.NewSplitID()
		s.SetUUID(u)
		splitIDs[i] = s
	}
	// virtual parents (indexed through their children's parent header)
	nPar := rng.IntN(3)
	parents := make([]*object.Object, nPar)
	for i := range parents {
		parents[i] = vf03NewHeader(rng, c.cnr, owners, sums, idPool[i])
		vf03UserAttrs(rng, parents[i])
	}
	var batch []*object.Object
	add := func(o *object.Object, phy, plain bool) *vf03Obj {
		m := &vf03Obj{id: o.GetID(), attrs: vf03Model(o, phy), avail: true, plain: plain, obj: o}
		if _, dup := c.byID[m.id]; dup {
			return nil
		}
		c.byID[m.id] = m
		c.objs = append(c.objs, m)
		return m
	}
	parentUsed := make([]bool, nPar)
	for i := 0; i < nObj; i++ {
		id := vf03RandID(rng)
		if _, dup := c.byID[id]; dup {
			continue
		}
		isPoolID := false
		for _, p := range idPool {
			if p == id {
				isPoolID = true
			}
		}
		if isPoolID {
			continue
		}
		o := vf03NewHeader(rng, c.cnr, owners, sums, id)
		plain := true
		switch rng.IntN(10) {
		case 0, 1: // child with parent header
			if nPar > 0 {
				k := rng.IntN(nPar)
				o.SetParent(parents[k])
				parentUsed[k] = true
				if rng.IntN(2) == 0 {
					o.SetFirstID(idPool[3+rng.IntN(2)])
				} else {
					o.SetSplitID(splitIDs[rng.IntN(2)])
				}
				plain = false
			}
		case 2: // split member without parent header
			if rng.IntN(2) == 0 {
				o.SetFirstID(idPool[3+rng.IntN(2)])
			} else {
				o.SetSplitID(splitIDs[rng.IntN(2)])
			}
			plain = false
		case 3:
			o.SetType(object.TypeStorageGroup) //nolint:staticcheck // just another type
		}
		vf03UserAttrs(rng, o)
		if plain && rng.IntN(4) == 0 {
			o.AssociateObject(idPool[rng.IntN(len(idPool))]) // regular object carrying the associate attribute
		}
		var exp uint64
		if plain && rng.IntN(4) == 0 {
			exp = []uint64{2, 4, 9}[rng.IntN(3)]
			verifkit.SetExpiration(o, exp)
		}
		if m := add(o, true, plain); m != nil {
			m.exp = exp
			batch = append(batch, o)
		}
	}
	for k, p := range parents {
		if parentUsed[k] {
			add(p, false, false)
		}
	}
	if err := db.PutBatch(batch); err != nil {
		return nil, fmt.Errorf("PutBatch: %w", err)
	}
	// removals of plain objects
	var plainObjs []*vf03Obj
	for _, o := range c.objs {
		if o.plain {
			plainObjs = append(plainObjs, o)
		}
	}
	rng.Shuffle(len(plainObjs), func(i, j int) { plainObjs[i], plainObjs[j] = plainObjs[j], plainObjs[i] })
	nRem := 0
	if len(plainObjs) > 3 {
		nRem = rng.IntN(len(plainObjs)/3 + 1)
	}
	for i := 0; i < nRem; i++ {
		t := plainObjs[i]
		switch rng.IntN(3) {
		case 0: // tombstone object
			ts := vf03NewHeader(rng, c.cnr, owners, sums, vf03RandID(rng))
			ts.AssociateDeleted(t.id)
			if _, dup := c.byID[ts.GetID()]; dup {
				continue
			}
			if err := db.Put(ts); err != nil {
				return nil, fmt.Errorf("put tombstone: %w", err)
			}
			add(ts, true, false)
			t.avail, t.why = false, "tombstoned"
			r.Count("objects_tombstoned", 1)
		case 1:
			if _, err := db.MarkGarbage(c.cnr, []oid.ID{t.id}, GarbageMarkDefault); err != nil {
				return nil, fmt.Errorf("MarkGarbage: %w", err)
			}
			t.avail, t.why = false, "garbage-marked"
			r.Count("objects_garbage_marked", 1)
		default:
			if _, _, err := db.Delete(c.cnr, []oid.ID{t.id}); err != nil {
				return nil, fmt.Errorf("Delete: %w", err)
			}
			t.avail, t.why = false, "deleted"
			r.Count("objects_deleted", 1)
		}
	}
	for _, o := range c.objs {
		for k, v := range o.attrs {
			c.values[k] = append(c.values[k], v.str)
		}
	}
	for k := range c.values {
		sort.Strings(c.values[k])
	}
	r.Count("objects_stored", len(c.objs))
	return c, nil
}

func (c *vf03Corpus) setEpoch(r *verifkit.Run, e uint64) {
	*c.epoch = e
	for _, o := range c.objs {
		if o.exp != 0 && o.why == "" || o.why == "expired" {
			if e > o.exp {
				if o.avail {
					r.Count("objects_expired", 1)
				}
				o.avail, o.why = false, "expired"
			} else {
				o.avail, o.why = true, ""
			}
		}
	}
}

// ---------------------------------------------------------------------------------------
// Query generation

var vf03Matchers = []object.SearchMatchType{object.MatchStringEqual, object.MatchStringNotEqual, object.MatchNotPresent, object.MatchCommonPrefix,
	object.MatchNumGT, object.MatchNumGE, object.MatchNumLT, object.MatchNumLE}

func vf03GenFilter(rng *rand.Rand, c *vf03Corpus, key string) vf03Filter {
	if key == object.FilterRoot || key == object.FilterPhysical {
		return vf03Filter{Key: key}
	}
	op := vf03Matchers[rng.IntN(len(vf03Matchers))]
	if strings.HasPrefix(key, "$Object:") && op == object.MatchNotPresent {
		op = object.MatchStringNotEqual // NOT_PRESENT on header fields is undefined by the API
	}
	vals := c.values[key]
	pick := func() string {
		if len(vals) > 0 && rng.IntN(8) != 0 {
			return vals[rng.IntN(len(vals))]
		}
		switch rng.IntN(3) {
		case 0:
			return vf03StrPool[rng.IntN(len(vf03StrPool))]
		case 1:
			return vf03IntPool[rng.IntN(len(vf03IntPool))]
		}
		return vf03NearIntPool[rng.IntN(len(vf03NearIntPool))]
	}
	var v string
	switch {
	case op == object.MatchNotPresent:
		if rng.IntN(4) == 0 {
			v = pick()
		}
	case vf03IsNum(op):
		switch x := rng.IntN(10); {
		case x < 5: // a stored integer or its neighbour
			v = pick()
			if n, ok := vf03Int(v); ok && rng.IntN(2) == 0 {
				d := new(big.Int).Add(n, big.NewInt(int64(rng.IntN(3)-1)))
				if d.CmpAbs(vf03Max) <= 0 {
					v = d.String()
				}
			}
		case x < 8:
			v = vf03IntPool[rng.IntN(len(vf03IntPool))]
		case x < 9:
			v = vf03NearIntPool[rng.IntN(len(vf03NearIntPool))]
		default:
			v = pick()
		}
		if _, ok := vf03Int(v); !ok && rng.IntN(6) != 0 {
			v = vf03IntPool[rng.IntN(len(vf03IntPool))] // keep most numeric filters well-formed
		}
	case op == object.MatchCommonPrefix:
		v = pick()
		switch rng.IntN(4) {
		case 0: // full value
		case 1:
			v += "x"
		default:
			if len(v) > 0 {
				v = v[:rng.IntN(len(v)+1)]
			}
		}
	default: // EQ / NE
		v = pick()
		if vf03IsEncoded(key) && rng.IntN(6) == 0 {
			switch key { // a well-formed value nobody has
			case object.FilterPayloadChecksum:
				v = hex.EncodeToString(verifkit.RandBytes(rng, 32))
			case object.FilterSplitID:
				v = uuid.UUID(verifkit.RandBytes(rng, 16)).String()
			case object.FilterOwnerID:
				v = verifkit.RandUser(rng).EncodeToString()
			default:
				v = vf03RandID(rng).EncodeToString()
			}
		}
	}
	return vf03Filter{Key: key, Op: int(op), Val: v}
}

var vf03SysKeys = []string{object.FilterOwnerID, object.FilterPayloadChecksum, object.FilterSplitID, object.FilterParentID, object.FilterFirstSplitObject,
	object.AttributeAssociatedObject, object.FilterVersion, object.FilterType, object.FilterCreationEpoch, object.FilterPayloadSize,
	object.FilterRoot, object.FilterPhysical, object.AttributeExpirationEpoch}

func vf03GenQuery(rng *rand.Rand, c *vf03Corpus) vf03Query {
	var q vf03Query
	nf := []int{0, 1, 1, 1, 2, 2, 2, 3, 3, 4}[rng.IntN(10)]
	pickKey := func() string {
		switch x := rng.IntN(10); {
		case x < 5:
			return vf03UserKeys[rng.IntN(len(vf03UserKeys))]
		case x < 9:
			return vf03SysKeys[rng.IntN(len(vf03SysKeys))]
		}
		return "Missing"
	}
	for i := 0; i < nf; i++ {
		k := pickKey()
		if i > 0 && rng.IntN(3) == 0 {
			k = q.Filters[rng.IntN(i)].Key // several conditions on one attribute (ranges etc.)
		}
		q.Filters = append(q.Filters, vf03GenFilter(rng, c, k))
	}
	if nf > 0 && rng.IntN(3) != 0 {
		q.Attrs = []string{q.Filters[0].Key}
		for n := rng.IntN(4); n > 0; n-- {
			k := pickKey()
			dup := false
			for _, a := range q.Attrs {
				dup = dup || a == k
			}
			if !dup {
				q.Attrs = append(q.Attrs, k)
			}
		}
	}
	return q
}

// vf03Validity: "valid" = certainly a valid API query (rejecting it is a violation);
// "numeric-non-integer" = a numeric filter value that is not an integer (must not be
// answered as if it were); "unclear" = encoded header attribute with a value that is not
// a full canonical encoding (the node may reject it; if it answers, the answer must be exact).
func vf03Validity(c *vf03Corpus, q vf03Query) string {
	res := "valid"
	for _, f := range q.Filters {
		if vf03IsNum(f.op()) && f.Key != object.FilterRoot && f.Key != object.FilterPhysical {
			if _, ok := vf03Int(f.Val); !ok {
				return "numeric-non-integer"
			}
		}
		if vf03IsEncoded(f.Key) && (f.op() == object.MatchStringEqual || f.op() == object.MatchStringNotEqual || f.op() == object.MatchCommonPrefix) {
			canonical := false
			switch f.Key {
			case object.FilterPayloadChecksum:
				b, err := hex.DecodeString(f.Val)
				canonical = err == nil && len(b) == 32 && strings.ToLower(f.Val) == f.Val
			case object.FilterSplitID:
				u, err := uuid.Parse(f.Val)
				canonical = err == nil && u.String() == f.Val
			case object.FilterOwnerID:
				var u user.ID
				canonical = u.DecodeString(f.Val) == nil && u.EncodeToString() == f.Val
			default:
				var id oid.ID
				canonical = id.DecodeString(f.Val) == nil && id.EncodeToString() == f.Val
			}
			if !canonical {
				res = "unclear"
			}
		}
	}
	return res
}

func (q vf03Query) sdk() object.SearchFilters {
	var fs object.SearchFilters
	for _, f := range q.Filters {
		fs.AddFilter(f.Key, f.Val, f.op())
	}
	return fs
}

// ---------------------------------------------------------------------------------------
// Running a query against the real DB

type vf03Outcome struct {
	kind   string // "" = agrees
	detail string
	objID  *oid.ID // object the divergence is about
	pages  int
	dupBreak bool
}

// vf03Run pages through the real search and compares with want.
func vf03Run(db *DB, c *vf03Corpus, q vf03Query, want []vf03Item, page uint16, validity string) (out vf03Outcome) {
	fs := q.sdk()
	numericPrim := len(q.Attrs) > 0 && vf03IsNum(q.Filters[0].op()) && q.Filters[0].Key != object.FilterRoot && q.Filters[0].Key != object.FilterPhysical
	var got []client.SearchResultItem
	cursor := ""
	maxPages := len(c.objs)/int(page) + len(c.objs) + 5
	for {
		ofs, cur, err := objectcore.PreprocessSearchQuery(fs, q.Attrs, cursor)
		if err != nil {
			if cursor != "" {
				return vf03Outcome{kind: "cursor-rejected", detail: fmt.Sprintf("cursor %q returned by the previous page is rejected: %v", cursor, err), pages: out.pages}
			}
			if errors.Is(err, objectcore.ErrUnreachableQuery) {
				break // answered: nothing matches
			}
			switch validity {
			case "valid":
				return vf03Outcome{kind: "valid-query-rejected", detail: "PreprocessSearchQuery: " + err.Error()}
			default:
				return vf03Outcome{kind: "rejected"}
			}
		}
		res, next, err := db.Search(c.cnr, ofs, q.Attrs, cur, page)
		if err != nil {
			return vf03Outcome{kind: "search-error", detail: "DB.Search: " + err.Error(), pages: out.pages}
		}
		out.pages++
		if len(res) > int(page) {
			return vf03Outcome{kind: "page-too-long", detail: fmt.Sprintf("page of %d items for count %d", len(res), page)}
		}
		got = append(got, res...)
		if len(next) == 0 {
			break
		}
		if out.pages > maxPages {
			return vf03Outcome{kind: "no-stop", detail: fmt.Sprintf("still returning a cursor after %d pages for %d stored objects", out.pages, len(c.objs)), pages: out.pages}
		}
		if len(res) > 0 && len(got) < len(want) && len(q.Attrs) > 0 && len(want[len(got)-1].attrs) > 0 && len(got) >= 1 {
			if want[len(got)-1].attrs[0] == want[len(got)].attrs[0] {
				out.dupBreak = true // page break inside a run of equal primary values
			}
		}
		cursor = base64.StdEncoding.EncodeToString(next)
	}
	if validity == "numeric-non-integer" && len(got) > 0 {
		return vf03Outcome{kind: "non-integer-filter-answered", detail: fmt.Sprintf("%d items returned for a numeric filter whose value is not an integer", len(got)), objID: &got[0].ID, pages: out.pages}
	}
	// compare
	wantSet := map[oid.ID]int{}
	for i, w := range want {
		wantSet[w.id] = i
	}
	seen := map[oid.ID]bool{}
	for i, g := range got {
		if seen[g.ID] {
			id := g.ID
			return vf03Outcome{kind: "duplicate", detail: fmt.Sprintf("object %s returned twice (position %d)", g.ID, i), objID: &id, pages: out.pages}
		}
		seen[g.ID] = true
		if _, ok := wantSet[g.ID]; !ok {
			id := g.ID
			why := "does not satisfy the filters"
			if m := c.byID[g.ID]; m == nil {
				why = "unknown object"
			} else if !m.avail {
				why = "not available (" + m.why + ")"
			}
			return vf03Outcome{kind: "extra", detail: fmt.Sprintf("object %s returned but %s", g.ID, why), objID: &id, pages: out.pages}
		}
	}
	for _, w := range want {
		if !seen[w.id] {
			id := w.id
			return vf03Outcome{kind: "missing", detail: fmt.Sprintf("available matching object %s not returned (%d of %d returned)", w.id, len(got), len(want)), objID: &id, pages: out.pages}
		}
	}
	for i := range want {
		if got[i].ID != want[i].id {
			id := got[i].ID
			return vf03Outcome{kind: "order", detail: fmt.Sprintf("position %d holds %s, expected %s", i, got[i].ID, want[i].id), objID: &id, pages: out.pages}
		}
		if len(got[i].Attributes) != len(q.Attrs) {
			id := got[i].ID
			return vf03Outcome{kind: "attr-count", detail: fmt.Sprintf("%d attribute values for %d requested", len(got[i].Attributes), len(q.Attrs)), objID: &id, pages: out.pages}
		}
		for k := range q.Attrs {
			g, w := got[i].Attributes[k], want[i].attrs[k]
			if g == w {
				continue
			}
			if k == 0 && numericPrim {
				// numeric first attribute: the same integer in another spelling is not constrained
				gn, ok1 := vf03Int(g)
				wn, ok2 := vf03Int(w)
				if ok1 && ok2 && gn.Cmp(wn) == 0 {
					out.detail = "respelled"
					continue
				}
			}
			id := got[i].ID
			return vf03Outcome{kind: "attr-value", detail: fmt.Sprintf("attribute %q of %s returned as %q, object has %q", q.Attrs[k], got[i].ID, g, w), objID: &id, pages: out.pages}
		}
	}
	return out
}

// vf03Shape names the query shape (class key material).
func vf03Shape(c *vf03Corpus, q vf03Query, objID *oid.ID) string {
	var parts []string
	for i, f := range q.Filters {
		s := vf03KeyClass(f.Key) + "/" + f.op().String()
		if f.Key == object.FilterRoot || f.Key == object.FilterPhysical {
			s = vf03KeyClass(f.Key)
		}
		if i > 0 {
			for j := 0; j < i; j++ {
				if q.Filters[j].Key == f.Key {
					s += "(same-key)"
					break
				}
			}
		}
		if vf03IsEncoded(f.Key) && f.op() != object.MatchNotPresent && !vf03IsNum(f.op()) {
			if vf03Validity(c, vf03Query{Filters: []vf03Filter{f}}) == "valid" {
				s += ":full"
			} else {
				s += ":partial"
			}
		}
		if objID != nil {
			if m := c.byID[*objID]; m != nil {
				v, ok := m.attrs[f.Key]
				s += "[obj:" + vf03ValClass(ok, v, vf03IsSys(f.Key)) + "]"
			}
		}
		parts = append(parts, s)
	}
	a := "attrs=0"
	if len(q.Attrs) == 1 {
		a = "attrs=1"
	} else if len(q.Attrs) > 1 {
		var ks []string
		for _, k := range q.Attrs[1:] {
			ks = append(ks, vf03KeyClass(k))
		}
		sort.Strings(ks)
		a = "attrs=1+" + strings.Join(ks, ",")
	}
	return strings.Join(parts, " & ") + " | " + a
}

// vf03MatcherKind folds matchers into the kinds the root causes differ in.
func vf03MatcherKind(f vf03Filter) string {
	switch {
	case f.Key == object.FilterRoot || f.Key == object.FilterPhysical:
		return "flag"
	case vf03IsNum(f.op()):
		return "num"
	case f.op() == object.MatchNotPresent:
		return "absent"
	}
	return "str"
}

var vf03DigitsRe = regexp.MustCompile(`[0-9]{3,}`)

// vf03ClassKey reduces a divergence (already minimized) to a class key that names the
// failing query shape rather than the concrete values.
func vf03ClassKey(c *vf03Corpus, kind string, q vf03Query, page uint16, o vf03Outcome) string {
	paged := ""
	if page != 1000 {
		paged = "|paged"
	}
	attrs := "attrs=0"
	if len(q.Attrs) > 0 {
		attrs = "attrs>0"
	}
	if kind == "search-error" || kind == "valid-query-rejected" {
		e := o.detail
		e = strings.TrimPrefix(e, "DB.Search: ")
		e = strings.TrimPrefix(e, "view BoltDB: ")
		return kind + "|" + vf03DigitsRe.ReplaceAllString(e, "N")
	}
	// several conditions on the first (ordering) attribute
	if len(q.Attrs) > 0 && len(q.Filters) > 1 {
		var others []string
		rest := false
		for _, f := range q.Filters[1:] {
			if f.Key == q.Filters[0].Key {
				others = append(others, vf03MatcherKind(f))
			} else {
				rest = true
			}
		}
		if len(others) > 0 {
			sort.Strings(others)
			others = slices.Compact(others)
			k := "first-attr-multi-condition|" + kind + "|first=" + vf03MatcherKind(q.Filters[0]) + "|other=" + strings.Join(others, "+")
			if rest {
				k += "|+filters-on-other-attrs"
			}
			return k + paged
		}
	}
	// a numeric filter and an object whose value is not an integer (or the reverse)
	if o.objID != nil {
		if m := c.byID[*o.objID]; m != nil {
			for _, f := range q.Filters {
				if vf03MatcherKind(f) != "num" || vf03IsSys(f.Key) {
					continue
				}
				v, ok := m.attrs[f.Key]
				if cl := vf03ValClass(ok, v, false); ok && !strings.HasPrefix(cl, "int") {
					return kind + "|numeric-filter|obj:" + cl + "|" + attrs + paged
				}
			}
		}
	}
	// prefix conditions on encoded header attributes
	for _, f := range q.Filters {
		if f.op() == object.MatchCommonPrefix && vf03IsEncoded(f.Key) {
			form := "partial"
			if vf03Validity(c, vf03Query{Filters: []vf03Filter{f}}) == "valid" {
				form = "full"
			}
			pos := "secondary"
			if len(q.Attrs) > 0 && f.Key == q.Filters[0].Key {
				pos = "first"
			}
			enc := vf03KeyClass(f.Key)
			switch f.Key {
			case object.FilterOwnerID, object.FilterParentID, object.FilterFirstSplitObject, object.AttributeAssociatedObject:
				enc = "base58"
			}
			_ = form
			return kind + "|prefix-on-encoded-attr|" + enc + "|" + pos + paged
		}
	}
	return kind + "|" + vf03Shape(c, q, o.objID) + paged
}

// vf03Minimize drops filters / attributes / paging while the same kind of divergence stays.
func vf03Minimize(db *DB, c *vf03Corpus, q vf03Query, page uint16, kind string) (vf03Query, uint16, vf03Outcome) {
	try := func(q2 vf03Query, p uint16) (vf03Outcome, bool) {
		if len(q2.Attrs) > 0 && (len(q2.Filters) == 0 || q2.Filters[0].Key != q2.Attrs[0]) {
			return vf03Outcome{}, false
		}
		o := vf03Run(db, c, q2, vf03Expected(c.objs, q2), p, vf03Validity(c, q2))
		return o, o.kind == kind
	}
	best, _ := try(q, page)
	if o, ok := try(q, 1000); ok {
		page, best = 1000, o
	}
	for changed := true; changed; {
		changed = false
		for i := len(q.Filters) - 1; i >= 0; i-- {
			if i == 0 && len(q.Attrs) > 0 {
				continue
			}
			q2 := vf03Query{Filters: append(append([]vf03Filter{}, q.Filters[:i]...), q.Filters[i+1:]...), Attrs: q.Attrs}
			if o, ok := try(q2, page); ok {
				q, best, changed = q2, o, true
				break
			}
		}
		if changed {
			continue
		}
		for i := len(q.Attrs) - 1; i >= 0; i-- {
			var q2 vf03Query
			if i == 0 {
				q2 = vf03Query{Filters: q.Filters}
			} else {
				q2 = vf03Query{Filters: q.Filters, Attrs: append(append([]string{}, q.Attrs[:i]...), q.Attrs[i+1:]...)}
			}
			if o, ok := try(q2, page); ok {
				q, best, changed = q2, o, true
				break
			}
		}
	}
	return q, page, best
}

func vf03OpenDB(t *testing.T, epoch *uint64) *DB {
	dir := os.Getenv("VERIF_SCRATCH")
	if dir == "" {
		dir = t.TempDir()
	}
	p := filepath.Join(dir, fmt.Sprintf("c03-%d.db", time.Now().UnixNano()))
	db := New(WithPath(p), WithPermissions(0o600), WithEpochState(vf03Epoch{epoch}), WithMaxBatchDelay(time.Microsecond),
		WithSearchIterationLimit(0), WithBoltDBOptions(&bbolt.Options{NoSync: true, NoFreelistSync: true, Timeout: time.Second}))
	if err := db.Open(false); err != nil {
		t.Fatalf("open metabase: %v", err)
	}
	if err := db.Init(common.ID{}); err != nil {
		t.Fatalf("init metabase: %v", err)
	}
	t.Cleanup(func() { _ = db.Close(); _ = os.Remove(p) })
	return db
}

func TestVerif_C03(t *testing.T) {
	r := verifkit.Start(t, "C03", "exploration")
	defer r.Finish()
	r.SetRule("per case 8-40 objects in a fresh container of a real meta.DB (colliding / prefix-sharing user values, decimal integers near 0, 2^64, 2^128 and the range ends in several spellings, near-integers, owners/checksums/split IDs/parents/first parts/associates from small pools, virtual parents, some objects tombstoned, garbage-marked, deleted or expiring), then 0-4 random filters over all matchers with 0-4 requested attributes, each paged with several page sizes at two epochs; distinct = (query shape incl. matcher set, primary kind, requested attributes) x page-size class; non-trivial = query accepted and expected result non-empty or some filter present")
	r.Assume("search iteration limit disabled (resource guard, not part of the property)")
	r.Assume("only plain objects (no split relations) are removed or expire; status inheritance from parents is C01's subject")
	r.Assume("identifier-valued attributes (owner, parent, first part, associate) are ordered as binary identifiers, like the object ID tie-break")
	epoch := new(uint64)
	db := vf03OpenDB(t, epoch)
	nCases := r.Pick(120, 2500)
	nQueries := r.Pick(40, 60)
	type vio struct {
		Case   int         `json:"case"`
		Epoch  uint64      `json:"epoch"`
		Query  vf03Query   `json:"query"`
		Page   uint16      `json:"page"`
		MinQ   vf03Query   `json:"minimized_query"`
		MinP   uint16      `json:"minimized_page"`
		Detail string      `json:"detail"`
		Object interface{} `json:"object_attributes,omitempty"`
	}
	for ci := 0; ci < nCases; ci++ {
		rng := r.Rand("case", ci)
		nObj := 8 + rng.IntN(33)
		var c *vf03Corpus
		var err error
		r.Guard(map[string]int{"case": ci}, func() { c, err = vf03Build(r, rng, db, epoch, nObj) })
		if err != nil || c == nil {
			r.Violation("corpus-rejected", fmt.Sprintf("storing the generated corpus failed: %v", err), map[string]int{"case": ci})
			continue
		}
		r.Eval(1)
		for _, ep := range []uint64{0, []uint64{3, 5, 10}[rng.IntN(3)]} {
			c.setEpoch(r, ep)
			for qi := 0; qi < nQueries; qi++ {
				q := vf03GenQuery(rng, c)
				validity := vf03Validity(c, q)
				want := vf03Expected(c.objs, q)
				pages := []uint16{1000, 1, uint16(1 + rng.IntN(len(c.objs)+1))}
				if rng.IntN(2) == 0 {
					pages = append(pages, 2)
				}
				for _, page := range pages {
					var o vf03Outcome
					desc := map[string]any{"case": ci, "epoch": ep, "query": q, "page": page}
					if r.Guard(desc, func() { o = vf03Run(db, c, q, want, page, validity) }) {
						continue
					}
					r.Eval(1)
					r.Count("pages_fetched", o.pages)
					if o.dupBreak {
						r.Count("page_breaks_inside_equal_primary_values", 1)
					}
					if o.detail == "respelled" && o.kind == "" {
						r.Count("numeric_first_attribute_returned_in_canonical_spelling", 1)
					}
					switch o.kind {
					case "":
						r.Count("queries_agree", 1)
						if len(want) > 0 {
							r.Count("queries_agree_nonempty", 1)
						}
						pc := "all"
						if page == 1 {
							pc = "1"
						} else if int(page) < len(want) {
							pc = "mid"
						}
						if len(q.Filters) > 0 || len(want) > 0 {
							r.Distinct(vf03Shape(c, q, nil) + "|page=" + pc)
						}
						r.Seen("validity_classes", validity)
						for _, f := range q.Filters {
							r.Seen("matchers_used", vf03KeyClass(f.Key)+"/"+f.op().String())
						}
						continue
					case "rejected":
						r.Count("queries_rejected_"+validity, 1)
						continue
					}
					// divergence: minimize and report under the shape of the minimal query
					mq, mp, mo := q, page, o
					r.Guard(desc, func() { mq, mp, mo = vf03Minimize(db, c, q, page, o.kind) })
					key := vf03ClassKey(c, o.kind, mq, mp, mo)
					r.Seen("divergence_classes", key)
					v := vio{Case: ci, Epoch: ep, Query: q, Page: page, MinQ: mq, MinP: mp, Detail: mo.detail}
					if mo.objID != nil {
						if m := c.byID[*mo.objID]; m != nil {
							am := map[string]string{"_available": fmt.Sprint(m.avail, " ", m.why)}
							for k, a := range m.attrs {
								am[k] = a.str
							}
							v.Object = am
						}
					}
					r.Violation(key, fmt.Sprintf("%s: %s; minimal query %+v attrs %v page %d", o.kind, mo.detail, mq.Filters, mq.Attrs, mp), v)
					break // other page sizes of the same query would only repeat it
				}
				if qi < 3 && ci == 0 && ep == 0 {
					r.Sample(map[string]any{"query": q, "expected_items": len(want), "validity": validity})
				}
			}
			// DB.Select view (test-only API over the same engine): where the paged search
			// agrees with the reference, Select must list the same objects in the same order.
			for k := 0; k < 3; k++ {
				q := vf03GenQuery(rng, c)
				if vf03Validity(c, q) != "valid" {
					continue
				}
				q.Attrs = nil
				if len(q.Filters) > 0 {
					q.Attrs = []string{q.Filters[0].Key}
				}
				want := vf03Expected(c.objs, q)
				r.Guard(map[string]any{"case": ci, "query": q}, func() {
					if o := vf03Run(db, c, q, want, 1000, "valid"); o.kind != "" {
						r.Count("select_skipped_search_diverges", 1)
						return // the Search path reports this class
					}
					addrs, err := db.Select(c.cnr, q.sdk())
					if err != nil {
						if errors.Is(err, objectcore.ErrUnreachableQuery) && len(want) == 0 {
							return
						}
						r.Violation("select-error|"+vf03Shape(c, q, nil), "DB.Select failed on a valid query that DB.Search answers: "+err.Error(), q)
						return
					}
					ok := len(addrs) == len(want)
					for i := 0; ok && i < len(want); i++ {
						ok = addrs[i].Object() == want[i].id
					}
					if !ok {
						r.Violation("select-differs-from-search|"+vf03Shape(c, q, nil), fmt.Sprintf("DB.Select returned %d addresses, DB.Search %d (or another order)", len(addrs), len(want)), q)
					}
					r.Count("select_calls", 1)
				})
			}
		}
	}
}
