//go:build verif

package meta

// C42 "Upgrading an older metadata database preserves every object's status".
//
// Runtime monitor.  Per case a seeded history is applied to a current-format metabase
// (the TWIN: it records what every object's status, attributes, search results and the
// counters are).  A copy of the twin's file is down-converted to format 10 / 9 (see
// c42_downconvert_test.go), opened with the real DB.Open/Init (=> checkVersion and the
// migrateFrom* chain run), straight and with interruptions injected at every batch
// boundary (init context cancelled from inside the Containers.Exists callback, which the
// batch loop calls once per container and batch), with a failing container source in the
// middle of a batch, and with a container that disappears between two batches.  Every
// interrupted upgrade is resumed by reopening.  The oracle then compares every view of
// the upgraded database with the twin at several epochs.

import (
	"bytes"
	"context"
	"crypto/sha256"
	"encoding/base64"
	"encoding/hex"
	"errors"
	"fmt"
	"io"
	"math/rand/v2"
	"os"
	"path/filepath"
	"runtime/debug"
	"slices"
	"sort"
	"strconv"
	"strings"
	"sync"
	"sync/atomic"
	"testing"
	"time"

	"github.com/nspcc-dev/bbolt"
	iec "github.com/nspcc-dev/neofs-node/internal/ec"
	ierrors "github.com/nspcc-dev/neofs-node/internal/errors"
	"github.com/nspcc-dev/neofs-node/internal/verifkit"
	objectcore "github.com/nspcc-dev/neofs-node/pkg/core/object"
	"github.com/nspcc-dev/neofs-node/pkg/local_object_storage/blobstor/common"
	apistatus "github.com/nspcc-dev/neofs-sdk-go/client/status"
	cid "github.com/nspcc-dev/neofs-sdk-go/container/id"
	"github.com/nspcc-dev/neofs-sdk-go/object"
	oid "github.com/nspcc-dev/neofs-sdk-go/object/id"
	"github.com/nspcc-dev/neofs-sdk-go/user"
	"go.uber.org/zap"
)

// ---------------------------------------------------------------------------------------
// environment of a DB instance

type vf42Epoch struct{ v atomic.Uint64 }

func (e *vf42Epoch) CurrentEpoch() uint64 { return e.v.Load() }

var vf42ErrInjected = errors.New("vf42: injected container source failure")
var vf42ErrCancelled = errors.New("vf42: init interrupted")

// vf42Cnrs is the container source handed to the DB under upgrade.  It records every
// Exists call (that is how batches are observed without hooks) and performs the scripted
// interruption of the current attempt.
type vf42Cnrs struct {
	mu       sync.Mutex
	log      []cid.ID
	cancelAt int // 1-based Exists call during which the init context is cancelled
	cancel   context.CancelCauseFunc
	failAt   int // 1-based Exists call that returns an error
	vanishAt int // from this call on ...
	vanish   cid.ID
	absent   map[cid.ID]bool // ... and for these from the start: reported as not existing
	fired    bool
}

func (c *vf42Cnrs) Exists(id cid.ID) (bool, error) {
	c.mu.Lock()
	defer c.mu.Unlock()
	c.log = append(c.log, id)
	n := len(c.log)
	if c.cancelAt == n && c.cancel != nil {
		c.fired = true
		c.cancel(vf42ErrCancelled)
	}
	if c.failAt == n {
		c.fired = true
		return false, vf42ErrInjected
	}
	if c.absent[id] {
		return false, nil
	}
	if c.vanishAt > 0 && n >= c.vanishAt && id == c.vanish {
		c.fired = true
		return false, nil
	}
	return true, nil
}

// vf42Batches splits an Exists call log into batches: inside one batch container buckets
// are visited in strictly increasing key order; a batch (or a phase) restarts at a bucket
// that is not greater than the previous one.  Returns the 1-based index of the first call
// of every batch.
func vf42Batches(log []cid.ID) []int {
	var starts []int
	for i := range log {
		if i == 0 || bytes.Compare(log[i][:], log[i-1][:]) <= 0 {
			starts = append(starts, i+1)
		}
	}
	return starts
}

func vf42New(path string, ep *vf42Epoch, cs Containers, ctx context.Context) *DB {
	opts := *bbolt.DefaultOptions
	opts.NoSync = true
	return New(WithPath(path), WithPermissions(0o600), WithEpochState(ep), WithContainers(cs),
		WithInitContext(ctx), WithMaxBatchSize(1), WithMaxBatchDelay(time.Microsecond),
		WithSearchIterationLimit(0), WithBoltDBOptions(&opts), WithLogger(zap.NewNop()))
}

func vf42CopyFile(dst, src string) error {
	in, err := os.Open(src)
	if err != nil {
		return err
	}
	defer in.Close()
	out, err := os.OpenFile(dst, os.O_CREATE|os.O_TRUNC|os.O_WRONLY, 0o600)
	if err != nil {
		return err
	}
	if _, err = io.Copy(out, in); err != nil {
		out.Close()
		return err
	}
	return out.Close()
}

// ---------------------------------------------------------------------------------------
// the world of one case (what the history mentioned) and the twin

type vf42World struct {
	Cnrs     []cid.ID
	IDs      map[cid.ID][]oid.ID // every object ID the history mentioned (stored, virtual, absent)
	seen     map[cid.ID]map[oid.ID]struct{}
	Stored   map[cid.ID][]oid.ID // IDs successfully put at least once (may have been deleted later)
	Targets  map[cid.ID][]oid.ID // associate targets used
	Owners   []user.ID
	AttrKeys []string
	AttrVals []string
	Ops      map[string]int
	// Degenerate marks the addresses that involve an association target whose Base58 form
	// is exactly 32 characters long (>= 29 leading zero bytes): such a string is
	// indistinguishable from a raw 32-byte ID by length.  Findings on them get their own
	// class key.
	Degenerate map[oid.Address]bool
	DegCnr     map[cid.ID]bool
}

func vf42NewWorld() *vf42World {
	return &vf42World{IDs: map[cid.ID][]oid.ID{}, seen: map[cid.ID]map[oid.ID]struct{}{},
		Stored: map[cid.ID][]oid.ID{}, Targets: map[cid.ID][]oid.ID{}, Ops: map[string]int{},
		Degenerate: map[oid.Address]bool{}, DegCnr: map[cid.ID]bool{}}
}

func (w *vf42World) mention(cnr cid.ID, id oid.ID) {
	m := w.seen[cnr]
	if m == nil {
		m = map[oid.ID]struct{}{}
		w.seen[cnr] = m
	}
	if _, ok := m[id]; !ok {
		m[id] = struct{}{}
		w.IDs[cnr] = append(w.IDs[cnr], id)
	}
}

func (w *vf42World) size() int {
	n := 0
	for _, l := range w.IDs {
		n += len(l)
	}
	return n
}

// vf42SpecialOID returns object IDs that are hostile to key parsing / Base58 handling:
// leading zero bytes (short Base58 strings made of '1's), embedded 0x00 and 0xFF bytes.
func vf42SpecialOID(rng *rand.Rand, extreme bool) oid.ID {
	id := verifkit.RandOID(rng)
	k := rng.IntN(6)
	if !extreme && k == 5 {
		k = 4
	}
	switch k {
	case 0:
		id[0], id[1] = 0, 0
	case 1:
		id[31] = 0
		id[15] = 0
	case 2:
		for i := 0; i < 8; i++ {
			id[i] = 0xFF
		}
	case 3:
		for i := 0; i < 20; i++ {
			id[i] = 0
		}
	case 4:
		id[rng.IntN(32)] = 0
	case 5:
		// Base58 string of exactly 32 characters: >= 29 leading zero bytes.
		for i := 0; i < 30; i++ {
			id[i] = 0
		}
		id[30] = byte(1 + rng.IntN(12))
	}
	return id
}

type vf42Gen struct {
	r   *verifkit.Run
	rng *rand.Rand
	db  *DB
	ep  *vf42Epoch
	w   *vf42World
	// extreme enables degenerate-but-legal inputs (32-char Base58 targets, user attributes
	// whose key only shares a prefix with the dropped homomorphic hash field).
	extreme bool
}

func (g *vf42Gen) owner() user.ID { return g.w.Owners[g.rng.IntN(len(g.w.Owners))] }

func (g *vf42Gen) baseObj(cnr cid.ID) *object.Object {
	o := verifkit.NewObject(g.rng, cnr, g.owner(), 4)
	o.SetPayloadSize(uint64(g.rng.IntN(2000)))
	o.SetCreationEpoch(uint64(g.rng.IntN(4)))
	if g.rng.IntN(5) == 0 {
		o.SetID(vf42SpecialOID(g.rng, false))
	}
	return o
}

func (g *vf42Gen) decorate(o *object.Object) {
	n := g.rng.IntN(4)
	used := map[string]bool{}
	for i := 0; i < n; i++ {
		k := g.w.AttrKeys[g.rng.IntN(len(g.w.AttrKeys))]
		if used[k] {
			continue
		}
		used[k] = true
		verifkit.AddAttr(o, k, g.w.AttrVals[g.rng.IntN(len(g.w.AttrVals))])
	}
	if g.rng.IntN(3) == 0 {
		verifkit.SetExpiration(o, uint64(1+g.rng.IntN(8)))
	}
}

func (g *vf42Gen) put(kind string, o *object.Object) bool {
	g.w.mention(o.GetContainerID(), o.GetID())
	g.tagAssoc(o)
	err := g.db.Put(o)
	if err != nil {
		g.w.Ops["put_"+kind+"_rejected"]++
		return false
	}
	g.w.Ops["put_"+kind+"_ok"]++
	g.w.Stored[o.GetContainerID()] = append(g.w.Stored[o.GetContainerID()], o.GetID())
	return true
}

func (g *vf42Gen) pickID(cnr cid.ID) (oid.ID, bool) {
	l := g.w.IDs[cnr]
	if len(l) == 0 {
		return oid.ID{}, false
	}
	return l[g.rng.IntN(len(l))], true
}

// target picks an associate target: mostly a mentioned object, sometimes a fresh (absent) one.
func (g *vf42Gen) target(cnr cid.ID) oid.ID {
	var id oid.ID
	if t, ok := g.pickID(cnr); ok && g.rng.IntN(5) != 0 {
		id = t
	} else if g.rng.IntN(3) == 0 {
		id = vf42SpecialOID(g.rng, g.extreme)
	} else {
		id = verifkit.RandOID(g.rng)
	}
	g.w.mention(cnr, id)
	g.w.Targets[cnr] = append(g.w.Targets[cnr], id)
	if len(id.EncodeToString()) == 32 {
		g.w.Degenerate[oid.NewAddress(cnr, id)] = true
		g.w.DegCnr[cnr] = true
		g.w.Ops["assoc_target_with_32_char_base58"]++
	}
	return id
}

// associate records that o carries an association with a degenerate target.
func (g *vf42Gen) tagAssoc(o *object.Object) {
	if t := o.AssociatedObject(); !t.IsZero() && g.w.Degenerate[oid.NewAddress(o.GetContainerID(), t)] {
		g.w.Degenerate[oid.NewAddress(o.GetContainerID(), o.GetID())] = true
	}
}

func (g *vf42Gen) putRegular(cnr cid.ID) {
	o := g.baseObj(cnr)
	g.decorate(o)
	if g.extreme && g.rng.IntN(6) == 0 {
		verifkit.AddAttr(o, vf42HomoAttr+"X", g.w.AttrVals[g.rng.IntN(len(g.w.AttrVals))])
	}
	if g.rng.IntN(12) == 0 {
		// REGULAR object that merely carries an association (the attribute is not
		// reserved to tombstones and locks)
		o.AssociateObject(g.target(cnr))
		g.put("regular_assoc", o)
		return
	}
	g.put("regular", o)
}

func (g *vf42Gen) putTombstone(cnr cid.ID) {
	o := g.baseObj(cnr)
	o.AssociateDeleted(g.target(cnr))
	if g.rng.IntN(4) != 0 {
		verifkit.SetExpiration(o, uint64(1+g.rng.IntN(9)))
	}
	g.put("tombstone", o)
}

func (g *vf42Gen) putLock(cnr cid.ID) {
	o := g.baseObj(cnr)
	o.AssociateLocked(g.target(cnr))
	if g.rng.IntN(4) != 0 {
		verifkit.SetExpiration(o, uint64(1+g.rng.IntN(9)))
	}
	g.put("lock", o)
}

// putChain stores a v2 split chain (first, middle, last with parent header, link).
func (g *vf42Gen) putChain(cnr cid.ID) {
	par := g.baseObj(cnr)
	g.decorate(par)
	par.ResetRelations()
	g.w.mention(cnr, par.GetID())
	n := 2 + g.rng.IntN(2)
	chain := make([]*object.Object, n)
	for i := range chain {
		chain[i] = g.baseObj(cnr)
	}
	for i := range chain {
		if i == 0 {
			chain[i].SetParent(par)
			chain[i].SetParentID(oid.ID{})
			continue
		}
		chain[i].SetFirstID(chain[0].GetID())
		chain[i].SetPreviousID(chain[i-1].GetID())
		if i == n-1 {
			chain[i].SetParent(par)
			chain[i].SetParentID(par.GetID())
		}
	}
	link := g.baseObj(cnr)
	link.SetType(object.TypeLink)
	link.SetParent(par)
	link.SetParentID(par.GetID())
	link.SetFirstID(chain[0].GetID())
	skip := -1
	if g.rng.IntN(3) == 0 {
		skip = g.rng.IntN(n + 1) // incomplete chains are the interesting ones
	}
	for i, o := range append(chain, link) {
		if i == skip {
			g.w.mention(cnr, o.GetID())
			continue
		}
		g.put("split_part", o)
	}
}

func (g *vf42Gen) step(cnr cid.ID) {
	switch k := g.rng.IntN(100); {
	case k < 22:
		g.putRegular(cnr)
	case k < 44:
		g.putTombstone(cnr)
	case k < 60:
		g.putLock(cnr)
	case k < 70:
		id, ok := g.pickID(cnr)
		if !ok {
			return
		}
		mark := GarbageMarkDefault
		if g.rng.IntN(3) == 0 {
			mark = GarbageMarkRedundant
		}
		_, err := g.db.MarkGarbage(cnr, []oid.ID{id}, mark)
		g.w.Ops[fmt.Sprintf("mark_garbage_%d_err=%v", mark, err != nil)]++
	case k < 78:
		l := g.w.Stored[cnr]
		if len(l) == 0 {
			return
		}
		_, _, err := g.db.Delete(cnr, []oid.ID{l[g.rng.IntN(len(l))]})
		g.w.Ops[fmt.Sprintf("delete_err=%v", err != nil)]++
	case k < 83:
		id, ok := g.pickID(cnr)
		if !ok {
			return
		}
		_, err := g.db.ReviveObject(oid.NewAddress(cnr, id))
		g.w.Ops[fmt.Sprintf("revive_err=%v", err != nil)]++
	case k < 90:
		g.ep.v.Store(uint64(g.rng.IntN(7)))
		g.w.Ops["epoch_set"]++
	case k < 94:
		g.putChain(cnr)
	default:
		g.putRegular(cnr)
	}
}

var vf42AttrKeyPool = []string{"Name", "Idx", "FileName", "Tag", "__NEOFS__TICK_EPOCH", "Z"}
var vf42AttrValPool = []string{"a", "ab", "abc", "b", "0", "7", "-3", "10", "007", "+5", "x y", "340282366920938463463374607431768211456", "1111111111111111111111111111111B"}

// vf42BuildRich applies a dense random history over a small universe to the twin.
func vf42BuildRich(r *verifkit.Run, rng *rand.Rand, db *DB, ep *vf42Epoch, extreme bool) *vf42World {
	w := vf42NewWorld()
	g := &vf42Gen{r: r, rng: rng, db: db, ep: ep, w: w, extreme: extreme}
	for i := 0; i < 2; i++ {
		w.Owners = append(w.Owners, verifkit.RandUser(rng))
	}
	w.AttrKeys = vf42AttrKeyPool
	w.AttrVals = vf42AttrValPool
	nC := 2 + rng.IntN(3)
	for i := 0; i < nC; i++ {
		w.Cnrs = append(w.Cnrs, verifkit.RandCID(rng))
	}
	for _, cnr := range w.Cnrs {
		for i, n := 0, 2+rng.IntN(5); i < n; i++ {
			g.putRegular(cnr)
		}
		if rng.IntN(2) == 0 {
			g.putChain(cnr)
		}
	}
	steps := 15 + rng.IntN(40)
	for i := 0; i < steps; i++ {
		g.step(w.Cnrs[rng.IntN(len(w.Cnrs))])
	}
	if rng.IntN(4) == 0 {
		// one removed container (its mark and counters live in the metadata bucket as well)
		cnr := w.Cnrs[rng.IntN(len(w.Cnrs))]
		_, err := db.InhumeContainer(cnr)
		w.Ops[fmt.Sprintf("inhume_container_err=%v", err != nil)]++
		for i := 0; i < 3; i++ {
			g.step(w.Cnrs[rng.IntN(len(w.Cnrs))])
		}
	}
	return w
}

// vf42BuildBulk fills 2-3 containers with enough associations (tombstones, locks) and
// objects that both migration phases need several 1000-entry batches, with batch borders
// inside a container, exactly at the end of a container and across containers.
func vf42BuildBulk(r *verifkit.Run, rng *rand.Rand, db *DB, ep *vf42Epoch, idx int) (*vf42World, error) {
	w := vf42NewWorld()
	g := &vf42Gen{r: r, rng: rng, db: db, ep: ep, w: w}
	w.Owners = []user.ID{verifkit.RandUser(rng)}
	w.AttrKeys = vf42AttrKeyPool[:2]
	w.AttrVals = vf42AttrValPool[:6]
	nC := 2 + rng.IntN(2)
	if idx == 0 {
		nC = 3
	}
	for i := 0; i < nC; i++ {
		w.Cnrs = append(w.Cnrs, verifkit.RandCID(rng))
	}
	slices.SortFunc(w.Cnrs, func(a, b cid.ID) int { return bytes.Compare(a[:], b[:]) })
	// Number of associations per container, in bucket order.  The first bulk case (the only
	// one of the quick tier) always has: a batch border inside the first bucket with entries
	// left in it (1000 of 1300), the next border exactly at the end of the second bucket
	// (300+700), and a trailing bucket.  Further cases rotate other border shapes.
	shapes := [][]int{{1300, 700, 40}, {1000, 700, 10}, {999, 1002, 30}, {2001, 120, 0}, {400, 600, 1100}, {1001, 1, 999}, {1300, 450, 40}}
	shape := shapes[0]
	if idx > 0 {
		shape = shapes[(idx+int(r.Seed()))%len(shapes)]
	}
	for ci, cnr := range w.Cnrs {
		nAssoc := shape[ci%len(shape)]
		nReg := nAssoc/3 + 5
		var batch []*object.Object
		var regs []oid.ID
		for i := 0; i < nReg; i++ {
			o := g.baseObj(cnr)
			if i%7 == 0 {
				g.decorate(o)
			}
			batch = append(batch, o)
			regs = append(regs, o.GetID())
			w.mention(cnr, o.GetID())
		}
		if err := db.PutBatch(batch); err != nil {
			return nil, fmt.Errorf("bulk regular put: %w", err)
		}
		w.Ops["put_regular_ok"] += len(batch)
		w.Stored[cnr] = append(w.Stored[cnr], regs...)
		batch = batch[:0]
		for i := 0; i < nAssoc; i++ {
			o := g.baseObj(cnr)
			var tgt oid.ID
			if i%3 == 0 {
				tgt = regs[(i/3)%len(regs)]
			} else if i%50 == 1 {
				tgt = vf42SpecialOID(rng, false)
			} else {
				tgt = verifkit.RandOID(rng)
			}
			w.mention(cnr, tgt)
			w.Targets[cnr] = append(w.Targets[cnr], tgt)
			if i%6 == 3 {
				o.AssociateLocked(tgt)
			} else {
				o.AssociateDeleted(tgt)
			}
			if i%4 == 0 {
				verifkit.SetExpiration(o, uint64(1+rng.IntN(9)))
			}
			w.mention(cnr, o.GetID())
			batch = append(batch, o)
		}
		// tombstones/locks may reject each other (lock of a tombstoned object, tombstone of a
		// locked one); PutBatch skips those.
		for len(batch) > 0 {
			n := min(len(batch), 500)
			if err := db.PutBatch(batch[:n]); err != nil {
				return nil, fmt.Errorf("bulk association put: %w", err)
			}
			batch = batch[n:]
		}
		w.Ops["put_assoc_batch"] += nAssoc
	}
	return w, nil
}

// ---------------------------------------------------------------------------------------
// views

func vf42ErrClass(err error) string {
	if err == nil {
		return "ok"
	}
	var si *object.SplitInfoError
	var parts iec.ErrParts
	switch {
	case errors.As(err, new(apistatus.ObjectAlreadyRemoved)), errors.As(err, new(*apistatus.ObjectAlreadyRemoved)):
		return "removed"
	case errors.Is(err, ErrObjectIsExpired):
		return "expired"
	case errors.Is(err, ierrors.ErrParentObject):
		if errors.As(err, &si) {
			s := si.SplitInfo()
			var sid string
			if id := s.SplitID(); id != nil {
				sid = id.String()
			}
			return fmt.Sprintf("parent-split[first=%s last=%s link=%s split=%s]", s.GetFirstPart(), s.GetLastPart(), s.GetLink(), sid)
		}
		if errors.As(err, &parts) {
			return fmt.Sprintf("parent-ec%v", []oid.ID(parts))
		}
		return "parent"
	case errors.As(err, new(apistatus.ObjectNotFound)), errors.As(err, new(*apistatus.ObjectNotFound)):
		return "notfound"
	}
	return "other:" + err.Error()
}

func vf42ShortClass(c string) string {
	if i := strings.IndexAny(c, "[:"); i > 0 {
		return c[:i]
	}
	return c
}

func vf42ExistsSig(db *DB, a oid.Address, ign bool) string {
	ok, err := db.Exists(a, ign)
	if err != nil {
		return vf42ErrClass(err)
	}
	if ok {
		return "available"
	}
	return "absent"
}

func vf42GetSig(db *DB, a oid.Address, raw bool) string {
	o, err := db.Get(a, raw)
	if err != nil {
		return vf42ErrClass(err)
	}
	var sb strings.Builder
	h := sha256.Sum256(o.Marshal())
	fmt.Fprintf(&sb, "hdr[%s type=%s size=%d attrs=", hex.EncodeToString(h[:6]), o.Type(), o.PayloadSize())
	for _, at := range o.Attributes() {
		fmt.Fprintf(&sb, "%q=%q;", at.Key(), at.Value())
	}
	sb.WriteString("]")
	return sb.String()
}

func vf42StatusSig(db *DB, a oid.Address) string {
	st, err := db.ObjectStatus(a)
	if err != nil {
		return "err:" + err.Error()
	}
	var sb strings.Builder
	fmt.Fprintf(&sb, "state=%v index=", st.State)
	for _, f := range st.HeaderIndex {
		fmt.Fprintf(&sb, "%x=%x;", f.K, f.V)
	}
	return sb.String()
}

type vf42Query struct {
	Name  string
	Fs    object.SearchFilters
	Attrs []string
	Page  uint16
}

func vf42F(k, v string, m object.SearchMatchType) object.SearchFilters {
	var fs object.SearchFilters
	fs.AddFilter(k, v, m)
	return fs
}

// vf42Queries is the search workload of one container: every index family the upgrade
// touches or must not touch.
func vf42Queries(w *vf42World, cnr cid.ID, rng *rand.Rand, bulk bool) []vf42Query {
	var qs []vf42Query
	add := func(name string, fs object.SearchFilters, attrs []string, page uint16) {
		qs = append(qs, vf42Query{Name: name, Fs: fs, Attrs: attrs, Page: page})
	}
	big := uint16(1000)
	add("unfiltered", nil, nil, big)
	add("unfiltered/p3", nil, nil, 3)
	var root, phy object.SearchFilters
	root.AddRootFilter()
	phy.AddPhyFilter()
	add("root", root, nil, big)
	add("phy", phy, nil, 7)
	for _, t := range []object.Type{object.TypeRegular, object.TypeTombstone, object.TypeLock, object.TypeLink} {
		var fs object.SearchFilters
		fs.AddTypeFilter(object.MatchStringEqual, t)
		add("type="+t.String(), fs, []string{object.FilterType}, big)
	}
	assoc := object.AttributeAssociatedObject
	add("assoc/prefix-empty+attr", vf42F(assoc, "", object.MatchCommonPrefix), []string{assoc}, 5)
	add("assoc/prefix-empty+attr/big", vf42F(assoc, "", object.MatchCommonPrefix), []string{assoc, object.FilterType}, big)
	add("assoc/not-present", vf42F(assoc, "", object.MatchNotPresent), nil, big)
	add("assoc/ne-random", vf42F(assoc, verifkit.RandOID(rng).EncodeToString(), object.MatchStringNotEqual), []string{assoc}, big)
	tg := w.Targets[cnr]
	nT := len(tg)
	if bulk && nT > 12 {
		nT = 12
	}
	for i := 0; i < nT; i++ {
		t := tg[i]
		if bulk {
			t = tg[rng.IntN(len(tg))]
		}
		add("assoc/eq+attr", vf42F(assoc, t.EncodeToString(), object.MatchStringEqual), []string{assoc}, big)
		if i%3 == 0 {
			s := t.EncodeToString()
			add("assoc/prefix", vf42F(assoc, s[:1+rng.IntN(3)], object.MatchCommonPrefix), nil, big)
			fs := vf42F(object.FilterType, object.TypeTombstone.String(), object.MatchStringEqual)
			fs.AddFilter(assoc, s, object.MatchStringEqual)
			add("type=TS&assoc/eq", fs, nil, big)
		}
	}
	for _, k := range w.AttrKeys {
		add("attr/"+k+"/prefix-empty", vf42F(k, "", object.MatchCommonPrefix), []string{k}, 4)
		add("attr/"+k+"/ge0", vf42F(k, "0", object.MatchNumGE), []string{k}, big)
		add("attr/"+k+"/eq", vf42F(k, w.AttrVals[rng.IntN(len(w.AttrVals))], object.MatchStringEqual), nil, big)
	}
	add("attr/homoX/prefix-empty", vf42F(vf42HomoAttr+"X", "", object.MatchCommonPrefix), []string{vf42HomoAttr + "X"}, big)
	add("exp/ge0", vf42F(object.AttributeExpirationEpoch, "0", object.MatchNumGE), []string{object.AttributeExpirationEpoch}, big)
	add("size/ge100", vf42F(object.FilterPayloadSize, "100", object.MatchNumGE), []string{object.FilterPayloadSize, object.FilterCreationEpoch}, 50)
	for _, o := range w.Owners {
		add("owner/eq", vf42F(object.FilterOwnerID, o.EncodeToString(), object.MatchStringEqual), nil, big)
	}
	add("parent/prefix-empty", vf42F(object.FilterParentID, "", object.MatchCommonPrefix), []string{object.FilterParentID}, big)
	add("first/prefix-empty", vf42F(object.FilterFirstSplitObject, "", object.MatchCommonPrefix), []string{object.FilterFirstSplitObject}, big)
	return qs
}

// vf42Search pages through a query and returns the concatenated items.
func vf42Search(db *DB, cnr cid.ID, q vf42Query) ([]string, error) {
	var out []string
	cursor := ""
	for page := 0; page < 200000; page++ {
		ofs, cur, err := objectcore.PreprocessSearchQuery(q.Fs, q.Attrs, cursor)
		if err != nil {
			return out, fmt.Errorf("preprocess: %w", err)
		}
		res, nc, err := db.Search(cnr, ofs, q.Attrs, cur, q.Page)
		if err != nil {
			return out, err
		}
		for i := range res {
			out = append(out, res[i].ID.String()+"|"+strings.Join(res[i].Attributes, "|"))
		}
		if len(nc) == 0 {
			return out, nil
		}
		cursor = base64.StdEncoding.EncodeToString(nc)
	}
	return out, errors.New("vf42: paging did not terminate")
}

func vf42List(db *DB, attrs ...string) ([]string, error) {
	var out []string
	var cur *Cursor
	for i := 0; i < 200000; i++ {
		res, nc, err := db.ListWithCursor(37, cur, attrs...)
		if errors.Is(err, ErrEndOfListing) {
			return out, nil
		}
		if err != nil {
			return out, err
		}
		for _, a := range res {
			out = append(out, fmt.Sprintf("%s|%s|%v", a.Address, a.Type, a.Attributes))
		}
		cur = nc
	}
	return out, errors.New("vf42: listing did not terminate")
}

func vf42Expired(db *DB, epoch uint64) ([]string, error) {
	var out []string
	err := db.IterateExpired(epoch, func(a oid.Address, t object.Type) error {
		out = append(out, a.String()+"|"+t.String())
		return nil
	})
	sort.Strings(out)
	return out, err
}

func vf42Garbage(db *DB) ([]string, error) {
	bins, err := db.GetGarbage(1 << 30)
	var out []string
	for _, b := range bins {
		out = append(out, fmt.Sprintf("%s:%v", b.Container, b.Objects))
	}
	return out, err
}

// ---------------------------------------------------------------------------------------
// the oracle: upgraded database vs twin

type vf42Cmp struct {
	r        *verifkit.Run
	scenario string // e.g. "v10/cancel"
	replay   map[string]any
	twin, up *DB
	twinEp   *vf42Epoch
	upEp     *vf42Epoch
	w        *vf42World
	skip     map[cid.ID]bool // containers the statement does not constrain in this scenario
	bulk     bool
	diffs    int
	gcTag    string // "+gc-inflated" when the old image had inflated garbage counters
	// rootTag names what the raw file shows the upgrade left undone in the compared
	// containers (Base58 association values / homomorphic index keys still present).  All
	// symptoms of one such upgrade share the class key scenario|rootTag.
	rootTag string
}

func (c *vf42Cmp) violation(view, class, what string) { c.violationTagged("", view, class, what) }

// violationTagged reports a divergence.  The class key is scenario|view|class; divergences
// that involve a degenerate input (tag) are keyed by that input shape instead of the
// scenario, so that listing one of them cannot hide anything about ordinary inputs.
func (c *vf42Cmp) violationTagged(tag, view, class, what string) {
	c.diffs++
	rp := map[string]any{"scenario": c.scenario, "view": view}
	for k, v := range c.replay {
		rp[k] = v
	}
	sc := c.scenario
	if strings.Contains(view, "counters") || view == "container-info" {
		sc += c.gcTag
	}
	key := sc + "|" + view + "|" + class
	if c.rootTag != "" {
		key = c.scenario + "|" + c.rootTag
	}
	if tag != "" {
		fam := "address-views"
		if strings.HasPrefix(view, "search:") {
			fam = "search"
		}
		key = tag + "|" + fam
	}
	c.r.Violation(key, what, rp)
}

const (
	vf42TagHomoPrefix = "degenerate:user-attribute-key-with-homomorphic-field-prefix"
	vf42TagAssoc32    = "degenerate:association-target-with-32-char-base58"
)

func vf42FirstDiff(a, b []string) string {
	for i := 0; i < len(a) || i < len(b); i++ {
		var x, y string
		if i < len(a) {
			x = a[i]
		}
		if i < len(b) {
			y = b[i]
		}
		if x != y {
			return fmt.Sprintf("first difference at item %d: before=%q after=%q (lengths %d/%d)", i, x, y, len(a), len(b))
		}
	}
	return "equal"
}

func (c *vf42Cmp) cmpList(view string, a, b []string, ea, eb error, detail string) {
	c.cmpListTagged("", view, a, b, ea, eb, detail)
}

func (c *vf42Cmp) cmpListTagged(tag, view string, a, b []string, ea, eb error, detail string) {
	c.r.Count("checks_"+strings.SplitN(view, ":", 2)[0], 1)
	if (ea == nil) != (eb == nil) || (ea != nil && ea.Error() != eb.Error()) {
		c.violationTagged(tag, view, "error", fmt.Sprintf("%s %s: error before upgrade=%v, after upgrade=%v", view, detail, ea, eb))
		return
	}
	if !slices.Equal(a, b) {
		cl := "items-differ"
		if len(a) > len(b) {
			cl = "items-lost"
		} else if len(a) < len(b) {
			cl = "items-added"
		}
		c.violationTagged(tag, view, cl, fmt.Sprintf("%s %s: %s", view, detail, vf42FirstDiff(a, b)))
	}
}

func (c *vf42Cmp) cmpSig(view string, a oid.Address, before, after, detail string) {
	c.r.Count("checks_"+view, 1)
	if before != after {
		tag := ""
		if c.w.Degenerate[a] {
			tag = vf42TagAssoc32
		}
		c.violationTagged(tag, view, vf42ShortClass(before)+"->"+vf42ShortClass(after),
			fmt.Sprintf("%s(%s)%s: before upgrade %s, after upgrade %s", view, a, detail, before, after))
	}
}

func (c *vf42Cmp) run(epochs []uint64, qrng *rand.Rand) {
	// version
	tv, _ := vf42RawVersion(c.twin.boltDB)
	uv, ok := vf42RawVersion(c.up.boltDB)
	c.r.Count("checks_version", 1)
	if !ok || uv != tv {
		c.violation("version", fmt.Sprintf("%d", uv), fmt.Sprintf("stored version after upgrade is %d (present=%v), a database written by the current code has %d", uv, ok, tv))
	}
	// counters (epoch independent)
	if len(c.skip) == 0 {
		tc, te := c.twin.ObjectCounters()
		uc, ue := c.up.ObjectCounters()
		c.r.Count("checks_counters", 1)
		if te != nil || ue != nil || tc != uc {
			c.violation("counters", vf42CounterDiff(tc, uc), fmt.Sprintf("ObjectCounters before upgrade %+v (err %v), after %+v (err %v)", tc, te, uc, ue))
		}
	}
	for _, cnr := range c.w.Cnrs {
		if c.skip[cnr] {
			continue
		}
		trc, _ := vf42RawCounters(c.twin.boltDB, cnr[:])
		urc, _ := vf42RawCounters(c.up.boltDB, cnr[:])
		c.r.Count("checks_container_counters", 1)
		if trc != urc {
			names := []string{"phy", "root", "ts", "lock", "link", "gc", "payload"}
			var d []string
			for i := range trc {
				if trc[i] != urc[i] {
					d = append(d, names[i])
				}
			}
			c.violation("container-counters", strings.Join(d, "+"), fmt.Sprintf("container %s counters [phy root ts lock link gc payload] before upgrade %v, after %v", cnr, trc, urc))
		}
		ti, te := c.twin.GetContainerInfo(cnr)
		ui, ue := c.up.GetContainerInfo(cnr)
		c.r.Count("checks_container_info", 1)
		if te != nil || ue != nil || ti != ui {
			c.violation("container-info", "differs", fmt.Sprintf("GetContainerInfo(%s) before upgrade %+v (err %v), after %+v (err %v)", cnr, ti, te, ui, ue))
		}
	}
	if len(c.skip) == 0 {
		tl, te := c.twin.Containers()
		ul, ue := c.up.Containers()
		ts, us := make([]string, len(tl)), make([]string, len(ul))
		for i := range tl {
			ts[i] = tl[i].String()
		}
		for i := range ul {
			us[i] = ul[i].String()
		}
		c.cmpList("containers", ts, us, te, ue, "")
	}

	qseed := qrng.Uint64()
	for _, e := range epochs {
		c.twinEp.v.Store(e)
		c.upEp.v.Store(e)
		det := fmt.Sprintf(" at epoch %d", e)
		for _, cnr := range c.w.Cnrs {
			if c.skip[cnr] {
				continue
			}
			for _, id := range c.w.IDs[cnr] {
				a := oid.NewAddress(cnr, id)
				ex := vf42ExistsSig(c.twin, a, false)
				c.r.Seen("statuses_before_upgrade", vf42ShortClass(ex))
				c.cmpSig("exists", a, ex, vf42ExistsSig(c.up, a, false), det)
				c.cmpSig("exists-ignore-expiration", a, vf42ExistsSig(c.twin, a, true), vf42ExistsSig(c.up, a, true), det)
				c.cmpSig("get", a, vf42GetSig(c.twin, a, false), vf42GetSig(c.up, a, false), det)
				tl, te := c.twin.IsLocked(a)
				ul, ue := c.up.IsLocked(a)
				if tl {
					c.r.Seen("statuses_before_upgrade", "locked")
				}
				c.cmpSig("locked", a, fmt.Sprintf("%v/%v", tl, te), fmt.Sprintf("%v/%v", ul, ue), det)
				if !c.bulk {
					c.cmpSig("get-raw", a, vf42GetSig(c.twin, a, true), vf42GetSig(c.up, a, true), det)
					c.cmpSig("object-status", a, vf42StatusSig(c.twin, a), vf42StatusSig(c.up, a), det)
				}
			}
			for _, q := range vf42Queries(c.w, cnr, rand.New(rand.NewPCG(qseed, 42)), c.bulk) {
				ti, te := vf42Search(c.twin, cnr, q)
				ui, ue := vf42Search(c.up, cnr, q)
				if len(ti) > 0 {
					c.r.Count("search_queries_with_results", 1)
				}
				tag := ""
				switch {
				case strings.HasPrefix(q.Name, "attr/homoX"):
					tag = vf42TagHomoPrefix
				case c.w.DegCnr[cnr] && strings.Contains(q.Name, "assoc"):
					tag = vf42TagAssoc32
				}
				c.cmpListTagged(tag, "search:"+q.Name, ti, ui, te, ue, fmt.Sprintf("container %s%s filters=%v attrs=%v page=%d", cnr, det, vf42FsString(q.Fs), q.Attrs, q.Page))
			}
		}
		if len(c.skip) == 0 {
			ti, te := vf42List(c.twin, "Name")
			ui, ue := vf42List(c.up, "Name")
			c.cmpList("list", ti, ui, te, ue, det)
			ti, te = vf42Expired(c.twin, e)
			ui, ue = vf42Expired(c.up, e)
			if len(ti) > 0 {
				c.r.Count("expired_iterations_with_results", 1)
			}
			c.cmpList("iterate-expired", ti, ui, te, ue, det)
			ti, te = vf42Garbage(c.twin)
			ui, ue = vf42Garbage(c.up)
			c.cmpList("garbage", ti, ui, te, ue, det)
		}
	}
}

func vf42FsString(fs object.SearchFilters) string {
	var p []string
	for _, f := range fs {
		p = append(p, fmt.Sprintf("%s %s %q", f.Header(), f.Operation(), f.Value()))
	}
	return strings.Join(p, " & ")
}

func vf42CounterDiff(a, b ObjectCounters) string {
	var d []string
	add := func(n string, x, y uint64) {
		if x != y {
			d = append(d, n)
		}
	}
	add("phy", a.Phy, b.Phy)
	add("root", a.Root, b.Root)
	add("ts", a.TS, b.TS)
	add("lock", a.Lock, b.Lock)
	add("link", a.Link, b.Link)
	add("gc", a.GC, b.GC)
	add("payload", a.Payload, b.Payload)
	if len(d) == 0 {
		return "error"
	}
	return strings.Join(d, "+")
}

// ---------------------------------------------------------------------------------------
// running an upgrade

// vf42Attempt is one Open/Init of the old image with at most one scripted interruption.
type vf42Attempt struct {
	PreCancel bool   `json:"pre_cancel,omitempty"` // init context is already cancelled
	CancelAt  int    `json:"cancel_at,omitempty"`
	FailAt    int    `json:"fail_at,omitempty"`
	VanishAt  int    `json:"vanish_at,omitempty"`
	Vanish    string `json:"vanish,omitempty"`
	vanish    cid.ID
}

func (a vf42Attempt) kind() string {
	switch {
	case a.PreCancel:
		return "pre-cancel"
	case a.CancelAt > 0:
		return "cancel"
	case a.FailAt > 0:
		return "fault"
	case a.VanishAt > 0:
		return "vanish"
	}
	return "straight"
}

type vf42UpgradeResult struct {
	db       *DB
	ep       *vf42Epoch
	logs     [][]cid.ID // Exists call log per attempt
	errs     []string
	attempts int
}

// vf42Upgrade opens the old image at path following plan (interrupted attempts first);
// whatever the plan, a final attempt without interruption follows a failed one.
func vf42Upgrade(r *verifkit.Run, path string, plan []vf42Attempt, absent map[cid.ID]bool) (*vf42UpgradeResult, error) {
	res := &vf42UpgradeResult{}
	plan = append(slices.Clone(plan), vf42Attempt{})
	for i, at := range plan {
		ctx, cancel := context.WithCancelCause(context.Background())
		cs := &vf42Cnrs{cancelAt: at.CancelAt, cancel: cancel, failAt: at.FailAt, vanishAt: at.VanishAt, vanish: at.vanish, absent: absent}
		if at.PreCancel {
			cancel(vf42ErrCancelled)
		}
		ep := &vf42Epoch{}
		db := vf42New(path, ep, cs, ctx)
		res.attempts++
		if err := db.Open(false); err != nil {
			cancel(nil)
			return res, fmt.Errorf("open: %w", err)
		}
		err := db.Init(common.ID{})
		cancel(nil)
		res.logs = append(res.logs, cs.log)
		if err == nil {
			res.db, res.ep = db, ep
			res.errs = append(res.errs, "")
			if i < len(plan)-1 {
				r.Count("attempts_interruption_had_no_effect", 1)
			}
			return res, nil
		}
		res.errs = append(res.errs, err.Error())
		r.Count("attempts_interrupted_"+at.kind(), 1)
		_ = db.Close()
		if i == len(plan)-1 {
			return res, fmt.Errorf("uninterrupted Init failed: %w", err)
		}
		// which error an interrupted Init reports is not part of the property; it is only recorded
		switch {
		case errors.Is(err, vf42ErrInjected):
			r.Seen("interrupted_init_errors", "injected container source failure")
		case errors.Is(err, vf42ErrCancelled):
			r.Seen("interrupted_init_errors", "context cancellation cause")
		default:
			r.Seen("interrupted_init_errors", "other: "+err.Error())
		}
	}
	return res, nil
}

// ---------------------------------------------------------------------------------------
// the test

type vf42Case struct {
	kind    string // rich | bulk
	idx     int
	extreme bool
}

func TestVerif_C42(t *testing.T) {
	r := verifkit.Start(t, "C42", "fault_enumeration")
	defer r.Finish()
	r.SetRule("case = seeded object history (regular/split/tombstone/lock/plain associations, garbage marks, deletes, revivals, container removal, epoch moves) on a current-format twin; its file is down-converted to format 10 and 9 per VERSION.md and upgraded by the real Open/Init straight, with the init context cancelled at every observed batch boundary, with a failing container source inside a batch, with a container vanishing at a batch boundary, and resumed by reopening; distinct = (case, format, interruption plan) whose old image carried >=1 Base58 association or homomorphic index entry to migrate; every address x view, every search query, listing, expiry iteration, garbage and counters are compared with the twin at 3 epochs")
	r.Assume("old-format images are produced by the harness' VERSION.md down-converter (no old-format writer exists in the tree); statuses 'before the upgrade' are those of the current-format twin holding the same history")
	r.Assume("process crash inside a bbolt transaction is not modelled (bbolt commit atomicity is trusted); interruptions are context cancellation / container-source failure / reopen")
	scratch := os.Getenv("VERIF_SCRATCH")
	if scratch == "" {
		scratch = t.TempDir()
	}
	dir, err := os.MkdirTemp(scratch, "c42-")
	if err != nil {
		t.Fatal(err)
	}
	defer os.RemoveAll(dir)

	var cases []vf42Case
	defer debug.SetGCPercent(debug.SetGCPercent(400)) // allocation-heavy comparisons; only speed
	nRich, nBulk := r.Pick(14, 250), r.Pick(1, 8)
	for i := 0; i < nBulk; i++ {
		cases = append(cases, vf42Case{kind: "bulk", idx: i})
	}
	for i := 0; i < nRich; i++ {
		cases = append(cases, vf42Case{kind: "rich", idx: i, extreme: i%4 == 3})
	}
	for _, cs := range cases {
		cs := cs
		desc := map[string]any{"kind": cs.kind, "case": cs.idx, "extreme": cs.extreme}
		r.Guard(desc, func() { vf42RunCase(t, r, dir, cs) })
		if r.Violations() > 400 {
			break
		}
	}
	if r.Counter("upgrades_compared") == 0 {
		r.Inconclusive("no upgrade was compared")
	}
	if r.Counter("attempts_interrupted_cancel") == 0 || r.Counter("batches_max_per_upgrade") < 3 {
		r.Inconclusive("no interrupted multi-batch upgrade was observed")
	}
}

func vf42RunCase(t *testing.T, r *verifkit.Run, dir string, cs vf42Case) {
	rng := r.Rand(cs.kind, cs.idx)
	bulk := cs.kind == "bulk"
	twinPath := filepath.Join(dir, fmt.Sprintf("%s-%d-twin.db", cs.kind, cs.idx))
	defer os.Remove(twinPath)
	twinEp := &vf42Epoch{}
	twinEp.v.Store(uint64(rng.IntN(4)))
	allTrue := &vf42Cnrs{}
	twin := vf42New(twinPath, twinEp, allTrue, context.Background())
	if err := twin.Open(false); err != nil {
		r.Inconclusive("twin open: " + err.Error())
		return
	}
	if err := twin.Init(common.ID{}); err != nil {
		r.Inconclusive("twin init: " + err.Error())
		return
	}
	var w *vf42World
	if bulk {
		var err error
		if w, err = vf42BuildBulk(r, rng, twin, twinEp, cs.idx); err != nil {
			r.Inconclusive("bulk twin build: " + err.Error())
			_ = twin.Close()
			return
		}
	} else {
		w = vf42BuildRich(r, rng, twin, twinEp, cs.extreme)
	}
	for k, v := range w.Ops {
		r.Count("history_"+k, v)
	}
	// Counters the runtime accounting left behind may already disagree with a recount (that
	// is property C02's business); the upgrade resyncs them by design (VERSION.md, version
	// 11), so the "before" image gets recounted counters and the drift is only reported.
	before, _ := twin.ObjectCounters()
	if err := twin.SyncCounters(); err != nil {
		r.Inconclusive("twin SyncCounters: " + err.Error())
		_ = twin.Close()
		return
	}
	after, _ := twin.ObjectCounters()
	if before != after {
		r.Count("twin_histories_with_runtime_counter_drift(C02)", 1)
		r.Seen("twin_runtime_counter_drift_fields(C02)", vf42CounterDiff(before, after))
	}
	if err := twin.Close(); err != nil {
		r.Inconclusive("twin close: " + err.Error())
		return
	}
	twin = vf42New(twinPath, twinEp, allTrue, context.Background())
	if err := twin.Open(false); err != nil {
		r.Inconclusive("twin reopen: " + err.Error())
		return
	}
	defer twin.Close()
	if err := twin.Init(common.ID{}); err != nil {
		r.Inconclusive("twin re-init: " + err.Error())
		return
	}
	r.Max("universe_max_addresses", int64(w.size()))

	epochs := []uint64{0, uint64(2 + rng.IntN(4)), 10}
	if bulk {
		epochs = []uint64{uint64(rng.IntN(3)), uint64(4 + rng.IntN(6))}
	}

	formats := []int{10, 9}
	for _, format := range formats {
		oldPath := filepath.Join(dir, fmt.Sprintf("%s-%d-v%d.db", cs.kind, cs.idx, format))
		if err := vf42CopyFile(oldPath, twinPath); err != nil {
			r.Inconclusive("copy: " + err.Error())
			return
		}
		spec := vf42DownSpec{Version: format, HomoFrac: []float64{0, 0.5, 1}[rng.IntN(3)], PerturbGC: format == 10 && rng.IntN(2) == 0}
		if bulk {
			spec.HomoFrac = 1
		}
		st, err := vf42Downconvert(oldPath, spec, rng)
		if err != nil {
			r.Inconclusive("down-conversion: " + err.Error())
			os.Remove(oldPath)
			return
		}
		r.Count("old_images", 1)
		r.Count(fmt.Sprintf("old_images_v%d", format), 1)
		r.Count("old_image_assoc_entries_base58", st.Assoc)
		r.Count("old_image_homomorphic_entries", st.Homo)
		r.Count("old_image_gc_counters_inflated", st.GCPerturb)
		nontrivial := st.Assoc > 0 || st.Homo > 0

		runPlan := func(name string, plan []vf42Attempt, absent map[cid.ID]bool, skip map[cid.ID]bool, full bool) *vf42UpgradeResult {
			work := filepath.Join(dir, fmt.Sprintf("%s-%d-v%d-work.db", cs.kind, cs.idx, format))
			defer os.Remove(work)
			if err := vf42CopyFile(work, oldPath); err != nil {
				r.Inconclusive("copy: " + err.Error())
				return nil
			}
			scenario := fmt.Sprintf("v%d/%s", format, name)
			gcTag := ""
			if spec.PerturbGC {
				gcTag = "+gc-inflated"
			}
			replay := map[string]any{"kind": cs.kind, "case": cs.idx, "extreme": cs.extreme, "format": format, "plan": plan,
				"homo_frac": spec.HomoFrac, "perturb_gc": spec.PerturbGC, "assoc_entries": st.AssocByCnr, "homo_entries": st.HomoByCnr}
			res, err := vf42Upgrade(r, work, plan, absent)
			r.Eval(1)
			r.Count("upgrades_run", 1)
			r.Count("upgrade_attempts", res.attempts)
			if err != nil {
				replay["attempt_errors"] = res.errs
				r.Violation(scenario+"|init|failed", fmt.Sprintf("upgrade of a format %d database could not be completed: %v (attempt errors %v)", format, err, res.errs), replay)
				return res
			}
			defer res.db.Close()
			for _, l := range res.logs {
				r.Max("batches_max_per_upgrade", int64(len(vf42Batches(l))))
				r.Count("container_source_calls", len(l))
			}
			h, a58, leg := vf42RawLeftovers(res.db.boltDB, vf42SkipKeys(skip))
			r.Count("raw_leftover_homomorphic_keys", h)
			r.Count("raw_leftover_base58_assoc_keys", a58)
			r.Count("raw_leftover_legacy_keys", leg)
			rootTag := ""
			switch {
			case a58 > 0:
				rootTag = "association-entries-left-in-base58"
				replay["raw_leftover_base58_assoc_keys"] = a58
			case h > 0:
				rootTag = "homomorphic-index-entries-left"
				replay["raw_leftover_homomorphic_keys"] = h
			}
			cmp := &vf42Cmp{r: r, scenario: scenario, replay: replay, twin: twin, up: res.db, twinEp: twinEp, upEp: res.ep, w: w, skip: skip, bulk: bulk, gcTag: gcTag, rootTag: rootTag}
			ep := epochs
			if !full {
				ep = epochs[len(epochs)-1:]
			} else if name != "straight" && !r.Thorough() && len(epochs) > 2 {
				ep = []uint64{epochs[0], epochs[len(epochs)-1]}
			}
			cmp.run(ep, r.Rand(cs.kind+"-queries", cs.idx))
			r.Count("upgrades_compared", 1)
			if nontrivial {
				r.Distinct(fmt.Sprintf("%s/%d/v%d/%s/%v", cs.kind, cs.idx, format, name, plan))
			}
			if cmp.diffs == 0 && name == "straight" && rng.IntN(3) == 0 {
				// an upgraded database must survive an ordinary reopen unchanged
				_ = res.db.Close()
				again, err := vf42Upgrade(r, work, nil, absent)
				if err != nil {
					r.Violation(scenario+"|reopen|failed", "upgraded database cannot be reopened: "+err.Error(), replay)
				} else {
					c2 := &vf42Cmp{r: r, scenario: scenario + "+reopen", replay: replay, twin: twin, up: again.db, twinEp: twinEp, upEp: again.ep, w: w, skip: skip, bulk: bulk, gcTag: gcTag}
					c2.run(epochs[:1], r.Rand(cs.kind+"-queries", cs.idx))
					r.Count("reopens_compared", 1)
					_ = again.db.Close()
				}
			}
			return res
		}

		dry := runPlan("straight", nil, nil, nil, true)
		if dry == nil || len(dry.logs) == 0 {
			os.Remove(oldPath)
			continue
		}
		log := dry.logs[len(dry.logs)-1]
		starts := vf42Batches(log)
		if r.Counter("samples_taken") < 4 || (bulk && r.Counter("samples_taken_bulk") < 1) {
			r.Count("samples_taken", 1)
			if bulk {
				r.Count("samples_taken_bulk", 1)
			}
			r.Sample(map[string]any{"kind": cs.kind, "case": cs.idx, "format": format, "containers": len(w.Cnrs), "addresses": w.size(),
				"assoc_entries_by_container": st.AssocByCnr, "homomorphic_entries_by_container": st.HomoByCnr,
				"container_source_calls": len(log), "batch_starts": starts, "history_ops": w.Ops})
		}
		// interruption at every batch boundary: cancelling during the first call of batch k
		// stops the upgrade after batch k; cancelling before Init stops it before batch 1
		points := []vf42Attempt{{PreCancel: true}}
		for _, s := range starts {
			points = append(points, vf42Attempt{CancelAt: s})
		}
		if bulk && format == 9 && !r.Thorough() && len(points) > 4 {
			// format 9 adds one non-interruptible step in front of the same batch loop
			points = []vf42Attempt{points[0], points[1], points[len(points)/2], points[len(points)-1]}
		}
		for _, p := range points {
			runPlan("cancel", []vf42Attempt{p}, nil, nil, !bulk)
		}
		if len(starts) >= 2 {
			// repeated interruptions: stop after every batch in turn, resuming each time
			// (a call past the first scan of all containers lies in the second batch or later of
			// an attempt, so every attempt makes progress)
			var chain []vf42Attempt
			for range starts {
				chain = append(chain, vf42Attempt{CancelAt: len(w.Cnrs) + 1})
			}
			if len(chain) > 12 {
				chain = chain[:12]
			}
			runPlan("cancel-chain", chain, nil, nil, !bulk)
		}
		// container source failing in the middle of a batch (the batch rolls back)
		nFault := 2
		if bulk && !r.Thorough() {
			nFault = 1
		}
		for i := 0; i < nFault && len(log) > 0; i++ {
			runPlan("fault", []vf42Attempt{{FailAt: 1 + rng.IntN(len(log))}}, nil, nil, !bulk)
		}
		// a container that is removed from the network while the upgrade runs: exactly at a
		// batch boundary the source stops reporting it.  Its own objects are not constrained
		// (the code documents that it ignores such containers); all others must be preserved.
		vpoints := starts
		if !r.Thorough() && len(vpoints) > 3 {
			vpoints = []int{starts[1], starts[len(starts)/2], starts[len(starts)-1]}
		}
		if bulk && format == 9 && !r.Thorough() {
			vpoints = nil
		}
		for _, s := range vpoints {
			v := log[s-1]
			runPlan("vanish", []vf42Attempt{{VanishAt: s, Vanish: v.String(), vanish: v}}, nil, map[cid.ID]bool{v: true}, !bulk)
		}
		if !bulk && rng.IntN(3) == 0 && len(w.Cnrs) > 1 {
			// a container that is already gone when the upgrade starts
			v := w.Cnrs[rng.IntN(len(w.Cnrs))]
			runPlan("absent", nil, map[cid.ID]bool{v: true}, map[cid.ID]bool{v: true}, true)
		}
		os.Remove(oldPath)
	}
}

func vf42SkipKeys(skip map[cid.ID]bool) map[string]bool {
	m := map[string]bool{}
	for c := range skip {
		m[string(c[:])] = true
	}
	return m
}

var _ = strconv.Itoa
