//go:build verif

package engine

// C19 monitor: evacuation keeps every available object available on the remaining shards,
// does not remove data from the source shards and does not change removal / lock status.
//
// Real StorageEngine over 2-4 real shards (FSTree + bbolt metabase on temp dirs).  The
// blob storage of every shard is wrapped by vf19Store which injects write failures into
// chosen TARGET shards (sources are never faulted: the statement speaks about objects
// that ARE available on them).  A seeded population (plain objects, duplicates on several
// shards, tombstones, locks, split chains with link objects, EC parts, expiring objects;
// part of it written while some shards were already read-only) is followed by ONE
// Evacuate call with a random source subset, read-only / failing targets, ignoreErrors
// on/off and a fault handler (absent / accepting / aborting).
//
// Oracle, written from the statement:
//  (1) when Evacuate returns nil: every address that was available on a source shard
//      (the source shard served it and the engine served it, and no shard called it
//      removed) is served, with identical bytes, by a shard that is NOT a source - or was
//      handed, with identical bytes, to the fault handler;
//  (2) always: every source shard serves exactly what it served before (every address,
//      outcome class and bytes), its blob files and its metabase content are unchanged;
//  (3) always: for every address whose removal status was well defined before (not
//      available on one shard and removed on another), the engine's Get outcome class and
//      IsLocked answer are the same as before.

import (
	"bytes"
	"context"
	"crypto/sha256"
	"encoding/hex"
	"encoding/json"
	"errors"
	"fmt"
	"io/fs"
	"math/rand/v2"
	"os"
	"path/filepath"
	"sort"
	"strings"
	"sync"
	"sync/atomic"
	"testing"
	"time"

	"github.com/nspcc-dev/bbolt"
	iec "github.com/nspcc-dev/neofs-node/internal/ec"
	ierrors "github.com/nspcc-dev/neofs-node/internal/errors"
	"github.com/nspcc-dev/neofs-node/internal/verifkit"
	"github.com/nspcc-dev/neofs-node/pkg/local_object_storage/blobstor/common"
	"github.com/nspcc-dev/neofs-node/pkg/local_object_storage/blobstor/fstree"
	meta "github.com/nspcc-dev/neofs-node/pkg/local_object_storage/metabase"
	"github.com/nspcc-dev/neofs-node/pkg/local_object_storage/shard"
	"github.com/nspcc-dev/neofs-node/pkg/local_object_storage/shard/mode"
	apistatus "github.com/nspcc-dev/neofs-sdk-go/client/status"
	cid "github.com/nspcc-dev/neofs-sdk-go/container/id"
	"github.com/nspcc-dev/neofs-sdk-go/object"
	oid "github.com/nspcc-dev/neofs-sdk-go/object/id"
	"github.com/nspcc-dev/neofs-sdk-go/user"
)

var errVf19Injected = errors.New("vf19: injected write error")

type vf19Ctl struct {
	mu         sync.Mutex
	writeFault map[int]bool
	hits       int
}

func (c *vf19Ctl) wf(i int) bool {
	c.mu.Lock()
	defer c.mu.Unlock()
	if c.writeFault[i] {
		c.hits++
		return true
	}
	return false
}

// vf19Store: real FSTree inside, pinned shard ID, injected write failures.
type vf19Store struct {
	common.Storage
	idx int
	id  common.ID
	ctl *vf19Ctl
}

func (s *vf19Store) Init(common.ID) error { return s.Storage.Init(s.id) }

func (s *vf19Store) Put(a oid.Address, b []byte) error {
	if s.ctl.wf(s.idx) {
		return errVf19Injected
	}
	return s.Storage.Put(a, b)
}

func (s *vf19Store) PutBatch(m map[oid.Address][]byte) error {
	if s.ctl.wf(s.idx) {
		return errVf19Injected
	}
	return s.Storage.PutBatch(m)
}

type vf19Epoch struct{ v atomic.Uint64 }

func (e *vf19Epoch) CurrentEpoch() uint64 { return e.v.Load() }

type vf19Shard struct {
	idx      int
	id       common.ID
	sh       *shard.Shard
	blobDir  string
	metaPath string
}

type vf19Obj struct {
	label string
	obj   *object.Object // nil for virtual parents / never stored
	addr  oid.Address
	bin   []byte
}

type vf19Env struct {
	r      *verifkit.Run
	caseNo int
	rng    *rand.Rand
	dir    string
	e      *StorageEngine
	ctl    *vf19Ctl
	epoch  *vf19Epoch
	shards []*vf19Shard
	cnrs   []cid.ID
	owner  user.ID
	uni    []*vf19Obj
	ops    []string
}

func (v *vf19Env) addShard() error {
	idx := len(v.shards)
	id, err := common.NewIDFromBytes(verifkit.RandBytes(v.rng, common.IDSize))
	if err != nil {
		return err
	}
	s := &vf19Shard{idx: idx, id: id, blobDir: filepath.Join(v.dir, fmt.Sprintf("fs%d", idx)), metaPath: filepath.Join(v.dir, fmt.Sprintf("meta%d", idx))}
	inner := fstree.New(fstree.WithPath(s.blobDir), fstree.WithDepth(1), fstree.WithNoSync(true))
	st := &vf19Store{Storage: inner, idx: idx, id: id, ctl: v.ctl}
	bopts := *bbolt.DefaultOptions
	bopts.NoSync = true
	got, err := v.e.AddShard(
		shard.WithBlobstor(st),
		shard.WithMetaBaseOptions(
			meta.WithPath(s.metaPath),
			meta.WithPermissions(0o700),
			meta.WithEpochState(v.epoch),
			meta.WithMaxBatchDelay(time.Microsecond),
			meta.WithBoltDBOptions(&bopts),
		),
		shard.WithGCRemoverSleepInterval(1000*time.Hour),
	)
	if err != nil {
		return err
	}
	if got != id {
		return fmt.Errorf("shard id %s differs from the pinned one %s", got, id)
	}
	s.sh = v.e.getShard(id.String()).Shard
	v.shards = append(v.shards, s)
	return nil
}

func (v *vf19Env) track(label string, o *object.Object) *vf19Obj {
	u := &vf19Obj{label: label, obj: o, addr: o.Address(), bin: o.Marshal()}
	v.uni = append(v.uni, u)
	return u
}

func (v *vf19Env) trackAddr(label string, a oid.Address) {
	v.uni = append(v.uni, &vf19Obj{label: label, addr: a})
}

func (v *vf19Env) log(f string, a ...any) { v.ops = append(v.ops, fmt.Sprintf(f, a...)) }

// enginePut / shardPut: population requests; their outcome is recorded, never judged.
func (v *vf19Env) enginePut(u *vf19Obj) {
	err := v.e.Put(context.Background(), u.obj, nil)
	v.log("engine.Put %s: %s", u.label, vf19Class(err))
	v.r.Count("population_engine_put_"+vf19Class(err), 1)
}

func (v *vf19Env) shardPut(i int, u *vf19Obj) {
	err := v.shards[i].sh.Put(u.obj, nil)
	v.log("shard%d.Put %s: %s", i, u.label, vf19Class(err))
	v.r.Count("population_shard_put_"+vf19Class(err), 1)
}

func vf19Class(err error) string {
	var si *object.SplitInfoError
	var ecp iec.ErrParts
	switch {
	case err == nil:
		return "ok"
	case errors.Is(err, apistatus.ErrObjectAlreadyRemoved):
		return "removed"
	case errors.As(err, &si):
		return "split-info"
	case errors.As(err, &ecp):
		return "ec-parts"
	case errors.Is(err, ierrors.ErrParentObject):
		return "parent"
	case shard.IsErrObjectExpired(err):
		return "expired"
	case errors.Is(err, apistatus.ErrObjectNotFound):
		return "not-found"
	case errors.Is(err, apistatus.ErrObjectLocked):
		return "locked"
	case errors.Is(err, shard.ErrReadOnlyMode):
		return "read-only"
	case errors.Is(err, shard.ErrDegradedMode):
		return "degraded"
	case errors.Is(err, errVf19Injected):
		return "injected"
	case errors.Is(err, errPutShard):
		return "no-shard-accepted"
	default:
		return "other"
	}
}

type vf19Read struct {
	class string
	sum   string // hash of the marshalled object when class == ok
}

func vf19ReadOf(o *object.Object, err error) vf19Read {
	rd := vf19Read{class: vf19Class(err)}
	if err == nil && o != nil {
		h := sha256.Sum256(o.Marshal())
		rd.sum = hex.EncodeToString(h[:8])
	}
	return rd
}

type vf19State struct {
	perShard [][]vf19Read // [shard][address]
	engGet   []vf19Read
	engHead  []string
	locked   []string // engine IsLocked: "true", "false", "error:<class>"
	lockAny  []string // over all shards separately: "true" if any shard says locked, "false" if all say no, else "unknown"
}

func (v *vf19Env) observe() *vf19State {
	ctx := context.Background()
	st := &vf19State{perShard: make([][]vf19Read, len(v.shards))}
	for i, s := range v.shards {
		st.perShard[i] = make([]vf19Read, len(v.uni))
		noMeta := s.sh.GetMode().NoMetabase()
		for j, u := range v.uni {
			o, err := s.sh.Get(u.addr, noMeta)
			st.perShard[i][j] = vf19ReadOf(o, err)
		}
	}
	for _, u := range v.uni {
		o, err := v.e.Get(ctx, u.addr)
		st.engGet = append(st.engGet, vf19ReadOf(o, err))
		_, herr := v.e.Head(ctx, u.addr, false)
		st.engHead = append(st.engHead, vf19Class(herr))
		l, lerr := v.e.IsLocked(ctx, u.addr)
		if lerr != nil {
			st.locked = append(st.locked, "error:"+vf19Class(lerr))
		} else {
			st.locked = append(st.locked, fmt.Sprint(l))
		}
		anyTrue, anyErr := false, false
		for _, s := range v.shards {
			sl, serr := s.sh.IsLocked(u.addr)
			anyTrue = anyTrue || (serr == nil && sl)
			anyErr = anyErr || serr != nil
		}
		switch {
		case anyTrue:
			st.lockAny = append(st.lockAny, "true")
		case anyErr:
			st.lockAny = append(st.lockAny, "unknown")
		default:
			st.lockAny = append(st.lockAny, "false")
		}
	}
	return st
}

// ---- persisted state of a source shard (independent of the shard's own code) ----

func vf19WalkFiles(root string, out map[string]string) error {
	return filepath.WalkDir(root, func(p string, d fs.DirEntry, err error) error {
		if err != nil {
			if errors.Is(err, fs.ErrNotExist) {
				return nil
			}
			return err
		}
		if d.IsDir() {
			return nil
		}
		b, err := os.ReadFile(p)
		if err != nil {
			return err
		}
		rel, _ := filepath.Rel(root, p)
		h := sha256.Sum256(b)
		out[rel] = fmt.Sprintf("%d:%s", len(b), hex.EncodeToString(h[:8]))
		return nil
	})
}

func vf19DumpBucket(b *bbolt.Bucket, path string, out map[string]string) error {
	h := sha256.New()
	err := b.ForEach(func(k, val []byte) error {
		if val == nil {
			if nb := b.Bucket(k); nb != nil {
				return vf19DumpBucket(nb, path+"/"+hex.EncodeToString(k), out)
			}
		}
		fmt.Fprintf(h, "%d:%d:", len(k), len(val))
		h.Write(k)
		h.Write(val)
		return nil
	})
	out[path] = hex.EncodeToString(h.Sum(nil)[:8])
	return err
}

type vf19Snap struct {
	files map[string]string
	meta  map[string]string
}

func (v *vf19Env) snapshot(s *vf19Shard) (*vf19Snap, error) {
	sn := &vf19Snap{files: map[string]string{}, meta: map[string]string{}}
	if err := vf19WalkFiles(s.blobDir, sn.files); err != nil {
		return nil, err
	}
	db, err := bbolt.Open(s.metaPath, 0o600, &bbolt.Options{ReadOnly: true, Timeout: 30 * time.Second})
	if err != nil {
		return nil, fmt.Errorf("independent read-only open of the metabase: %w", err)
	}
	defer db.Close()
	err = db.View(func(tx *bbolt.Tx) error {
		return tx.ForEach(func(name []byte, b *bbolt.Bucket) error {
			return vf19DumpBucket(b, hex.EncodeToString(name), sn.meta)
		})
	})
	return sn, err
}

func vf19DiffMaps(x, y map[string]string) string {
	var d []string
	for k, a := range x {
		if b, ok := y[k]; !ok {
			d = append(d, "-"+k)
		} else if a != b {
			d = append(d, "~"+k)
		}
	}
	for k := range y {
		if _, ok := x[k]; !ok {
			d = append(d, "+"+k)
		}
	}
	sort.Strings(d)
	if len(d) > 6 {
		d = append(d[:6], fmt.Sprintf("...(%d more)", len(d)-6))
	}
	if len(d) == 0 {
		return ""
	}
	return fmt.Sprint(d)
}

func vf19ModeName(m mode.Mode) string {
	switch m {
	case mode.ReadWrite:
		return "rw"
	case mode.ReadOnly:
		return "ro"
	case mode.Degraded:
		return "deg"
	case mode.DegradedReadOnly:
		return "degro"
	}
	return "?"
}

func (v *vf19Env) setMode(i int, m mode.Mode) bool {
	if err := v.e.SetShardMode(v.shards[i].id, m, false); err != nil {
		v.r.Inconclusive(fmt.Sprintf("case %d: SetShardMode(%d, %s): %v", v.caseNo, i, m, err))
		return false
	}
	v.log("shard%d -> %s", i, vf19ModeName(m))
	return true
}

// populate writes the seeded population; phase 2 happens while `early` shards are
// already read-only (so system objects broadcast later do not reach them).
func (v *vf19Env) populate(early []int, directed bool) bool {
	rng := v.rng
	n := len(v.shards)
	newObj := func(cnr cid.ID) *object.Object {
		sz := []int{0, 1 + rng.IntN(64), 1 + rng.IntN(3000)}[rng.IntN(3)]
		return verifkit.NewObject(rng, cnr, v.owner, sz)
	}
	var plain, lockable []*vf19Obj
	phase := func(tag string, nPlain int) {
		for i := 0; i < nPlain; i++ {
			u := v.track(fmt.Sprintf("%s-plain%d", tag, i), newObj(v.cnrs[rng.IntN(len(v.cnrs))]))
			plain = append(plain, u)
			switch rng.IntN(4) {
			case 0: // a copy on a shard chosen by hand (not the HRW one)
				v.shardPut(rng.IntN(n), u)
			case 1: // duplicates on two shards
				a := rng.IntN(n)
				v.shardPut(a, u)
				v.shardPut((a+1+rng.IntN(n-1))%n, u)
			default:
				v.enginePut(u)
			}
		}
		// split chain: first, middle, last child carrying the parent header, link object
		if rng.IntN(3) != 0 {
			cnr := v.cnrs[rng.IntN(len(v.cnrs))]
			parent := verifkit.NewObject(rng, cnr, v.owner, 0)
			parent.SetPayloadSize(30)
			first := verifkit.NewObject(rng, cnr, v.owner, 10)
			mid := verifkit.NewObject(rng, cnr, v.owner, 10)
			mid.SetFirstID(first.GetID())
			mid.SetPreviousID(first.GetID())
			last := verifkit.NewObject(rng, cnr, v.owner, 10)
			last.SetFirstID(first.GetID())
			last.SetPreviousID(mid.GetID())
			last.SetParent(parent)
			last.SetParentID(parent.GetID())
			link := verifkit.NewObject(rng, cnr, v.owner, 0)
			link.SetType(object.TypeLink)
			link.SetFirstID(first.GetID())
			link.SetParent(parent)
			link.SetParentID(parent.GetID())
			link.SetChildren(first.GetID(), mid.GetID(), last.GetID())
			for i, o := range []*object.Object{first, mid, last, link} {
				u := v.track(fmt.Sprintf("%s-split%d", tag, i), o)
				if rng.IntN(4) == 0 && o.Type() != object.TypeLink {
					v.shardPut(rng.IntN(n), u)
				} else {
					v.enginePut(u)
				}
			}
			v.trackAddr(tag+"-split-parent", oid.NewAddress(cnr, parent.GetID()))
		}
		// EC parts of one parent
		if rng.IntN(3) != 0 {
			cnr := v.cnrs[rng.IntN(len(v.cnrs))]
			parent := verifkit.NewObject(rng, cnr, v.owner, 0)
			parent.SetPayloadSize(uint64(100 + rng.IntN(50)))
			for k := 0; k < 3; k++ {
				o := verifkit.NewObject(rng, cnr, v.owner, 20+rng.IntN(30))
				o.SetParent(parent)
				o.SetParentID(parent.GetID())
				verifkit.AddAttr(o, iec.AttributeRuleIdx, "0")
				verifkit.AddAttr(o, iec.AttributePartIdx, fmt.Sprint(k))
				u := v.track(fmt.Sprintf("%s-ec%d", tag, k), o)
				if rng.IntN(4) == 0 {
					v.shardPut(rng.IntN(n), u)
				} else {
					v.enginePut(u)
				}
			}
			v.trackAddr(tag+"-ec-parent", oid.NewAddress(cnr, parent.GetID()))
		}
		// expiring objects (the epoch moves past them before the evacuation in some cases)
		for i := 0; i < rng.IntN(2)+1; i++ {
			o := newObj(v.cnrs[0])
			verifkit.SetExpiration(o, uint64(1+rng.IntN(3)))
			u := v.track(fmt.Sprintf("%s-expiring%d", tag, i), o)
			v.enginePut(u)
			lockable = append(lockable, u)
		}
		// tombstones and locks of earlier plain objects (engine: broadcast; sometimes one shard only)
		for i := 0; i < 1+rng.IntN(2) && len(plain) > 0; i++ {
			tg := plain[rng.IntN(len(plain))]
			ts := verifkit.NewObject(rng, tg.addr.Container(), v.owner, 0)
			ts.AssociateDeleted(tg.addr.Object())
			verifkit.SetExpiration(ts, 100)
			u := v.track(fmt.Sprintf("%s-tombstone-of-%s", tag, tg.label), ts)
			if rng.IntN(5) == 0 {
				v.shardPut(rng.IntN(n), u)
			} else {
				v.enginePut(u)
			}
		}
		for i := 0; i < 1+rng.IntN(3) && len(plain) > 0; i++ {
			tg := plain[rng.IntN(len(plain))]
			if len(lockable) > 0 && rng.IntN(2) == 0 {
				tg = lockable[rng.IntN(len(lockable))]
			}
			lk := verifkit.NewObject(rng, tg.addr.Container(), v.owner, 0)
			lk.AssociateLocked(tg.addr.Object())
			verifkit.SetExpiration(lk, 100)
			u := v.track(fmt.Sprintf("%s-lock-of-%s", tag, tg.label), lk)
			if rng.IntN(5) == 0 {
				v.shardPut(rng.IntN(n), u)
			} else {
				v.enginePut(u)
			}
		}
	}
	phase("a", 4+rng.IntN(5))
	for _, i := range early {
		if !v.setMode(i, mode.ReadOnly) {
			return false
		}
	}
	if len(early) > 0 && len(early) < n {
		nBefore := len(lockable)
		phase("b", 2+rng.IntN(3))
		if directed && len(lockable) > nBefore {
			// an expirable object and its lock that exist on the future sources only
			tg := lockable[len(lockable)-1]
			lk := verifkit.NewObject(rng, tg.addr.Container(), v.owner, 0)
			lk.AssociateLocked(tg.addr.Object())
			verifkit.SetExpiration(lk, 100)
			v.enginePut(v.track("b-lock-of-"+tg.label, lk))
		}
	}
	v.trackAddr("never-stored", oid.NewAddress(v.cnrs[0], verifkit.RandOID(rng)))
	return true
}

type vf19Handed struct {
	addr oid.Address
	sum  string
}

func vf19RunCase(r *verifkit.Run, caseNo int) {
	rng := r.Rand("case", caseNo)
	base := os.Getenv("VERIF_SCRATCH")
	dir, err := os.MkdirTemp(base, "vf19-")
	if err != nil {
		r.Inconclusive("mkdtemp: " + err.Error())
		return
	}
	defer os.RemoveAll(dir)
	v := &vf19Env{r: r, caseNo: caseNo, rng: rng, dir: dir, ctl: &vf19Ctl{writeFault: map[int]bool{}}, epoch: &vf19Epoch{}}
	v.e = New()
	n := 2 + rng.IntN(3)
	for range n {
		if err := v.addShard(); err != nil {
			r.Inconclusive("AddShard failed: " + err.Error())
			return
		}
	}
	if err := v.e.Init(); err != nil {
		r.Inconclusive("engine init: " + err.Error())
		return
	}
	defer func() { _ = v.e.Close() }()
	v.cnrs, v.owner = []cid.ID{verifkit.RandCID(rng), verifkit.RandCID(rng)}, verifkit.RandUser(rng)

	// configuration: sources, their modes, target trouble, flags
	perm := rng.Perm(n)
	nSrc := 1 + rng.IntN(n-1)
	allSources := rng.IntN(12) == 0
	if allSources {
		nSrc = n
	}
	sources := append([]int(nil), perm[:nSrc]...)
	sort.Ints(sources)
	isSrc := map[int]bool{}
	for _, i := range sources {
		isSrc[i] = true
	}
	var early []int // read-only already while the second half of the population is written
	directed := caseNo%5 == 4 && !allSources
	for _, i := range perm {
		if directed {
			// the second half reaches only the future sources (everything else was
			// read-only at that time): objects, their locks and tombstones live there only
			if !isSrc[i] {
				early = append(early, i)
			}
		} else if rng.IntN(3) == 0 {
			early = append(early, i)
		}
	}
	desc := map[string]any{"case_index": caseNo, "shards": n, "sources": sources, "second_half_only_on_sources": directed}
	var violated bool
	violate := func(key, what string, extra map[string]any) {
		violated = true
		d := map[string]any{"ops": append([]string(nil), v.ops...)}
		for k, x := range desc {
			d[k] = x
		}
		for k, x := range extra {
			d[k] = x
		}
		r.Violation(key, what, d)
	}

	var (
		evErr   error
		evCount int
		pre     *vf19State
		post    *vf19State
		snaps   = map[int]*vf19Snap{}
		handed  []vf19Handed
		calls   int
		hMode   string
		ignore  bool
		srcMode = map[int]mode.Mode{}
		tgtNote = map[int]string{}
	)
	panicked := r.Guard(desc, func() {
		if !v.populate(early, directed) {
			violated = true
			return
		}
		if rng.IntN(3) == 0 || directed {
			v.epoch.v.Store(uint64(1 + rng.IntN(4)))
			v.log("epoch -> %d", v.epoch.v.Load())
		}
		// modes: sources read-only (rarely degraded-read-only), some targets read-only / failing
		for i := 0; i < n; i++ {
			switch {
			case isSrc[i]:
				m := mode.ReadOnly
				if rng.IntN(10) == 0 {
					m = mode.DegradedReadOnly
				}
				srcMode[i] = m
				if !v.setMode(i, m) {
					violated = true
					return
				}
			default:
				switch rng.IntN(6) {
				case 0:
					tgtNote[i] = "read-only"
					if !v.setMode(i, mode.ReadOnly) {
						violated = true
						return
					}
				case 1:
					tgtNote[i] = "write-fault"
					v.ctl.mu.Lock()
					v.ctl.writeFault[i] = true
					v.ctl.mu.Unlock()
					if !v.setMode(i, mode.ReadWrite) {
						violated = true
						return
					}
					v.log("shard%d: blob storage writes fail", i)
				default:
					tgtNote[i] = "healthy"
					if !v.setMode(i, mode.ReadWrite) {
						violated = true
						return
					}
				}
			}
		}
		ignore = rng.IntN(2) == 0
		hMode = []string{"none", "none", "accept", "accept", "abort"}[rng.IntN(5)]
		if allSources && hMode == "none" {
			hMode = "accept"
		}
		abortAt := 1 + rng.IntN(3)
		var handler func(oid.Address, *object.Object) error
		if hMode != "none" {
			handler = func(a oid.Address, o *object.Object) error {
				calls++
				if hMode == "abort" && calls == abortAt {
					return errors.New("vf19: handler refuses")
				}
				rd := vf19ReadOf(o, nil)
				if o == nil {
					rd.sum = "nil"
				}
				handed = append(handed, vf19Handed{a, rd.sum})
				return nil
			}
		}
		desc["source_modes"] = fmt.Sprint(srcMode)
		desc["targets"] = fmt.Sprint(tgtNote)
		desc["ignore_errors"] = ignore
		desc["fault_handler"] = hMode

		pre = v.observe()
		for _, i := range sources {
			sn, err := v.snapshot(v.shards[i])
			if err != nil {
				r.Inconclusive(fmt.Sprintf("case %d: snapshot of source shard %d: %v", caseNo, i, err))
				violated = true
				return
			}
			snaps[i] = sn
		}
		ids := make([]common.ID, 0, len(sources))
		for _, i := range sources {
			ids = append(ids, v.shards[i].id)
		}
		if rng.IntN(2) == 0 {
			rng.Shuffle(len(ids), func(a, b int) { ids[a], ids[b] = ids[b], ids[a] })
		}
		evCount, evErr = v.e.Evacuate(context.Background(), ids, ignore, handler)
		v.log("Evacuate(sources=%v, ignoreErrors=%v, handler=%s) = %d, %v", sources, ignore, hMode, evCount, evErr)
		post = v.observe()
	})
	if panicked || violated || pre == nil || post == nil {
		return
	}
	r.Eval(1)
	outcome := "ok"
	if evErr != nil {
		outcome = "error:" + vf19Class(evErr)
	}
	r.Count("evacuations_"+strings.SplitN(outcome, ":", 2)[0], 1)
	r.Seen("evacuation_outcomes", outcome)
	r.Count("objects_evacuated_reported", evCount)
	r.Count("fault_handler_calls", calls)
	r.Seen("configurations", fmt.Sprintf("shards=%d sources=%d handler=%s ignore=%v", n, len(sources), hMode, ignore))
	desc["outcome"] = outcome

	// well-definedness of the removal status before: not (available somewhere and removed elsewhere)
	ambiguous := make([]bool, len(v.uni))
	for j := range v.uni {
		var ok, rem bool
		for i := range v.shards {
			switch pre.perShard[i][j].class {
			case "ok":
				ok = true
			case "removed":
				rem = true
			}
		}
		exp := false
		for i := range v.shards {
			exp = exp || pre.perShard[i][j].class == "expired"
		}
		ambiguous[j] = ok && rem
		if ambiguous[j] {
			r.Count("addresses_with_ambiguous_removal_status_excluded", 1)
		} else if exp && pre.lockAny[j] == "true" {
			// a lock known to one shard does not protect the expired copy on another:
			// the status is ill-defined before the evacuation already
			ambiguous[j] = true
			r.Count("addresses_locked_on_one_shard_expired_on_another_excluded", 1)
		} else if pre.lockAny[j] == "true" && pre.engGet[j].class != "ok" && v.uni[j].obj != nil {
			// locked according to one shard, yet removed / garbage-marked according to the
			// shard that holds it (left behind by a tombstone the engine refused): whether
			// the lock counts depends on the shard already before the evacuation
			ambiguous[j] = true
			r.Count("addresses_locked_on_one_shard_unavailable_on_another_excluded", 1)
		}
	}

	// (2) sources untouched
	for _, i := range sources {
		for j, u := range v.uni {
			if pre.perShard[i][j] != post.perShard[i][j] {
				violate(fmt.Sprintf("source-shard-changed|read|%s->%s", pre.perShard[i][j].class, post.perShard[i][j].class),
					fmt.Sprintf("source shard %d served %s as %+v before the evacuation and %+v after it", i, u.label, pre.perShard[i][j], post.perShard[i][j]),
					map[string]any{"address": u.label})
				break
			}
		}
		sn, err := v.snapshot(v.shards[i])
		if err != nil {
			r.Inconclusive(fmt.Sprintf("case %d: post snapshot of source shard %d: %v", caseNo, i, err))
			return
		}
		if d := vf19DiffMaps(snaps[i].files, sn.files); d != "" {
			violate("source-shard-changed|blob-files", fmt.Sprintf("blob files of source shard %d changed: %s", i, d), nil)
		}
		if d := vf19DiffMaps(snaps[i].meta, sn.meta); d != "" {
			violate("source-shard-changed|metabase", fmt.Sprintf("metabase of source shard %d changed: %s", i, d), nil)
		}
		r.Count("source_snapshots_compared", 1)
	}

	// (3) removal / lock status unchanged
	for j, u := range v.uni {
		if ambiguous[j] {
			continue
		}
		r.Count("status_comparisons", 1)
		if pre.engGet[j].class != post.engGet[j].class {
			kind := ""
			if strings.Contains(u.label, "expiring") && pre.lockAny[j] == "true" {
				kind = "locked-expirable|"
			}
			violate(fmt.Sprintf("status-changed|get|%s%s->%s|evacuation-%s", kind, pre.engGet[j].class, post.engGet[j].class, strings.SplitN(outcome, ":", 2)[0]),
				fmt.Sprintf("engine Get of %s was %q before the evacuation and %q after it", u.label, pre.engGet[j].class, post.engGet[j].class),
				map[string]any{"address": u.label, "per_shard_before": vf19Col(pre, j), "per_shard_after": vf19Col(post, j)})
		} else if pre.engGet[j].class == "ok" && pre.engGet[j].sum != post.engGet[j].sum {
			violate("status-changed|get-bytes-differ", fmt.Sprintf("engine Get of %s returns other bytes after the evacuation", u.label), map[string]any{"address": u.label})
		}
		// the engine's IsLocked visits the shards in map order and stops at the first
		// shard that cannot answer (degraded), so an "error" answer says nothing about
		// the status; definite answers must agree, and so must the shard-by-shard view
		definite := func(x string) bool { return x == "true" || x == "false" }
		if definite(pre.locked[j]) && definite(post.locked[j]) && pre.locked[j] != post.locked[j] {
			violate(fmt.Sprintf("status-changed|locked|%s->%s", pre.locked[j], post.locked[j]),
				fmt.Sprintf("IsLocked(%s) was %s before the evacuation and %s after it", u.label, pre.locked[j], post.locked[j]),
				map[string]any{"address": u.label})
		} else if !definite(pre.locked[j]) || !definite(post.locked[j]) {
			r.Count("engine_islocked_error_answers_not_compared", 1)
		}
		if definite(pre.lockAny[j]) && definite(post.lockAny[j]) && pre.lockAny[j] != post.lockAny[j] {
			violate(fmt.Sprintf("status-changed|locked-on-some-shard|%s->%s", pre.lockAny[j], post.lockAny[j]),
				fmt.Sprintf("%s was locked according to some shard: %s before the evacuation, %s after it", u.label, pre.lockAny[j], post.lockAny[j]),
				map[string]any{"address": u.label})
		}
		r.Seen("engine_get_classes", pre.engGet[j].class)
		if pre.lockAny[j] == "true" {
			r.Count("locked_addresses_compared", 1)
		}
	}

	// (1) availability on the remaining shards after a successful evacuation
	if evErr == nil {
		degroReported := false
		handedSum := map[oid.Address]string{}
		for _, h := range handed {
			handedSum[h.addr] = h.sum
		}
		for j, u := range v.uni {
			if ambiguous[j] || u.obj == nil || pre.engGet[j].class != "ok" {
				continue
			}
			onSource := -1
			for _, i := range sources {
				if pre.perShard[i][j].class == "ok" {
					onSource = i
				}
			}
			if onSource < 0 {
				continue
			}
			want := pre.perShard[onSource][j].sum
			if w := vf19ReadOf(u.obj, nil).sum; w != want {
				// the source itself did not hold the acknowledged bytes: not this property's subject
				r.Count("source_copies_with_unexpected_bytes", 1)
				continue
			}
			r.Count("available_objects_on_sources_checked", 1)
			if strings.Contains(u.label, "expiring") && pre.lockAny[j] == "true" {
				r.Count("available_locked_expirable_objects_on_sources_checked", 1)
			}
			kind := strings.SplitN(strings.SplitN(u.label, "-", 2)[1], "-of-", 2)[0]
			kind = strings.TrimRight(kind, "0123456789")
			if kind == "expiring" && pre.lockAny[j] == "true" {
				kind = "locked-expirable"
			}
			served, differ := -1, -1
			for i := range v.shards {
				if isSrc[i] {
					continue
				}
				if post.perShard[i][j].class == "ok" {
					if post.perShard[i][j].sum == want {
						served = i
					} else {
						differ = i
					}
				}
			}
			wasThere := false
			for i := range v.shards {
				if !isSrc[i] && pre.perShard[i][j].class == "ok" {
					wasThere = true
				}
			}
			switch {
			case served >= 0:
				if wasThere {
					r.Count("available_objects_already_on_remaining_shard", 1)
				} else {
					r.Count("available_objects_moved_to_remaining_shard", 1)
				}
				r.Count("served_by_remaining_shard_kind_"+kind, 1)
				r.Distinct(fmt.Sprintf("moved|%s|src=%s|n=%d|nsrc=%d|was=%v|%s|%v", kind, vf19ModeName(srcMode[onSource]), n, len(sources), wasThere, hMode, ignore))
			case differ >= 0:
				violate("evacuated-bytes-differ|"+kind, fmt.Sprintf("%s is served by remaining shard %d with other bytes than the source shard %d had", u.label, differ, onSource), map[string]any{"address": u.label})
			default:
				if s, ok := handedSum[u.addr]; ok {
					if s != want {
						violate("fault-handler-got-other-bytes|"+kind, fmt.Sprintf("%s was handed to the fault handler with other bytes", u.label), map[string]any{"address": u.label})
					} else {
						r.Count("available_objects_handed_to_fault_handler", 1)
						r.Distinct(fmt.Sprintf("handed|%s|n=%d|nsrc=%d", kind, n, len(sources)))
					}
					continue
				}
				key := fmt.Sprintf("not-on-remaining-shards|%s|source=%s", kind, vf19ModeName(srcMode[onSource]))
				if srcMode[onSource].NoMetabase() {
					if degroReported {
						continue
					}
					degroReported = true
					key = "not-on-remaining-shards|source=degraded-read-only|nothing-evacuated"
				}
				violate(key,
					fmt.Sprintf("Evacuate returned nil, %s was available on source shard %d (%s) and through the engine, but no remaining shard serves it and the fault handler did not get it", u.label, onSource, vf19ModeName(srcMode[onSource])),
					map[string]any{"address": u.label, "per_shard_before": vf19Col(pre, j), "per_shard_after": vf19Col(post, j)})
			}
		}
	} else {
		r.Distinct(fmt.Sprintf("failed|%s|n=%d|nsrc=%d|%s|%v", outcome, n, len(sources), hMode, ignore))
	}
	if caseNo < 4 {
		r.Sample(map[string]any{"case_index": caseNo, "shards": n, "sources": sources, "source_modes": fmt.Sprint(srcMode), "targets": fmt.Sprint(tgtNote), "handler": hMode, "ignore_errors": ignore, "outcome": outcome, "evacuated": evCount, "ops_tail": v.ops[max(0, len(v.ops)-6):]})
	}
}

func vf19Col(st *vf19State, j int) []string {
	var res []string
	for i := range st.perShard {
		res = append(res, fmt.Sprintf("shard%d:%s", i, st.perShard[i][j].class))
	}
	return res
}

func TestVerif_C19(t *testing.T) {
	r := verifkit.Start(t, "C19", "exploration")
	defer r.Finish()
	cases := r.Pick(150, 3000)
	r.SetRule(fmt.Sprintf("%d seeded cases: engine with 2-4 real shards populated through engine puts and direct shard puts (plain objects, duplicates on two shards, split chain + link, EC parts, expiring objects, tombstones and locks broadcast or on one shard; second half written while some shards are already read-only), epoch optionally advanced; ONE Evacuate of a random source subset (read-only, 10%%: degraded-read-only; 8%%: all shards) with remaining shards healthy / read-only / failing writes, ignoreErrors on/off, fault handler absent / accepting / aborting at the k-th call; every address of the universe is read from every shard and through engine Get/Head/IsLocked before and after, source shards' blob files and metabase content are snapshotted independently. distinct = (object kind, source mode, shard count, source count, copy already on a remaining shard, handler, ignoreErrors) of availability checks, and failed-evacuation signatures", cases))
	r.Assume("available on a source shard = the source shard's Get served the acknowledged bytes AND engine Get served the address AND no shard reported it removed")
	r.Assume("addresses whose status depends on the shard asked already before the evacuation are excluded and counted: available on one shard and removed according to another; locked according to one shard but expired / removed / garbage-marked on the shard that holds them")
	r.Assume("objects handed to an accepting fault handler with identical bytes count as taken care of")
	r.Assume("faults are injected only into blob-storage writes of non-source shards; no write-cache")

	if p := os.Getenv("VERIF_REPLAY"); p != "" {
		var doc struct {
			Case struct {
				CaseIndex int `json:"case_index"`
			} `json:"case"`
		}
		if b, err := os.ReadFile(p); err == nil && json.Unmarshal(b, &doc) == nil {
			// the engine broadcasts system objects in map order, so the population of a
			// case can differ between runs: replay the case several times
			for range 12 {
				vf19RunCase(r, doc.Case.CaseIndex)
			}
			r.Distinct("replay-a")
			r.Distinct("replay-b")
			return
		}
	}

	var wg sync.WaitGroup
	ch := make(chan int)
	for range 4 {
		wg.Add(1)
		go func() {
			defer wg.Done()
			for c := range ch {
				vf19RunCase(r, c)
			}
		}()
	}
	for c := range cases {
		ch <- c
	}
	close(ch)
	wg.Wait()
	if r.Counter("available_objects_moved_to_remaining_shard") == 0 || r.Counter("evacuations_ok") == 0 {
		r.Inconclusive("no successful evacuation moved an available object")
	}
	_ = bytes.Equal
}
