//go:build verif

package engine

import (
	"bytes"
	"context"
	"encoding/binary"
	"errors"
	"fmt"
	"io"
	"math/rand/v2"
	"os"
	"path/filepath"
	"testing"

	"github.com/nspcc-dev/neofs-node/internal/verifkit"
	"github.com/nspcc-dev/neofs-node/pkg/local_object_storage/blobstor/common"
	"github.com/nspcc-dev/neofs-node/pkg/local_object_storage/blobstor/fstree"
	meta "github.com/nspcc-dev/neofs-node/pkg/local_object_storage/metabase"
	"github.com/nspcc-dev/neofs-node/pkg/local_object_storage/shard"
	"github.com/nspcc-dev/neofs-node/pkg/local_object_storage/shard/mode"
	"github.com/nspcc-dev/neofs-sdk-go/object"
	oid "github.com/nspcc-dev/neofs-sdk-go/object/id"
	"go.uber.org/zap"
)

// C46, engine leg: StorageEngine.DumpShard / RestoreShard must reproduce the dumped objects
// whatever chunking the reader applies.  The oracle is the same reference frame parser as in
// the shard leg (duplicated: harness files of different packages share no code).

type vf46Epoch struct{}

func (vf46Epoch) CurrentEpoch() uint64 { return 0 }

func vf46NewEngine(dir string, nShards int) (*StorageEngine, []common.ID, error) {
	e := New(WithLogger(zap.NewNop()))
	var ids []common.ID
	for i := 0; i < nShards; i++ {
		id, err := e.AddShard(
			shard.WithLogger(zap.NewNop()),
			shard.WithBlobstor(fstree.New(fstree.WithPath(filepath.Join(dir, fmt.Sprintf("fstree%d", i))), fstree.WithDepth(1), fstree.WithNoSync(true))),
			shard.WithMetaBaseOptions(
				meta.WithPath(filepath.Join(dir, fmt.Sprintf("meta%d", i))),
				meta.WithEpochState(vf46Epoch{}),
				meta.WithLogger(zap.NewNop()),
			),
		)
		if err != nil {
			return nil, nil, err
		}
		ids = append(ids, id)
	}
	if err := e.Init(); err != nil {
		return nil, nil, err
	}
	return e, ids, nil
}

type vf46Rec struct {
	body  []byte
	valid bool
	addr  oid.Address
}

func vf46Parse(b []byte) ([]vf46Rec, bool) {
	if len(b) < 4 || string(b[:4]) != "NEOF" {
		return nil, false
	}
	b = b[4:]
	var res []vf46Rec
	for len(b) > 0 {
		if len(b) < 4 {
			return res, false
		}
		sz := binary.LittleEndian.Uint32(b)
		b = b[4:]
		if uint64(sz) > uint64(len(b)) {
			return res, false
		}
		rec := vf46Rec{body: bytes.Clone(b[:sz])}
		var o object.Object
		if o.Unmarshal(rec.body) == nil && bytes.Equal(o.Marshal(), rec.body) {
			rec.valid, rec.addr = true, o.Address()
		}
		res = append(res, rec)
		b = b[sz:]
	}
	return res, true
}

func vf46Frame(recs []vf46Rec) []byte {
	out := []byte("NEOF")
	for _, r := range recs {
		out = binary.LittleEndian.AppendUint32(out, uint32(len(r.body)))
		out = append(out, r.body...)
	}
	return out
}

// vf46Rd is a contract-conforming reader with hostile chunking.  It refuses (with an error)
// to hand out a would-be size field larger than the rest of the stream once the consumer
// demonstrably reads size fields off the frame grid (see the shard leg for the rationale:
// protects the machine from 4 GiB allocations, never fires for a consumer that keeps framing).
type vf46Rd struct {
	data   []byte
	pos    int
	mode   string
	rng    *rand.Rand
	shorts int

	bodies      map[int]int // stream offset of every record body -> its length (reference framing)
	pendingBody int         // outstanding bytes of a body that was requested as a whole
	lostFraming bool        // the consumer asked for a size field while a body was outstanding
	valve       int

	// source failure: after failAt delivered bytes every call fails with a sticky non-EOF error
	failOn bool
	failAt int
	faults int
}

var errVf46Transport = errors.New("vf46 reader: connection reset by peer (injected source failure)")

var errVf46Valve = errors.New("vf46 reader: consumer lost the record framing, stream aborted to protect the machine")

func (r *vf46Rd) Read(p []byte) (int, error) {
	if len(p) == 0 {
		return 0, nil
	}
	if r.failOn && r.pos >= r.failAt {
		r.faults++
		return 0, errVf46Transport
	}
	rest := len(r.data) - r.pos
	if rest == 0 {
		return 0, io.EOF
	}
	if len(p) > 64<<20 {
		// Backstop: no stream of this harness exceeds a few MiB, so a request buffer of more
		// than 64 MiB can only come from a garbage size field; stop before it happens again.
		r.valve++
		return 0, errVf46Valve
	}
	if r.pendingBody > 0 && len(p) == 4 && r.pendingBody != 4 {
		r.lostFraming = true
	}
	if r.lostFraming && len(p) == 4 && rest >= 4 && uint64(binary.LittleEndian.Uint32(r.data[r.pos:])) > uint64(rest) {
		r.valve++
		return 0, errVf46Valve
	}
	reqAtBody := r.bodies[r.pos] == len(p)
	defer func(start int) {
		got := r.pos - start
		switch {
		case reqAtBody && got < len(p):
			r.pendingBody = len(p) - got
		case r.pendingBody > 0 && !r.lostFraming && got <= r.pendingBody:
			r.pendingBody -= got
		default:
			r.pendingBody = 0
		}
	}(r.pos)
	n := len(p)
	switch r.mode {
	case "onebyte":
		n = 1
	case "halves":
		n = (len(p) + 1) / 2
	case "short":
		n = 1 + r.rng.IntN(1+r.rng.IntN(5000))
	}
	n = min(n, len(p), rest)
	if r.failOn {
		n = min(n, r.failAt-r.pos)
	}
	if n < len(p) && n < rest {
		r.shorts++
	}
	copy(p, r.data[r.pos:r.pos+n])
	r.pos += n
	if r.mode == "dataerr" && r.pos == len(r.data) {
		return n, io.EOF
	}
	return n, nil
}

func TestVerif_C46Engine(t *testing.T) {
	r := verifkit.Start(t, "C46", "exploration")
	defer r.Finish()
	r.SetRule("case = engine with 1..3 shards holding 1..10 objects (payload 0..70 KiB, small so a lost framing reads small sizes) -> DumpShard of every shard -> RestoreShard into shards of a fresh engine through reader mode {full, short, onebyte, halves, dataerr}, optionally one undecodable record with ignoreErrors on/off -> the first non-empty stream once more into a fresh engine from a source that fails with a sticky non-EOF error at a record boundary / inside a body / inside a size prefix (rotating with the case index); distinct = (reader, #src shards, #dst shards, ignoreErrors, corrupted)")
	nCases := r.Pick(25, 250)
	base := os.Getenv("VERIF_SCRATCH")
	if base == "" {
		base = t.TempDir()
	}
	root, err := os.MkdirTemp(base, "c46e-")
	if err != nil {
		t.Fatal(err)
	}
	defer os.RemoveAll(root)
	modes := []string{"full", "short", "onebyte", "halves", "dataerr"}
	owner := verifkit.RandUser(r.Rand("owner", 0))
	ctx := context.Background()

	for ci := 0; ci < nCases; ci++ {
		rng := r.Rand("case", ci)
		dir := filepath.Join(root, fmt.Sprintf("case%d", ci))
		rmode := modes[ci%len(modes)]
		nSrc, nDst := 1+rng.IntN(3), 1+rng.IntN(2)
		ignore := rng.IntN(2) == 0
		corrupt := rng.IntN(3) == 0
		desc := map[string]any{"case": ci, "reader": rmode, "src_shards": nSrc, "dst_shards": nDst, "ignore_errors": ignore, "corrupt_one_record": corrupt}
		r.Eval(1)

		src, srcIDs, err := vf46NewEngine(filepath.Join(dir, "src"), nSrc)
		if err != nil {
			r.Inconclusive(fmt.Sprintf("case %d: source engine: %v", ci, err))
			return
		}
		want := map[oid.Address][]byte{}
		cnr := verifkit.RandCID(rng)
		for i, n := 0, 1+rng.IntN(10); i < n; i++ {
			sz := []int{0, 1 + rng.IntN(200), 1 + rng.IntN(5000), 1 + rng.IntN(70000)}[rng.IntN(4)]
			o := verifkit.NewObject(rng, cnr, owner, sz)
			if err := src.Put(ctx, o, nil); err != nil {
				r.Inconclusive(fmt.Sprintf("case %d: engine put: %v", ci, err))
				_ = src.Close()
				return
			}
			want[o.Address()] = o.Marshal()
		}
		// dump every shard through the engine
		var streams [][]byte
		var allRecs [][]vf46Rec
		dumped := map[oid.Address]struct{}{}
		ok := true
		for _, id := range srcIDs {
			if err := src.SetShardMode(id, mode.ReadOnly, false); err != nil {
				r.Inconclusive(fmt.Sprintf("case %d: SetShardMode: %v", ci, err))
				ok = false
				break
			}
			var buf bytes.Buffer
			var derr error
			if r.Guard(desc, func() { derr = src.DumpShard(id, &buf, false) }) {
				ok = false
				break
			}
			if derr != nil {
				r.Violation("engine-dump|error-on-healthy-shard", fmt.Sprintf("DumpShard failed: %v", derr), desc)
				ok = false
				break
			}
			recs, wellFormed := vf46Parse(buf.Bytes())
			if !wellFormed {
				r.Violation("engine-dump|malformed-stream", "DumpShard output does not follow the documented framing", desc)
				ok = false
				break
			}
			for _, rc := range recs {
				if !rc.valid || !bytes.Equal(want[rc.addr], rc.body) {
					r.Violation("engine-dump|foreign-or-altered-record", fmt.Sprintf("dump record %s is not a stored object", rc.addr), desc)
					ok = false
				}
				dumped[rc.addr] = struct{}{}
			}
			r.Count("engine_dump_records", len(recs))
			streams = append(streams, buf.Bytes())
			allRecs = append(allRecs, recs)
		}
		_ = src.Close()
		if !ok {
			_ = os.RemoveAll(dir)
			continue
		}
		if len(dumped) != len(want) {
			r.Violation("engine-dump|object-missing", fmt.Sprintf("shard dumps hold %d of %d stored objects", len(dumped), len(want)), desc)
			_ = os.RemoveAll(dir)
			continue
		}
		// optional corruption: make one record of the first non-empty stream undecodable
		nBad := 0
		if corrupt {
			for si, recs := range allRecs {
				if len(recs) == 0 || len(recs[0].body) < 8 {
					continue
				}
				i := rng.IntN(len(recs))
				b := bytes.Clone(recs[i].body)
				b[0], b[1], b[2], b[3] = 0xFF, 0xFF, 0xFF, 0xFF
				var o object.Object
				if o.Unmarshal(b) == nil {
					break
				}
				delete(want, recs[i].addr)
				recs[i] = vf46Rec{body: b}
				streams[si] = vf46Frame(recs)
				nBad = 1
				break
			}
		}

		restoreAll := func(sub, rmode string) (string, int) {
			dst, dstIDs, err := vf46NewEngine(filepath.Join(dir, sub), nDst)
			if err != nil {
				return "harness:" + err.Error(), 0
			}
			defer func() { _ = dst.Close() }()
			shorts := 0
			sawErr := false
			for si, st := range streams {
				rd := &vf46Rd{data: st, mode: rmode, rng: r.Rand("reader", ci*16+si), bodies: vf46Bodies(st)}
				var rerr error
				if r.Guard(desc, func() { rerr = dst.RestoreShard(dstIDs[si%len(dstIDs)], rd, ignore) }) {
					return "panic", shorts
				}
				shorts += rd.shorts
				streamBad := 0
				for _, rc := range allRecs[si] {
					if !rc.valid {
						streamBad++
					}
				}
				switch {
				case rerr != nil && (streamBad == 0 || ignore):
					return fmt.Sprintf("error-on-restorable-stream: RestoreShard returned %q", rerr), shorts
				case rerr == nil && streamBad > 0 && !ignore:
					return "corruption-not-reported: RestoreShard returned nil for a stream with an undecodable record", shorts
				}
				if rerr != nil {
					sawErr = true
				}
			}
			for a, body := range want {
				o, err := dst.Get(ctx, a)
				if err != nil {
					if sawErr {
						continue // restore legitimately stopped at the reported record
					}
					return fmt.Sprintf("object-missing: %s: %v", a, err), shorts
				}
				if !bytes.Equal(o.Marshal(), body) {
					return fmt.Sprintf("bytes-differ: %s", a), shorts
				}
			}
			for _, id := range dstIDs {
				lst, err := dst.shards[id.String()].List()
				if err != nil {
					return "harness:list:" + err.Error(), shorts
				}
				for _, a := range lst {
					if _, ok := want[a]; !ok {
						return fmt.Sprintf("foreign-object: %s", a), shorts
					}
				}
			}
			return "", shorts
		}

		restoreFailing := func(sub, rmode string) string {
			si := -1
			for i, recs := range allRecs {
				if len(recs) > 0 {
					si = i
					break
				}
			}
			if si < 0 {
				return ""
			}
			recs, st := allRecs[si], streams[si]
			frng := r.Rand("fault", ci)
			bounds := []int{4}
			for _, rc := range recs {
				bounds = append(bounds, bounds[len(bounds)-1]+4+len(rc.body))
			}
			done := frng.IntN(len(recs))
			kind, off := "record-boundary", bounds[done]
			switch (ci / len(modes)) % 3 {
			case 1:
				kind, off = "record-body", bounds[done]+4+frng.IntN(len(recs[done].body))
			case 2:
				if frng.IntN(2) == 0 {
					kind, off = "size-prefix", bounds[done]+1+frng.IntN(3)
				}
			}
			desc["source_failure_at"], desc["source_failure_offset"] = kind, off
			dst, dstIDs, err := vf46NewEngine(filepath.Join(dir, sub), nDst)
			if err != nil {
				return "harness:" + err.Error()
			}
			defer func() { _ = dst.Close() }()
			rd := &vf46Rd{data: st, mode: rmode, rng: r.Rand("fault-reader", ci), bodies: vf46Bodies(st), failOn: true, failAt: off}
			var rerr error
			if r.Guard(desc, func() { rerr = dst.RestoreShard(dstIDs[0], rd, ignore) }) {
				return "panic"
			}
			r.Count("engine_source_failure_restores", 1)
			if rd.faults > 0 {
				r.Seen("engine_source_failures_delivered_at", kind)
				if kind == "record-boundary" {
					r.Count("engine_source_failures_at_record_boundary_with_records_left", 1)
				}
			}
			streamBad := 0
			valid := map[oid.Address][]byte{}
			for _, rc := range recs {
				if rc.valid {
					valid[rc.addr] = rc.body
				} else {
					streamBad++
				}
			}
			if rerr != nil && rd.faults == 0 && (streamBad == 0 || ignore) {
				return fmt.Sprintf("error-on-restorable-stream: RestoreShard returned %q before the source failed", rerr)
			}
			for a, body := range valid {
				o, err := dst.Get(ctx, a)
				if err != nil {
					if rerr == nil {
						return fmt.Sprintf("source-failure-reported-as-success|at=%s: source delivered %d of %d stream bytes (%d of %d records complete) and then failed with a non-EOF error, RestoreShard returned nil but %s is missing: %v", kind, off, len(st), done, len(recs), a, err)
					}
					continue
				}
				if !bytes.Equal(o.Marshal(), body) {
					return fmt.Sprintf("bytes-differ|source-failure-at=%s: %s", kind, a)
				}
			}
			if rerr == nil && streamBad > 0 && !ignore {
				return "corruption-not-reported: RestoreShard returned nil for a stream with an undecodable record"
			}
			lst, err := dst.shards[dstIDs[0].String()].List()
			if err != nil {
				return "harness:list:" + err.Error()
			}
			for _, a := range lst {
				if _, ok := valid[a]; !ok {
					return fmt.Sprintf("foreign-object|source-failure-at=%s: %s", kind, a)
				}
			}
			return ""
		}

		res, shorts := restoreAll("dst", rmode)
		r.Count("engine_restores", 1)
		r.Count("engine_reader_short_returns", shorts)
		r.Seen("engine_reader_modes", rmode)
		r.Distinct(fmt.Sprintf("%s|%d|%d|%v|%v", rmode, nSrc, nDst, ignore, nBad > 0))
		r.Sample(desc)
		switch {
		case res == "":
			r.Count("engine_cases_agree", 1)
			// The same streams once more into a fresh engine, the first non-empty one from a
			// source that breaks with a sticky non-EOF error (see the shard leg).  An error return
			// is accepted; a nil return claims the dump was restored and is held to it.
			if fres := restoreFailing("flt", rmode); fres != "" {
				if len(fres) > 8 && fres[:8] == "harness:" {
					r.Inconclusive(fmt.Sprintf("case %d (failing source): %s", ci, fres))
				} else {
					r.Violation("engine-restore|"+vf46Sym(fres), "via StorageEngine.RestoreShard: "+fres, desc)
				}
			}
		case len(res) > 8 && res[:8] == "harness:":
			r.Inconclusive(fmt.Sprintf("case %d: %s", ci, res))
		case rmode == "full":
			r.Violation("engine-restore|reader=full|"+vf46Sym(res), res, desc)
		default:
			ctl, _ := restoreAll("ctl", "full")
			if ctl == "" {
				r.Violation("restore|chunking-dependent|reader="+rmode, "via StorageEngine.RestoreShard: full-read reader restores correctly, reader "+rmode+" does not: "+res, desc)
			} else {
				r.Violation("engine-restore|reader="+rmode+"|"+vf46Sym(res), res, desc)
			}
		}
		_ = os.RemoveAll(dir)
	}
	if r.Counter("engine_source_failures_at_record_boundary_with_records_left") == 0 {
		r.Inconclusive("no engine restore ever met a source that failed between two records of the dump")
	}
}

// vf46Bodies lists the body offsets/lengths of a well-formed stream.
func vf46Bodies(st []byte) map[int]int {
	m := map[int]int{}
	for pos := 4; pos+4 <= len(st); {
		sz := int(binary.LittleEndian.Uint32(st[pos:]))
		m[pos+4] = sz
		pos += 4 + sz
	}
	return m
}

func vf46Sym(res string) string {
	for i := range res {
		if res[i] == ':' {
			return res[:i]
		}
	}
	return res
}
