//go:build verif

package engine

import (
	"bytes"
	"context"
	"encoding/base64"
	"errors"
	"fmt"
	"math/big"
	"math/rand/v2"
	"os"
	"path/filepath"
	"sort"
	"strings"
	"testing"
	"time"

	"github.com/google/uuid"
	"github.com/nspcc-dev/bbolt"
	"github.com/nspcc-dev/neofs-node/internal/verifkit"
	objectcore "github.com/nspcc-dev/neofs-node/pkg/core/object"
	"github.com/nspcc-dev/neofs-node/pkg/local_object_storage/blobstor/fstree"
	meta "github.com/nspcc-dev/neofs-node/pkg/local_object_storage/metabase"
	"github.com/nspcc-dev/neofs-node/pkg/local_object_storage/shard"
	"github.com/nspcc-dev/neofs-sdk-go/checksum"
	"github.com/nspcc-dev/neofs-sdk-go/client"
	cid "github.com/nspcc-dev/neofs-sdk-go/container/id"
	"github.com/nspcc-dev/neofs-sdk-go/object"
	oid "github.com/nspcc-dev/neofs-sdk-go/object/id"
	"github.com/nspcc-dev/neofs-sdk-go/user"
	"github.com/nspcc-dev/neofs-sdk-go/version"
	"go.uber.org/zap"
)

// C04 is relational: whatever one search over the union of all objects returns (the
// reference is the REAL single-shard search over a shard that holds every object), the
// search merged over several shards (StorageEngine.Search) or several nodes
// (MergeSearchResults + CalculateCursor glued as in Server.ProcessSearch) must return the
// same items in the same order for every page size, and every cursor it hands out must be
// accepted and resume right after the last item.

type vf04Epoch struct{ e *uint64 }

func (s vf04Epoch) CurrentEpoch() uint64 { return *s.e }

type vf04Filter struct {
	Key string `json:"key"`
	Op  int    `json:"op"`
	Val string `json:"val"`
}

func (f vf04Filter) op() object.SearchMatchType { return object.SearchMatchType(f.Op) }

type vf04Query struct {
	Filters []vf04Filter `json:"filters"`
	Attrs   []string     `json:"attrs"`
}

func (q vf04Query) sdk() object.SearchFilters {
	var fs object.SearchFilters
	for _, f := range q.Filters {
		fs.AddFilter(f.Key, f.Val, f.op())
	}
	return fs
}

func vf04IsNum(op object.SearchMatchType) bool { return objectcore.IsIntegerSearchOp(op) }

var vf04IntPool = []string{"0", "-0", "+0", "1", "-1", "5", "+5", "05", "007", "-007", "7", "10", "11", "-11", "100",
	"18446744073709551615", "18446744073709551616", "-18446744073709551616",
	"115792089237316195423570985008687907853269984665640564039457584007913129639935",
	"-115792089237316195423570985008687907853269984665640564039457584007913129639935",
	"115792089237316195423570985008687907853269984665640564039457584007913129639934"}

var vf04StrPool = []string{"a", "ab", "abc", "b", "a\x01", "a\xff", "A", "val", "value", "path/to", "path/to/x", "z", "1_0", "++5", "0x10"}

var vf04UserKeys = []string{"A", "B", "N", "Num", "path"}

func vf04KeyClass(k string) string {
	switch k {
	case object.FilterOwnerID:
		return "owner"
	case object.FilterParentID:
		return "parent"
	case object.FilterFirstSplitObject:
		return "first"
	case object.AttributeAssociatedObject:
		return "associate"
	case object.FilterPayloadChecksum:
		return "checksum"
	case object.FilterSplitID:
		return "splitid"
	case object.FilterVersion:
		return "version"
	case object.FilterType:
		return "type"
	case object.FilterCreationEpoch:
		return "creationEpoch"
	case object.FilterPayloadSize:
		return "payloadLength"
	case object.FilterRoot:
		return "ROOT"
	case object.FilterPhysical:
		return "PHY"
	case object.AttributeExpirationEpoch:
		return "expiration"
	}
	return "user"
}

func vf04IsBase58(k string) bool {
	switch k {
	case object.FilterOwnerID, object.FilterParentID, object.FilterFirstSplitObject, object.AttributeAssociatedObject:
		return true
	}
	return false
}

func vf04RandID(rng *rand.Rand) oid.ID {
	id := verifkit.RandOID(rng)
	switch rng.IntN(5) {
	case 0:
		id[0] = byte(rng.IntN(3)) // 43-character Base58 form
	case 1:
		id[0] = 0xff
	case 2:
		id[0], id[1] = 0x80, byte(rng.IntN(2))
	}
	if rng.IntN(6) == 0 {
		id[rng.IntN(32)] = 0
	}
	if id.IsZero() {
		id[31] = 1
	}
	return id
}

type vf04Env struct {
	epoch   *uint64
	ref     *StorageEngine   // one shard holding everything
	multi   []*StorageEngine // 2, 3, 4 shards
	shards  [][]*shard.Shard // shards of multi[i]
	refSh   *shard.Shard
	nShards int
}

func vf04NewShard(t *testing.T, dir string, n int, epoch *uint64) *shard.Shard {
	s := shard.New(
		shard.WithLogger(zap.NewNop()),
		shard.WithBlobstor(fstree.New(fstree.WithPath(filepath.Join(dir, fmt.Sprintf("%d.fstree", n))), fstree.WithDepth(1), fstree.WithNoSync(true))),
		shard.WithMetaBaseOptions(
			meta.WithPath(filepath.Join(dir, fmt.Sprintf("%d.metabase", n))),
			meta.WithPermissions(0o700),
			meta.WithEpochState(vf04Epoch{epoch}),
			meta.WithMaxBatchDelay(time.Microsecond),
			meta.WithSearchIterationLimit(0),
			meta.WithBoltDBOptions(&bbolt.Options{NoSync: true, NoFreelistSync: true, Timeout: time.Second}),
			meta.WithLogger(zap.NewNop()),
		))
	if err := s.Open(); err != nil {
		t.Fatalf("open shard: %v", err)
	}
	if err := s.Init(); err != nil {
		t.Fatalf("init shard: %v", err)
	}
	t.Cleanup(func() { _ = s.Close() })
	return s
}

func vf04NewEnv(t *testing.T) *vf04Env {
	dir := os.Getenv("VERIF_SCRATCH")
	if dir == "" {
		dir = t.TempDir()
	}
	dir = filepath.Join(dir, fmt.Sprintf("c04-%d", time.Now().UnixNano()))
	env := &vf04Env{epoch: new(uint64)}
	n := 0
	mk := func(k int) (*StorageEngine, []*shard.Shard) {
		e := New(WithLogger(zap.NewNop()))
		var shs []*shard.Shard
		for i := 0; i < k; i++ {
			s := vf04NewShard(t, dir, n, env.epoch)
			n++
			if err := e.addShard(s); err != nil {
				t.Fatalf("add shard: %v", err)
			}
			shs = append(shs, s)
		}
		return e, shs
	}
	var rs []*shard.Shard
	env.ref, rs = mk(1)
	env.refSh = rs[0]
	for _, k := range []int{2, 3, 4} {
		e, shs := mk(k)
		env.multi = append(env.multi, e)
		env.shards = append(env.shards, shs)
	}
	env.nShards = n
	return env
}

type vf04Corpus struct {
	cnr    cid.ID
	n      int
	values map[string][]string
}

func vf04Header(rng *rand.Rand, cnr cid.ID, owners []user.ID, sums [][]byte, id oid.ID) *object.Object {
	o := object.New(cnr, owners[rng.IntN(len(owners))])
	ver := version.New(2, uint32(16+rng.IntN(3)))
	o.SetVersion(&ver)
	o.SetID(id)
	o.SetType(object.TypeRegular)
	o.SetCreationEpoch([]uint64{0, 1, 2, 10, 10, 1<<64 - 1}[rng.IntN(6)])
	o.SetPayloadSize([]uint64{0, 1, 20, 20, 21, 1<<64 - 1}[rng.IntN(6)])
	var cs [32]byte
	copy(cs[:], sums[rng.IntN(len(sums))])
	o.SetPayloadChecksum(checksum.NewSHA256(cs))
	return o
}

func vf04UserAttrs(rng *rand.Rand, o *object.Object) {
	n := rng.IntN(5)
	perm := rng.Perm(len(vf04UserKeys))
	for i := 0; i < n && i < len(perm); i++ {
		k := vf04UserKeys[perm[i]]
		var v string
		if x := rng.IntN(10); (k == "N" || k == "Num") && x < 8 || x < 3 {
			v = vf04IntPool[rng.IntN(len(vf04IntPool))]
		} else {
			v = vf04StrPool[rng.IntN(len(vf04StrPool))]
		}
		verifkit.AddAttr(o, k, v)
	}
}

// vf04Build stores one corpus: every object goes to the reference shard and to a random
// non-empty subset of the shards of every multi-shard engine (overlapping copies).
func vf04Build(r *verifkit.Run, rng *rand.Rand, env *vf04Env, nObj int) (*vf04Corpus, error) {
	*env.epoch = 0
	c := &vf04Corpus{cnr: verifkit.RandCID(rng), values: map[string][]string{}}
	owners := []user.ID{verifkit.RandUser(rng), verifkit.RandUser(rng), verifkit.RandUser(rng)}
	base := verifkit.RandBytes(rng, 32)
	sums := [][]byte{base}
	for i := 0; i < 5; i++ {
		s := bytes.Clone(base)
		switch i {
		case 0:
			s[31]++
		case 1:
			s[16] = 0
		case 2:
			s[0], s[1] = 0xff, 0
		case 3:
			s[1]++ // differs right after the first byte
		default:
			s = verifkit.RandBytes(rng, 32)
		}
		sums = append(sums, s)
	}
	idPool := make([]oid.ID, 6)
	for i := range idPool {
		idPool[i] = vf04RandID(rng)
	}
	idPool[0][0] = byte(rng.IntN(4)) // at least one short Base58 form among identifier values
	splitIDs := make([]*object.SplitID, 3)
	for i := range splitIDs {
		var u uuid.UUID
		copy(u[:], verifkit.RandBytes(rng, 16))
		u[6] = (u[6] & 0x0f) | 0x40
		u[8] = (u[8] & 0x3f) | 0x80
		s := object.NewSplitID()
		s.SetUUID(u)
		splitIDs[i] = s
	}
	nPar := 1 + rng.IntN(3)
	parents := make([]*object.Object, nPar)
	for i := range parents {
		parents[i] = vf04Header(rng, c.cnr, owners, sums, idPool[i])
		vf04UserAttrs(rng, parents[i])
	}
	seen := map[oid.ID]bool{}
	for _, p := range idPool {
		seen[p] = true
	}
	note := func(o *object.Object) {
		for _, a := range o.Attributes() {
			c.values[a.Key()] = append(c.values[a.Key()], a.Value())
		}
		ow := o.Owner()
		c.values[object.FilterOwnerID] = append(c.values[object.FilterOwnerID], ow.EncodeToString())
		if cs, ok := o.PayloadChecksum(); ok {
			c.values[object.FilterPayloadChecksum] = append(c.values[object.FilterPayloadChecksum], fmt.Sprintf("%x", cs.Value()))
		}
		if s := o.SplitID(); s != nil {
			c.values[object.FilterSplitID] = append(c.values[object.FilterSplitID], s.String())
		}
		if f := o.GetFirstID(); !f.IsZero() {
			c.values[object.FilterFirstSplitObject] = append(c.values[object.FilterFirstSplitObject], f.EncodeToString())
		}
		if p := o.GetParentID(); !p.IsZero() {
			c.values[object.FilterParentID] = append(c.values[object.FilterParentID], p.EncodeToString())
		}
		c.values[object.FilterType] = append(c.values[object.FilterType], o.Type().String())
		c.values[object.FilterVersion] = append(c.values[object.FilterVersion], fmt.Sprintf("v%d.%d", o.Version().Major(), o.Version().Minor()))
		c.values[object.FilterCreationEpoch] = append(c.values[object.FilterCreationEpoch], fmt.Sprint(o.CreationEpoch()))
		c.values[object.FilterPayloadSize] = append(c.values[object.FilterPayloadSize], fmt.Sprint(o.PayloadSize()))
	}
	for i := 0; i < nObj; i++ {
		id := vf04RandID(rng)
		if seen[id] {
			continue
		}
		seen[id] = true
		o := vf04Header(rng, c.cnr, owners, sums, id)
		switch rng.IntN(10) {
		case 0, 1, 2:
			o.SetParent(parents[rng.IntN(nPar)])
			if rng.IntN(2) == 0 {
				o.SetFirstID(idPool[3+rng.IntN(3)])
			} else {
				o.SetSplitID(splitIDs[rng.IntN(3)])
			}
		case 3:
			if rng.IntN(2) == 0 {
				o.SetFirstID(idPool[3+rng.IntN(3)])
			} else {
				o.SetSplitID(splitIDs[rng.IntN(3)])
			}
		case 4:
			o.SetType(object.TypeStorageGroup) //nolint:staticcheck // just another type
		}
		vf04UserAttrs(rng, o)
		if rng.IntN(3) == 0 {
			o.AssociateObject(idPool[rng.IntN(len(idPool))])
		}
		if rng.IntN(6) == 0 {
			verifkit.SetExpiration(o, []uint64{2, 4, 9}[rng.IntN(3)])
		}
		note(o)
		if err := env.refSh.Put(o, nil); err != nil {
			return nil, fmt.Errorf("put to reference shard: %w", err)
		}
		for _, shs := range env.shards {
			var put bool
			for k, s := range shs {
				if rng.IntN(len(shs)) == 0 || (!put && k == len(shs)-1) || rng.IntN(5) == 0 {
					if err := s.Put(o, nil); err != nil {
						return nil, fmt.Errorf("put to shard: %w", err)
					}
					put = true
					r.Count("object_copies_stored", 1)
				}
			}
		}
		c.n++
	}
	for _, p := range parents {
		note(p)
	}
	for k := range c.values {
		sort.Strings(c.values[k])
	}
	r.Count("objects_in_union", c.n)
	return c, nil
}

var vf04Matchers = []object.SearchMatchType{object.MatchStringEqual, object.MatchStringNotEqual, object.MatchNotPresent, object.MatchCommonPrefix,
	object.MatchNumGT, object.MatchNumGE, object.MatchNumLT, object.MatchNumLE}

var vf04SysKeys = []string{object.FilterOwnerID, object.FilterPayloadChecksum, object.FilterSplitID, object.FilterParentID, object.FilterFirstSplitObject,
	object.AttributeAssociatedObject, object.FilterVersion, object.FilterType, object.FilterCreationEpoch, object.FilterPayloadSize,
	object.FilterRoot, object.FilterPhysical, object.AttributeExpirationEpoch}

func vf04GenFilter(rng *rand.Rand, c *vf04Corpus, key string, first bool) vf04Filter {
	if key == object.FilterRoot || key == object.FilterPhysical {
		return vf04Filter{Key: key}
	}
	op := vf04Matchers[rng.IntN(len(vf04Matchers))]
	if strings.HasPrefix(key, "$Object:") && op == object.MatchNotPresent {
		op = object.MatchStringNotEqual
	}
	if vf04IsBase58(key) && op == object.MatchCommonPrefix {
		op = object.MatchStringNotEqual // Base58 prefixes are a single-search defect class of C03, kept out here
	}
	if first && rng.IntN(3) == 0 {
		// ordering by the attribute over its whole range is what exercises merge and cursor most
		switch {
		case key == "N" || key == "Num" || key == object.FilterCreationEpoch || key == object.FilterPayloadSize:
			return vf04Filter{Key: key, Op: int(object.MatchNumGE), Val: "-115792089237316195423570985008687907853269984665640564039457584007913129639935"}
		default:
			return vf04Filter{Key: key, Op: int(object.MatchStringNotEqual), Val: "no such value"}
		}
	}
	vals := c.values[key]
	pick := func() string {
		if len(vals) > 0 && rng.IntN(8) != 0 {
			return vals[rng.IntN(len(vals))]
		}
		if rng.IntN(2) == 0 {
			return vf04StrPool[rng.IntN(len(vf04StrPool))]
		}
		return vf04IntPool[rng.IntN(len(vf04IntPool))]
	}
	var v string
	switch {
	case op == object.MatchNotPresent:
	case vf04IsNum(op):
		v = vf04IntPool[rng.IntN(len(vf04IntPool))]
		if rng.IntN(2) == 0 {
			if p := pick(); strings.Trim(p, "0123456789") == "" && p != "" {
				v = p
			}
		}
	case op == object.MatchCommonPrefix:
		v = pick()
		if len(v) > 0 && rng.IntN(3) != 0 {
			v = v[:rng.IntN(len(v)+1)]
		}
		if key == object.FilterPayloadChecksum && len(v)%2 == 1 {
			v = v[:len(v)-1]
		}
		if key == object.FilterSplitID {
			v = pick()
		}
	default:
		v = pick()
	}
	return vf04Filter{Key: key, Op: int(op), Val: v}
}

// vf04NumKeys are the attributes whose values are (mostly) integers: their plain index is
// ordered by the text and their integer index by the number, the two orders differ as soon
// as the values have different lengths or signs.
var vf04NumKeys = []string{"N", "Num", "A", "B", object.FilterCreationEpoch, object.FilterPayloadSize, object.AttributeExpirationEpoch}

const vf04MinInt = "-115792089237316195423570985008687907853269984665640564039457584007913129639935"

// vf04GenMixedFirst generates queries with SEVERAL conditions of DIFFERENT kinds on the first
// attribute: a string first filter next to numeric (and != ) ones, a numeric first filter
// next to string ones.  The index a single search walks – hence its order and the form of
// its cursor – follows the first filter alone; a merge over shards or nodes and the cursor
// recalculated from the last merged item have to follow that very filter.
//
// Only those shapes are generated whose evaluation by the single search (C03 defect classes
// "first-attr-multi-condition" included) is decided per index key and so cannot depend on
// how the objects are spread: further string conditions are != (or the empty prefix, which
// matches everything), further numeric ones are free next to a string first filter and a
// well-formed upper bound next to a numeric one.  NOT_PRESENT next to another condition
// (C03 panic class), second = / non-empty prefix conditions and malformed numeric ranges
// (they stop the scan of a shard at its first failing key – C03 class "missing") stay out.
func vf04GenMixedFirst(rng *rand.Rand, c *vf04Corpus) vf04Query {
	var q vf04Query
	numFirst := rng.IntN(3) == 0
	var key string
	if numFirst || rng.IntN(4) != 0 {
		key = vf04NumKeys[rng.IntN(len(vf04NumKeys))]
	} else {
		for key == "" || key == object.FilterRoot || key == object.FilterPhysical {
			if rng.IntN(2) == 0 {
				key = vf04UserKeys[rng.IntN(len(vf04UserKeys))]
			} else {
				key = vf04SysKeys[rng.IntN(len(vf04SysKeys))]
			}
		}
	}
	// whole range of the attribute by default
	first := vf04Filter{Key: key, Op: int(object.MatchStringNotEqual), Val: "no such value"}
	if numFirst {
		first = vf04Filter{Key: key, Op: int(object.MatchNumGE), Val: vf04MinInt}
	}
	if rng.IntN(2) == 0 {
		for try := 0; try < 30; try++ {
			f := vf04GenFilter(rng, c, key, true)
			if f.op() != object.MatchNotPresent && vf04IsNum(f.op()) == numFirst {
				first = f
				break
			}
		}
	}
	q.Filters = append(q.Filters, first)
	numCond := func() vf04Filter {
		op := []object.SearchMatchType{object.MatchNumGE, object.MatchNumGE, object.MatchNumGT, object.MatchNumGT, object.MatchNumLE, object.MatchNumLT}[rng.IntN(6)]
		v := vf04IntPool[rng.IntN(len(vf04IntPool))]
		if rng.IntN(2) == 0 {
			if op == object.MatchNumGE || op == object.MatchNumGT {
				v = []string{vf04MinInt, "-18446744073709551616", "-1", "0"}[rng.IntN(4)]
			} else {
				v = vf04IntPool[len(vf04IntPool)-3+rng.IntN(3)]
			}
		}
		return vf04Filter{Key: key, Op: int(op), Val: v}
	}
	neCond := func() vf04Filter {
		v := "no such value"
		if vals := c.values[key]; len(vals) > 0 && rng.IntN(2) == 0 {
			v = vals[rng.IntN(len(vals))]
		}
		return vf04Filter{Key: key, Op: int(object.MatchStringNotEqual), Val: v}
	}
	n := 1 + rng.IntN(2)
	if numFirst {
		if (first.op() == object.MatchNumGE || first.op() == object.MatchNumGT) && rng.IntN(3) == 0 {
			q.Filters = append(q.Filters, vf04Filter{Key: key, Op: int([]object.SearchMatchType{object.MatchNumLE, object.MatchNumLT}[rng.IntN(2)]), Val: vf04IntPool[rng.IntN(len(vf04IntPool))]})
		}
		for ; n > 0; n-- {
			if rng.IntN(4) == 0 {
				q.Filters = append(q.Filters, vf04Filter{Key: key, Op: int(object.MatchCommonPrefix)})
			} else {
				q.Filters = append(q.Filters, neCond())
			}
		}
	} else {
		var hasNum bool
		for i := 0; i < n; i++ {
			if rng.IntN(4) != 0 || (i == n-1 && !hasNum) {
				q.Filters = append(q.Filters, numCond())
				hasNum = true
			} else {
				q.Filters = append(q.Filters, neCond())
			}
		}
	}
	pickKey := func() string {
		if rng.IntN(2) == 0 {
			return vf04UserKeys[rng.IntN(len(vf04UserKeys))]
		}
		return vf04SysKeys[rng.IntN(len(vf04SysKeys))]
	}
	if rng.IntN(3) == 0 {
		// a condition on another attribute somewhere behind the first filter
		k := pickKey()
		for k == key {
			k = pickKey()
		}
		at := 1 + rng.IntN(len(q.Filters))
		q.Filters = append(q.Filters, vf04Filter{})
		copy(q.Filters[at+1:], q.Filters[at:])
		q.Filters[at] = vf04GenFilter(rng, c, k, false)
	}
	if rng.IntN(6) != 0 {
		q.Attrs = []string{key}
		for n := rng.IntN(3); n > 0; n-- {
			k := pickKey()
			dup := k == object.FilterSplitID
			for _, a := range q.Attrs {
				dup = dup || a == k
			}
			if !dup {
				q.Attrs = append(q.Attrs, k)
			}
		}
	}
	return q
}

// vf04Mixed names the kind of the further conditions on the first attribute that differ
// from a plain query or a numeric range.
func vf04Mixed(q vf04Query) string {
	if len(q.Filters) < 2 {
		return ""
	}
	f0 := q.Filters[0]
	var num, str bool
	for _, f := range q.Filters[1:] {
		if f.Key != f0.Key {
			continue
		}
		if vf04IsNum(f.op()) {
			num = true
		} else {
			str = true
		}
	}
	switch {
	case !vf04IsNum(f0.op()) && num:
		return "+numeric-cond"
	case str:
		return "+string-cond"
	}
	return ""
}

// vf04GenQuery keeps out the query shapes that are single-search defect classes of C03
// (several conditions on the first attribute other than a well-formed range or the
// distribution-independent shapes of vf04GenMixedFirst, Base58 prefixes, split ID as a
// secondary requested attribute): C04 is about merging.
func vf04GenQuery(rng *rand.Rand, c *vf04Corpus) vf04Query {
	if rng.IntN(6) == 0 {
		return vf04GenMixedFirst(rng, c)
	}
	var q vf04Query
	nf := []int{0, 1, 1, 1, 1, 2, 2, 2, 3, 3}[rng.IntN(10)]
	pickKey := func() string {
		switch x := rng.IntN(10); {
		case x < 4:
			return vf04UserKeys[rng.IntN(len(vf04UserKeys))]
		case x < 9:
			return vf04SysKeys[rng.IntN(len(vf04SysKeys))]
		}
		return "Missing"
	}
	for i := 0; i < nf; i++ {
		k := pickKey()
		for i > 0 && k == q.Filters[0].Key {
			k = pickKey()
		}
		q.Filters = append(q.Filters, vf04GenFilter(rng, c, k, i == 0))
	}
	if nf > 0 && vf04IsNum(q.Filters[0].op()) && (q.Filters[0].op() == object.MatchNumGE || q.Filters[0].op() == object.MatchNumGT) && rng.IntN(3) == 0 {
		// well-formed range on the first attribute
		q.Filters = append(q.Filters, vf04Filter{Key: q.Filters[0].Key, Op: int([]object.SearchMatchType{object.MatchNumLE, object.MatchNumLT}[rng.IntN(2)]), Val: vf04IntPool[rng.IntN(len(vf04IntPool))]})
	}
	if nf > 0 && rng.IntN(4) != 0 {
		q.Attrs = []string{q.Filters[0].Key}
		for n := rng.IntN(3); n > 0; n-- {
			k := pickKey()
			dup := k == object.FilterSplitID
			for _, a := range q.Attrs {
				dup = dup || a == k
			}
			if !dup {
				q.Attrs = append(q.Attrs, k)
			}
		}
	}
	return q
}

type vf04Searcher func(fs []objectcore.SearchFilter, attrs []string, cur *objectcore.SearchCursor, count uint16) ([]client.SearchResultItem, []byte, error)

type vf04Out struct {
	kind   string
	detail string
	items  []client.SearchResultItem
	pages  int
	fed    int // cursors fed back
}

// vf04Page follows the cursors of one searcher to the end.
func vf04Page(q vf04Query, attrs []string, search vf04Searcher, page uint16, bound int) vf04Out {
	var out vf04Out
	fs := q.sdk()
	cursor := ""
	for {
		ofs, cur, err := objectcore.PreprocessSearchQuery(fs, attrs, cursor)
		if err != nil {
			if cursor != "" {
				out.kind, out.detail = "cursor-rejected", fmt.Sprintf("cursor %q handed out with the previous page is rejected: %v", cursor, err)
				return out
			}
			if errors.Is(err, objectcore.ErrUnreachableQuery) {
				return out
			}
			out.kind, out.detail = "rejected", err.Error()
			return out
		}
		res, next, err := search(ofs, attrs, cur, page)
		if err != nil {
			out.kind, out.detail = "search-error", err.Error()
			return out
		}
		out.pages++
		if len(res) > int(page) {
			out.kind, out.detail = "page-too-long", fmt.Sprintf("%d items for count %d", len(res), page)
			return out
		}
		out.items = append(out.items, res...)
		if len(next) == 0 {
			return out
		}
		if out.pages > bound {
			out.kind, out.detail = "no-stop", fmt.Sprintf("still returning a cursor after %d pages", out.pages)
			return out
		}
		cursor = base64.StdEncoding.EncodeToString(next)
		out.fed++
	}
}

// vf04Compare compares a merged listing with the single-search listing.
func vf04Compare(got, want []client.SearchResultItem, nAttrs int, stripAttrs bool) (string, string) {
	seen := map[oid.ID]int{}
	wantIdx := map[oid.ID]int{}
	for i, w := range want {
		wantIdx[w.ID] = i
	}
	for i, g := range got {
		if j, dup := seen[g.ID]; dup {
			return "duplicate", fmt.Sprintf("object %s returned at positions %d and %d", g.ID, j, i)
		}
		seen[g.ID] = i
		if _, ok := wantIdx[g.ID]; !ok {
			return "extra", fmt.Sprintf("object %s is not in the single-search result", g.ID)
		}
	}
	for _, w := range want {
		if _, ok := seen[w.ID]; !ok {
			return "omission", fmt.Sprintf("object %s of the single-search result is missing (%d of %d returned)", w.ID, len(got), len(want))
		}
	}
	for i := range want {
		if got[i].ID != want[i].ID {
			return "order", fmt.Sprintf("position %d holds %s (attributes %q), single search has %s (attributes %q)", i, got[i].ID, got[i].Attributes, want[i].ID, want[i].Attributes)
		}
		if stripAttrs {
			continue
		}
		if len(got[i].Attributes) != nAttrs {
			return "attr-count", fmt.Sprintf("%d attribute values for %d requested", len(got[i].Attributes), nAttrs)
		}
		for k := range got[i].Attributes {
			if got[i].Attributes[k] != want[i].Attributes[k] {
				return "attr-value", fmt.Sprintf("attribute #%d of %s is %q, single search gives %q", k, got[i].ID, got[i].Attributes[k], want[i].Attributes[k])
			}
		}
	}
	return "", ""
}

// vf04NodeMerge glues per-node searches exactly like Server.ProcessSearch does for a
// container spread over several nodes (remote gRPC leg replaced by direct calls).
func vf04NodeMerge(cnr cid.ID, nodes []*shard.Shard, q vf04Query) (vf04Searcher, []string) {
	fs := q.sdk()
	attributeless := len(q.Attrs) == 0 && len(q.Filters) > 0
	attrs := q.Attrs
	if attributeless {
		attrs = []string{q.Filters[0].Key}
	}
	return func(ofs []objectcore.SearchFilter, attrs []string, cur *objectcore.SearchCursor, count uint16) ([]client.SearchResultItem, []byte, error) {
		var sets [][]client.SearchResultItem
		var mores []bool
		for _, n := range nodes {
			set, c, err := n.Search(cnr, ofs, attrs, cur, count)
			if err != nil {
				return nil, nil, err
			}
			sets = append(sets, set)
			mores = append(mores, c != nil)
		}
		var firstAttr string
		var firstFilter *object.SearchFilter
		if len(attrs) > 0 {
			firstFilter = &ofs[0].SearchFilter
			if fs[0].Operation() != object.MatchStringEqual {
				firstAttr = fs[0].Header()
			}
		}
		cmpInt := firstAttr != "" && objectcore.IsIntegerSearchOp(fs[0].Operation())
		res, more, err := objectcore.MergeSearchResults(count, firstAttr, cmpInt, sets, mores)
		if err != nil {
			return nil, nil, fmt.Errorf("merge results from container nodes: %w", err)
		}
		var newCursor []byte
		if more {
			if attributeless && fs[0].Operation() == object.MatchStringEqual {
				res[len(res)-1].Attributes = []string{fs[0].Value()}
			}
			if newCursor, err = objectcore.CalculateCursor(firstFilter, res[len(res)-1]); err != nil {
				return nil, nil, fmt.Errorf("recalculate cursor: %w", err)
			}
		}
		return res, newCursor, nil
	}, attrs
}

// vf04DiffOrders tells whether the first attribute values of a listing contain two integers
// whose order as numbers differs from their order as texts, i.e. whether merging in the
// order of the wrong index would be visible.
func vf04DiffOrders(items []client.SearchResultItem) bool {
	var nums []*big.Int
	var txts []string
	for _, it := range items {
		if len(it.Attributes) == 0 {
			return false
		}
		if n, ok := new(big.Int).SetString(it.Attributes[0], 10); ok {
			nums, txts = append(nums, n), append(txts, it.Attributes[0])
		}
	}
	for i := range nums {
		for j := i + 1; j < len(nums); j++ {
			if a, b := nums[i].Cmp(nums[j]), strings.Compare(txts[i], txts[j]); a != 0 && b != 0 && a != b {
				return true
			}
		}
	}
	return false
}

func vf04PrimClass(q vf04Query, attrs []string) string {
	if len(q.Filters) == 0 {
		return "unfiltered"
	}
	return vf04PrimClass1(q, attrs) + vf04Mixed(q)
}

func vf04PrimClass1(q vf04Query, attrs []string) string {
	if len(attrs) == 0 {
		return "oid-order"
	}
	f := q.Filters[0]
	switch {
	case f.Key == object.FilterRoot || f.Key == object.FilterPhysical:
		return vf04KeyClass(f.Key)
	case vf04IsNum(f.op()):
		return vf04KeyClass(f.Key) + "/numeric"
	case f.op() == object.MatchNotPresent:
		return "oid-order(first NOT_PRESENT)"
	}
	return vf04KeyClass(f.Key)
}

func TestVerif_C04(t *testing.T) {
	r := verifkit.Start(t, "C04", "exploration")
	defer r.Finish()
	r.SetRule("per case one corpus of 10-40 objects (identifier/checksum/split-ID/owner values from small pools incl. 43-character Base58 forms and 0x00 bytes, numeric and colliding user attributes, virtual parents) stored in a one-shard engine (the union) and spread with overlapping copies over real engines of 2, 3 and 4 shards; generated queries with every kind of first attribute; the merged listing of each engine (StorageEngine.Search) and of a node-level merge glued like Server.ProcessSearch (MergeSearchResults + CalculateCursor over the shards as nodes) is paged with several page sizes and compared with the real single search over the union; distinct = (first-attribute kind, shard count or node merge, page-size class); non-trivial = single search returns at least 2 items")
	r.Assume("shards are visited in Go map order inside StorageEngine.Search; the merge must not depend on it, the monitor does not control it")
	r.Assume("availability is the same on all shards (only epoch-driven expiry); diverging marks between shards are C08/C20's subject")
	env := vf04NewEnv(t)
	nCases := r.Pick(20, 200)
	nQueries := r.Pick(32, 60)
	ctx := context.Background()
	type rep struct {
		Case   int       `json:"case"`
		Epoch  uint64    `json:"epoch"`
		Query  vf04Query `json:"query"`
		Mode   string    `json:"mode"`
		Page   uint16    `json:"page"`
		Detail string    `json:"detail"`
	}
	for ci := 0; ci < nCases; ci++ {
		rng := r.Rand("case", ci)
		var c *vf04Corpus
		var err error
		r.Guard(map[string]int{"case": ci}, func() { c, err = vf04Build(r, rng, env, 10+rng.IntN(31)) })
		if err != nil || c == nil {
			r.Violation("corpus-rejected", fmt.Sprintf("storing the generated corpus failed: %v", err), map[string]int{"case": ci})
			continue
		}
		r.Eval(1)
		for _, ep := range []uint64{0, []uint64{3, 5, 10}[rng.IntN(3)]} {
			*env.epoch = ep
			for qi := 0; qi < nQueries; qi++ {
				q := vf04GenQuery(rng, c)
				refSearch := func(fs []objectcore.SearchFilter, attrs []string, cur *objectcore.SearchCursor, count uint16) ([]client.SearchResultItem, []byte, error) {
					return env.ref.Search(ctx, c.cnr, fs, attrs, cur, count)
				}
				var ref vf04Out
				if r.Guard(map[string]any{"case": ci, "query": q, "mode": "single"}, func() { ref = vf04Page(q, q.Attrs, refSearch, 1000, c.n+5) }) {
					continue // a panic of the single search is C03's subject, reported there
				}
				if ref.kind != "" {
					r.Count("single_search_"+ref.kind, 1) // rejected / failing single searches are C03's subject
					continue
				}
				want := ref.items
				pages := []uint16{1000, 1, 2, uint16(1 + rng.IntN(c.n+1))} // the unpaged listing first: separates merge-order from cursor defects
				type mode struct {
					name   string
					search vf04Searcher
					attrs  []string
					strip  bool
				}
				var modes []mode
				for k, e := range env.multi {
					e := e
					modes = append(modes, mode{fmt.Sprintf("engine/%d-shards", k+2), func(fs []objectcore.SearchFilter, attrs []string, cur *objectcore.SearchCursor, count uint16) ([]client.SearchResultItem, []byte, error) {
						return e.Search(ctx, c.cnr, fs, attrs, cur, count)
					}, q.Attrs, false})
				}
				ns, nattrs := vf04NodeMerge(c.cnr, env.shards[1], q)
				modes = append(modes, mode{"node-merge/3-nodes", ns, nattrs, false})
				prim := vf04PrimClass(q, q.Attrs)
				for _, m := range modes {
					if m.name == "node-merge/3-nodes" {
						prim = vf04PrimClass(q, m.attrs)
						if len(m.attrs) != len(q.Attrs) {
							// ProcessSearch forces the first filtered attribute into the request; the
							// single search it must behave like is the one with the same attributes
							var ref2 vf04Out
							if r.Guard(map[string]any{"case": ci, "query": q, "mode": "single(forced attribute)"}, func() { ref2 = vf04Page(q, m.attrs, refSearch, 1000, c.n+5) }) || ref2.kind != "" {
								r.Count("single_search_forced_attr_"+ref2.kind, 1)
								continue
							}
							want = ref2.items
						}
					}
					for _, page := range pages {
						var o vf04Out
						desc := map[string]any{"case": ci, "epoch": ep, "query": q, "mode": m.name, "page": page}
						if r.Guard(desc, func() { o = vf04Page(q, m.attrs, m.search, page, c.n+len(want)+5) }) {
							continue
						}
						r.Eval(1)
						r.Count("pages_fetched", o.pages)
						r.Count("cursors_fed_back", o.fed)
						kind, detail := o.kind, o.detail
						if kind == "" {
							kind, detail = vf04Compare(o.items, want, len(m.attrs), m.strip)
						}
						if kind == "" {
							r.Count("listings_equal_to_single_search", 1)
							if len(want) >= 2 {
								pc := "all"
								if page == 1 {
									pc = "1"
								} else if int(page) < len(want) {
									pc = "mid"
								}
								mk := ""
								if len(q.Filters) > 0 {
									mk = q.Filters[0].op().String()
								}
								r.Distinct(prim + "/" + mk + "|" + m.name + "|page=" + pc)
								r.Seen("first_attribute_kinds", prim)
								if mx := vf04Mixed(q); mx != "" && len(m.attrs) > 0 {
									r.Count("nontrivial_listings_first_attribute"+mx, 1)
									if vf04DiffOrders(want) {
										r.Count("nontrivial_listings_first_attribute"+mx+"_text_and_numeric_order_differ", 1)
									}
								}
							}
							continue
						}
						phase := "paged"
						if o.fed == 0 {
							phase = "first-page"
						}
						src := "engine"
						if strings.HasPrefix(m.name, "node-merge") {
							src = "node-merge"
						}
						ck := kind
						switch kind {
						case "duplicate", "omission", "extra", "order", "no-stop":
							ck = "listing-differs"
						}
						key := src + "|" + phase + "|" + ck + "|first=" + prim
						r.Seen("divergence_classes", key)
						r.Violation(key, fmt.Sprintf("%s (%s, page size %d): %s; query %+v attrs %v", kind, m.name, page, detail, q.Filters, m.attrs),
							rep{Case: ci, Epoch: ep, Query: q, Mode: m.name, Page: page, Detail: detail})
						break
					}
				}
				if ci == 0 && ep == 0 && qi < 3 {
					r.Sample(map[string]any{"query": q, "single_search_items": len(want)})
				}
			}
		}
	}
	if r.Violations() == 0 {
		for _, k := range []string{"nontrivial_listings_first_attribute+numeric-cond_text_and_numeric_order_differ", "nontrivial_listings_first_attribute+string-cond_text_and_numeric_order_differ"} {
			if r.Counter(k) == 0 {
				r.Inconclusive("no merged listing observed for " + k)
			}
		}
	}
}
