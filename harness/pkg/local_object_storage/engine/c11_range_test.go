//go:build verif

package engine

// C11, engine part: the range APIs of a real two-shard engine must give the reference
// answer (internal/vf11) for objects put through StorageEngine.Put (combined or plain
// files of a shard's blob storage) and for zstd / combined files planted in a shard's blob
// storage (made known to that shard's metabase through a thin exporter).

import (
	"bytes"
	"context"
	"fmt"
	"io"
	"math/rand/v2"
	"path/filepath"
	"testing"
	"time"

	"github.com/nspcc-dev/neofs-node/internal/verifkit"
	"github.com/nspcc-dev/neofs-node/internal/vf11"
	"github.com/nspcc-dev/neofs-node/pkg/local_object_storage/blobstor/common"
	"github.com/nspcc-dev/neofs-node/pkg/local_object_storage/blobstor/fstree"
	meta "github.com/nspcc-dev/neofs-node/pkg/local_object_storage/metabase"
	"github.com/nspcc-dev/neofs-node/pkg/local_object_storage/shard"
	"go.uber.org/zap"
)

type vf11Epoch struct{}

func (vf11Epoch) CurrentEpoch() uint64 { return 0 }

type vf11Shard struct {
	sh    *shard.Shard
	fst   *fstree.FSTree
	root  string
	depth int
}

func vf11NewShard(t *testing.T, dir string, depth int) vf11Shard {
	root := filepath.Join(dir, "blob")
	fst := fstree.New(fstree.WithPath(root), fstree.WithDepth(uint64(depth)), fstree.WithNoSync(true))
	sh := shard.New(
		shard.WithLogger(zap.NewNop()),
		shard.WithBlobstor(fst),
		shard.WithMetaBaseOptions(meta.WithPath(filepath.Join(dir, "meta")), meta.WithEpochState(vf11Epoch{}), meta.WithMaxBatchDelay(time.Microsecond)),
	)
	if err := sh.Open(); err != nil {
		t.Fatal(err)
	}
	if err := sh.Init(); err != nil {
		t.Fatal(err)
	}
	return vf11Shard{sh, fst, root, depth}
}

func TestVerif_C11(t *testing.T) {
	r := verifkit.Start(t, "C11", "exploration")
	defer r.Finish()
	small := []int{0, 1, 2, 7, 33}
	if r.Thorough() {
		small = []int{0, 1, 2, 3, 4, 5, 8, 16, 33, 64}
	}
	nBig, nDirected, nMB := r.Pick(4, 14), r.Pick(60, 160), r.Pick(2, 5)
	r.SetRule(fmt.Sprintf("engine with two shards: payload lengths %v with every request of the four modes (values 0..len+2) plus huge values, %d larger payloads with %d boundary-directed requests each; objects put through StorageEngine.Put (combined files; >128 KiB plain files) or planted as zstd / combined files in one shard, among them %d compressed objects whose zstd frame has many blocks (payloads of 0.3..1.5 MiB, compressed the way old nodes did); StorageEngine.GetRangeStream, ReadPayloadRange, ReadObject, GetRange with/without header interception; then batches of 2..8 range reads with overlapping answer lifetimes (seeded schedule of issue / read chunk / abandon / close) and rounds of concurrent reads, judged by the same resolver; distinct = (api, format, length class, mode, request shape)", small, nBig, nDirected, nMB))
	ctx := context.Background()
	cnr, owner := verifkit.RandCID(r.Rand("ids", 0)), verifkit.RandUser(r.Rand("ids", 1))

	e := New(WithLogger(zap.NewNop()))
	dir := t.TempDir()
	shards := []vf11Shard{vf11NewShard(t, filepath.Join(dir, "s0"), 1), vf11NewShard(t, filepath.Join(dir, "s1"), 3)}
	for _, s := range shards {
		if err := e.addShard(s.sh); err != nil {
			t.Fatal(err)
		}
	}
	defer e.Close()

	type item struct {
		o    *vf11.Obj
		reqs []vf11.Req
		low  *fstree.FSTree
	}
	var items []item
	comb := map[int][]*vf11.Obj{}
	add := func(stream string, i int, payload []byte, hk int, reqs func(o *vf11.Obj) []vf11.Req) {
		for fi, f := range []string{"put", "zstd", "combined-planted"} {
			o := vf11.NewObj(r.Rand(stream+f, i), cnr, owner, payload, hk)
			o.Format = f
			si := (i + fi) % 2
			s := shards[si]
			var low *fstree.FSTree
			switch f {
			case "put":
				if err := e.Put(ctx, o.Object, o.Bin); err != nil {
					t.Fatalf("harness put: %v", err)
				}
			case "zstd":
				if err := vf11.PlantFile(s.root, s.depth, o.Addr, vf11.Zstd(o.Bin)); err != nil {
					t.Fatal(err)
				}
				low = s.fst
			default:
				comb[si] = append(comb[si], o)
				low = s.fst
			}
			if f != "put" {
				if err := s.sh.VerifC11MetaPut(o.Object.CutPayload()); err != nil {
					t.Fatalf("harness meta put: %v", err)
				}
			}
			items = append(items, item{o, reqs(o), low})
		}
	}
	for i, l := range small {
		p := vf11.Payload(r.Rand("payload", i), l, false)
		add("small", i, p, l%3, func(*vf11.Obj) []vf11.Req {
			return append(vf11.Exhaustive(l), vf11.Huge(uint64(l), r.Rand("huge", i))...)
		})
	}
	for b := 0; b < nBig; b++ {
		rng := r.Rand("big", b)
		l := 1 + rng.IntN(100<<10)
		switch b % 4 {
		case 0:
			l = 45<<10 + rng.IntN(40<<10)
		case 1:
			l = 130<<10 + rng.IntN(20<<10)
		}
		p := vf11.Payload(r.Rand("bigpayload", b), l, b%2 == 0)
		add("big", b, p, rng.IntN(3), func(o *vf11.Obj) []vf11.Req {
			return append(vf11.Directed(uint64(l), vf11.Marks(o), r.Rand("directed", b), nDirected), vf11.Huge(uint64(l), r.Rand("hugebig", b))...)
		})
	}
	// compressed objects whose frame has many blocks (vf11/c11_multiblock.go), in shard 0 and 1 in turn
	mbFiles, mbMembers := vf11.MultiBlockSet(r, "engine", cnr, owner, nMB)
	for i := range mbFiles {
		s := shards[i%2]
		pair := []*vf11.Obj{mbFiles[i], mbMembers[i]}
		if err := vf11.PlantMultiBlock(s.root, s.depth, pair[:1], pair[1:]); err != nil {
			t.Fatal(err)
		}
		for j, o := range pair {
			if err := s.sh.VerifC11MetaPut(o.Object.CutPayload()); err != nil {
				t.Fatalf("harness meta put: %v", err)
			}
			items = append(items, item{o, vf11.MultiBlockReqs(r, "engine", 2*i+j, o, nDirected), s.fst})
		}
	}
	nLarge := 3*nBig + 2*nMB // the items at the end of the list that have larger payloads
	for si, list := range comb {
		for i := 0; i < len(list); i += 4 {
			grp := list[i:min(i+4, len(list))]
			cm := make([]bool, len(grp))
			for j := range cm {
				if cm[j] = (i+j)%3 == 0; cm[j] {
					grp[j].Format = "combined+zstd"
				}
			}
			if err := vf11.PlantCombined(shards[si].root, shards[si].depth, grp, cm); err != nil {
				t.Fatal(err)
			}
		}
	}

	r.Sample(map[string]any{"part": "engine", "shards": len(shards), "objects": len(items), "first_requests": fmt.Sprint(items[0].reqs[:min(6, len(items[0].reqs))])})
	k := 0
	for _, it := range items {
		o := it.o
		r.Seen("formats", o.Format)
		L := uint64(len(o.Payload))
		low := it.low
		if low == nil { // find the shard that took the object
			for _, s := range shards {
				if ok, _ := s.fst.Exists(o.Addr); ok {
					low = s.fst
				}
			}
		}
		for _, req := range it.reqs {
			k++
			rng := r.Rand("read", k)
			desc := map[string]any{"request": req.String(), "addr": o.Addr.String(), "format": o.Format, "payload_len": L}
			withHook := k%2 == 1
			var calls int
			var hook func([]byte) error
			if withHook {
				hook = vf11.Intercept(&calls)
			}
			_, _, want := vf11.Resolve(req, L)
			done := func(api string, a vf11.Answer) {
				vf11.Judge(r, "engine", api, o, req, a)
				r.Eval(1)
				r.Distinct(fmt.Sprintf("engine|%s|%s|%s|%s|%s", api, o.Format, vf11.LenClass(o), vf11.ModeName(req.Mode), vf11.ReqClass(req, L)))
			}
			lowRange := func() vf11.Answer {
				_, _, s, e := low.GetRangeStream(o.Addr, req.Range(), false)
				return vf11.StreamAnswer(rng, s, e)
			}
			r.Guard(desc, func() {
				_, stream, err := e.GetRangeStream(ctx, o.Addr, req.Range(), withHook)
				a := vf11.StreamAnswer(rng, stream, err)
				done("GetRangeStream", a)
				if want == vf11.WantFree && low != nil {
					vf11.Agree(r, "engine", "GetRangeStream", o, req, a, lowRange())
				}
			})
			if req.Mode == common.PayloadRangeModeOffsetLength {
				r.Guard(desc, func() {
					var stream io.ReadCloser
					stream, err := e.ReadPayloadRange(ctx, o.Addr, req.A, req.B, make([]byte, 2*vf11.NPFBL))
					a := vf11.StreamAnswer(rng, stream, err)
					done("ReadPayloadRange", a)
					if want == vf11.WantFree && low != nil {
						vf11.Agree(r, "engine", "ReadPayloadRange", o, req, a, lowRange())
					}
				})
				r.Guard(desc, func() {
					data, err := e.GetRange(ctx, o.Addr, req.A, req.B)
					a := vf11.Answer{Data: data, Err: err}
					if err != nil {
						a.Data = nil
					}
					done("GetRange", a)
					if want == vf11.WantFree && low != nil {
						vf11.Agree(r, "engine", "GetRange", o, req, a, lowRange())
					}
				})
			}
			r.Guard(desc, func() {
				buf := make([]byte, 2*vf11.NPFBL)
				n, stream, err := e.ReadObject(ctx, o.Addr, req.Range(), buf, hook)
				a := vf11.PartsAnswer(rng, req, buf, n, stream, err)
				done("ReadObject", a)
				if want == vf11.WantFree && low != nil {
					buf2 := make([]byte, 2*vf11.NPFBL)
					n2, s2, e2 := low.ReadObjectParts(buf2, o.Addr, req.Range(), nil)
					vf11.Agree(r, "engine", "ReadObject", o, req, a, vf11.PartsAnswer(rng, req, buf2, n2, s2, e2))
				}
			})
			if withHook {
				r.Count("header_interceptions", calls)
			}
		}
	}

	// answers with overlapping lifetimes and concurrent requests (see vf11.Overlapped)
	vf11.OverlapPhase(r, "engine", 0, r.Pick(300, 1500), r.Pick(2, 10), func(rng *rand.Rand) vf11.Call {
		o := items[rng.IntN(len(items))].o
		if rng.IntN(2) == 0 { // larger payloads half of the time
			o = items[len(items)-1-rng.IntN(nLarge)].o
		}
		req := vf11.RandReq(rng, o)
		withHook := rng.IntN(2) == 0
		var hook func([]byte) error
		if withHook {
			var calls int
			hook = vf11.Intercept(&calls)
		}
		cl := vf11.Call{Layer: "engine", O: o, Req: req}
		api := rng.IntN(4)
		if api >= 2 && req.Mode != common.PayloadRangeModeOffsetLength {
			api -= 2
		}
		switch api {
		case 0:
			cl.API = "GetRangeStream"
			cl.Open = func() (io.ReadCloser, func() []byte, error) {
				_, stream, err := e.GetRangeStream(ctx, o.Addr, req.Range(), withHook)
				return stream, nil, err
			}
		case 1:
			cl.API = "ReadObject"
			cl.Open = func() (io.ReadCloser, func() []byte, error) {
				buf := make([]byte, 2*vf11.NPFBL)
				n, stream, err := e.ReadObject(ctx, o.Addr, req.Range(), buf, hook)
				return vf11.PartsOpen(req, buf, n, stream, err)
			}
		case 2:
			cl.API = "ReadPayloadRange"
			cl.Open = func() (io.ReadCloser, func() []byte, error) {
				var stream io.ReadCloser
				stream, err := e.ReadPayloadRange(ctx, o.Addr, req.A, req.B, make([]byte, 2*vf11.NPFBL))
				return stream, nil, err
			}
		default:
			cl.API = "GetRange"
			cl.Open = func() (io.ReadCloser, func() []byte, error) {
				data, err := e.GetRange(ctx, o.Addr, req.A, req.B)
				if err != nil {
					return nil, nil, err
				}
				return io.NopCloser(bytes.NewReader(data)), nil, nil
			}
		}
		return cl
	})
}
