//go:build verif

package engine

import (
	"context"
	"errors"
	"fmt"
	"io"
	"os"
	"path/filepath"
	"sync"
	"testing"

	"github.com/nspcc-dev/neofs-node/internal/verifkit"
	"github.com/nspcc-dev/neofs-node/pkg/local_object_storage/blobstor/fstree"
	meta "github.com/nspcc-dev/neofs-node/pkg/local_object_storage/metabase"
	"github.com/nspcc-dev/neofs-node/pkg/local_object_storage/shard"
	apistatus "github.com/nspcc-dev/neofs-sdk-go/client/status"
	"github.com/nspcc-dev/neofs-sdk-go/container"
	cid "github.com/nspcc-dev/neofs-sdk-go/container/id"
	oid "github.com/nspcc-dev/neofs-sdk-go/object/id"
	"go.uber.org/zap"
)

// C47, engine leg: start-up cleanup (StorageEngine.Init -> deleteNotFoundContainers) may
// discard a container only when the container source definitively says "not found".
// Every answer is tagged by the generator (found / absent / transient); the oracle never
// inspects the error value itself.

type vf47Epoch struct{}

func (vf47Epoch) CurrentEpoch() uint64 { return 0 }

type vf47Pay struct{}

func (vf47Pay) PaymentsDisabled() bool              { return true }
func (vf47Pay) UnpaidSince(cid.ID) (int64, error) { return -1, nil }

type vf47Answer struct {
	name  string
	class string // "found", "absent", "transient"
	err   error
}

type vf47CustomTimeout struct{}

func (vf47CustomTimeout) Error() string   { return "i/o timeout" }
func (vf47CustomTimeout) Timeout() bool   { return true }
func (vf47CustomTimeout) Temporary() bool { return true }

func vf47Answers() []vf47Answer {
	return []vf47Answer{
		{"found", "found", nil},
		{"absent:ErrContainerNotFound", "absent", apistatus.ErrContainerNotFound},
		{"absent:ContainerNotFound{}", "absent", apistatus.ContainerNotFound{}},
		{"absent:wrapped", "absent", fmt.Errorf("read container from FS chain: %w", apistatus.ErrContainerNotFound)},
		{"absent:double-wrapped", "absent", fmt.Errorf("cache: %w", fmt.Errorf("rpc: %w", apistatus.ContainerNotFound{}))},
		{"transient:plain", "transient", errors.New("connection refused")},
		{"transient:text-lookalike", "transient", errors.New("status: code = 3072 message = container not found")},
		{"transient:deadline", "transient", context.DeadlineExceeded},
		{"transient:wrapped-deadline", "transient", fmt.Errorf("get container: %w", context.DeadlineExceeded)},
		{"transient:eof", "transient", io.ErrUnexpectedEOF},
		{"transient:timeout-type", "transient", vf47CustomTimeout{}},
		{"transient:server-internal", "transient", apistatus.ErrServerInternal},
		{"transient:object-not-found", "transient", apistatus.ErrObjectNotFound},
		{"transient:eacl-not-found", "transient", apistatus.ErrEACLNotFound},
		{"transient:node-maintenance", "transient", apistatus.ErrNodeUnderMaintenance},
		{"transient:joined", "transient", errors.Join(errors.New("endpoint A: connection reset"), errors.New("endpoint B: i/o timeout"))},
	}
}

type vf47Source struct {
	mu      sync.Mutex
	answers map[cid.ID]vf47Answer
	asked   map[cid.ID]int
}

func (s *vf47Source) Get(id cid.ID) (container.Container, error) {
	s.mu.Lock()
	defer s.mu.Unlock()
	s.asked[id]++
	a, ok := s.answers[id]
	if !ok {
		return container.Container{}, errors.New("vf47: unexpected container asked")
	}
	return container.Container{}, a.err
}

func TestVerif_C47Engine(t *testing.T) {
	r := verifkit.Start(t, "C47", "exploration")
	defer r.Finish()
	answers := vf47Answers()
	r.SetRule(fmt.Sprintf("every container-source answer of a %d-element catalogue (found, 4 shapes of the not-found status, 11 transient/other errors incl. look-alikes) x engines of 1..3 shards x placement of the container's objects on one or several shards; cleanup driven through StorageEngine.Init; distinct = (answer, #shards, #holding shards, discarded)", len(answers)))
	r.SetExhaustive(true)

	base := os.Getenv("VERIF_SCRATCH")
	if base == "" {
		base = t.TempDir()
	}
	root, err := os.MkdirTemp(base, "c47e-")
	if err != nil {
		t.Fatal(err)
	}
	defer os.RemoveAll(root)
	owner := verifkit.RandUser(r.Rand("owner", 0))
	ctx := context.Background()
	rounds := r.Pick(2, 8)

	for round := 0; round < rounds; round++ {
		for nShards := 1; nShards <= 3; nShards++ {
			rng := r.Rand("round", round*10+nShards)
			dir := filepath.Join(root, fmt.Sprintf("r%d-s%d", round, nShards))
			src := &vf47Source{answers: map[cid.ID]vf47Answer{}, asked: map[cid.ID]int{}}
			e := New(WithLogger(zap.NewNop()), WithContainersSource(src))
			for i := 0; i < nShards; i++ {
				_, err := e.AddShard(
					shard.WithLogger(zap.NewNop()),
					shard.WithBlobstor(fstree.New(fstree.WithPath(filepath.Join(dir, fmt.Sprintf("fstree%d", i))), fstree.WithDepth(1), fstree.WithNoSync(true))),
					shard.WithMetaBaseOptions(meta.WithPath(filepath.Join(dir, fmt.Sprintf("meta%d", i))), meta.WithEpochState(vf47Epoch{}), meta.WithLogger(zap.NewNop())),
					shard.WithContainerPayments(vf47Pay{}),
				)
				if err != nil {
					r.Inconclusive("add shard: " + err.Error())
					return
				}
			}
			type cnrCase struct {
				id      cid.ID
				ans     vf47Answer
				addrs   []oid.Address
				holders int
			}
			var cases []cnrCase
			shs := e.unsortedShards()
			for _, a := range answers {
				c := cnrCase{id: verifkit.RandCID(rng), ans: a}
				src.answers[c.id] = a
				used := map[int]bool{}
				for i, n := 0, 1+rng.IntN(3); i < n; i++ {
					o := verifkit.NewObject(rng, c.id, owner, rng.IntN(100))
					si := rng.IntN(len(shs))
					if err := shs[si].Put(o, nil); err != nil {
						r.Inconclusive("shard put: " + err.Error())
						return
					}
					used[si] = true
					c.addrs = append(c.addrs, o.Address())
				}
				c.holders = len(used)
				cases = append(cases, c)
			}
			for _, c := range cases {
				for _, a := range c.addrs {
					if _, err := e.Get(ctx, a); err != nil {
						r.Inconclusive("harness: object not readable before start-up cleanup: " + err.Error())
						return
					}
				}
			}
			desc := map[string]any{"round": round, "shards": nShards}
			var ierr error
			if r.Guard(desc, func() { ierr = e.Init() }) {
				_ = e.Close()
				continue
			}
			if ierr != nil {
				r.Count("engine_init_errors", 1)
				r.Seen("engine_init_error_texts", ierr.Error())
			}
			for _, c := range cases {
				r.Eval(1)
				lost, kept := 0, 0
				var detail string
				for _, a := range c.addrs {
					if _, err := e.Get(ctx, a); err != nil {
						lost++
						detail = fmt.Sprintf("%s: %v", a.Object(), err)
					} else {
						kept++
					}
				}
				discarded := lost > 0
				r.Distinct(fmt.Sprintf("%s|%d|%d|%v", c.ans.name, nShards, c.holders, discarded))
				cd := map[string]any{"round": round, "shards": nShards, "answer": c.ans.name, "holding_shards": c.holders, "objects": len(c.addrs), "lost": lost}
				if round%7 == 0 {
					r.Sample(cd)
				}
				src.mu.Lock()
				asked := src.asked[c.id]
				src.mu.Unlock()
				if asked > 0 {
					r.Count("source_lookups_observed", asked)
				}
				switch {
				case discarded && c.ans.class != "absent":
					r.Violation("startup-cleanup|discarded|"+c.ans.name,
						fmt.Sprintf("start-up cleanup discarded objects of a container for which the source answered %q (%s): %s", c.ans.name, c.ans.class, detail), cd)
				case discarded && kept > 0:
					r.Count("absent_partially_discarded", 1)
				case discarded:
					r.Count("discards_allowed_and_seen", 1)
					r.Seen("absent_shapes_discarded", c.ans.name)
				case c.ans.class == "absent":
					r.Count("absent_kept", 1) // "only if": not demanded, observation only
					r.Seen("absent_shapes_kept", c.ans.name)
				default:
					r.Count("kept_as_required", 1)
					r.Seen("non_absent_answers_kept", c.ans.name)
				}
			}
			_ = e.Close()
			_ = os.RemoveAll(dir)
		}
	}
	if r.Counter("discards_allowed_and_seen") == 0 {
		r.Inconclusive("start-up cleanup never discarded a definitively absent container: no discard decision observed")
	}
	if r.Counter("source_lookups_observed") == 0 {
		r.Inconclusive("start-up cleanup never consulted the container source")
	}
}
