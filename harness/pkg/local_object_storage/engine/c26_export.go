//go:build verif

package engine

import (
	"github.com/nspcc-dev/neofs-node/pkg/local_object_storage/shard"
	oid "github.com/nspcc-dev/neofs-sdk-go/object/id"
)

// Thin exporter for the C26 monitor (policer package).  No logic of its own.

// Verif26SortedShards returns the engine's shards in the engine's own order of
// preference for the object ID (most preferred first).  The monitor uses it to place
// copies on chosen positions of that order and for evidence, never for its verdict.
func (e *StorageEngine) Verif26SortedShards(id oid.ID) []*shard.Shard {
	ws := e.sortedShards(id)
	res := make([]*shard.Shard, len(ws))
	for i := range ws {
		res[i] = ws[i].Shard
	}
	return res
}
