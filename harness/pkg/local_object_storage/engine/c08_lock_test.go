//go:build verif

package engine

// C08 monitor: an object locked through the engine stays retrievable until the lock
// expires - under tombstone attempts (also failing, rolled-back ones), GC passes, shard
// mode changes, put failures, evacuations and every shard visiting order.
//
// Real StorageEngine over 2-3 real shards.  The shards' blob storage is wrapped by
// vf08Store (real FSTree inside): injects per-shard put failures, records the order in
// which a broadcast reaches the shards, can park a goroutine right before a blob write
// (constructed lock || tombstone schedules) and pins deterministic shard IDs.
// The visiting order of broadcasts is the iteration order of the engine's shard map; the
// monitor rebuilds that map in a seed-chosen insertion order before every operation and
// keeps a run only when the orders it observed are the chosen ones (small Go maps iterate
// in insertion order with probability >= 5/8, otherwise a rotation), so every permutation
// is reachable and the verdict depends on the seed only.
// Oracle (from the statement): once Put(lock) returned nil for an object that Get could
// read just before, Get/Head of that object must succeed with identical bytes after every
// later step until epoch > lock expiration.
// The verdict uses nothing else.  When a protected object is unreadable the monitor ALSO
// asks every shard for its own view of the object (available / no record / marked as
// garbage / tombstoned / expired), finds the shard whose answer the engine returned and
// which tombstone object (accepted or rejected by the engine) still sits there: this only
// names the class of the loss (class key), so that a new way of losing a locked object
// is not hidden behind an already known one that needs the same history.

import (
	"bytes"
	"context"
	"encoding/json"
	"errors"
	"fmt"
	"math/rand/v2"
	"os"
	"path/filepath"
	"sort"
	"strings"
	"sync"
	"sync/atomic"
	"testing"
	"time"

	"github.com/nspcc-dev/bbolt"
	"github.com/nspcc-dev/neofs-node/internal/verifkit"
	"github.com/nspcc-dev/neofs-node/pkg/local_object_storage/blobstor/common"
	"github.com/nspcc-dev/neofs-node/pkg/local_object_storage/blobstor/fstree"
	meta "github.com/nspcc-dev/neofs-node/pkg/local_object_storage/metabase"
	"github.com/nspcc-dev/neofs-node/pkg/local_object_storage/shard"
	"github.com/nspcc-dev/neofs-node/pkg/local_object_storage/shard/mode"
	apistatus "github.com/nspcc-dev/neofs-sdk-go/client/status"
	cid "github.com/nspcc-dev/neofs-sdk-go/container/id"
	"github.com/nspcc-dev/neofs-sdk-go/object"
	oid "github.com/nspcc-dev/neofs-sdk-go/object/id"
	"github.com/nspcc-dev/neofs-sdk-go/user"
)

const vf08MaxShards = 3

var errVf08Injected = errors.New("vf08: injected put failure")

// ---------------------------------------------------------------------------------
// recording / failing / pausing blob storage

type vf08Note struct {
	shard int
	addr  oid.Address
}

// vf08Gate parks the goroutine that writes a given address right before every blob
// write until the schedule driver lets it proceed.
type vf08Gate struct {
	arrived chan struct{}
	proceed chan struct{}
}

type vf08Ctl struct {
	mu        sync.Mutex
	putFail   [vf08MaxShards]bool
	attempts  []vf08Note // blob write attempts (failed ones included), in order
	faultHits int
	gates     map[oid.Address]*vf08Gate
}

func (c *vf08Ctl) arrive(i int, a oid.Address) (fail bool, p *vf08Gate) {
	c.mu.Lock()
	defer c.mu.Unlock()
	p = c.gates[a]
	c.attempts = append(c.attempts, vf08Note{i, a})
	if c.putFail[i] {
		c.faultHits++
		fail = true
	}
	return
}

func (c *vf08Ctl) reset() { c.mu.Lock(); c.attempts = c.attempts[:0]; c.mu.Unlock() }

// visited returns the distinct shards a blob write of a was attempted on, in order.
func (c *vf08Ctl) visited(a oid.Address) []int {
	c.mu.Lock()
	defer c.mu.Unlock()
	var res []int
	for _, n := range c.attempts {
		if n.addr != a {
			continue
		}
		dup := false
		for _, x := range res {
			dup = dup || x == n.shard
		}
		if !dup {
			res = append(res, n.shard)
		}
	}
	return res
}

type vf08Store struct {
	common.Storage
	idx int
	id  common.ID
	ctl *vf08Ctl
}

func (s *vf08Store) Init(common.ID) error { return s.Storage.Init(s.id) }

func (s *vf08Store) Put(a oid.Address, b []byte) error {
	fail, p := s.ctl.arrive(s.idx, a)
	if p != nil {
		p.arrived <- struct{}{}
		<-p.proceed
	}
	if fail {
		return errVf08Injected
	}
	return s.Storage.Put(a, b)
}

func (s *vf08Store) PutBatch(m map[oid.Address][]byte) error {
	for a := range m {
		if fail, _ := s.ctl.arrive(s.idx, a); fail {
			return errVf08Injected
		}
	}
	return s.Storage.PutBatch(m)
}

type vf08Epoch struct{ v atomic.Uint64 }

func (e *vf08Epoch) CurrentEpoch() uint64 { return e.v.Load() }

type vf08Payments struct{}

func (vf08Payments) PaymentsDisabled() bool            { return true }
func (vf08Payments) UnpaidSince(cid.ID) (int64, error) { return -1, nil }

// ---------------------------------------------------------------------------------
// environment

type vf08Obj struct {
	label   string
	obj     *object.Object
	addr    oid.Address
	bin     []byte
	hdrBin  []byte
	exp     uint64 // own expiration epoch, 0 = none
	lockExp uint64 // latest expiration among accepted locks, 0 = none accepted
	locks   []vf08Lock
	tombs   []vf08Tomb // tombstone objects tried for it (accepted or not)
	lost    bool
	// set when the loss was reported: how it was lost and whether the data still existed
	lostCause    string
	lostWithBlob bool
	gone         bool
	// what the shards holding the data said about it after the previous step
	holdersWere string
}

type vf08Tomb struct {
	addr     oid.Address
	accepted bool // StorageEngine.Put returned nil for it
}

type vf08Lock struct {
	addr oid.Address
	exp  uint64
}

type vf08Shard struct {
	idx   int
	id    common.ID
	inner common.Storage
	sh    *shard.Shard
}

type vf08Env struct {
	e      *StorageEngine
	dir    string
	ctl    *vf08Ctl
	epoch  *vf08Epoch
	shards []*vf08Shard
	cnr    cid.ID
	owner  user.ID
	objs   []*vf08Obj
}

func vf08NewEnv(rng *rand.Rand, nShards int, thr uint32) (*vf08Env, error) {
	dir, err := os.MkdirTemp("", "vf08-")
	if err != nil {
		return nil, err
	}
	v := &vf08Env{dir: dir, ctl: &vf08Ctl{gates: map[oid.Address]*vf08Gate{}}, epoch: &vf08Epoch{}}
	v.epoch.v.Store(1)
	v.e = New(WithErrorThreshold(thr))
	for idx := range nShards {
		id, err := common.NewIDFromBytes(verifkit.RandBytes(rng, common.IDSize))
		if err != nil {
			return nil, err
		}
		inner := fstree.New(fstree.WithPath(filepath.Join(dir, fmt.Sprintf("fs%d", idx))), fstree.WithDepth(1), fstree.WithNoSync(true))
		bopts := *bbolt.DefaultOptions
		bopts.NoSync = true
		got, err := v.e.AddShard(
			shard.WithBlobstor(&vf08Store{Storage: inner, idx: idx, id: id, ctl: v.ctl}),
			shard.WithMetaBaseOptions(
				meta.WithPath(filepath.Join(dir, fmt.Sprintf("meta%d", idx))),
				meta.WithPermissions(0o700),
				meta.WithEpochState(v.epoch),
				meta.WithMaxBatchDelay(time.Microsecond),
				meta.WithBoltDBOptions(&bopts),
			),
			shard.WithGCRemoverSleepInterval(1000*time.Hour),
			shard.WithContainerPayments(vf08Payments{}),
		)
		if err != nil {
			return nil, err
		}
		if got != id {
			return nil, fmt.Errorf("shard id %s differs from the pinned one %s", got, id)
		}
		sh := v.e.getShard(id.String()).Shard
		sh.Verif08SetEpoch(1)
		v.shards = append(v.shards, &vf08Shard{idx: idx, id: id, inner: inner, sh: sh})
	}
	if err := v.e.Init(); err != nil {
		return nil, err
	}
	return v, nil
}

func (v *vf08Env) close() {
	_ = v.e.Close()
	_ = os.RemoveAll(v.dir)
}

// setOrder rebuilds the engine's shard map with the given insertion order.
func (v *vf08Env) setOrder(perm []int) {
	v.e.mtx.Lock()
	m := make(map[string]shardWrapper, len(perm))
	for _, i := range perm {
		id := v.shards[i].id.String()
		m[id] = v.e.shards[id]
	}
	v.e.shards = m
	v.e.mtx.Unlock()
}

func (v *vf08Env) blobOn(a oid.Address) []int {
	var res []int
	for _, s := range v.shards {
		if ok, err := s.inner.Exists(a); err == nil && ok {
			res = append(res, s.idx)
		}
	}
	return res
}

func (v *vf08Env) modes() []mode.Mode {
	res := make([]mode.Mode, len(v.shards))
	for i, s := range v.shards {
		res[i] = s.sh.GetMode()
	}
	return res
}

func vf08ModeName(m mode.Mode) string {
	switch m {
	case mode.ReadWrite:
		return "rw"
	case mode.ReadOnly:
		return "ro"
	case mode.Degraded:
		return "deg"
	case mode.DegradedReadOnly:
		return "degro"
	}
	return "?"
}

func (v *vf08Env) envSig() string {
	var sb strings.Builder
	for i, m := range v.modes() {
		sb.WriteString(vf08ModeName(m))
		if v.ctl.putFail[i] {
			sb.WriteString("+putfail")
		}
		sb.WriteByte(' ')
	}
	return strings.TrimSpace(sb.String())
}

func (v *vf08Env) retrievable(o *vf08Obj) (bool, string) {
	ok, why, _ := v.read(o)
	return ok, why
}

// read is the observation the verdict is based on; class names how the read failed.
func (v *vf08Env) read(o *vf08Obj) (ok bool, why, class string) {
	ctx := context.Background()
	got, err := v.e.Get(ctx, o.addr)
	if err != nil {
		return false, "Get: " + vf08Err(err), "get-" + vf08ErrClass(err)
	}
	if !bytes.Equal(got.Marshal(), o.bin) {
		return false, "Get returned different bytes", "get-different-bytes"
	}
	hdr, err := v.e.Head(ctx, o.addr, false)
	if err != nil {
		return false, "Head: " + vf08Err(err), "head-" + vf08ErrClass(err)
	}
	if !bytes.Equal(hdr.CutPayload().Marshal(), o.hdrBin) {
		return false, "Head returned a different header", "head-different-header"
	}
	return true, "", ""
}

func vf08ErrClass(err error) string {
	switch {
	case errors.Is(err, apistatus.ErrObjectAlreadyRemoved):
		return "already-removed"
	case errors.Is(err, apistatus.ErrObjectNotFound):
		return "not-found"
	case shard.IsErrObjectExpired(err):
		return "expired"
	}
	return "other-error"
}

// shardView is what one shard itself says about the object.
func (v *vf08Env) shardView(s *vf08Shard, a oid.Address) string {
	if s.sh.GetMode().NoMetabase() {
		return "no-metabase"
	}
	ok, err := s.sh.Exists(a, false)
	switch {
	case err == nil && ok:
		return "available"
	case err == nil:
		return "no-record"
	case errors.Is(err, apistatus.ErrObjectAlreadyRemoved):
		return "tombstoned"
	case shard.IsErrObjectExpired(err):
		return "expired"
	case errors.Is(err, apistatus.ErrObjectNotFound):
		return "garbage-marked"
	}
	return "error"
}

// stores tells whether shard s still keeps object a in any form the monitor can see
// through exported interfaces: blob, readable metadata or a garbage-marked record.
func (v *vf08Env) stores(s *vf08Shard, a oid.Address) bool {
	if ok, err := s.inner.Exists(a); err == nil && ok {
		return true
	}
	if s.sh.GetMode().NoMetabase() {
		return false
	}
	ok, err := s.sh.Exists(a, true)
	return ok || err != nil
}

// holdersState summarises, for the shards that physically hold x, the record each keeps
// for it apart from expiration (clean / garbage-marked, even when a lock overrides the
// mark for readers / tombstoned) - "expired-only" is a clean record of an object whose
// own expiration has passed - and whether a live lock is stored next to it.  Diagnosis only.
func (v *vf08Env) holdersState(x *vf08Obj) string {
	holders, lockOn, _ := v.lockPlacement(x)
	set := map[string]bool{}
	for _, h := range holders {
		s := v.shards[h]
		st := "no-metabase"
		if !s.sh.GetMode().NoMetabase() {
			ok, err := s.sh.Exists(x.addr, true)
			marked, _ := s.sh.Verif08HasGarbageMark(x.addr)
			switch {
			case errors.Is(err, apistatus.ErrObjectAlreadyRemoved):
				st = "tombstoned"
			case marked:
				st = "garbage-marked"
			case err == nil && ok:
				st = "clean"
				if v.shardView(s, x.addr) == "expired" {
					st = "expired-only"
				}
			case err == nil:
				st = "no-record"
			case errors.Is(err, apistatus.ErrObjectNotFound):
				st = "garbage-marked"
			default:
				st = "error"
			}
		}
		if lockOn[h] {
			st += "-with-lock"
		} else {
			st += "-without-lock"
		}
		set[st] = true
	}
	var res []string
	for k := range set {
		res = append(res, k)
	}
	sort.Strings(res)
	return strings.Join(res, "+")
}

// diagnose names what makes the lock-protected object x unreadable: it walks the shards
// in the order the engine reads them and reports the first shard whose own answer ends
// the engine's search (tombstoned / expired / claims to have it), with the role of that
// shard (does it hold the object's blob, does it hold a live lock) and, for a tombstoned
// answer, whether a tombstone the engine ACCEPTED or one it REJECTED (and should have
// rolled back) is stored there.  When no shard is decisive (every shard said "not here",
// which the engine skips), it lists what the shards that physically hold the blob say.
// Diagnosis only: never decides whether there is a violation.
func (v *vf08Env) diagnose(x *vf08Obj, holders []int, lockOn map[int]bool) (cause string, views []string) {
	isHolder := map[int]bool{}
	for _, h := range holders {
		isHolder[h] = true
	}
	role := func(i int) string {
		r := "non-holder"
		if isHolder[i] {
			r = "holder"
		}
		if lockOn[i] {
			return r + "-with-lock"
		}
		return r + "-without-lock"
	}
	byID := map[string]*vf08Shard{}
	for _, s := range v.shards {
		byID[s.id.String()] = s
	}
	heldBut := map[string]bool{}
	lockWord := func(i int) string {
		if lockOn[i] {
			return "with-lock"
		}
		return "without-lock"
	}
	for _, w := range v.e.sortedShards(x.addr.Object()) {
		s := byID[w.ID().String()]
		if s == nil {
			continue
		}
		view := v.shardView(s, x.addr)
		views = append(views, fmt.Sprintf("s%d(%s)=%s", s.idx, role(s.idx), view))
		if isHolder[s.idx] {
			heldBut[view+"-"+lockWord(s.idx)] = true
		}
		if cause != "" {
			continue
		}
		switch view {
		case "tombstoned":
			kind := "tombstone-record-without-tombstone-object"
			for _, t := range x.tombs {
				if !v.stores(s, t.addr) {
					continue
				}
				if t.accepted {
					kind = "accepted-tombstone-stored"
					break
				}
				kind = "rejected-tombstone-still-stored"
			}
			cause = fmt.Sprintf("answered-by-shard-%s:%s", lockWord(s.idx), kind)
		case "expired", "available", "error":
			cause = fmt.Sprintf("answered-by-shard-%s:%s", lockWord(s.idx), view)
		}
	}
	if cause == "" {
		var ms []string
		for m := range heldBut {
			ms = append(ms, m)
		}
		sort.Strings(ms)
		if len(ms) == 0 {
			cause = "no-holder"
		} else {
			cause = "holders-say:" + strings.Join(ms, "+")
		}
	}
	return
}

func vf08Err(err error) string {
	if err == nil {
		return "<nil>"
	}
	s := err.Error()
	if len(s) > 140 {
		s = s[:140]
	}
	return s
}

func vf08Perm(p []int) string {
	var sb strings.Builder
	for _, x := range p {
		fmt.Fprintf(&sb, "%d", x)
	}
	return sb.String()
}

// lockPlacement describes where the copies of o and its accepted locks physically are.
func (v *vf08Env) lockPlacement(o *vf08Obj) (holders []int, lockOn map[int]bool, rel string) {
	holders = v.blobOn(o.addr)
	lockOn = map[int]bool{}
	for _, l := range o.locks {
		if l.exp < v.epoch.CurrentEpoch() {
			continue // expired locks protect nothing
		}
		for _, i := range v.blobOn(l.addr) {
			lockOn[i] = true
		}
	}
	switch {
	case len(holders) == 0:
		rel = "blob-deleted"
	default:
		all := true
		for _, h := range holders {
			all = all && lockOn[h]
		}
		if all {
			rel = "blob-present|lock-on-every-holder"
		} else {
			rel = "blob-present|lock-missing-on-a-holder"
		}
	}
	return
}

// ---------------------------------------------------------------------------------
// sequential histories

type vf08Op struct {
	kind    string // put, lock, tomb, mode, putfail, gc, epoch, evac
	obj     int
	shard   int
	perm    []int
	m       mode.Mode
	aux     *object.Object
	lockExp uint64
	flag    bool
}

func (op vf08Op) String() string {
	switch op.kind {
	case "put":
		return fmt.Sprintf("Put(X%d)", op.obj)
	case "lock":
		return fmt.Sprintf("Put(lock->X%d exp=%d) order=%s", op.obj, op.lockExp, vf08Perm(op.perm))
	case "tomb":
		return fmt.Sprintf("Put(tombstone->X%d) order=%s", op.obj, vf08Perm(op.perm))
	case "tomblock":
		return fmt.Sprintf("Put(tombstone->latest lock of X%d) order=%s", op.obj, vf08Perm(op.perm))
	case "mode":
		return fmt.Sprintf("SetShardMode(s%d,%s)", op.shard, vf08ModeName(op.m))
	case "putfail":
		return fmt.Sprintf("PutFailure(s%d)=%v", op.shard, op.flag)
	case "gc":
		return fmt.Sprintf("GC(s%d) order=%s", op.shard, vf08Perm(op.perm))
	case "epoch":
		return fmt.Sprintf("NewEpoch(%d)", op.lockExp)
	case "evac":
		return fmt.Sprintf("Evacuate(s%d ignoreErrors=%v)", op.shard, op.flag)
	}
	return op.kind
}

type vf08Case struct {
	idx     int
	nShards int
	thr     uint32
	objExp  []uint64
	ops     []vf08Op
}

func vf08GenCase(r *verifkit.Run, idx int, nOps int) vf08Case {
	rng := r.Rand("gen", idx)
	c := vf08Case{idx: idx, nShards: 2 + rng.IntN(2)}
	if rng.IntN(3) == 0 {
		c.thr = uint32(1 + rng.IntN(2))
	}
	const nObj = 3
	for range nObj {
		e := uint64(0)
		if rng.IntN(2) == 0 {
			// early enough for the epoch advances of a history to pass it while a lock is alive
			e = uint64(1 + rng.IntN(4))
		}
		c.objExp = append(c.objExp, e)
	}
	epoch := uint64(1)
	// Directed (still seeded) prefix in most cases: keep one shard away from a lock
	// broadcast (mode or put failure), then bring it back - locks that live on a subset of
	// the shards are where the protection is fragile.  Some objects are first stored
	// inside that window too (the locked one in half of the cases): an object written
	// while the shard the engine prefers for it is out of service lives on another
	// shard, so after the window the engine reads (and broadcasts may reach) a shard
	// that has neither the object nor its lock before the shard that has both.
	directed := rng.IntN(10) < 7
	sh, ob := rng.IntN(c.nShards), rng.IntN(nObj)
	inWindow := make([]bool, nObj)
	if directed {
		for i := range nObj {
			if i == ob {
				inWindow[i] = rng.IntN(2) == 0
			} else {
				inWindow[i] = rng.IntN(4) == 0
			}
		}
	}
	// start with the objects stored so that histories are dense in protected objects
	for i := range nObj {
		if !inWindow[i] {
			c.ops = append(c.ops, vf08Op{kind: "put", obj: i, perm: rng.Perm(c.nShards)})
		}
	}
	if directed {
		how := rng.IntN(3)
		block := vf08Op{kind: "mode", shard: sh, m: mode.ReadOnly, perm: rng.Perm(c.nShards)}
		unblock := vf08Op{kind: "mode", shard: sh, m: mode.ReadWrite, perm: rng.Perm(c.nShards)}
		switch how {
		case 1:
			block.m = mode.DegradedReadOnly
		case 2:
			block = vf08Op{kind: "putfail", shard: sh, flag: true, perm: rng.Perm(c.nShards)}
			unblock = vf08Op{kind: "putfail", shard: sh, flag: false, perm: rng.Perm(c.nShards)}
		}
		c.ops = append(c.ops, block)
		for i := range nObj {
			if inWindow[i] {
				c.ops = append(c.ops, vf08Op{kind: "put", obj: i, perm: rng.Perm(c.nShards)})
			}
		}
		lockExp := epoch + uint64(1+rng.IntN(4))
		follow := rng.IntN(3)
		if follow == 2 {
			// the object's own expiration will pass while the lock is still alive
			c.objExp[ob] = uint64(1 + rng.IntN(2))
			lockExp = c.objExp[ob] + uint64(1+rng.IntN(3))
		}
		c.ops = append(c.ops,
			vf08Op{kind: "lock", obj: ob, lockExp: lockExp, perm: rng.Perm(c.nShards)},
			unblock)
		switch follow {
		case 1:
			// a removal attempt right after the window, in any visiting order
			c.ops = append(c.ops, vf08Op{kind: "tomb", obj: ob, perm: rng.Perm(c.nShards)})
		case 2:
			// pass the object's own expiration, then let every shard collect
			for epoch <= c.objExp[ob] {
				epoch++
				c.ops = append(c.ops, vf08Op{kind: "epoch", lockExp: epoch, perm: rng.Perm(c.nShards)})
			}
			for _, i := range rng.Perm(c.nShards) {
				c.ops = append(c.ops, vf08Op{kind: "gc", shard: i, perm: rng.Perm(c.nShards)})
			}
		}
	}
	for len(c.ops) < nOps {
		op := vf08Op{obj: rng.IntN(nObj), shard: rng.IntN(c.nShards), perm: rng.Perm(c.nShards)}
		switch x := rng.IntN(100); {
		case x < 8:
			op.kind = "put"
		case x < 26:
			op.kind = "lock"
			op.lockExp = epoch + uint64(rng.IntN(5))
		case x < 42:
			op.kind = "tomb"
		case x < 46:
			op.kind = "tomblock" // tombstone aimed at the latest accepted lock object of the target
		case x < 62:
			op.kind = "mode"
			op.m = []mode.Mode{mode.ReadWrite, mode.ReadWrite, mode.ReadOnly, mode.DegradedReadOnly}[rng.IntN(4)]
		case x < 74:
			op.kind = "putfail"
			op.flag = rng.IntN(3) != 0
		case x < 86:
			op.kind = "gc"
		case x < 95:
			op.kind = "epoch"
			epoch++
			op.lockExp = epoch
		default:
			op.kind = "evac"
			op.flag = rng.IntN(2) == 0
		}
		c.ops = append(c.ops, op)
	}
	return c
}

type vf08Finding struct {
	key, what string
	replay    map[string]any
}

type vf08Result struct {
	orderMiss bool
	findings  []vf08Finding
	counts    map[string]int
	seen      [][2]string
	distinct  []string
	opLog     []string
}

func (res *vf08Result) count(k string, n int) { res.counts[k] += n }
func (res *vf08Result) see(set, m string)     { res.seen = append(res.seen, [2]string{set, m}) }

// vf08RunAttempt executes the case once on a fresh engine.  The auxiliary objects
// (locks, tombstones) are derived from a per-case stream so that every attempt uses the
// same ones.
func vf08RunAttempt(r *verifkit.Run, c vf08Case) (res vf08Result) {
	res.counts = map[string]int{}
	rng := r.Rand("objects", c.idx)
	v, err := vf08NewEnv(rng, c.nShards, c.thr)
	if err != nil {
		r.Inconclusive("engine setup: " + err.Error())
		res.orderMiss = true
		return
	}
	defer v.close()
	ctx := context.Background()
	v.cnr, v.owner = verifkit.RandCID(rng), verifkit.RandUser(rng)
	for i, e := range c.objExp {
		o := verifkit.NewObject(rng, v.cnr, v.owner, 1+rng.IntN(120))
		if e != 0 {
			verifkit.SetExpiration(o, e)
		}
		v.objs = append(v.objs, &vf08Obj{label: fmt.Sprintf("X%d", i), obj: o, addr: o.Address(), bin: o.Marshal(), hdrBin: o.CutPayload().Marshal(), exp: e})
	}
	aux := make([]*object.Object, len(c.ops))
	for i, op := range c.ops {
		switch op.kind {
		case "lock":
			l := verifkit.NewObject(rng, v.cnr, v.owner, 0)
			verifkit.SetExpiration(l, op.lockExp)
			l.AssociateLocked(v.objs[op.obj].addr.Object())
			aux[i] = l
		case "tomb":
			ts := verifkit.NewObject(rng, v.cnr, v.owner, 0)
			verifkit.SetExpiration(ts, 1000)
			ts.AssociateDeleted(v.objs[op.obj].addr.Object())
			aux[i] = ts
		}
	}

	protected := func(o *vf08Obj) bool { return o.lockExp != 0 && v.epoch.CurrentEpoch() <= o.lockExp && !o.lost }

	for step, op := range c.ops {
		o := v.objs[op.obj]
		modesBefore := v.modes()
		v.ctl.reset()
		v.setOrder(op.perm)
		var desc, trigger string
		switch op.kind {
		case "put":
			err := v.e.Put(ctx, o.obj, nil)
			desc = fmt.Sprintf("%v=%s", op, vf08Err(err))
			trigger = "put"
			res.count("op_put", 1)
		case "tomblock":
			if len(o.locks) == 0 {
				desc = "noop (no accepted lock)"
				trigger = "noop"
				break
			}
			tl := verifkit.NewObject(r.Rand("tomblock", c.idx*1000+step), v.cnr, v.owner, 0)
			verifkit.SetExpiration(tl, 1000)
			tl.AssociateDeleted(o.locks[len(o.locks)-1].addr.Object())
			err := v.e.Put(ctx, tl, nil)
			desc = fmt.Sprintf("%v=%s", op, vf08Err(err))
			trigger = "tombstone-for-lock-object"
			if err == nil {
				res.count("op_tombstone_for_lock_accepted", 1)
			} else {
				res.count("op_tombstone_for_lock_rejected", 1)
			}
		case "lock", "tomb":
			b := aux[step]
			was, _ := v.retrievable(o)
			wasProtected := protected(o)
			v.ctl.reset()
			err := v.e.Put(ctx, b, nil)
			// did the broadcast visit the shards in the chosen order?
			var want []int
			for _, i := range op.perm {
				if !modesBefore[i].ReadOnly() {
					want = append(want, i)
				}
			}
			got := v.ctl.visited(b.Address())
			if len(got) > len(want) {
				res.orderMiss = true
			} else {
				for i := range got {
					if got[i] != want[i] {
						res.orderMiss = true
					}
				}
			}
			if res.orderMiss {
				return
			}
			landed := v.blobOn(b.Address())
			desc = fmt.Sprintf("%v=%s visited=%v landed=%v", op, vf08Err(err), got, landed)
			res.see("broadcast_visiting_orders_seen", fmt.Sprintf("n%d:%s", c.nShards, vf08Perm(got)))
			if op.kind == "lock" {
				if err == nil {
					res.count("op_lock_accepted", 1)
					if was {
						if len(landed) < c.nShards {
							res.count("locks_accepted_on_a_subset_of_shards", 1)
						} else {
							res.count("locks_accepted_on_all_shards", 1)
						}
						if op.lockExp > o.lockExp {
							o.lockExp = op.lockExp
						}
						o.locks = append(o.locks, vf08Lock{b.Address(), op.lockExp})
					} else {
						res.count("locks_accepted_for_unretrievable_object_ignored", 1)
					}
					trigger = "lock-accepted"
				} else {
					res.count("op_lock_rejected", 1)
					trigger = "lock-rejected"
					if len(got) > 1 {
						res.count("lock_broadcasts_rolled_back", 1)
					}
				}
			} else {
				o.tombs = append(o.tombs, vf08Tomb{b.Address(), err == nil})
				if err != nil {
					// evidence only: what a rejected tombstone broadcast leaves behind
					for _, s := range v.shards {
						if v.stores(s, b.Address()) {
							res.count("rejected_tombstones_still_stored_on_a_shard_after_put_returned", 1)
						}
					}
				}
				if err == nil {
					res.count("op_tombstone_accepted", 1)
					trigger = "tombstone-accepted"
					if wasProtected {
						_, lockOn, _ := v.lockPlacement(o)
						for i := range lockOn {
							if modesBefore[i] == mode.ReadWrite && !v.ctl.putFail[i] {
								trigger = "tombstone-accepted-although-a-lock-shard-was-writable"
							}
						}
					}
				} else {
					res.count("op_tombstone_rejected", 1)
					trigger = "tombstone-rejected"
					if len(got) > 1 {
						res.count("tombstone_broadcasts_rolled_back", 1)
						trigger = "tombstone-rolled-back"
					}
				}
				if wasProtected {
					res.count("tombstone_attempts_on_protected_objects", 1)
					if hs := v.blobOn(o.addr); len(hs) > 0 {
						first := v.e.sortedShards(o.addr.Object())[0].ID().String()
						away := true
						for _, h := range hs {
							away = away && v.shards[h].id.String() != first
						}
						if away {
							res.count("tombstone_attempts_on_protected_objects_stored_away_from_preferred_shard", 1)
							if trigger == "tombstone-rolled-back" {
								res.count("tombstone_rollbacks_with_protected_object_away_from_preferred_shard", 1)
							}
						}
					}
					res.distinct = append(res.distinct, fmt.Sprintf("tomb|n%d|%s|obj%v|lock%v|visited%v|%s", c.nShards, v.envSig(), v.blobOn(o.addr), vf08LockShards(v, o), got, trigger))
				}
			}
		case "mode":
			err := v.e.SetShardMode(v.shards[op.shard].id, op.m, true)
			desc = fmt.Sprintf("%v=%s", op, vf08Err(err))
			trigger = "mode-change"
			res.count("op_setmode_"+vf08ModeName(op.m), 1)
		case "putfail":
			v.ctl.mu.Lock()
			v.ctl.putFail[op.shard] = op.flag
			v.ctl.mu.Unlock()
			desc = op.String()
			trigger = "putfail-toggle"
			res.count("op_putfail_toggle", 1)
		case "gc":
			v.shards[op.shard].sh.Verif08RunGC()
			desc = op.String()
			trigger = "gc"
			res.count("op_gc_pass", 1)
		case "epoch":
			v.epoch.v.Store(op.lockExp)
			for _, s := range v.shards {
				s.sh.Verif08SetEpoch(op.lockExp)
			}
			desc = op.String()
			trigger = "new-epoch"
			res.count("op_new_epoch", 1)
		case "evac":
			s := v.shards[op.shard]
			if err := v.e.SetShardMode(s.id, mode.ReadOnly, false); err != nil {
				desc = fmt.Sprintf("%v: set read-only: %s", op, vf08Err(err))
				break
			}
			n, err := v.e.Evacuate(ctx, []common.ID{s.id}, op.flag, nil)
			desc = fmt.Sprintf("%v moved=%d err=%s", op, n, vf08Err(err))
			trigger = "evacuate"
			res.count("op_evacuate", 1)
			res.count("evacuated_objects", n)
		}
		res.opLog = append(res.opLog, fmt.Sprintf("%d:%s", step, desc))
		for _, m := range v.modes() {
			res.see("shard_modes_seen", vf08ModeName(m))
		}

		// the invariant
		for _, x := range v.objs {
			if x.lost && x.lostWithBlob && !x.gone && v.epoch.CurrentEpoch() <= x.lockExp && len(v.blobOn(x.addr)) == 0 {
				// Still the same violation (the lock is alive, the object is unreadable), now
				// beyond repair: the data that was still on a shard when the object became
				// unreadable has been destroyed.  Reported once, as its own class, so that a
				// change which destroys locked data is not hidden behind the earlier loss.
				x.gone = true
				res.count("lost_protected_objects_whose_data_was_destroyed_later", 1)
				deg := ""
				for _, m := range v.modes() {
					// matters only where the collector asks the other shards for locks first
					// (expired objects); marked/tombstoned objects are removed without asking
					if m.NoMetabase() && strings.Contains(x.holdersWere, "expired-only") {
						deg = "|degraded-shard-present"
					}
				}
				res.findings = append(res.findings, vf08Finding{
					key:  fmt.Sprintf("lost-then-data-destroyed|after-%s|holders-were:%s%s", trigger, x.holdersWere, deg),
					what: fmt.Sprintf("step %d (%s): %s is locked until epoch %d (now %d), was already unreadable (first by %s) while its data was still stored; before this step the shards holding the data kept it as [%s]; now no shard has the data any more; shards [%s]", step, desc, x.label, x.lockExp, v.epoch.CurrentEpoch(), x.lostCause, x.holdersWere, v.envSig()),
					replay: map[string]any{"case_index": c.idx, "shards": c.nShards, "error_threshold": c.thr, "object": x.label, "object_expiration": x.exp,
						"lock_expiration": x.lockExp, "epoch": v.epoch.CurrentEpoch(), "ops": append([]string(nil), res.opLog...), "first_lost_by": x.lostCause, "holders_state_before": x.holdersWere, "shard_modes": v.envSig()},
				})
			}
			if x.lost && x.lostWithBlob && !x.gone {
				x.holdersWere = v.holdersState(x)
			}
			if !protected(x) {
				continue
			}
			res.count("protected_object_checks", 1)
			res.count("protected_checks_after_"+trigger, 1)
			if x.exp != 0 && v.epoch.CurrentEpoch() > x.exp {
				res.count("protected_checks_past_own_expiration", 1)
			}
			holders, lockOn, rel := v.lockPlacement(x)
			res.distinct = append(res.distinct, fmt.Sprintf("chk|n%d|%s|%s|obj%v|lock%v|%s", c.nShards, trigger, v.envSig(), holders, vf08Keys(lockOn), rel))
			ok, why, readClass := v.read(x)
			if ok {
				continue
			}
			x.lost = true
			cause, views := v.diagnose(x, holders, lockOn)
			x.lostCause, x.lostWithBlob = cause, len(holders) > 0
			x.holdersWere = v.holdersState(x)
			deg := ""
			for _, m := range v.modes() {
				if m.NoMetabase() && trigger == "gc" {
					deg = "|degraded-shard-present"
				}
			}
			expd := ""
			if x.exp != 0 && v.epoch.CurrentEpoch() > x.exp {
				expd = "|past-own-expiration"
			}
			tombOn := map[int]bool{}
			for _, t := range x.tombs {
				for _, i := range v.blobOn(t.addr) {
					tombOn[i] = true
				}
			}
			res.findings = append(res.findings, vf08Finding{
				// (own expiration is part of the description only: when it matters the cause says "expired")
				key:  fmt.Sprintf("lost|after-%s|%s%s|%s|%s", trigger, rel, deg, readClass, cause),
				what: fmt.Sprintf("step %d (%s): %s is locked until epoch %d (now %d) but not retrievable: %s; shards [%s], object blob on %v, lock blobs on %v, tombstone blobs on %v%s; shards' own views in read order: %s", step, desc, x.label, x.lockExp, v.epoch.CurrentEpoch(), why, v.envSig(), holders, vf08Keys(lockOn), vf08Keys(tombOn), expd, strings.Join(views, " ")),
				replay: map[string]any{"case_index": c.idx, "shards": c.nShards, "error_threshold": c.thr, "object": x.label, "object_expiration": x.exp,
					"lock_expiration": x.lockExp, "epoch": v.epoch.CurrentEpoch(), "ops": append([]string(nil), res.opLog...), "why": why,
					"object_blob_on_shards": holders, "lock_blobs_on_shards": vf08Keys(lockOn), "tombstone_blobs_on_shards": vf08Keys(tombOn), "shard_modes": v.envSig(),
					"read_failure": readClass, "cause": cause, "shard_views_in_read_order": views},
			})
		}
	}
	return
}

func vf08LockShards(v *vf08Env, o *vf08Obj) []int {
	_, lockOn, _ := v.lockPlacement(o)
	return vf08Keys(lockOn)
}

func vf08Keys(m map[int]bool) []int {
	var res []int
	for k := range m {
		res = append(res, k)
	}
	sort.Ints(res)
	return res
}

func vf08Flush(r *verifkit.Run, res vf08Result) {
	for k, n := range res.counts {
		r.Count(k, n)
	}
	for _, s := range res.seen {
		r.Seen(s[0], s[1])
	}
	for _, d := range res.distinct {
		r.Distinct(d)
	}
	for _, f := range res.findings {
		r.Violation(f.key, f.what, f.replay)
	}
}

func vf08RunCase(r *verifkit.Run, idx, nOps int) {
	c := vf08GenCase(r, idx, nOps)
	const maxAttempts = 60
	for a := 0; a < maxAttempts; a++ {
		var res vf08Result
		if r.Guard(map[string]any{"case_index": idx}, func() { res = vf08RunAttempt(r, c) }) {
			return
		}
		if res.orderMiss {
			r.Count("attempts_discarded_other_visiting_order", 1)
			continue
		}
		r.Eval(1)
		r.Count("cases_run_with_chosen_orders", 1)
		vf08Flush(r, res)
		if idx < 2 {
			r.Sample(map[string]any{"case_index": idx, "shards": c.nShards, "ops": res.opLog[:min(10, len(res.opLog))]})
		}
		return
	}
	r.Count("cases_skipped_orders_never_matched", 1)
}

// ---------------------------------------------------------------------------------
// constructed lock || tombstone schedules

type vf08Sched struct {
	idx          int
	nShards      int
	permL, permT []int
	lockFirst    bool  // which broadcast is started first
	turns        []int // interleaving: 0 = let the lock broadcast do its next blob write, 1 = the tombstone
	dupOn        int   // extra copy of the object on this shard (-1: none)
	gcOrder      []int
}

func vf08RunSchedule(r *verifkit.Run, idx int) {
	rng := r.Rand("sched", idx)
	s := vf08Sched{idx: idx, nShards: 2 + rng.IntN(2)}
	s.permL, s.permT, s.gcOrder = rng.Perm(s.nShards), rng.Perm(s.nShards), rng.Perm(s.nShards)
	s.lockFirst = rng.IntN(2) == 0
	for range 4 * vf08MaxShards {
		s.turns = append(s.turns, rng.IntN(2))
	}
	s.dupOn = rng.IntN(s.nShards+1) - 1
	for a := 0; a < 60; a++ {
		miss := false
		if r.Guard(map[string]any{"schedule_index": idx}, func() { miss = vf08RunScheduleOnce(r, s) }) {
			return
		}
		if !miss {
			return
		}
		r.Count("attempts_discarded_other_visiting_order", 1)
	}
	r.Count("cases_skipped_orders_never_matched", 1)
}

func vf08RunScheduleOnce(r *verifkit.Run, s vf08Sched) (orderMiss bool) {
	rng := r.Rand("sched-objects", s.idx)
	v, err := vf08NewEnv(rng, s.nShards, 0)
	if err != nil {
		r.Inconclusive("engine setup: " + err.Error())
		return false
	}
	defer v.close()
	ctx := context.Background()
	v.cnr, v.owner = verifkit.RandCID(rng), verifkit.RandUser(rng)
	xo := verifkit.NewObject(rng, v.cnr, v.owner, 64)
	x := &vf08Obj{label: "X", obj: xo, addr: xo.Address(), bin: xo.Marshal(), hdrBin: xo.CutPayload().Marshal()}
	lock := verifkit.NewObject(rng, v.cnr, v.owner, 0)
	verifkit.SetExpiration(lock, 100)
	lock.AssociateLocked(x.addr.Object())
	tomb := verifkit.NewObject(rng, v.cnr, v.owner, 0)
	verifkit.SetExpiration(tomb, 1000)
	tomb.AssociateDeleted(x.addr.Object())

	if err := v.e.Put(ctx, x.obj, nil); err != nil {
		r.Inconclusive("schedule setup put: " + err.Error())
		return false
	}
	if s.dupOn >= 0 {
		_ = v.shards[s.dupOn].sh.Put(x.obj, nil)
	}
	if ok, why := v.retrievable(x); !ok {
		r.Inconclusive("schedule setup: object not retrievable: " + why)
		return false
	}
	v.ctl.reset()
	gates := [2]*vf08Gate{{arrived: make(chan struct{}, 1), proceed: make(chan struct{})}, {arrived: make(chan struct{}, 1), proceed: make(chan struct{})}}
	v.ctl.mu.Lock()
	v.ctl.gates[lock.Address()] = gates[0]
	v.ctl.gates[tomb.Address()] = gates[1]
	v.ctl.mu.Unlock()

	var errs [2]error
	done := [2]chan struct{}{make(chan struct{}), make(chan struct{})}
	objs := [2]*object.Object{lock, tomb}
	perms := [2][]int{s.permL, s.permT}
	parked := [2]bool{}
	finished := [2]bool{}
	watchdog := time.After(3 * time.Minute)
	abort := false
	// await lets goroutine g run until it parks before its next blob write or returns.
	await := func(g int) {
		select {
		case <-gates[g].arrived:
			parked[g] = true
		case <-done[g]:
			finished[g] = true
		case <-watchdog:
			abort = true
		}
	}
	start := func(g int) {
		v.setOrder(perms[g])
		go func() { errs[g] = v.e.Put(ctx, objs[g], nil); close(done[g]) }()
		await(g)
	}
	first := 1
	if s.lockFirst {
		first = 0
	}
	start(first)
	if !abort {
		start(1 - first)
	}
	var trace []byte
	for ti := 0; !abort && !(finished[0] && finished[1]); ti++ {
		g := s.turns[ti%len(s.turns)]
		if finished[g] {
			g = 1 - g
		}
		parked[g] = false
		gates[g].proceed <- struct{}{}
		trace = append(trace, "LT"[g])
		await(g)
	}
	if abort {
		// unblock whatever is parked so that the engine can be closed; verdict: none
		for g := range gates {
			go func() {
				for {
					select {
					case gates[g].proceed <- struct{}{}:
					case <-done[g]:
						return
					}
				}
			}()
		}
		<-done[0]
		<-done[1]
		r.Inconclusive("schedule watchdog fired")
		return false
	}
	errL, errT := errs[0], errs[1]
	gotL, gotT := v.ctl.visited(lock.Address()), v.ctl.visited(tomb.Address())
	for i := range gotL {
		if gotL[i] != s.permL[i] {
			return true
		}
	}
	for i := range gotT {
		if gotT[i] != s.permT[i] {
			return true
		}
	}
	r.Eval(1)
	r.Count("schedules_run", 1)
	sig := fmt.Sprintf("n%d|L:%s|T:%s|lockFirst=%v|writes:%s|dup=%d|errL=%v|errT=%v", s.nShards, vf08Perm(gotL), vf08Perm(gotT), s.lockFirst, trace, s.dupOn, errL == nil, errT == nil)
	r.Seen("lock_tombstone_interleavings_seen", fmt.Sprintf("first=%v writes=%s L ok=%v T ok=%v", map[bool]string{true: "L", false: "T"}[s.lockFirst], trace, errL == nil, errT == nil))
	r.Distinct("sched|" + sig)
	switch {
	case errL == nil && errT == nil:
		r.Count("schedules_both_accepted", 1)
	case errL == nil:
		r.Count("schedules_lock_accepted", 1)
	case errT == nil:
		r.Count("schedules_tombstone_accepted", 1)
	default:
		r.Count("schedules_both_rejected", 1)
	}
	if errL != nil {
		return false
	}
	x.locks = append(x.locks, vf08Lock{lock.Address(), 100})
	x.tombs = append(x.tombs, vf08Tomb{tomb.Address(), errT == nil})
	check := func(stage string) bool {
		ok, why, readClass := v.read(x)
		if ok {
			return true
		}
		holders, lockOn, rel := v.lockPlacement(x)
		cause, views := v.diagnose(x, holders, lockOn)
		tst := "tombstone-rejected"
		if errT == nil {
			tst = "tombstone-accepted"
		}
		r.Violation(fmt.Sprintf("lost|concurrent-lock-tombstone|%s|%s|%s|%s|%s", tst, stage, rel, readClass, cause),
			fmt.Sprintf("lock accepted concurrently with a tombstone broadcast (tombstone err=%s; first started: %v; blob writes interleaved as %s); %s the object is not retrievable: %s; object blob on %v, lock blobs on %v; shards' own views in read order: %s", vf08Err(errT), map[bool]string{true: "lock", false: "tombstone"}[s.lockFirst], trace, stage, why, holders, vf08Keys(lockOn), strings.Join(views, " ")),
			map[string]any{"schedule_index": s.idx, "shards": s.nShards, "lock_order": s.permL, "tombstone_order": s.permT, "lock_started_first": s.lockFirst,
				"blob_write_interleaving": string(trace), "duplicate_copy_on": s.dupOn, "lock_err": vf08Err(errL), "tombstone_err": vf08Err(errT),
				"lock_visited": gotL, "tombstone_visited": gotT, "stage": stage, "why": why,
				"read_failure": readClass, "cause": cause, "shard_views_in_read_order": views})
		return false
	}
	if !check("right-after") {
		return false
	}
	for _, i := range s.gcOrder {
		v.shards[i].sh.Verif08RunGC()
	}
	r.Count("schedules_gc_passes_with_lock_accepted", 1)
	check("after-gc")
	return false
}

// ---------------------------------------------------------------------------------

func TestVerif_C08(t *testing.T) {
	r := verifkit.Start(t, "C08", "exploration")
	defer r.Finish()
	cases, scheds, nOps := r.Pick(200, 4000), r.Pick(200, 4000), 18
	r.SetRule(fmt.Sprintf("(a) %d seeded histories x %d ops on engines with 2-3 real shards: object puts (with/without own expiration), lock puts (expiring 0-4 epochs ahead), tombstone puts, shard mode flips (rw/ro/degraded-ro), per-shard put-failure toggles, GC passes, epoch advances, evacuations; objects are first stored either while all shards serve or while one shard (possibly the one the engine prefers for them) is read-only/failing, so that they live away from their preferred shard; every broadcast runs in a seed-chosen shard visiting order (runs with another observed order are discarded and repeated). (b) %d constructed lock||tombstone schedules (both broadcasts parked before every blob write, seeded interleaving of the writes, both visiting orders and the starting broadcast chosen) followed by GC. distinct = (trigger op, shard modes/put failures, shards holding object / lock, visiting order) signatures of invariant checks on lock-protected objects and of tombstone attempts against them; schedule signatures", cases, nOps, scheds))
	r.Assume("a lock counts as accepted for a stored object when Put(lock) returned nil and Get of the target succeeded immediately before")
	r.Assume("the lock protects while epoch <= its expiration epoch; forced removals (Delete/Drop) are not part of the workload; shards have no write-cache; only put failures are injected, reads never fail")
	r.Assume("the order in which processExpiredObjects/isLocked visits shards cannot be observed; the chosen insertion order is realised there with probability >= 5/8")

	if p := os.Getenv("VERIF_REPLAY"); p != "" {
		var doc struct {
			Case struct {
				CaseIndex *int `json:"case_index"`
				SchedIdx  *int `json:"schedule_index"`
			} `json:"case"`
		}
		if b, err := os.ReadFile(p); err == nil && json.Unmarshal(b, &doc) == nil && (doc.Case.CaseIndex != nil || doc.Case.SchedIdx != nil) {
			if doc.Case.CaseIndex != nil {
				vf08RunCase(r, *doc.Case.CaseIndex, nOps)
			} else {
				vf08RunSchedule(r, *doc.Case.SchedIdx)
			}
			r.Distinct("replay-a")
			r.Distinct("replay-b")
			return
		}
	}

	var wg sync.WaitGroup
	ch := make(chan func())
	for range 4 {
		wg.Add(1)
		go func() {
			defer wg.Done()
			for f := range ch {
				f()
			}
		}()
	}
	for c := range cases {
		ch <- func() { vf08RunCase(r, c, nOps) }
	}
	for s := range scheds {
		ch <- func() { vf08RunSchedule(r, s) }
	}
	close(ch)
	wg.Wait()
	if r.Counter("protected_object_checks") == 0 || r.Counter("tombstone_attempts_on_protected_objects") == 0 || r.Counter("schedules_gc_passes_with_lock_accepted") == 0 {
		r.Inconclusive("no lock-protected object was exercised")
	}
	// (attempts, not rollbacks: a tree that rejects such tombstones before touching any shard is fine)
	if r.Counter("tombstone_attempts_on_protected_objects_stored_away_from_preferred_shard") == 0 {
		r.Inconclusive("no tombstone was tried against a lock-protected object stored away from its preferred shard")
	}
	if sk := r.Counter("cases_skipped_orders_never_matched"); sk*10 > int64(cases+scheds) {
		r.Inconclusive(fmt.Sprintf("%d cases never ran in their chosen visiting orders", sk))
	}
}
