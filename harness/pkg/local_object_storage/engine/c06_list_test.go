//go:build verif

package engine

// C06 monitor: "Cursor listing yields each available physical object exactly once".
//
// A real StorageEngine over 1-4 real shards (FSTree + bbolt metabase in temp dirs) is
// filled by a seeded history: engine puts (regular objects land on one shard, locks /
// tombstones / links are broadcast), direct shard puts (overlapping copies), default and
// redundant garbage marks (engine-wide and on single shards), container removals,
// physical deletions (Drop / Shard.Delete), GC passes.  Object and container IDs are
// adversarial (neighbouring IDs, common prefixes, 00..01 / FF..FF, same object ID in
// several containers).  At checkpoints every listing level
//
//	meta.DB.ListWithCursor (per shard), Shard.ListWithCursor (per shard),
//	StorageEngine.ListWithCursor
//
// is walked page by page with the returned cursor for page sizes 1..N+1 and from
// arbitrary constructed cursors.  The oracle is written from the statement:
//
//	must be listed      – a Put of the object was acknowledged for the shard, its blob is
//	                      on the shard's disk, and nothing marked it for removal
//	must not be listed  – never stored / physically deleted / virtual parent; a stored
//	                      tombstone targets it; it carries a default garbage mark; its
//	                      container was removed
//	not constrained     – redundant marks, marked-but-locked objects, expired objects,
//	                      relatives of removed parents, everything after a failed or
//	                      partially applied operation (the statement is silent there)
//
// plus the protocol demands: each address at most once per walk, 1..count items per page,
// the end is reported (ErrEndOfListing) and nothing else, the listed set is the same for
// every page size, engine items carry exactly the holder shards, and a walk from an
// arbitrary cursor yields exactly the part of the listing that lies after the cursor.

import (
	"context"
	"encoding/json"
	"errors"
	"fmt"
	"math/rand/v2"
	"os"
	"path/filepath"
	"slices"
	"sort"
	"strings"
	"sync"
	"sync/atomic"
	"testing"
	"time"

	"github.com/nspcc-dev/bbolt"
	iec "github.com/nspcc-dev/neofs-node/internal/ec"
	"github.com/nspcc-dev/neofs-node/internal/verifkit"
	objectcore "github.com/nspcc-dev/neofs-node/pkg/core/object"
	"github.com/nspcc-dev/neofs-node/pkg/local_object_storage/blobstor/common"
	"github.com/nspcc-dev/neofs-node/pkg/local_object_storage/blobstor/fstree"
	meta "github.com/nspcc-dev/neofs-node/pkg/local_object_storage/metabase"
	"github.com/nspcc-dev/neofs-node/pkg/local_object_storage/shard"
	cid "github.com/nspcc-dev/neofs-sdk-go/container/id"
	"github.com/nspcc-dev/neofs-sdk-go/object"
	oid "github.com/nspcc-dev/neofs-sdk-go/object/id"
	"github.com/nspcc-dev/neofs-sdk-go/user"
	"go.uber.org/zap"
)

// ---------------------------------------------------------------------------------
// universe

const (
	vf06Reg = iota
	vf06Child
	vf06ECPart
	vf06Link
	vf06Lock
	vf06Tomb
	vf06Parent // virtual: only its header travels inside children
	vf06Ghost  // never stored
)

var vf06KindName = [...]string{"regular", "split-child", "ec-part", "link", "lock", "tombstone", "virtual-parent", "never-stored"}

type vf06Obj struct {
	name   string
	kind   int
	ci     int
	obj    *object.Object
	addr   oid.Address
	target oid.Address // tombstone / lock
	parent oid.Address // root the object is a piece of
	exp    int64       // -1: none
}

type vf06Epoch struct{ v atomic.Uint64 }

func (e *vf06Epoch) CurrentEpoch() uint64 { return e.v.Load() }

type vf06Store struct {
	common.Storage
	id common.ID
}

func (s *vf06Store) Init(common.ID) error { return s.Storage.Init(s.id) }

const (
	vf06MarkNone uint8 = iota
	vf06MarkDefault
	vf06MarkRedundant
	vf06MarkUnknown
)

type vf06ShardSt struct {
	idx   int
	id    string
	sh    *shard.Shard
	db    *meta.DB
	fs    *fstree.FSTree
	acked map[oid.Address]bool  // a Put of the address is known to have succeeded on this shard
	fuzzy map[oid.Address]bool  // outcome on this shard is not determined by the statement
	mark  map[oid.Address]uint8 // removal marks set by acknowledged operations
	gone  map[cid.ID]uint8      // 0 live, 1 removed, 2 unknown
}

type vf06Case struct {
	r      *verifkit.Run
	caseNo int
	rng    *rand.Rand
	e      *StorageEngine
	es     *vf06Epoch
	shards []*vf06ShardSt
	cnrs   []cid.ID
	objs   []*vf06Obj
	byAddr map[oid.Address]*vf06Obj
	ops    []string
	ckpt   int
	nviol  int
}

const (
	vf06Must uint8 = iota
	vf06MustNot
	vf06Maybe
)

type vf06Exp struct {
	cls    uint8
	reason string
	// engine level only
	holdMust []string
	holdMay  []string
}

func vf06Neighbour(b [32]byte, rng *rand.Rand) [32]byte {
	i := 31
	if rng.IntN(4) == 0 {
		i = rng.IntN(32)
	}
	if rng.IntN(2) == 0 {
		b[i]++
	} else {
		b[i]--
	}
	return b
}

func vf06Extreme(rng *rand.Rand) [32]byte {
	var b [32]byte
	switch rng.IntN(4) {
	case 0:
		b[31] = 1
	case 1:
		for i := range b {
			b[i] = 0xFF
		}
	case 2:
		for i := range b {
			b[i] = 0xFF
		}
		b[31] = 0xFE
	default:
		b[0] = 1
	}
	return b
}

func (x *vf06Case) newCID() cid.ID {
	for {
		var c cid.ID
		switch v := x.rng.IntN(10); {
		case v < 3 && len(x.cnrs) > 0:
			c = cid.ID(vf06Neighbour([32]byte(x.cnrs[x.rng.IntN(len(x.cnrs))]), x.rng))
		case v < 4:
			c = cid.ID(vf06Extreme(x.rng))
		default:
			c = verifkit.RandCID(x.rng)
		}
		if c.IsZero() || slices.Contains(x.cnrs, c) {
			continue
		}
		return c
	}
}

func (x *vf06Case) newOID(ci int) oid.ID {
	for {
		var id oid.ID
		switch v := x.rng.IntN(12); {
		case v < 3 && len(x.objs) > 0: // neighbour of an existing ID (any container)
			id = oid.ID(vf06Neighbour([32]byte(x.objs[x.rng.IntN(len(x.objs))].addr.Object()), x.rng))
		case v < 5 && len(x.objs) > 0: // same object ID as in another container
			id = x.objs[x.rng.IntN(len(x.objs))].addr.Object()
		case v < 6:
			id = oid.ID(vf06Extreme(x.rng))
		case v < 7 && len(x.objs) > 0: // common 31-byte prefix
			id = x.objs[x.rng.IntN(len(x.objs))].addr.Object()
			id[31] = byte(x.rng.IntN(256))
		default:
			id = verifkit.RandOID(x.rng)
		}
		if id.IsZero() {
			continue
		}
		if _, dup := x.byAddr[oid.NewAddress(x.cnrs[ci], id)]; dup {
			continue
		}
		return id
	}
}

func (x *vf06Case) add(name string, kind, ci int, o *object.Object, id oid.ID) *vf06Obj {
	s := &vf06Obj{name: fmt.Sprintf("c%d.%s", ci, name), kind: kind, ci: ci, exp: -1}
	if o != nil {
		o.SetID(id)
		s.obj = o
	}
	s.addr = oid.NewAddress(x.cnrs[ci], id)
	x.objs = append(x.objs, s)
	x.byAddr[s.addr] = s
	return s
}

func (x *vf06Case) mkObj(ci int, owner user.ID, size int, exp int64) *object.Object {
	o := verifkit.NewObject(x.rng, x.cnrs[ci], owner, size)
	if x.rng.IntN(3) == 0 {
		verifkit.AddAttr(o, "k0", fmt.Sprint("v", x.rng.IntN(3)))
	}
	if x.rng.IntN(5) == 0 {
		verifkit.AddAttr(o, "k1-longer-attribute-name", fmt.Sprint("w", x.rng.IntN(3)))
	}
	if exp >= 0 {
		verifkit.SetExpiration(o, uint64(exp))
	}
	return o
}

func (x *vf06Case) expiration(p float64) int64 {
	if x.rng.Float64() < p {
		return int64(x.rng.IntN(10))
	}
	return -1
}

func (x *vf06Case) buildUniverse() {
	rng := x.rng
	owner := verifkit.RandUser(rng)
	nc := 1 + rng.IntN(5)
	for range nc {
		x.cnrs = append(x.cnrs, x.newCID())
	}
	budget := []int{0, 1, 2, 3, 5, 8, 12, 18, 26, 36}[rng.IntN(10)]
	for ci := range x.cnrs {
		if budget <= 0 || (nc > 1 && rng.IntN(6) == 0) {
			continue // empty container
		}
		n := 1 + rng.IntN(max(1, 2*budget/nc))
		budget -= n
		nreg := 0
		for i := 0; i < n; i++ {
			switch v := rng.IntN(20); {
			case v < 2 && n-i >= 3: // size-split object (V2): first, last, link + virtual root
				pexp := x.expiration(0.15)
				root := x.mkObj(ci, owner, 0, pexp)
				root.SetPayloadSize(uint64(16 + rng.IntN(64)))
				rid := x.newOID(ci)
				root.SetID(rid)
				noID := *root
				noID.ResetID()
				p := x.add(fmt.Sprintf("root%d", i), vf06Parent, ci, nil, rid)
				p.exp = pexp
				first := x.mkObj(ci, owner, 1+rng.IntN(32), -1)
				first.SetParent(&noID)
				f := x.add(fmt.Sprintf("first%d", i), vf06Child, ci, first, x.newOID(ci))
				last := x.mkObj(ci, owner, 1+rng.IntN(32), -1)
				last.SetFirstID(f.addr.Object())
				last.SetPreviousID(f.addr.Object())
				last.SetParent(root)
				l := x.add(fmt.Sprintf("last%d", i), vf06Child, ci, last, x.newOID(ci))
				link := x.mkObj(ci, owner, 8, -1)
				link.SetType(object.TypeLink)
				link.SetFirstID(f.addr.Object())
				link.SetParent(root)
				k := x.add(fmt.Sprintf("link%d", i), vf06Link, ci, link, x.newOID(ci))
				f.parent, l.parent, k.parent = p.addr, p.addr, p.addr
				i += 2
			case v < 4 && n-i >= 2: // EC parts + virtual parent
				pexp := x.expiration(0.15)
				par := x.mkObj(ci, owner, 0, pexp)
				par.SetPayloadSize(uint64(16 + rng.IntN(64)))
				pid := x.newOID(ci)
				par.SetID(pid)
				p := x.add(fmt.Sprintf("ecroot%d", i), vf06Parent, ci, nil, pid)
				p.exp = pexp
				for k := range 2 {
					o := x.mkObj(ci, owner, 1+rng.IntN(32), -1)
					o.SetParent(par)
					verifkit.AddAttr(o, iec.AttributeRuleIdx, "0")
					verifkit.AddAttr(o, iec.AttributePartIdx, fmt.Sprint(k))
					c := x.add(fmt.Sprintf("ec%d.%d", i, k), vf06ECPart, ci, o, x.newOID(ci))
					c.parent = p.addr
				}
				i++
			default:
				exp := x.expiration(0.12)
				s := x.add(fmt.Sprintf("r%d", nreg), vf06Reg, ci, x.mkObj(ci, owner, rng.IntN(48), exp), x.newOID(ci))
				s.exp = exp
				nreg++
			}
		}
		// ghosts: known addresses that are never stored (used as tombstone/lock targets and cursors)
		for g := range 1 + rng.IntN(2) {
			x.add(fmt.Sprintf("ghost%d", g), vf06Ghost, ci, nil, x.newOID(ci))
		}
		// tombstones and locks
		var inCnr []*vf06Obj
		for _, s := range x.objs {
			if s.ci == ci {
				inCnr = append(inCnr, s)
			}
		}
		pick := func(kinds ...int) oid.Address {
			var c []*vf06Obj
			for _, s := range inCnr {
				if slices.Contains(kinds, s.kind) {
					c = append(c, s)
				}
			}
			if len(c) == 0 {
				return inCnr[rng.IntN(len(inCnr))].addr
			}
			return c[rng.IntN(len(c))].addr
		}
		target := func() oid.Address {
			switch v := rng.IntN(100); {
			case v < 62:
				return pick(vf06Reg)
			case v < 72:
				return pick(vf06Parent)
			case v < 84:
				return pick(vf06Child, vf06ECPart, vf06Link)
			case v < 92:
				return pick(vf06Ghost)
			default:
				return pick(vf06Lock, vf06Tomb)
			}
		}
		nas := rng.IntN(2 + n/2)
		for a := range nas {
			exp := x.expiration(0.3)
			o := x.mkObj(ci, owner, 0, exp)
			o.SetPayload(nil)
			t := target()
			var s *vf06Obj
			if rng.IntN(5) < 2 {
				o.AssociateLocked(t.Object())
				s = x.add(fmt.Sprintf("lock%d", a), vf06Lock, ci, o, x.newOID(ci))
			} else {
				o.AssociateDeleted(t.Object())
				s = x.add(fmt.Sprintf("tomb%d", a), vf06Tomb, ci, o, x.newOID(ci))
			}
			s.target, s.exp = t, exp
			inCnr = append(inCnr, s)
		}
	}
}

func (x *vf06Case) describe() []string {
	var res []string
	for _, s := range x.objs {
		d := fmt.Sprintf("%s %s %s", s.name, vf06KindName[s.kind], s.addr.Object().EncodeToString())
		if !s.target.Object().IsZero() {
			if t := x.byAddr[s.target]; t != nil {
				d += " target=" + t.name
			}
		}
		if !s.parent.Object().IsZero() {
			if t := x.byAddr[s.parent]; t != nil {
				d += " parent=" + t.name
			}
		}
		if s.exp >= 0 {
			d += fmt.Sprintf(" exp=%d", s.exp)
		}
		res = append(res, d)
	}
	return res
}

// ---------------------------------------------------------------------------------
// engine construction

func (x *vf06Case) addShard(dir string) error {
	idx := len(x.shards)
	id, err := common.NewIDFromBytes(verifkit.RandBytes(x.rng, common.IDSize))
	if err != nil {
		return err
	}
	fs := fstree.New(
		fstree.WithPath(filepath.Join(dir, fmt.Sprintf("fs%d", idx))),
		fstree.WithDepth(1),
		fstree.WithNoSync(true))
	bopts := *bbolt.DefaultOptions
	bopts.NoSync = true
	bopts.NoGrowSync = true
	bopts.NoFreelistSync = true
	bopts.Timeout = 5 * time.Second
	got, err := x.e.AddShard(
		shard.WithLogger(zap.NewNop()),
		shard.WithBlobstor(&vf06Store{Storage: fs, id: id}),
		shard.WithMetaBaseOptions(
			meta.WithPath(filepath.Join(dir, fmt.Sprintf("meta%d", idx))),
			meta.WithPermissions(0o600),
			meta.WithEpochState(x.es),
			meta.WithMaxBatchDelay(time.Microsecond),
			meta.WithMaxBatchSize(1),
			meta.WithLogger(zap.NewNop()),
			meta.WithBoltDBOptions(&bopts),
		),
		shard.WithGCRemoverSleepInterval(1000*time.Hour), // GC passes are driven by the monitor
		shard.WithRemoverBatchSize(1+x.rng.IntN(8)),
	)
	if err != nil {
		return err
	}
	if got != id {
		return fmt.Errorf("shard id %s differs from the pinned one %s", got, id)
	}
	sh := x.e.getShard(id.String()).Shard
	x.shards = append(x.shards, &vf06ShardSt{idx: idx, id: id.String(), sh: sh, db: sh.Verif06Meta(), fs: fs,
		acked: map[oid.Address]bool{}, fuzzy: map[oid.Address]bool{}, mark: map[oid.Address]uint8{}, gone: map[cid.ID]uint8{}})
	return nil
}

func (s *vf06ShardSt) blob(a oid.Address) bool {
	ok, err := s.fs.Exists(a)
	return err == nil && ok
}

// ---------------------------------------------------------------------------------
// history (the model is driven by what the engine/shards acknowledged)

func (x *vf06Case) physical() []*vf06Obj {
	var res []*vf06Obj
	for _, s := range x.objs {
		if s.obj != nil {
			res = append(res, s)
		}
	}
	return res
}

func (x *vf06Case) logOp(format string, a ...any) {
	x.ops = append(x.ops, fmt.Sprintf(format, a...))
}

func vf06Err(err error) string {
	if err == nil {
		return "ok"
	}
	s := err.Error()
	if len(s) > 70 {
		s = s[:70]
	}
	return "err:" + s
}

// touched tells whether the address (or the root it belongs to) was ever subject of a
// removal action on the shard; a later successful Put is then outside the statement.
func (x *vf06Case) touched(s *vf06ShardSt, o *vf06Obj) bool {
	if s.mark[o.addr] != vf06MarkNone || s.gone[o.addr.Container()] != 0 {
		return true
	}
	if !o.parent.Object().IsZero() && s.mark[o.parent] != vf06MarkNone {
		return true
	}
	for _, t := range x.objs {
		if t.kind == vf06Tomb && (t.target == o.addr || (!o.parent.Object().IsZero() && t.target == o.parent)) && (s.acked[t.addr] || s.fuzzy[t.addr]) {
			return true
		}
	}
	return false
}

func (x *vf06Case) afterPut(s *vf06ShardSt, o *vf06Obj) {
	if x.touched(s, o) || (s.acked[o.addr] && !s.blob(o.addr)) {
		s.fuzzy[o.addr] = true
	}
	if s.gone[o.addr.Container()] == 1 {
		s.gone[o.addr.Container()] = 2 // accepted into a removed container: the bucket was cleaned up meanwhile
	}
	s.acked[o.addr] = true
	if o.kind == vf06Tomb && s.mark[o.target] == vf06MarkNone {
		// whether the target keeps a mark of its own after the tombstone is gone is not
		// something the statement settles
		s.mark[o.target] = vf06MarkUnknown
	}
}

func (x *vf06Case) opPutEngine(o *vf06Obj) {
	before := make([]bool, len(x.shards))
	for i, s := range x.shards {
		before[i] = s.blob(o.addr)
	}
	err := x.e.Put(context.Background(), o.obj, nil)
	x.logOp("engine.Put(%s)->%s", o.name, vf06Err(err))
	x.r.Count("ops_engine_put_"+vf06OK(err), 1)
	for i, s := range x.shards {
		now := s.blob(o.addr)
		switch {
		case err == nil && now && !before[i]:
			x.afterPut(s, o)
		case err == nil:
			// untouched shard (already there / not chosen)
		default:
			// failed (possibly partially applied and rolled back) put: not constrained
			if now != before[i] || now || o.kind == vf06Tomb || o.kind == vf06Lock {
				s.fuzzy[o.addr] = true
				if o.kind == vf06Tomb {
					x.fuzzTarget(s, o.target)
				}
			}
		}
	}
}

func (x *vf06Case) fuzzTarget(s *vf06ShardSt, t oid.Address) {
	s.fuzzy[t] = true
	for _, c := range x.objs {
		if c.parent == t {
			s.fuzzy[c.addr] = true
		}
	}
}

func vf06OK(err error) string {
	if err == nil {
		return "ok"
	}
	return "rejected"
}

func (x *vf06Case) opPutShard(s *vf06ShardSt, o *vf06Obj) {
	had := s.acked[o.addr] && s.blob(o.addr)
	err := s.sh.Put(o.obj, nil)
	x.logOp("shard%d.Put(%s)->%s", s.idx, o.name, vf06Err(err))
	x.r.Count("ops_shard_put_"+vf06OK(err), 1)
	if err == nil {
		x.afterPut(s, o)
		return
	}
	if had {
		// a rejected re-put removes the blob of a copy that was stored before
		s.fuzzy[o.addr] = true
	}
	// a rejected shard put is rolled back as a whole (metabase transaction + blob), so the
	// target of a rejected tombstone is not affected
}

func (x *vf06Case) setMark(s *vf06ShardSt, a oid.Address, redundant bool) {
	old := s.mark[a]
	switch {
	case !redundant:
		s.mark[a] = vf06MarkDefault
	case old == vf06MarkNone:
		s.mark[a] = vf06MarkRedundant
	}
}

func (x *vf06Case) opMark(s *vf06ShardSt, o *vf06Obj, redundant bool) {
	mk := meta.GarbageMarkDefault
	if redundant {
		mk = meta.GarbageMarkRedundant
	}
	var err error
	if s == nil {
		err = x.e.Delete(context.Background(), o.addr, mk)
		x.logOp("engine.Delete(%s,redundant=%v)->%s", o.name, redundant, vf06Err(err))
	} else {
		err = s.sh.MarkGarbage(o.addr.Container(), []oid.ID{o.addr.Object()}, mk)
		x.logOp("shard%d.MarkGarbage(%s,redundant=%v)->%s", s.idx, o.name, redundant, vf06Err(err))
	}
	x.r.Count(fmt.Sprintf("ops_mark_redundant=%v_%s", redundant, vf06OK(err)), 1)
	// engine.Delete stops at the first shard that reports the address (or its root) as
	// already removed; what the other shards get then is not constrained
	clean := true
	if s == nil {
		for _, t := range x.shards {
			tb, tm, _ := x.tombLockFacts(t, o.addr)
			if tb || tm || t.fuzzy[o.addr] {
				clean = false
			}
			if !o.parent.Object().IsZero() {
				pb, pm, _ := x.tombLockFacts(t, o.parent)
				if pb || pm || t.fuzzy[o.parent] || t.mark[o.parent] != vf06MarkNone {
					clean = false
				}
			}
		}
	}
	for _, t := range x.shards {
		if s != nil && t != s {
			continue
		}
		if err != nil {
			x.fuzzTarget(t, o.addr)
			continue
		}
		if s == nil && (!clean || (!(t.acked[o.addr] && t.blob(o.addr)) && o.kind != vf06Parent)) {
			// engine.Delete acts where the object is; whether a mark for an absent address
			// sticks on the other shards is not constrained
			if t.mark[o.addr] == vf06MarkNone {
				t.mark[o.addr] = vf06MarkUnknown
			}
			continue
		}
		x.setMark(t, o.addr, redundant)
	}
}

func (x *vf06Case) opGone(s *vf06ShardSt, ci int) {
	var err error
	if s == nil {
		err = x.e.InhumeContainer(context.Background(), x.cnrs[ci])
		x.logOp("engine.InhumeContainer(c%d)->%s", ci, vf06Err(err))
	} else {
		err = s.sh.InhumeContainer(x.cnrs[ci])
		x.logOp("shard%d.InhumeContainer(c%d)->%s", s.idx, ci, vf06Err(err))
	}
	x.r.Count("ops_container_removal_"+vf06OK(err), 1)
	for _, t := range x.shards {
		if s != nil && t != s {
			continue
		}
		if err != nil {
			t.gone[x.cnrs[ci]] = 2
		} else if t.gone[x.cnrs[ci]] == 0 {
			t.gone[x.cnrs[ci]] = 1
		}
	}
}

func (x *vf06Case) opDelete(s *vf06ShardSt, o *vf06Obj) {
	var err error
	if s == nil {
		err = x.e.Drop(context.Background(), o.addr)
		x.logOp("engine.Drop(%s)->%s", o.name, vf06Err(err))
	} else {
		err = s.sh.Delete(o.addr.Container(), []oid.ID{o.addr.Object()})
		x.logOp("shard%d.Delete(%s)->%s", s.idx, o.name, vf06Err(err))
	}
	x.r.Count("ops_physical_delete_"+vf06OK(err), 1)
	for _, t := range x.shards {
		if s != nil && t != s {
			continue
		}
		if err != nil {
			x.fuzzTarget(t, o.addr)
			continue
		}
		if t.blob(o.addr) {
			// acknowledged deletion left the blob: listing of the leftover is not constrained
			t.fuzzy[o.addr] = true
		}
		t.acked[o.addr] = false
	}
}

func (x *vf06Case) runHistory() {
	rng := x.rng
	type op struct {
		kind string
		o    *vf06Obj
		s    int // -1: engine
		ci   int
		red  bool
	}
	var ops []op
	phys := x.physical()
	perm := rng.Perm(len(phys))
	for _, pi := range perm {
		o := phys[pi]
		if rng.IntN(12) == 0 {
			continue // planned but never uploaded
		}
		if rng.IntN(10) < 7 {
			ops = append(ops, op{kind: "put", o: o, s: -1})
		} else {
			ops = append(ops, op{kind: "put", o: o, s: rng.IntN(len(x.shards))})
		}
		if o.kind != vf06Tomb && o.kind != vf06Lock { // overlapping copies
			for si := range x.shards {
				if rng.IntN(10) < 3 {
					ops = append(ops, op{kind: "put", o: o, s: si})
				}
			}
		}
	}
	// keep pieces of one root roughly together but in random order: a light shuffle
	for i := range ops {
		if j := i + rng.IntN(4); j < len(ops) && rng.IntN(2) == 0 {
			ops[i], ops[j] = ops[j], ops[i]
		}
	}
	nrm := 0
	if len(phys) > 0 {
		nrm = rng.IntN(3 + len(phys)/2)
	}
	insert := func(o op) {
		lo := len(ops) / 3
		at := lo + rng.IntN(len(ops)-lo+1)
		ops = slices.Insert(ops, at, o)
	}
	anyObj := func() *vf06Obj {
		// mostly physical objects, sometimes virtual parents and ghosts
		if rng.IntN(8) == 0 {
			return x.objs[rng.IntN(len(x.objs))]
		}
		return phys[rng.IntN(len(phys))]
	}
	shardOrEngine := func(pEngine int) int {
		if rng.IntN(100) < pEngine {
			return -1
		}
		return rng.IntN(len(x.shards))
	}
	for range nrm {
		switch v := rng.IntN(100); {
		case v < 30:
			insert(op{kind: "mark", o: anyObj(), s: shardOrEngine(65)})
		case v < 45:
			insert(op{kind: "mark", o: anyObj(), s: shardOrEngine(65), red: true})
		case v < 57:
			insert(op{kind: "gone", ci: rng.IntN(len(x.cnrs)), s: shardOrEngine(65)})
		case v < 80:
			insert(op{kind: "delete", o: anyObj(), s: shardOrEngine(50)})
		case v < 92:
			insert(op{kind: "gc", s: rng.IntN(len(x.shards))})
		default:
			insert(op{kind: "reput", o: phys[rng.IntN(len(phys))], s: shardOrEngine(50)})
		}
	}
	if rng.IntN(3) == 0 {
		insert(op{kind: "epoch"})
	}
	mid := -1
	if len(ops) > 4 && rng.IntN(2) == 0 {
		mid = len(ops)/2 + rng.IntN(len(ops)/2)
	}
	sh := func(i int) *vf06ShardSt {
		if i < 0 {
			return nil
		}
		return x.shards[i]
	}
	for i, o := range ops {
		switch o.kind {
		case "put", "reput":
			if o.s < 0 {
				x.opPutEngine(o.o)
			} else {
				x.opPutShard(x.shards[o.s], o.o)
			}
		case "mark":
			x.opMark(sh(o.s), o.o, o.red)
		case "gone":
			x.opGone(sh(o.s), o.ci)
		case "delete":
			x.opDelete(sh(o.s), o.o)
		case "gc":
			x.shards[o.s].sh.Verif06RunGC()
			x.logOp("shard%d.GC", o.s)
			x.r.Count("ops_gc_pass", 1)
		case "epoch":
			e := uint64(1 + rng.IntN(11))
			x.es.v.Store(e)
			x.logOp("epoch=%d", e)
			x.r.Count("ops_epoch_advance", 1)
		}
		if i == mid {
			x.check()
		}
	}
	x.check()
}

// ---------------------------------------------------------------------------------
// oracle

func (x *vf06Case) tombLockFacts(s *vf06ShardSt, a oid.Address) (tomb, tombMaybe, lockEver bool) {
	for _, t := range x.objs {
		if t.target != a {
			continue
		}
		switch t.kind {
		case vf06Tomb:
			switch {
			case s.fuzzy[t.addr]:
				tombMaybe = true
			case s.acked[t.addr] && s.blob(t.addr):
				tomb = true
			}
		case vf06Lock:
			if s.acked[t.addr] || s.fuzzy[t.addr] {
				lockEver = true
			}
		}
	}
	return
}

func (x *vf06Case) expectShard(s *vf06ShardSt, o *vf06Obj) vf06Exp {
	switch o.kind {
	case vf06Ghost:
		return vf06Exp{cls: vf06MustNot, reason: "never-stored"}
	case vf06Parent:
		return vf06Exp{cls: vf06MustNot, reason: "virtual-parent"}
	}
	if s.fuzzy[o.addr] {
		return vf06Exp{cls: vf06Maybe, reason: "after-failed-or-repeated-operation"}
	}
	if !s.acked[o.addr] {
		return vf06Exp{cls: vf06MustNot, reason: "not-stored"}
	}
	if !s.blob(o.addr) {
		return vf06Exp{cls: vf06MustNot, reason: "physically-deleted"}
	}
	switch s.gone[o.addr.Container()] {
	case 1:
		return vf06Exp{cls: vf06MustNot, reason: "container-removed"}
	case 2:
		return vf06Exp{cls: vf06Maybe, reason: "container-state-unknown"}
	}
	tomb, tombMaybe, lockEver := x.tombLockFacts(s, o.addr)
	if tomb {
		if lockEver {
			return vf06Exp{cls: vf06Maybe, reason: "tombstoned-and-locked"}
		}
		return vf06Exp{cls: vf06MustNot, reason: "tombstoned"}
	}
	if tombMaybe {
		return vf06Exp{cls: vf06Maybe, reason: "tombstone-outcome-unknown"}
	}
	switch s.mark[o.addr] {
	case vf06MarkDefault:
		if lockEver {
			return vf06Exp{cls: vf06Maybe, reason: "marked-and-locked"}
		}
		return vf06Exp{cls: vf06MustNot, reason: "garbage-marked"}
	case vf06MarkRedundant:
		return vf06Exp{cls: vf06Maybe, reason: "redundant-mark"}
	case vf06MarkUnknown:
		return vf06Exp{cls: vf06Maybe, reason: "mark-unknown"}
	}
	if !o.parent.Object().IsZero() {
		pt, ptm, _ := x.tombLockFacts(s, o.parent)
		if pt || ptm || s.mark[o.parent] != vf06MarkNone || s.fuzzy[o.parent] {
			return vf06Exp{cls: vf06Maybe, reason: "relative-of-removed-root"}
		}
	}
	if o.exp >= 0 && x.es.v.Load() > uint64(o.exp) {
		return vf06Exp{cls: vf06Maybe, reason: "expired"}
	}
	return vf06Exp{cls: vf06Must, reason: "stored-unmarked"}
}

func (x *vf06Case) expectEngine(o *vf06Obj) vf06Exp {
	res := vf06Exp{cls: vf06MustNot}
	rank := func(r string) int {
		switch r {
		case "never-stored", "virtual-parent":
			return 0
		case "not-stored":
			return 1
		case "physically-deleted":
			return 2
		}
		return 3
	}
	anyMaybe := false
	for _, s := range x.shards {
		e := x.expectShard(s, o)
		switch e.cls {
		case vf06Must:
			res.holdMust = append(res.holdMust, s.id)
			res.holdMay = append(res.holdMay, s.id)
		case vf06Maybe:
			anyMaybe = true
			res.holdMay = append(res.holdMay, s.id)
		default:
			if res.reason == "" || rank(e.reason) > rank(res.reason) {
				res.reason = e.reason
			}
		}
	}
	switch {
	case len(res.holdMust) > 0:
		res.cls, res.reason = vf06Must, "stored-unmarked"
	case anyMaybe:
		res.cls, res.reason = vf06Maybe, "unconstrained-on-some-shard"
	}
	return res
}

// ---------------------------------------------------------------------------------
// listers and walks

type vf06Lister struct {
	level string
	shard int // -1: engine
	list  func(count int, cur any, attrs []string) ([]objectcore.AddressWithAttributes, any, error)
	mk    func(cnr cid.ID, id oid.ID) any
	endOf func(err error) bool
}

func (x *vf06Case) listers() []*vf06Lister {
	var res []*vf06Lister
	for _, s := range x.shards {
		res = append(res, &vf06Lister{level: "metabase", shard: s.idx,
			list: func(count int, cur any, attrs []string) ([]objectcore.AddressWithAttributes, any, error) {
				var c *meta.Cursor
				if cur != nil {
					c = cur.(*meta.Cursor)
				}
				items, nc, err := s.db.ListWithCursor(count, c, attrs...)
				if nc == nil {
					return items, nil, err
				}
				return items, nc, err
			},
			mk:    func(cnr cid.ID, id oid.ID) any { return meta.NewCursor(cnr, id) },
			endOf: func(err error) bool { return errors.Is(err, meta.ErrEndOfListing) },
		})
		res = append(res, &vf06Lister{level: "shard", shard: s.idx,
			list: func(count int, cur any, attrs []string) ([]objectcore.AddressWithAttributes, any, error) {
				var c *shard.Cursor
				if cur != nil {
					c = cur.(*shard.Cursor)
				}
				items, nc, err := s.sh.ListWithCursor(count, c, attrs...)
				if nc == nil {
					return items, nil, err
				}
				return items, nc, err
			},
			mk:    func(cnr cid.ID, id oid.ID) any { return shard.NewCursor(cnr, id) },
			endOf: func(err error) bool { return errors.Is(err, shard.ErrEndOfListing) },
		})
	}
	res = append(res, &vf06Lister{level: "engine", shard: -1,
		list: func(count int, cur any, attrs []string) ([]objectcore.AddressWithAttributes, any, error) {
			var c *Cursor
			if cur != nil {
				c = cur.(*Cursor)
			}
			items, nc, err := x.e.ListWithCursor(context.Background(), uint32(count), c, attrs...)
			if nc == nil {
				return items, nil, err
			}
			return items, nc, err
		},
		mk:    func(cnr cid.ID, id oid.ID) any { return NewCursor(cnr, id) },
		endOf: func(err error) bool { return errors.Is(err, ErrEndOfListing) },
	})
	return res
}

type vf06Item struct {
	addr   oid.Address
	shards []string
}

type vf06Walk struct {
	seq     []vf06Item
	pages   []int // index in seq where each page starts
	ended   bool
	calls   int
	problem string
	detail  string
}

func (x *vf06Case) walk(l *vf06Lister, page int, cur any, attrs []string, maxItems int) vf06Walk {
	var w vf06Walk
	for w.calls = 0; w.calls < maxItems+4; {
		items, nc, err := l.list(page, cur, attrs)
		w.calls++
		x.r.Count("list_calls_"+l.level, 1)
		if err != nil {
			if l.endOf(err) {
				if len(items) != 0 {
					w.problem, w.detail = "items-with-end", fmt.Sprintf("%d items returned together with the end of listing", len(items))
				}
				w.ended = true
			} else {
				w.problem, w.detail = "error", err.Error()
			}
			return w
		}
		if len(items) == 0 {
			w.problem, w.detail = "empty-page", "no items, no end of listing"
			return w
		}
		if len(items) > page {
			w.problem, w.detail = "page-overflow", fmt.Sprintf("%d items for page size %d", len(items), page)
		}
		w.pages = append(w.pages, len(w.seq))
		for _, it := range items {
			w.seq = append(w.seq, vf06Item{addr: it.Address, shards: slices.Clone(it.ShardIDs)})
		}
		if nc == nil {
			w.problem, w.detail = "nil-cursor", "items returned without a cursor to continue from"
			return w
		}
		cur = nc
	}
	w.problem, w.detail = "no-end", fmt.Sprintf("listing did not end within %d calls", w.calls)
	return w
}

func (x *vf06Case) violation(l *vf06Lister, key, what string, extra map[string]any) {
	x.nviol++
	if x.nviol > 12 {
		return
	}
	rep := map[string]any{"case_index": x.caseNo, "checkpoint": x.ckpt, "level": l.level, "shard": l.shard,
		"shards": len(x.shards), "epoch": x.es.v.Load(), "ops": x.ops, "universe": x.describe()}
	for k, v := range extra {
		rep[k] = v
	}
	x.r.Violation(l.level+"|"+key, fmt.Sprintf("case %d checkpoint %d, %s listing (shard %d of %d): %s", x.caseNo, x.ckpt, l.level, l.shard, len(x.shards), what), rep)
}

func (x *vf06Case) name(a oid.Address) string {
	if o := x.byAddr[a]; o != nil {
		return o.name
	}
	return "foreign:" + a.String()
}

func vf06SetEq(a, b []string) bool {
	if len(a) != len(b) {
		return false
	}
	a, b = slices.Clone(a), slices.Clone(b)
	sort.Strings(a)
	sort.Strings(b)
	return slices.Equal(a, b)
}

// judgeFull checks one full walk (from the nil cursor) against the expectations.
func (x *vf06Case) judgeFull(l *vf06Lister, exp map[oid.Address]vf06Exp, w vf06Walk, page int, attrs []string) map[oid.Address]bool {
	info := map[string]any{"page_size": page, "attrs": attrs}
	if w.problem != "" {
		x.violation(l, "protocol|"+w.problem, fmt.Sprintf("page size %d: %s", page, w.detail), info)
	}
	seen := map[oid.Address]bool{}
	for _, it := range w.seq {
		o := x.byAddr[it.addr]
		if seen[it.addr] {
			kind := "foreign"
			if o != nil {
				kind = vf06KindName[o.kind]
			}
			multi := ""
			if len(it.shards) > 1 {
				multi = "|multi-shard"
			}
			x.violation(l, "listed-twice|"+kind+multi, fmt.Sprintf("page size %d: %s is listed more than once", page, x.name(it.addr)), info)
			continue
		}
		seen[it.addr] = true
		if o == nil {
			x.violation(l, "listed-unknown-address", fmt.Sprintf("page size %d: %s was never stored", page, it.addr), info)
			continue
		}
		e := exp[it.addr]
		if e.cls == vf06MustNot {
			x.violation(l, "listed-removed|"+e.reason+"|"+vf06KindName[o.kind], fmt.Sprintf("page size %d: %s (%s) is listed although it is %s", page, o.name, vf06KindName[o.kind], e.reason), info)
		}
		if l.shard < 0 {
			ids := slices.Clone(it.shards)
			sort.Strings(ids)
			if len(slices.Compact(slices.Clone(ids))) != len(ids) {
				x.violation(l, "holders-duplicated", fmt.Sprintf("page size %d: %s lists a holder shard twice: %v", page, o.name, it.shards), info)
			}
			for _, h := range e.holdMust {
				if !slices.Contains(it.shards, h) {
					x.violation(l, "holder-missing", fmt.Sprintf("page size %d: %s is available on shard %s which is not recorded (%d recorded, %d expected)", page, o.name, h, len(it.shards), len(e.holdMust)), info)
					break
				}
			}
			for _, h := range it.shards {
				if e.cls != vf06MustNot && !slices.Contains(e.holdMay, h) {
					x.violation(l, "holder-extra", fmt.Sprintf("page size %d: %s records shard %s which does not hold an available copy", page, o.name, h), info)
					break
				}
			}
			if len(it.shards) == 0 {
				x.violation(l, "holders-empty", fmt.Sprintf("page size %d: %s has no holder shard recorded", page, o.name), info)
			}
		}
	}
	if w.problem == "" || w.problem == "page-overflow" {
		for a, e := range exp {
			if e.cls == vf06Must && !seen[a] {
				o := x.byAddr[a]
				multi := ""
				if len(e.holdMust) > 1 {
					multi = "|multi-shard"
				}
				x.violation(l, "missing|"+vf06KindName[o.kind]+multi, fmt.Sprintf("page size %d: available object %s (%s) is not listed", page, o.name, vf06KindName[o.kind]), info)
			}
		}
	}
	return seen
}

func vf06Less(a, b oid.Address) bool { return a.Compare(b) < 0 }

// check walks every listing level in the current state.
func (x *vf06Case) check() {
	x.ckpt++
	x.r.Eval(1)
	thorough := x.r.Thorough()
	attrSets := [][]string{nil, nil, nil, {"k0"}, {"k1-longer-attribute-name", "k0"}, {object.AttributeExpirationEpoch}}

	// all universe addresses in address order (used for the "page break next to a removed
	// object" observation)
	all := make([]oid.Address, 0, len(x.objs))
	for _, o := range x.objs {
		all = append(all, o.addr)
	}
	slices.SortFunc(all, func(a, b oid.Address) int { return a.Compare(b) })

	perShard := map[int]map[oid.Address]bool{} // canonical metabase listing of each shard
	for _, l := range x.listers() {
		exp := map[oid.Address]vf06Exp{}
		nMust, nMustNotStored, nMaybe, nMulti := 0, 0, 0, 0
		for _, o := range x.objs {
			var e vf06Exp
			if l.shard < 0 {
				e = x.expectEngine(o)
			} else {
				e = x.expectShard(x.shards[l.shard], o)
			}
			exp[o.addr] = e
			switch e.cls {
			case vf06Must:
				nMust++
				if len(e.holdMust) > 1 {
					nMulti++
				}
			case vf06Maybe:
				nMaybe++
			default:
				switch e.reason {
				case "tombstoned", "garbage-marked", "container-removed":
					nMustNotStored++
					x.r.Count("expect_"+l.level+"_omitted_"+e.reason, 1)
				}
			}
		}
		x.r.Count("expect_"+l.level+"_must", nMust)
		x.r.Count("expect_"+l.level+"_unconstrained", nMaybe)
		upper := nMust + nMaybe

		// canonical walk: page size 1
		base := x.walk(l, 1, nil, nil, len(x.objs)+2)
		canon := x.judgeFull(l, exp, base, 1, nil)
		x.r.Count("walks_"+l.level, 1)
		n := len(base.seq)
		if n > upper {
			upper = n
		}
		if l.level == "metabase" {
			perShard[l.shard] = canon
		}
		order := make([]oid.Address, 0, n)
		for _, it := range base.seq {
			order = append(order, it.addr)
		}
		sorted := slices.IsSortedFunc(order, func(a, b oid.Address) int { return a.Compare(b) })
		if sorted {
			x.r.Count("canonical_walks_in_address_order", 1)
		} else {
			x.r.Count("canonical_walks_not_in_address_order", 1)
		}
		if l.shard < 0 {
			// the engine records exactly the shards whose own listing shows the object
			eq, ne := 0, 0
			for _, it := range base.seq {
				var want []string
				for _, s := range x.shards {
					if perShard[s.idx][it.addr] {
						want = append(want, s.id)
					}
				}
				if vf06SetEq(want, it.shards) {
					eq++
				} else {
					ne++
				}
			}
			x.r.Count("engine_items_holders_equal_shard_listings", eq)
			x.r.Count("engine_items_holders_differ_from_shard_listings", ne)
			if nMulti > 0 {
				x.r.Count("engine_multi_shard_objects_expected", nMulti)
			}
		}
		if n >= 2 {
			x.r.Distinct(fmt.Sprintf("%s|n%d|must%d|omit%d|maybe%d|multi%d|c%d|s%d", l.level, n, nMust, nMustNotStored, nMaybe, nMulti, len(x.cnrs), len(x.shards)))
		}

		// page sizes 2..upper+1
		var pages []int
		for p := 2; p <= upper+1; p++ {
			pages = append(pages, p)
		}
		limit := 10
		if l.level == "shard" {
			limit = 3
		}
		if thorough {
			limit *= 4
		}
		if len(pages) > limit {
			// always keep 2, 3, n-1, n, n+1; sample the rest
			keep := map[int]bool{2: true, 3: true, n - 1: true, n: true, n + 1: true, upper + 1: true}
			x.rng.Shuffle(len(pages), func(i, j int) { pages[i], pages[j] = pages[j], pages[i] })
			var sel []int
			for _, p := range pages {
				if keep[p] || len(sel) < limit {
					sel = append(sel, p)
				}
			}
			pages = sel
			sort.Ints(pages)
		}
		for _, p := range pages {
			attrs := attrSets[x.rng.IntN(len(attrSets))]
			w := x.walk(l, p, nil, attrs, len(x.objs)+2)
			seen := x.judgeFull(l, exp, w, p, attrs)
			x.r.Count("walks_"+l.level, 1)
			x.r.Max("max_page_size_"+l.level, int64(p))
			if len(attrs) > 0 {
				x.r.Count("walks_with_attributes", 1)
			}
			if w.problem == "" {
				for a := range canon {
					if !seen[a] {
						x.violation(l, "differs-across-page-sizes|"+exp[a].reason, fmt.Sprintf("%s is listed with page size 1 but not with page size %d", x.name(a), p), map[string]any{"page_size": p})
						break
					}
				}
				for a := range seen {
					if !canon[a] {
						x.violation(l, "differs-across-page-sizes|"+exp[a].reason, fmt.Sprintf("%s is listed with page size %d but not with page size 1", x.name(a), p), map[string]any{"page_size": p})
						break
					}
				}
			}
			// what kind of places the page breaks fell on
			for pi, start := range w.pages {
				if pi == 0 {
					continue
				}
				last, first := w.seq[start-1], w.seq[start]
				x.r.Count("page_breaks_"+l.level, 1)
				if last.addr.Container() != first.addr.Container() {
					x.r.Count("page_breaks_on_container_boundary_"+l.level, 1)
				}
				if len(last.shards) > 1 {
					x.r.Count("page_breaks_on_multi_shard_object", 1)
				}
				if i, ok := slices.BinarySearchFunc(all, last.addr, func(a, b oid.Address) int { return a.Compare(b) }); ok && i+1 < len(all) {
					if e := exp[all[i+1]]; e.cls == vf06MustNot && (e.reason == "tombstoned" || e.reason == "garbage-marked" || e.reason == "container-removed") {
						x.r.Count("page_breaks_before_removed_object_"+l.level, 1)
					}
				}
			}
			if len(w.pages) > 0 && len(w.seq)%p == 0 && w.ended {
				x.r.Count("walks_ending_on_full_last_page", 1)
			}
		}

		// arbitrary starting cursors
		type probe struct {
			kind string
			cnr  cid.ID
			id   oid.ID
		}
		var probes []probe
		for _, a := range order {
			probes = append(probes, probe{"listed-object", a.Container(), a.Object()})
		}
		for _, o := range x.objs {
			if !canon[o.addr] {
				probes = append(probes, probe{"unlisted-" + exp[o.addr].reason, o.addr.Container(), o.addr.Object()})
			}
			if x.rng.IntN(3) == 0 {
				nb := oid.ID(vf06Neighbour([32]byte(o.addr.Object()), x.rng))
				if _, known := x.byAddr[oid.NewAddress(o.addr.Container(), nb)]; !known && !nb.IsZero() {
					probes = append(probes, probe{"between-ids", o.addr.Container(), nb})
				}
			}
		}
		var ff oid.ID
		for i := range ff {
			ff[i] = 0xFF
		}
		for _, c := range x.cnrs {
			probes = append(probes, probe{"container-start", c, oid.ID{}}, probe{"container-end", c, ff})
			fc := cid.ID(vf06Neighbour([32]byte(c), x.rng))
			if !slices.Contains(x.cnrs, fc) && !fc.IsZero() {
				probes = append(probes, probe{"foreign-container-neighbour", fc, verifkit.RandOID(x.rng)})
				probes = append(probes, probe{"foreign-container-neighbour", fc, oid.ID{}})
			}
		}
		probes = append(probes, probe{"foreign-container", verifkit.RandCID(x.rng), verifkit.RandOID(x.rng)},
			probe{"foreign-container-max", cid.ID(ff), ff}, probe{"zero-container", cid.ID{}, verifkit.RandOID(x.rng)})
		plimit := 14
		if l.level == "shard" {
			plimit = 5
		}
		if thorough {
			plimit *= 4
		}
		if len(probes) > plimit {
			x.rng.Shuffle(len(probes), func(i, j int) { probes[i], probes[j] = probes[j], probes[i] })
			probes = probes[:plimit]
		}
		for _, pr := range probes {
			at := oid.NewAddress(pr.cnr, pr.id)
			var want []oid.Address
			switch {
			case sorted:
				for _, a := range order {
					if a.Compare(at) > 0 {
						want = append(want, a)
					}
				}
			case pr.kind == "listed-object":
				want = order[slices.Index(order, at)+1:]
			default:
				continue // no order to define "after the cursor" by
			}
			p := 1 + x.rng.IntN(n+1)
			attrs := attrSets[x.rng.IntN(len(attrSets))]
			w := x.walk(l, p, l.mk(pr.cnr, pr.id), attrs, len(x.objs)+2)
			x.r.Count("cursor_walks_"+l.level, 1)
			x.r.Seen("cursor_kinds_probed", strings.SplitN(pr.kind, "|", 2)[0])
			info := map[string]any{"page_size": p, "cursor_kind": pr.kind, "cursor": at.String(), "attrs": attrs}
			kind := pr.kind
			if strings.HasPrefix(kind, "unlisted-") {
				kind = "unlisted-object"
			}
			if w.problem != "" {
				x.violation(l, "cursor|"+kind+"|protocol|"+w.problem, fmt.Sprintf("from cursor %s (%s), page size %d: %s", pr.kind, x.name(at), p, w.detail), info)
				continue
			}
			got := map[oid.Address]int{}
			for _, it := range w.seq {
				got[it.addr]++
			}
			bad := ""
			for _, a := range want {
				if got[a] == 0 {
					bad = fmt.Sprintf("%s lies after the cursor but is not listed", x.name(a))
					kind += "|missing"
					break
				}
			}
			if bad == "" {
				for _, it := range w.seq {
					if got[it.addr] > 1 {
						bad = fmt.Sprintf("%s is listed twice", x.name(it.addr))
						kind += "|twice"
						break
					}
					if !slices.Contains(want, it.addr) {
						bad = fmt.Sprintf("%s does not lie after the cursor (or is not part of the listing) but is returned", x.name(it.addr))
						kind += "|extra"
						break
					}
				}
			}
			if bad != "" {
				x.violation(l, "cursor|"+kind, fmt.Sprintf("from cursor %s (%s), page size %d: %s; %d items returned, %d expected", pr.kind, x.name(at), p, bad, len(w.seq), len(want)), info)
			}
			if len(want) == 0 {
				x.r.Count("cursor_walks_expecting_immediate_end", 1)
			}
		}
	}
}

// ---------------------------------------------------------------------------------

func vf06RunCase(r *verifkit.Run, caseNo int) {
	rng := r.Rand("case", caseNo)
	dir, err := os.MkdirTemp("", "vf06-")
	if err != nil {
		r.Inconclusive("mkdtemp: " + err.Error())
		return
	}
	defer os.RemoveAll(dir)
	x := &vf06Case{r: r, caseNo: caseNo, rng: rng, es: &vf06Epoch{}, byAddr: map[oid.Address]*vf06Obj{}}
	x.e = New(WithLogger(zap.NewNop()))
	ns := 1 + rng.IntN(4)
	for range ns {
		if err := x.addShard(dir); err != nil {
			r.Inconclusive("AddShard failed: " + err.Error())
			return
		}
	}
	if err := x.e.Init(); err != nil {
		r.Inconclusive("engine init: " + err.Error())
		return
	}
	defer func() { _ = x.e.Close() }()
	x.buildUniverse()
	r.Seen("shard_counts", fmt.Sprint(ns))
	r.Seen("container_counts", fmt.Sprint(len(x.cnrs)))
	r.Max("max_objects_in_universe", int64(len(x.objs)))
	r.Guard(map[string]any{"case_index": caseNo}, func() { x.runHistory() })
	if caseNo < 2 {
		r.Sample(map[string]any{"case_index": caseNo, "shards": ns, "containers": len(x.cnrs), "universe": x.describe(), "first_ops": x.ops[:min(15, len(x.ops))]})
	}
}

func TestVerif_C06(t *testing.T) {
	r := verifkit.Start(t, "C06", "exploration")
	defer r.Finish()
	cases := r.Pick(360, 4000)
	r.SetRule(fmt.Sprintf("%d seeded histories on engines with 1-4 real shards and 1-5 containers (adversarial IDs: neighbours, shared prefixes, 00..01/FF..FF, same object ID in several containers; empty containers): engine and direct shard puts of regular objects, split children + link, EC parts, locks, tombstones (overlapping copies), default/redundant marks (engine-wide and single shard), container removals, Drop/Shard.Delete, GC passes, epoch advance. One evaluation = one checkpoint at which metabase, shard and engine listings are walked with page sizes 1..N+1 and from constructed cursors (listed, unlisted, between IDs, container start/end, foreign containers). distinct = (level, listed count, must/omitted/unconstrained/multi-shard counts, containers, shards) signatures of listings with at least 2 items", cases))
	r.Assume("available = a Put was acknowledged for the shard, the blob is on its disk and nothing marked the object for removal; redundant marks, marked-but-locked, expired objects, relatives of removed roots and objects touched by a failed or repeated operation are not constrained")
	r.Assume("shards are read-write without write-cache; the state does not change during a walk")
	r.Assume("'after the cursor' for a constructed cursor is defined by the order the listing itself shows (checked only when the canonical page-size-1 walk is in address order, or when the cursor is a listed object)")

	if p := os.Getenv("VERIF_REPLAY"); p != "" {
		var doc struct {
			Case struct {
				CaseIndex int `json:"case_index"`
			} `json:"case"`
		}
		if b, err := os.ReadFile(p); err == nil && json.Unmarshal(b, &doc) == nil {
			vf06RunCase(r, doc.Case.CaseIndex)
			r.Distinct("replay-a")
			r.Distinct("replay-b")
			return
		}
	}
	var wg sync.WaitGroup
	ch := make(chan int)
	for range 4 {
		wg.Add(1)
		go func() {
			defer wg.Done()
			for c := range ch {
				vf06RunCase(r, c)
			}
		}()
	}
	for c := range cases {
		ch <- c
	}
	close(ch)
	wg.Wait()
	if r.Counter("expect_engine_must") == 0 || r.Counter("page_breaks_engine") == 0 {
		r.Inconclusive("no non-trivial listing was observed")
	}
}
