//go:build verif

package engine

// C20 monitor: engine reads find every stored object despite shard order, modes and
// failures, and never return a removed one.
//
// Real StorageEngine over 1-4 real shards (FSTree + bbolt metabase on temp dirs).  The
// shards' blob storage is wrapped by vf20Store which (a) injects per-shard read/write
// errors chosen by the seeded workload, (b) records on which shard a put landed / a read
// was served, (c) pins deterministic shard IDs so the HRW order depends on the seed only.
// After every workload step every address of a tiny universe is read through
// Get/GetBytes/GetStream/Head/existsPhysical and judged by a reference model written
// from the property statement (stored / removed / never stored / undetermined) plus the
// ground truth of where blobs physically are (asked from the inner FSTree directly).

import (
	"bytes"
	"context"
	"encoding/json"
	"errors"
	"fmt"
	"io"
	"math/rand/v2"
	"os"
	"path/filepath"
	"sort"
	"strings"
	"sync"
	"testing"
	"time"

	"github.com/nspcc-dev/bbolt"
	iec "github.com/nspcc-dev/neofs-node/internal/ec"
	"github.com/nspcc-dev/neofs-node/internal/verifkit"
	"github.com/nspcc-dev/neofs-node/pkg/local_object_storage/blobstor/common"
	"github.com/nspcc-dev/neofs-node/pkg/local_object_storage/blobstor/fstree"
	meta "github.com/nspcc-dev/neofs-node/pkg/local_object_storage/metabase"
	"github.com/nspcc-dev/neofs-node/pkg/local_object_storage/shard"
	"github.com/nspcc-dev/neofs-node/pkg/local_object_storage/shard/mode"
	cid "github.com/nspcc-dev/neofs-sdk-go/container/id"
	"github.com/nspcc-dev/neofs-sdk-go/object"
	oid "github.com/nspcc-dev/neofs-sdk-go/object/id"
	"github.com/nspcc-dev/neofs-sdk-go/user"
)

const vf20MaxShards = 4

var errVf20Injected = errors.New("vf20: injected I/O error")

// ---------------------------------------------------------------------------------
// fault-injecting, recording blob storage (real FSTree inside)

type vf20Note struct {
	kind  string // "put", "del", "read"
	shard int
	addr  oid.Address
}

type vf20Ctl struct {
	mu         sync.Mutex
	readFault  [vf20MaxShards]bool
	writeFault [vf20MaxShards]bool
	notes      []vf20Note
	faultHits  int
}

func (c *vf20Ctl) rf(i int) bool {
	c.mu.Lock()
	defer c.mu.Unlock()
	if c.readFault[i] {
		c.faultHits++
		return true
	}
	return false
}

func (c *vf20Ctl) wf(i int) bool {
	c.mu.Lock()
	defer c.mu.Unlock()
	if c.writeFault[i] {
		c.faultHits++
		return true
	}
	return false
}

func (c *vf20Ctl) note(kind string, i int, a oid.Address) {
	c.mu.Lock()
	c.notes = append(c.notes, vf20Note{kind, i, a})
	c.mu.Unlock()
}

func (c *vf20Ctl) reset() { c.mu.Lock(); c.notes = c.notes[:0]; c.mu.Unlock() }

func (c *vf20Ctl) shardsOf(kind string, a oid.Address) []int {
	c.mu.Lock()
	defer c.mu.Unlock()
	var res []int
	for _, n := range c.notes {
		if n.kind == kind && n.addr == a {
			res = append(res, n.shard)
		}
	}
	return res
}

type vf20Store struct {
	common.Storage
	idx int
	id  common.ID
	ctl *vf20Ctl
}

func (s *vf20Store) Init(common.ID) error { return s.Storage.Init(s.id) }

func (s *vf20Store) GetBytes(a oid.Address) ([]byte, error) {
	if s.ctl.rf(s.idx) {
		return nil, errVf20Injected
	}
	b, err := s.Storage.GetBytes(a)
	if err == nil {
		s.ctl.note("read", s.idx, a)
	}
	return b, err
}

func (s *vf20Store) Get(a oid.Address) (*object.Object, error) {
	if s.ctl.rf(s.idx) {
		return nil, errVf20Injected
	}
	o, err := s.Storage.Get(a)
	if err == nil {
		s.ctl.note("read", s.idx, a)
	}
	return o, err
}

func (s *vf20Store) GetRangeStream(a oid.Address, rng common.PayloadRange, readHeader bool) (*object.Object, uint64, io.ReadCloser, error) {
	if s.ctl.rf(s.idx) {
		return nil, 0, nil, errVf20Injected
	}
	o, n, rc, err := s.Storage.GetRangeStream(a, rng, readHeader)
	if err == nil {
		s.ctl.note("read", s.idx, a)
	}
	return o, n, rc, err
}

func (s *vf20Store) GetStream(a oid.Address) (*object.Object, io.ReadCloser, error) {
	if s.ctl.rf(s.idx) {
		return nil, nil, errVf20Injected
	}
	o, rc, err := s.Storage.GetStream(a)
	if err == nil {
		s.ctl.note("read", s.idx, a)
	}
	return o, rc, err
}

func (s *vf20Store) Head(a oid.Address) (*object.Object, error) {
	if s.ctl.rf(s.idx) {
		return nil, errVf20Injected
	}
	o, err := s.Storage.Head(a)
	if err == nil {
		s.ctl.note("read", s.idx, a)
	}
	return o, err
}

func (s *vf20Store) ReadHeader(a oid.Address, b []byte) (int, error) {
	if s.ctl.rf(s.idx) {
		return 0, errVf20Injected
	}
	n, err := s.Storage.ReadHeader(a, b)
	if err == nil {
		s.ctl.note("read", s.idx, a)
	}
	return n, err
}

func (s *vf20Store) ReadObject(a oid.Address, b []byte) (int, io.ReadCloser, error) {
	if s.ctl.rf(s.idx) {
		return 0, nil, errVf20Injected
	}
	n, rc, err := s.Storage.ReadObject(a, b)
	if err == nil {
		s.ctl.note("read", s.idx, a)
	}
	return n, rc, err
}

func (s *vf20Store) ReadPayloadRange(a oid.Address, off, ln uint64, b []byte, f func([]byte) error) (io.ReadCloser, error) {
	if s.ctl.rf(s.idx) {
		return nil, errVf20Injected
	}
	rc, err := s.Storage.ReadPayloadRange(a, off, ln, b, f)
	if err == nil {
		s.ctl.note("read", s.idx, a)
	}
	return rc, err
}

func (s *vf20Store) ReadObjectParts(buf []byte, a oid.Address, rng common.PayloadRange, f func([]byte) error) (int, io.ReadCloser, error) {
	if s.ctl.rf(s.idx) {
		return 0, nil, errVf20Injected
	}
	n, rc, err := s.Storage.ReadObjectParts(buf, a, rng, f)
	if err == nil {
		s.ctl.note("read", s.idx, a)
	}
	return n, rc, err
}

func (s *vf20Store) Exists(a oid.Address) (bool, error) {
	if s.ctl.rf(s.idx) {
		return false, errVf20Injected
	}
	ok, err := s.Storage.Exists(a)
	if err == nil && ok {
		s.ctl.note("read", s.idx, a)
	}
	return ok, err
}

func (s *vf20Store) Put(a oid.Address, b []byte) error {
	if s.ctl.wf(s.idx) {
		return errVf20Injected
	}
	err := s.Storage.Put(a, b)
	if err == nil {
		s.ctl.note("put", s.idx, a)
	}
	return err
}

func (s *vf20Store) PutBatch(m map[oid.Address][]byte) error {
	if s.ctl.wf(s.idx) {
		return errVf20Injected
	}
	err := s.Storage.PutBatch(m)
	if err == nil {
		for a := range m {
			s.ctl.note("put", s.idx, a)
		}
	}
	return err
}

func (s *vf20Store) Delete(a oid.Address) error {
	if s.ctl.wf(s.idx) {
		return errVf20Injected
	}
	err := s.Storage.Delete(a)
	if err == nil {
		s.ctl.note("del", s.idx, a)
	}
	return err
}

type vf20Epoch struct{}

func (vf20Epoch) CurrentEpoch() uint64 { return 0 }

// ---------------------------------------------------------------------------------
// reference model (written from the property statement)

const (
	vf20Never   = iota // never stored through any acknowledged put
	vf20Stored         // acknowledged put, no removal attempt since
	vf20Removed        // an acknowledged removal is the last lifecycle event
	vf20Unknown        // a removal attempt failed / partial: the statement does not fix the outcome
)

var vf20StateNames = []string{"never", "stored", "removed", "undetermined"}

type vf20Obj struct {
	label      string
	obj        *object.Object
	addr       oid.Address
	bin        []byte
	hdrBin     []byte
	ec         bool
	state      int
	tombstoned bool   // an engine-acknowledged tombstone targets it (permanent)
	kind       string // kind of the last acknowledged removal: tombstone / mark / drop
	metaOK     map[int]bool
	tombs      []oid.Address
	skipped    map[int]string // holders that could not be reached when a removal was acknowledged -> why
	reput      map[int]bool   // copies accepted by the engine after an acknowledged tombstone
	marked     map[int]bool   // shards that garbage-marked their copy in an acknowledged Delete (until collected)
	tombIdx    map[int]bool   // shards whose metabase indexed an acknowledged tombstone of this address
}

type vf20Shard struct {
	idx   int
	id    common.ID
	inner common.Storage
	sh    *shard.Shard
}

type vf20Env struct {
	r      *verifkit.Run
	caseNo int
	e      *StorageEngine
	dir    string
	ctl    *vf20Ctl
	shards []*vf20Shard
	rng    *rand.Rand
	cnr    cid.ID
	owner  user.ID
	objs   []*vf20Obj
	ops    []string
	thr    uint32
	failed bool
}

func vf20ModeName(m mode.Mode) string {
	switch m {
	case mode.ReadWrite:
		return "rw"
	case mode.ReadOnly:
		return "ro"
	case mode.Degraded:
		return "deg"
	case mode.DegradedReadOnly:
		return "degro"
	}
	return "?"
}

func (v *vf20Env) addShard() error {
	idx := len(v.shards)
	id, err := common.NewIDFromBytes(verifkit.RandBytes(v.rng, common.IDSize))
	if err != nil {
		return err
	}
	inner := fstree.New(
		fstree.WithPath(filepath.Join(v.dir, fmt.Sprintf("fs%d", idx))),
		fstree.WithDepth(1),
		fstree.WithNoSync(true))
	st := &vf20Store{Storage: inner, idx: idx, id: id, ctl: v.ctl}
	bopts := *bbolt.DefaultOptions
	bopts.NoSync = true
	got, err := v.e.AddShard(
		shard.WithBlobstor(st),
		shard.WithMetaBaseOptions(
			meta.WithPath(filepath.Join(v.dir, fmt.Sprintf("meta%d", idx))),
			meta.WithPermissions(0o700),
			meta.WithEpochState(vf20Epoch{}),
			meta.WithMaxBatchDelay(time.Microsecond),
			meta.WithBoltDBOptions(&bopts),
		),
		shard.WithGCRemoverSleepInterval(1000*time.Hour),
	)
	if err != nil {
		return err
	}
	if got != id {
		return fmt.Errorf("shard id %s differs from the pinned one %s", got, id)
	}
	v.shards = append(v.shards, &vf20Shard{idx: idx, id: id, inner: inner, sh: v.e.getShard(id.String()).Shard})
	return nil
}

func (v *vf20Env) newObj(label string, ec bool, parent *object.Object, part int) *vf20Obj {
	o := verifkit.NewObject(v.rng, v.cnr, v.owner, v.rng.IntN(200))
	if ec {
		o.SetParent(parent)
		verifkit.AddAttr(o, iec.AttributeRuleIdx, "0")
		verifkit.AddAttr(o, iec.AttributePartIdx, fmt.Sprint(part))
	}
	return &vf20Obj{label: label, obj: o, addr: o.Address(), bin: o.Marshal(), hdrBin: o.CutPayload().Marshal(), ec: ec, metaOK: map[int]bool{}, skipped: map[int]string{}, reput: map[int]bool{}, marked: map[int]bool{}, tombIdx: map[int]bool{}}
}

// blobOn asks the inner FSTree (bypassing the fault layer) whether a blob is on disk.
func (v *vf20Env) blobOn(a oid.Address) []int {
	var res []int
	for _, s := range v.shards {
		if ok, err := s.inner.Exists(a); err == nil && ok {
			res = append(res, s.idx)
		}
	}
	return res
}

func (v *vf20Env) modes() []mode.Mode {
	res := make([]mode.Mode, len(v.shards))
	for i, s := range v.shards {
		res[i] = s.sh.GetMode()
	}
	return res
}

// readableHolders returns the shards on which a copy of o is stored and from which the
// statement demands it to be readable now: blob on disk, no injected read fault, and
// either the copy was indexed by the shard's metabase or the shard currently works
// without metabase.
func (v *vf20Env) readableHolders(o *vf20Obj, modes []mode.Mode) []int {
	var res []int
	for _, i := range v.blobOn(o.addr) {
		if v.ctl.readFault[i] {
			continue
		}
		if o.metaOK[i] || modes[i].NoMetabase() {
			res = append(res, i)
		}
	}
	return res
}

func (v *vf20Env) envSig(modes []mode.Mode) string {
	var sb strings.Builder
	for i, m := range modes {
		sb.WriteString(vf20ModeName(m))
		if v.ctl.readFault[i] {
			sb.WriteString("+R")
		}
		if v.ctl.writeFault[i] {
			sb.WriteString("+W")
		}
		sb.WriteByte(' ')
	}
	return sb.String()
}

func (v *vf20Env) violation(key, what string, o *vf20Obj, api string, modes []mode.Mode) {
	v.failed = true
	holders := v.blobOn(o.addr)
	tombHolders := map[string][]int{}
	for _, t := range o.tombs {
		tombHolders[t.Object().String()] = v.blobOn(t)
	}
	v.r.Violation(key, what, map[string]any{
		"case_index": v.caseNo, "shards": len(v.shards), "error_threshold": v.thr, "ops": append([]string(nil), v.ops...),
		"address": o.label, "model_state": vf20StateNames[o.state], "tombstoned": o.tombstoned, "removal_kind": o.kind,
		"api": api, "shard_modes_and_faults": v.envSig(modes), "blob_on_shards": holders,
		"indexed_copies": fmt.Sprint(o.metaOK), "holders_unreachable_at_removal": fmt.Sprint(o.skipped), "copies_accepted_after_tombstone": fmt.Sprint(o.reput), "garbage_marked_copies": fmt.Sprint(o.marked), "tombstone_indexed_on": fmt.Sprint(o.tombIdx), "tombstone_blobs_on_shards": tombHolders,
		"hrw_order_for_address": v.hrwOrder(o.addr.Object()),
	})
}

func (v *vf20Env) hrwOrder(id oid.ID) []int {
	var res []int
	for _, sw := range v.e.sortedShards(id) {
		for _, s := range v.shards {
			if s.id == sw.ID() {
				res = append(res, s.idx)
			}
		}
	}
	return res
}

type vf20Read struct {
	api     string
	group   string
	found   bool
	same    bool
	err     error
	servers []int // shards whose blob storage successfully served the address during the call
}

func (v *vf20Env) readAll(o *vf20Obj) []vf20Read {
	ctx := context.Background()
	var res []vf20Read
	add := func(rd vf20Read) {
		rd.servers = v.ctl.shardsOf("read", o.addr)
		res = append(res, rd)
	}
	{
		v.ctl.reset()
		got, err := v.e.Get(ctx, o.addr)
		rd := vf20Read{api: "Get", group: "get", err: err}
		if err == nil && got != nil {
			rd.found, rd.same = true, bytes.Equal(got.Marshal(), o.bin)
		}
		add(rd)
	}
	{
		v.ctl.reset()
		b, err := v.e.GetBytes(ctx, o.addr)
		rd := vf20Read{api: "GetBytes", group: "get", err: err}
		if err == nil {
			rd.found, rd.same = true, bytes.Equal(b, o.bin)
		}
		add(rd)
	}
	{
		v.ctl.reset()
		hdr, rc, err := v.e.GetStream(ctx, o.addr)
		rd := vf20Read{api: "GetStream", group: "get", err: err}
		if err == nil && hdr != nil && rc != nil {
			pl, rerr := io.ReadAll(rc)
			_ = rc.Close()
			rd.found = true
			rd.same = rerr == nil && bytes.Equal(hdr.CutPayload().Marshal(), o.hdrBin) && bytes.Equal(pl, o.obj.Payload())
		}
		add(rd)
	}
	{
		v.ctl.reset()
		hdr, err := v.e.Head(ctx, o.addr, false)
		rd := vf20Read{api: "Head", group: "head", err: err}
		if err == nil && hdr != nil {
			rd.found, rd.same = true, bytes.Equal(hdr.CutPayload().Marshal(), o.hdrBin)
		}
		add(rd)
	}
	{
		v.ctl.reset()
		ok, err := v.e.existsPhysical(o.addr)
		rd := vf20Read{api: "existsPhysical", group: "exists", err: err}
		if err == nil && ok {
			rd.found, rd.same = true, true
		}
		add(rd)
	}
	return res
}

func vf20ErrStr(err error) string {
	if err == nil {
		return "<nil>"
	}
	s := err.Error()
	if len(s) > 160 {
		s = s[:160]
	}
	return s
}

// check judges every address after a step.
func (v *vf20Env) check(step int) {
	for _, o := range v.objs {
		modes := v.modes()
		holders := v.blobOn(o.addr)
		readable := v.readableHolders(o, modes)
		anyDegraded, holderDegraded := false, false
		for _, m := range modes {
			if m.NoMetabase() {
				anyDegraded = true
			}
		}
		for _, h := range holders {
			if modes[h].NoMetabase() {
				holderDegraded = true
			}
		}
		reads := v.readAll(o)
		v.r.Eval(1)
		removed := o.tombstoned || o.state == vf20Removed
		switch {
		case removed:
			v.r.Count("checks_removed", 1)
			if len(holders) > 0 {
				v.r.Count("checks_removed_with_blob_still_on_disk", 1)
				v.r.Distinct(fmt.Sprintf("removed|%s|%s|h%v", o.kind, v.envSig(modes), holders))
			}
		case o.state == vf20Stored && len(readable) > 0:
			v.r.Count("checks_stored_readable", 1)
			v.r.Distinct(fmt.Sprintf("stored|%s|r%v|ec%v", v.envSig(modes), readable, o.ec))
			if len(holders) > 1 {
				v.r.Count("checks_stored_with_duplicate_copies", 1)
			}
		case o.state == vf20Stored:
			v.r.Count("checks_stored_only_copy_unreadable_excluded", 1)
		case o.state == vf20Never:
			v.r.Count("checks_never_stored", 1)
		default:
			v.r.Count("checks_undetermined_excluded", 1)
		}
		for _, rd := range reads {
			if rd.found && !rd.same {
				v.violation("wrong-content|"+rd.group, fmt.Sprintf("step %d: %s(%s) returned content that differs from the stored object", step, rd.api, o.label), o, rd.api, modes)
				continue
			}
			switch {
			case removed:
				if !rd.found {
					continue
				}
				// Who served the removed object?  (metabase-only answers have no server: use the holders)
				srv := rd.servers
				if len(srv) == 0 {
					srv = holders
				}
				cause := "no-degraded-shard-and-every-holder-was-reached"
				var why []string
				for _, h := range srv {
					if w, ok := o.skipped[h]; ok {
						why = append(why, w)
					}
				}
				srvDegraded, srvReput := false, false
				for _, h := range srv {
					srvDegraded = srvDegraded || modes[h].NoMetabase()
					srvReput = srvReput || o.reput[h]
				}
				// The shard scan follows the HRW order of the address: does a shard whose metabase
				// knows an acknowledged tombstone come before every shard that served the object?
				earlierTomb := false
				if o.tombstoned && len(srv) > 0 {
					order := v.hrwOrder(o.addr.Object())
					first := len(order)
					for _, h := range srv {
						if p := vf20Pos(order, h); p >= 0 && p < first {
							first = p
						}
					}
					for _, h := range order[:first] {
						if o.tombIdx[h] && !modes[h].NoMetabase() {
							earlierTomb = true
						}
					}
				}
				switch {
				case earlierTomb:
					cause = "tombstone-known-to-an-earlier-shard-ignored"
				case len(why) > 0:
					sort.Strings(why)
					cause = "holder-unreachable-at-removal(" + why[0] + ")"
				case srvReput:
					cause = "copy-accepted-after-removal"
				case srvDegraded:
					cause = "served-by-degraded-shard"
				case rd.group != "get":
					// only the get family has a metadata-bypassing second pass
				case anyDegraded:
					cause = "metadata-bypassed-because-another-shard-is-degraded"
				default:
					// a metabase-backed holder whose blob cannot be read (meta present, object missing)?
					for _, h := range holders {
						isSrv := false
						for _, x := range srv {
							isSrv = isSrv || x == h
						}
						if !isSrv && v.ctl.readFault[h] && !modes[h].NoMetabase() {
							cause = "metadata-bypassed-because-another-copy-is-unreadable"
						}
					}
				}
				_ = holderDegraded
				v.r.Count("resurrections_seen", 1)
				v.r.Seen("resurrection_shapes_seen", fmt.Sprintf("%s|%s|%s", cause, rd.group, o.kind))
				v.violation(fmt.Sprintf("resurrect|%s|%s", cause, rd.group),
					fmt.Sprintf("step %d: %s(%s) returned an object whose removal (%s) the engine had acknowledged; modes/faults [%s], blob on shards %v", step, rd.api, o.label, o.kind, v.envSig(modes), holders),
					o, rd.api, modes)
			case o.state == vf20Stored && len(readable) > 0:
				if rd.found {
					v.r.Count("reads_ok_"+rd.api, 1)
					continue
				}
				hm := map[string]bool{}
				for _, h := range readable {
					hm[vf20ModeName(modes[h])] = true
				}
				var hl []string
				for k := range hm {
					hl = append(hl, k)
				}
				sort.Strings(hl)
				others := ""
				for i, m := range modes {
					isHolder := false
					for _, h := range readable {
						if h == i {
							isHolder = true
						}
					}
					if isHolder {
						continue
					}
					if m.NoMetabase() && !strings.Contains(others, "D") {
						others += "D"
					}
					if v.ctl.readFault[i] && !strings.Contains(others, "F") {
						others += "F"
					}
				}
				if others == "" {
					others = "-"
				}
				cause := fmt.Sprintf("holder-%s|others-%s", strings.Join(hl, "+"), others)
				for _, h := range holders {
					isReadable := false
					for _, x := range readable {
						isReadable = isReadable || x == h
					}
					if !isReadable && o.marked[h] && !modes[h].NoMetabase() {
						cause = "stale-garbage-mark-on-another-shard"
					}
				}
				v.r.Seen("hidden_shapes_seen", fmt.Sprintf("%s|%s", cause, rd.api))
				v.violation(fmt.Sprintf("hidden|%s|%s", rd.group, cause),
					fmt.Sprintf("step %d: %s(%s) failed (%s) although a copy is stored on readable shard(s) %v; modes/faults [%s]", step, rd.api, o.label, vf20ErrStr(rd.err), readable, v.envSig(modes)),
					o, rd.api, modes)
			case o.state == vf20Never:
				if rd.found && len(holders) == 0 {
					v.violation("phantom|"+rd.group, fmt.Sprintf("step %d: %s(%s) succeeded for an address that was never stored", step, rd.api, o.label), o, rd.api, modes)
				}
			}
		}
	}
}

// ---------------------------------------------------------------------------------
// workload

func (v *vf20Env) landing(o *vf20Obj, modesBefore []mode.Mode) []int {
	l := v.ctl.shardsOf("put", o.addr)
	for _, i := range l {
		if !modesBefore[i].NoMetabase() {
			o.metaOK[i] = true
		}
	}
	return l
}

// noteSkipped records, when the engine acknowledges a removal, the shards that hold a copy
// but could not take part in it (their mode or an injected error kept the removal away).
func (v *vf20Env) noteSkipped(o *vf20Obj, kind string, modesBefore []mode.Mode) {
	for _, h := range v.blobOn(o.addr) {
		switch {
		case modesBefore[h].NoMetabase():
			o.skipped[h] = "degraded"
		case kind == "tombstone" && modesBefore[h].ReadOnly():
			o.skipped[h] = "read-only"
		case kind == "tombstone" && v.ctl.writeFault[h]:
			o.skipped[h] = "io-error"
		}
	}
}

func (v *vf20Env) step(step int) {
	rng := v.rng
	ctx := context.Background()
	o := v.objs[rng.IntN(len(v.objs))]
	modesBefore := v.modes()
	v.ctl.reset()
	opn := rng.IntN(100)
	var desc string
	switch {
	case opn < 26: // engine put
		err := v.e.Put(ctx, o.obj, nil)
		l := v.landing(o, modesBefore)
		desc = fmt.Sprintf("Put(%s)=%s landed=%v", o.label, vf20ErrStr(err), l)
		if err == nil {
			v.r.Count("op_put_ok", 1)
			if len(l) > 0 {
				v.r.Count(fmt.Sprintf("op_put_landed_hrw_pos_%d", vf20Pos(v.hrwOrderFor(o), l[0])), 1)
			}
			switch {
			case o.tombstoned:
				for _, i := range l {
					o.reput[i] = true
				}
			case o.state == vf20Unknown:
			case len(l) > 0:
				if o.state == vf20Removed {
					o.metaOK, o.skipped, o.reput = map[int]bool{}, map[int]string{}, map[int]bool{}
					v.landing(o, modesBefore)
				}
				o.state = vf20Stored
			case o.state == vf20Stored:
			default:
				if len(v.blobOn(o.addr)) == 0 {
					v.violation("put-acked-nothing-stored", fmt.Sprintf("step %d: Put(%s) returned nil but no shard holds the object", step, o.label), o, "Put", modesBefore)
				}
				o.state = vf20Unknown
			}
		} else {
			v.r.Count("op_put_err", 1)
			if len(l) > 0 && o.state != vf20Stored {
				o.state = vf20Unknown
			}
		}
	case opn < 34: // direct shard put (copy arriving by another route, e.g. evacuation)
		if o.tombstoned || (o.state != vf20Stored && o.state != vf20Never) {
			desc = "noop"
			break
		}
		s := v.shards[rng.IntN(len(v.shards))]
		err := s.sh.Put(o.obj, nil)
		l := v.landing(o, modesBefore)
		desc = fmt.Sprintf("ShardPut(s%d,%s)=%s", s.idx, o.label, vf20ErrStr(err))
		if err == nil && len(l) > 0 {
			v.r.Count("op_shardput_ok", 1)
			o.state = vf20Stored
		} else {
			v.r.Count("op_shardput_err", 1)
			if len(v.blobOn(o.addr)) > 0 && o.state == vf20Never {
				o.state = vf20Unknown
			}
		}
	case opn < 42: // tombstone through the engine
		ts := verifkit.NewObject(rng, v.cnr, v.owner, 0)
		ts.AssociateDeleted(o.addr.Object())
		err := v.e.Put(ctx, ts, nil)
		tl := v.ctl.shardsOf("put", ts.Address())
		desc = fmt.Sprintf("Put(tombstone->%s)=%s landed=%v", o.label, vf20ErrStr(err), tl)
		if err == nil {
			v.r.Count("op_tombstone_ok", 1)
			o.tombstoned, o.kind, o.state = true, "tombstone", vf20Removed
			o.tombs = append(o.tombs, ts.Address())
			v.noteSkipped(o, "tombstone", modesBefore)
			for _, i := range tl {
				if !modesBefore[i].NoMetabase() {
					o.tombIdx[i] = true
				}
			}
		} else {
			v.r.Count("op_tombstone_err", 1)
			if len(tl) > 0 && o.state == vf20Stored {
				o.state = vf20Unknown
			}
		}
	case opn < 50: // Delete = garbage mark
		err := v.e.Delete(ctx, o.addr, GarbageMarkDefault)
		desc = fmt.Sprintf("Delete(%s)=%s", o.label, vf20ErrStr(err))
		if err == nil {
			v.r.Count("op_delete_ok", 1)
			if o.state == vf20Stored || o.state == vf20Unknown {
				o.state = vf20Removed
				if !o.tombstoned {
					o.kind = "mark"
				}
				o.metaOK = map[int]bool{}
				v.noteSkipped(o, "mark", modesBefore)
				for _, h := range v.blobOn(o.addr) {
					if !modesBefore[h].NoMetabase() {
						o.marked[h] = true
					}
				}
			}
		} else {
			v.r.Count("op_delete_err", 1)
			if o.state == vf20Stored {
				o.state = vf20Unknown
			}
		}
	case opn < 53: // redundant mark: readable until collected, then gone -> outcome not fixed
		err := v.e.Delete(ctx, o.addr, GarbageMarkRedundant)
		desc = fmt.Sprintf("DeleteRedundant(%s)=%s", o.label, vf20ErrStr(err))
		v.r.Count("op_delete_redundant", 1)
		if o.state == vf20Stored {
			o.state = vf20Unknown
		}
	case opn < 59: // Drop
		err := v.e.Drop(ctx, o.addr)
		desc = fmt.Sprintf("Drop(%s)=%s", o.label, vf20ErrStr(err))
		if err == nil {
			v.r.Count("op_drop_ok", 1)
			if o.state == vf20Stored || o.state == vf20Unknown {
				o.state = vf20Removed
				if !o.tombstoned {
					o.kind = "drop"
				}
				o.metaOK = map[int]bool{}
				v.noteSkipped(o, "drop", modesBefore)
			}
		} else {
			v.r.Count("op_drop_err", 1)
			if o.state == vf20Stored {
				o.state = vf20Unknown
			}
		}
	case opn < 75: // mode change
		s := v.shards[rng.IntN(len(v.shards))]
		ms := []mode.Mode{mode.ReadWrite, mode.ReadWrite, mode.ReadOnly, mode.DegradedReadOnly, mode.Degraded}
		m := ms[rng.IntN(len(ms))]
		err := v.e.SetShardMode(s.id, m, rng.IntN(2) == 0)
		desc = fmt.Sprintf("SetShardMode(s%d,%s)=%s", s.idx, vf20ModeName(m), vf20ErrStr(err))
		v.r.Count("op_setmode_"+vf20ModeName(m), 1)
	case opn < 84: // read fault toggle
		i := rng.IntN(len(v.shards))
		v.ctl.mu.Lock()
		v.ctl.readFault[i] = !v.ctl.readFault[i]
		on := v.ctl.readFault[i]
		v.ctl.mu.Unlock()
		desc = fmt.Sprintf("ReadFault(s%d)=%v", i, on)
		v.r.Count("op_read_fault_toggle", 1)
	case opn < 91: // write fault toggle
		i := rng.IntN(len(v.shards))
		v.ctl.mu.Lock()
		v.ctl.writeFault[i] = !v.ctl.writeFault[i]
		on := v.ctl.writeFault[i]
		v.ctl.mu.Unlock()
		desc = fmt.Sprintf("WriteFault(s%d)=%v", i, on)
		v.r.Count("op_write_fault_toggle", 1)
	case opn < 97: // GC pass on one shard
		s := v.shards[rng.IntN(len(v.shards))]
		s.sh.Verif20RunGC()
		desc = fmt.Sprintf("GC(s%d) deleted=%d", s.idx, len(v.ctl.notes))
		v.r.Count("op_gc_pass", 1)
		v.r.Count("gc_blobs_deleted", len(v.ctl.notes))
	default: // shard addition
		if len(v.shards) >= vf20MaxShards {
			desc = "noop"
			break
		}
		if err := v.addShard(); err != nil {
			v.r.Inconclusive("AddShard failed: " + err.Error())
			desc = "AddShard=" + err.Error()
			break
		}
		desc = fmt.Sprintf("AddShard(s%d)", len(v.shards)-1)
		v.r.Count("op_add_shard", 1)
	}
	v.ops = append(v.ops, fmt.Sprintf("%d:%s", step, desc))
}

func (v *vf20Env) hrwOrderFor(o *vf20Obj) []int {
	if o.ec {
		return v.hrwOrder(o.obj.GetParentID())
	}
	return v.hrwOrder(o.addr.Object())
}

func vf20Pos(l []int, x int) int {
	for i, y := range l {
		if y == x {
			return i
		}
	}
	return -1
}

func vf20RunCase(r *verifkit.Run, caseNo int, steps int) {
	rng := r.Rand("case", caseNo)
	dir, err := os.MkdirTemp("", "vf20-")
	if err != nil {
		r.Inconclusive("mkdtemp: " + err.Error())
		return
	}
	defer os.RemoveAll(dir)
	v := &vf20Env{r: r, caseNo: caseNo, dir: dir, ctl: &vf20Ctl{}, rng: rng}
	if rng.IntN(2) == 0 {
		v.thr = uint32(1 + rng.IntN(3))
	}
	v.e = New(WithErrorThreshold(v.thr))
	n := []int{1, 2, 2, 3, 3, 3, 4}[rng.IntN(7)]
	for range n {
		if err := v.addShard(); err != nil {
			r.Inconclusive("AddShard failed: " + err.Error())
			return
		}
	}
	if err := v.e.Init(); err != nil {
		r.Inconclusive("engine init: " + err.Error())
		return
	}
	defer func() { _ = v.e.Close() }()
	v.cnr, v.owner = verifkit.RandCID(rng), verifkit.RandUser(rng)
	for i := range 4 {
		v.objs = append(v.objs, v.newObj(fmt.Sprintf("P%d", i), false, nil, 0))
	}
	for p := range 2 {
		parent := verifkit.NewObject(rng, v.cnr, v.owner, 0)
		parent.SetPayloadSize(uint64(100 + p))
		for k := range 2 - p {
			v.objs = append(v.objs, v.newObj(fmt.Sprintf("E%d.%d", p, k), true, parent, k))
		}
	}
	r.Seen("shard_counts", fmt.Sprint(n))
	r.Seen("error_thresholds", fmt.Sprint(v.thr))
	panicked := r.Guard(map[string]any{"case_index": caseNo}, func() {
		v.check(-1)
		for s := range steps {
			v.step(s)
			v.check(s)
			for _, m := range v.modes() {
				r.Seen("shard_modes_seen", vf20ModeName(m))
			}
		}
	})
	if panicked {
		return
	}
	r.Count("fault_injections_hit", v.ctl.faultHits)
	r.Max("max_shards_in_engine", int64(len(v.shards)))
	if caseNo < 3 {
		r.Sample(map[string]any{"case_index": caseNo, "shards": n, "error_threshold": v.thr, "first_ops": v.ops[:min(12, len(v.ops))]})
	}
}

func TestVerif_C20(t *testing.T) {
	r := verifkit.Start(t, "C20", "exploration")
	defer r.Finish()
	cases, steps := r.Pick(160, 3000), 40
	r.SetRule(fmt.Sprintf("%d seeded histories x %d steps on engines with 1-4 real shards (error threshold off / 1-3): engine puts (plain objects and EC parts placed by parent ID), direct shard puts (duplicate copies), tombstones, Delete marks, redundant marks, Drop, shard mode changes (rw/ro/degraded/degraded-ro), per-shard read and write fault toggles, GC passes, shard additions; after every step all 7 addresses are read through Get/GetBytes/GetStream/Head/existsPhysical. distinct = (model state, per-shard modes+faults, shards holding the blob) signatures of checks on stored-and-readable or removed-with-blob-left addresses", cases, steps))
	r.Assume("removed = the engine acknowledged (nil) a tombstone put, Delete(mark) or Drop for the address; after a failed/partial removal the outcome is not constrained")
	r.Assume("a copy counts as stored on a readable shard when its blob is on disk, the shard has no injected read fault, and the copy was indexed by the metabase or the shard works without metabase")
	r.Assume("no write-cache on the shards; faults are injected at the blob storage interface only")

	if p := os.Getenv("VERIF_REPLAY"); p != "" {
		var doc struct {
			Case struct {
				CaseIndex int `json:"case_index"`
			} `json:"case"`
		}
		if b, err := os.ReadFile(p); err == nil && json.Unmarshal(b, &doc) == nil {
			vf20RunCase(r, doc.Case.CaseIndex, steps)
			r.Distinct("replay-a")
			r.Distinct("replay-b")
			return
		}
	}

	var wg sync.WaitGroup
	ch := make(chan int)
	for range 4 {
		wg.Add(1)
		go func() {
			defer wg.Done()
			for c := range ch {
				vf20RunCase(r, c, steps)
			}
		}()
	}
	for c := range cases {
		ch <- c
	}
	close(ch)
	wg.Wait()
	if r.Counter("checks_stored_readable") == 0 || r.Counter("checks_removed_with_blob_still_on_disk") == 0 {
		r.Inconclusive("no non-trivial read checks were made")
	}
}
