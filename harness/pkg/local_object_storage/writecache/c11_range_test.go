//go:build verif

package writecache

// C11, write-cache part: the range APIs of the real write-cache must give the reference
// answer (internal/vf11) for objects put through the cache and for zstd / combined files
// found in the cache directory at start, with and without header interception.  The
// flush loop is not started, so the objects stay in the cache while they are read.

import (
	"fmt"
	"io"
	"math/rand/v2"
	"path/filepath"
	"testing"

	"github.com/nspcc-dev/neofs-node/internal/verifkit"
	"github.com/nspcc-dev/neofs-node/internal/vf11"
	"github.com/nspcc-dev/neofs-node/pkg/local_object_storage/blobstor/common"
)

func TestVerif_C11(t *testing.T) {
	r := verifkit.Start(t, "C11", "exploration")
	defer r.Finish()
	small := []int{0, 1, 2, 7, 33}
	if r.Thorough() {
		small = []int{0, 1, 2, 3, 4, 5, 8, 16, 33, 64}
	}
	nBig, nDirected, nMB := r.Pick(4, 16), r.Pick(80, 200), r.Pick(2, 6)
	r.SetRule(fmt.Sprintf("write-cache: payload lengths %v with every request of the four modes (values 0..len+2) plus huge values, and %d larger payloads with %d boundary-directed requests each, %d compressed objects whose zstd frame has many blocks (payloads of 0.3..1.5 MiB, compressed the way old nodes did) as zstd files and compressed combined members; objects put through Cache.Put or found as zstd / combined files at start; GetRangeStream, ReadPayloadRange, ReadObjectParts with and without header interception; requests the statement leaves undefined must get the same answer as from the cache's own FSTree; then batches of 2..8 range reads with overlapping answer lifetimes (seeded schedule of issue / read chunk / abandon / close) and rounds of concurrent reads, judged by the same resolver; distinct = (api, format, length class, mode, request shape, interception)", small, nBig, nDirected, nMB))

	dir := filepath.Join(t.TempDir(), "wc")
	cnr, owner := verifkit.RandCID(r.Rand("ids", 0)), verifkit.RandUser(r.Rand("ids", 1))

	type item struct {
		o    *vf11.Obj
		reqs []vf11.Req
	}
	var items []item
	var viaPut, zst, comb []*vf11.Obj
	mk := func(stream string, i int, payload []byte, hk int, format string) *vf11.Obj {
		o := vf11.NewObj(r.Rand(stream+format, i), cnr, owner, payload, hk)
		o.Format = format
		switch format {
		case "put":
			viaPut = append(viaPut, o)
		case "zstd":
			zst = append(zst, o)
		default:
			comb = append(comb, o)
		}
		return o
	}
	for i, l := range small {
		p := vf11.Payload(r.Rand("payload", i), l, false)
		reqs := append(vf11.Exhaustive(l), vf11.Huge(uint64(l), r.Rand("huge", i))...)
		for _, f := range []string{"put", "zstd", "combined-planted"} {
			items = append(items, item{mk("small", i, p, l%3, f), reqs})
		}
	}
	for b := 0; b < nBig; b++ {
		rng := r.Rand("big", b)
		l := 1 + rng.IntN(100<<10)
		if b%4 == 0 {
			l = 45<<10 + rng.IntN(40<<10)
		}
		p := vf11.Payload(r.Rand("bigpayload", b), l, b%2 == 0)
		hk := rng.IntN(3)
		for _, f := range []string{"put", "zstd", "combined-planted"} {
			o := mk("big", b, p, hk, f)
			reqs := append(vf11.Directed(uint64(l), vf11.Marks(o), r.Rand("directed", b), nDirected), vf11.Huge(uint64(l), r.Rand("hugebig", b))...)
			items = append(items, item{o, reqs})
		}
	}

	// compressed objects whose frame has many blocks (vf11/c11_multiblock.go)
	mbFiles, mbMembers := vf11.MultiBlockSet(r, "wc", cnr, owner, nMB)
	for i, o := range append(append([]*vf11.Obj(nil), mbFiles...), mbMembers...) {
		items = append(items, item{o, vf11.MultiBlockReqs(r, "wc", i, o, nDirected)})
	}
	nLarge := 3*nBig + 2*nMB // the items at the end of the list that have larger payloads
	if err := vf11.PlantMultiBlock(dir, 1, mbFiles, mbMembers); err != nil {
		t.Fatal(err)
	}

	// files that are in the cache directory before it is opened (depth of the cache's FSTree is 1)
	for _, o := range zst {
		if err := vf11.PlantFile(dir, 1, o.Addr, vf11.Zstd(o.Bin)); err != nil {
			t.Fatal(err)
		}
	}
	for i := 0; i < len(comb); i += 4 {
		grp := comb[i:min(i+4, len(comb))]
		cm := make([]bool, len(grp))
		for j := range cm {
			cm[j] = (i+j)%3 == 0
			if cm[j] {
				grp[j].Format = "combined+zstd"
			}
		}
		if err := vf11.PlantCombined(dir, 1, grp, cm); err != nil {
			t.Fatal(err)
		}
	}

	c := New(WithPath(dir), WithNoSync(true)).(*cache)
	if err := c.Open(false); err != nil {
		t.Fatal(err)
	}
	if err := c.fsTree.Init(common.ID{}); err != nil { // Cache.Init minus the flush loop
		t.Fatal(err)
	}
	defer c.Close()
	for _, o := range viaPut {
		if err := c.Put(o.Addr, o.Object, o.Bin); err != nil {
			t.Fatalf("harness put: %v", err)
		}
	}
	r.Count("objects_put_through_cache", len(viaPut))
	r.Sample(map[string]any{"part": "writecache", "objects": len(items), "first_object_len": len(items[0].o.Bin), "first_requests": fmt.Sprint(items[0].reqs[:min(6, len(items[0].reqs))])})
	r.Count("objects_found_at_start", len(zst)+len(comb)+2*nMB)

	k := 0
	for _, it := range items {
		o := it.o
		r.Seen("formats", o.Format)
		L := uint64(len(o.Payload))
		for _, req := range it.reqs {
			k++
			rng := r.Rand("read", k)
			desc := map[string]any{"request": req.String(), "addr": o.Addr.String(), "format": o.Format, "payload_len": L}
			withHook := k%2 == 1
			var calls int
			var hook func([]byte) error
			if withHook {
				hook = vf11.Intercept(&calls)
			}
			_, _, want := vf11.Resolve(req, L)
			sig := func(api string) {
				r.Eval(1)
				r.Distinct(fmt.Sprintf("wc|%s|%s|%s|%s|%s|hook=%v", api, o.Format, vf11.LenClass(o), vf11.ModeName(req.Mode), vf11.ReqClass(req, L), withHook))
			}
			r.Guard(desc, func() {
				_, _, stream, err := c.GetRangeStream(o.Addr, req.Range(), withHook)
				a := vf11.StreamAnswer(rng, stream, err)
				vf11.Judge(r, "writecache", "GetRangeStream", o, req, a)
				if want == vf11.WantFree {
					_, _, s2, e2 := c.fsTree.GetRangeStream(o.Addr, req.Range(), withHook)
					vf11.Agree(r, "writecache", "GetRangeStream", o, req, a, vf11.StreamAnswer(rng, s2, e2))
				}
				sig("GetRangeStream")
			})
			if req.Mode == common.PayloadRangeModeOffsetLength {
				r.Guard(desc, func() {
					buf := make([]byte, 2*vf11.NPFBL)
					var stream io.ReadCloser
					stream, err := c.ReadPayloadRange(o.Addr, req.A, req.B, buf, hook)
					a := vf11.StreamAnswer(rng, stream, err)
					vf11.Judge(r, "writecache", "ReadPayloadRange", o, req, a)
					if want == vf11.WantFree {
						s2, e2 := c.fsTree.ReadPayloadRange(o.Addr, req.A, req.B, buf, nil)
						vf11.Agree(r, "writecache", "ReadPayloadRange", o, req, a, vf11.StreamAnswer(rng, s2, e2))
					}
					sig("ReadPayloadRange")
				})
			}
			r.Guard(desc, func() {
				buf := make([]byte, 2*vf11.NPFBL)
				n, stream, err := c.ReadObjectParts(buf, o.Addr, req.Range(), hook)
				a := vf11.PartsAnswer(rng, req, buf, n, stream, err)
				vf11.Judge(r, "writecache", "ReadObjectParts", o, req, a)
				if want == vf11.WantFree {
					buf2 := make([]byte, 2*vf11.NPFBL)
					n2, s2, e2 := c.fsTree.ReadObjectParts(buf2, o.Addr, req.Range(), nil)
					vf11.Agree(r, "writecache", "ReadObjectParts", o, req, a, vf11.PartsAnswer(rng, req, buf2, n2, s2, e2))
				}
				sig("ReadObjectParts")
			})
			if withHook {
				r.Count("header_interceptions", calls)
			}
		}
	}

	// answers with overlapping lifetimes and concurrent requests (see vf11.Overlapped)
	vf11.OverlapPhase(r, "wc", 0, r.Pick(300, 1500), r.Pick(2, 10), func(rng *rand.Rand) vf11.Call {
		o := items[rng.IntN(len(items))].o
		if rng.IntN(2) == 0 { // larger payloads half of the time
			o = items[len(items)-1-rng.IntN(nLarge)].o
		}
		req := vf11.RandReq(rng, o)
		withHook := rng.IntN(2) == 0
		var hook func([]byte) error
		if withHook {
			var calls int
			hook = vf11.Intercept(&calls)
		}
		cl := vf11.Call{Layer: "writecache", O: o, Req: req}
		api := rng.IntN(3)
		if api == 1 && req.Mode != common.PayloadRangeModeOffsetLength {
			api = 0
		}
		switch api {
		case 0:
			cl.API = "GetRangeStream"
			cl.Open = func() (io.ReadCloser, func() []byte, error) {
				_, _, stream, err := c.GetRangeStream(o.Addr, req.Range(), withHook)
				return stream, nil, err
			}
		case 1:
			cl.API = "ReadPayloadRange"
			cl.Open = func() (io.ReadCloser, func() []byte, error) {
				var stream io.ReadCloser
				stream, err := c.ReadPayloadRange(o.Addr, req.A, req.B, make([]byte, 2*vf11.NPFBL), hook)
				return stream, nil, err
			}
		default:
			cl.API = "ReadObjectParts"
			cl.Open = func() (io.ReadCloser, func() []byte, error) {
				buf := make([]byte, 2*vf11.NPFBL)
				n, stream, err := c.ReadObjectParts(buf, o.Addr, req.Range(), hook)
				return vf11.PartsOpen(req, buf, n, stream, err)
			}
		}
		return cl
	})
}
