//go:build verif

package writecache

// C17 – "The write-cache eventually flushes everything and accounts its size exactly".
//
// Runtime monitor.  Real write-caches (real FSTree cache tree, real scheduler, workers,
// 1 s tick and 10 s error back-off of the code itself) are driven by seeded workloads of
// repeated / concurrent puts and deletes while a fault-injecting main storage (real
// FSTree behind a wrapper) fails, stalls or accepts flushes.  The oracle is written from
// the statement only:
//
//   SIZE   at every quiescent point (all client calls returned, no flush call in progress,
//          state stable) the size the cache reports as used == total size of the object
//          files the cache tree actually holds (independent directory walk);
//          observable form: a put that fits the configured maximum is not refused with
//          "no space".
//   DRAIN  once writes stopped and the main storage accepts writes, the cache tree becomes
//          empty and every acknowledged, never deleted object is in the main storage with
//          identical bytes.  Bounded progress, state-based verdict: if the cache is not
//          empty after errorDelay + several ticks, an object that is still held while no
//          flush call is active and nothing changes any more is reported as stuck (with
//          the state dump); anything else at the bound is inconclusive.

import (
	"runtime"
	"bytes"
	"errors"
	"fmt"
	"io/fs"
	"math/rand/v2"
	"os"
	"path/filepath"
	"sort"
	"strings"
	"sync"
	"sync/atomic"
	"testing"
	"time"

	"github.com/nspcc-dev/neofs-node/internal/verifkit"
	"github.com/nspcc-dev/neofs-node/pkg/local_object_storage/blobstor/common"
	"github.com/nspcc-dev/neofs-node/pkg/local_object_storage/blobstor/fstree"
	cid "github.com/nspcc-dev/neofs-sdk-go/container/id"
	oid "github.com/nspcc-dev/neofs-sdk-go/object/id"
	"github.com/nspcc-dev/neofs-sdk-go/user"
)

// ---------------------------------------------------------------------------------------
// fault-injecting main storage

var errVf17Injected = errors.New("vf17: injected transient main-storage failure")

// vf17Clock is the logical clock that orders client returns and main-storage acknowledgements.
var vf17Clock atomic.Int64

type vf17Stor struct {
	inner *fstree.FSTree

	mu       sync.Mutex
	rng      *rand.Rand
	failAll  bool    // every call fails
	failProb float64 // each call fails with this probability
	failErr  error
	maxDelay time.Duration // each call sleeps rng[0,maxDelay) first (makes workers busy)
	gate     chan struct{} // non-nil: calls park here until it is closed
	gateFail bool          // parked calls fail when released
	gateOnly *oid.Address  // non-nil: only calls that carry this address park at the gate

	started, finished, active int
	okSingle, okBatch         int
	failSingle, failBatch     int
	parked                    int
	attempts                  map[oid.Address]int  // flush calls that carried the address
	lastFailed                map[oid.Address]bool // outcome of the latest such call
	okStamp                   map[oid.Address]int64 // clock of the latest acknowledged flush
}

func (s *vf17Stor) note(addrs []oid.Address, err error) {
	s.mu.Lock()
	if s.attempts == nil {
		s.attempts, s.lastFailed, s.okStamp = map[oid.Address]int{}, map[oid.Address]bool{}, map[oid.Address]int64{}
	}
	for _, a := range addrs {
		s.attempts[a]++
		s.lastFailed[a] = err != nil
		if err == nil {
			s.okStamp[a] = vf17Clock.Add(1)
		}
	}
	s.mu.Unlock()
}

// attemptState tells whether a flush of the address was ever handed to the main storage.
func (s *vf17Stor) attemptState(a oid.Address) string {
	s.mu.Lock()
	defer s.mu.Unlock()
	switch {
	case s.attempts[a] == 0:
		return "flush-never-attempted"
	case s.lastFailed[a]:
		return "last-flush-attempt-failed"
	}
	return "last-flush-attempt-succeeded"
}

func (s *vf17Stor) ackedAt(a oid.Address) int64 { s.mu.Lock(); defer s.mu.Unlock(); return s.okStamp[a] }

func (s *vf17Stor) anyFailed() string {
	s.mu.Lock()
	defer s.mu.Unlock()
	if s.failSingle+s.failBatch > 0 {
		return "some-flush-failed"
	}
	return "no-flush-failed"
}

func (s *vf17Stor) enter(carries func(oid.Address) bool) (fail bool, err error) {
	s.mu.Lock()
	s.started++
	s.active++
	d := time.Duration(0)
	if s.maxDelay > 0 {
		d = time.Duration(s.rng.Int64N(int64(s.maxDelay)))
	}
	fail = s.failAll || (s.failProb > 0 && s.rng.Float64() < s.failProb)
	err = s.failErr
	g := s.gate
	if g != nil && s.gateOnly != nil && !carries(*s.gateOnly) {
		g = nil // the stall is selective and this call does not carry the selected address
	}
	if g != nil {
		s.parked++
	}
	s.mu.Unlock()
	if d > 0 {
		time.Sleep(d)
	}
	if g != nil {
		<-g
		s.mu.Lock()
		s.parked--
		if s.gateFail {
			fail = true
		}
		s.mu.Unlock()
	}
	if err == nil {
		err = errVf17Injected
	}
	return fail, err
}

func (s *vf17Stor) leave(single bool, err error) {
	s.mu.Lock()
	s.finished++
	s.active--
	switch {
	case single && err == nil:
		s.okSingle++
	case single:
		s.failSingle++
	case err == nil:
		s.okBatch++
	default:
		s.failBatch++
	}
	s.mu.Unlock()
}

func (s *vf17Stor) Put(addr oid.Address, data []byte) (err error) {
	fail, ferr := s.enter(func(a oid.Address) bool { return a == addr })
	defer func() { s.note([]oid.Address{addr}, err); s.leave(true, err) }()
	if fail {
		return ferr
	}
	return s.inner.Put(addr, data)
}

func (s *vf17Stor) PutBatch(m map[oid.Address][]byte) (err error) {
	fail, ferr := s.enter(func(a oid.Address) bool { _, ok := m[a]; return ok })
	defer func() {
		l := make([]oid.Address, 0, len(m))
		for a := range m {
			l = append(l, a)
		}
		s.note(l, err)
		s.leave(false, err)
	}()
	if fail {
		return ferr
	}
	return s.inner.PutBatch(m)
}

func (s *vf17Stor) Exists(addr oid.Address) (bool, error) { return s.inner.Exists(addr) }
func (s *vf17Stor) Type() string                          { return s.inner.Type() }

func (s *vf17Stor) set(f func()) { s.mu.Lock(); f(); s.mu.Unlock() }

type vf17StorStat struct{ started, finished, active, parked, okS, okB, failS, failB int }

func (s *vf17Stor) stat() vf17StorStat {
	s.mu.Lock()
	defer s.mu.Unlock()
	return vf17StorStat{s.started, s.finished, s.active, s.parked, s.okSingle, s.okBatch, s.failSingle, s.failBatch}
}

// ---------------------------------------------------------------------------------------
// one cache instance under monitoring

type vf17Obj struct {
	addr oid.Address
	data []byte
}

type vf17Params struct {
	Workers  int    `json:"workers"`
	Thr      uint64 `json:"batch_threshold"`
	BCount   int    `json:"batch_count"`
	BSize    uint64 `json:"batch_size"`
	MaxSize  uint64 `json:"max_cache_size"`
	Kind     string `json:"kind"`
	FailProb string `json:"fail_prob,omitempty"`
}

type vf17Inst struct {
	sameInstReopen bool // Close + Open of the same cache value happened in this case
	r    *verifkit.Run
	idx  int
	p    vf17Params
	dir  string
	st   *vf17Stor
	c    *cache
	desc map[string]any

	mu       sync.Mutex
	putOK    map[oid.Address]int // successful puts per address
	putStamp map[oid.Address]int64 // clock when the latest put of the address returned
	deleted  map[oid.Address]bool
	objs     map[oid.Address][]byte
	oplog    []string
	repeats  bool
	restarts int
}

func vf17Short(a oid.Address) string { return a.Object().EncodeToString()[:6] }

func (k *vf17Inst) logf(format string, a ...any) {
	k.mu.Lock()
	if len(k.oplog) < 400 {
		k.oplog = append(k.oplog, fmt.Sprintf(format, a...))
	}
	k.mu.Unlock()
}

func (k *vf17Inst) open(newStruct bool) error {
	if newStruct || k.c == nil {
		k.c = New(
			WithPath(filepath.Join(k.dir, "wc")),
			WithFlushWorkersCount(k.p.Workers),
			WithMaxCacheSize(k.p.MaxSize),
			WithMaxFlushBatchSize(k.p.BSize),
			WithMaxFlushBatchCount(k.p.BCount),
			WithMaxFlushBatchThreshold(k.p.Thr),
			func(o *options) { o.storage = k.st },
		).(*cache)
	}
	if err := k.c.Open(false); err != nil {
		return err
	}
	return k.c.Init(common.ID{})
}

func vf17NewInst(r *verifkit.Run, idx int, p vf17Params, rng *rand.Rand) (*vf17Inst, error) {
	base := os.Getenv("VERIF_SCRATCH")
	if base == "" {
		base = os.TempDir()
	}
	dir, err := os.MkdirTemp(base, fmt.Sprintf("c17-%d-", idx))
	if err != nil {
		return nil, err
	}
	main := fstree.New(fstree.WithPath(filepath.Join(dir, "main")), fstree.WithDepth(1))
	if err := main.Open(false); err != nil {
		return nil, err
	}
	if err := main.Init(common.ID{}); err != nil {
		return nil, err
	}
	k := &vf17Inst{r: r, idx: idx, p: p, dir: dir,
		st:    &vf17Stor{inner: main, rng: rand.New(rand.NewPCG(rng.Uint64(), rng.Uint64()))},
		putOK: map[oid.Address]int{}, putStamp: map[oid.Address]int64{}, deleted: map[oid.Address]bool{}, objs: map[oid.Address][]byte{}}
	if err := k.open(true); err != nil {
		return nil, err
	}
	return k, nil
}

func (k *vf17Inst) cleanup() {
	_ = k.st.inner.Close()
	_ = os.RemoveAll(k.dir)
}

// vf17MakeObj builds an object whose canonical binary form has exactly target bytes.
func vf17MakeObj(rng *rand.Rand, cnr cid.ID, owner user.ID, target int) vf17Obj {
	pl := target - 200
	if pl < 1 {
		pl = 1
	}
	for i := 0; i < 8; i++ {
		o := verifkit.NewObject(rng, cnr, owner, pl)
		b := o.Marshal()
		if len(b) == target || i == 7 {
			return vf17Obj{addr: verifkit.Addr(o), data: b}
		}
		pl += target - len(b)
		if pl < 1 {
			pl = 1
		}
	}
	panic("unreachable")
}

func (k *vf17Inst) put(o vf17Obj) error {
	k.mu.Lock()
	k.objs[o.addr] = o.data
	k.mu.Unlock()
	var err error
	if k.r.Guard(k.desc, func() { err = k.c.Put(o.addr, nil, o.data) }) {
		return errors.New("panic")
	}
	k.mu.Lock()
	defer k.mu.Unlock()
	// A flush acknowledged after this point is followed by a cache removal that sees the file
	// written by this put (stamping at the call instead would blame a flush that read an
	// older copy and removed it before this put wrote the file).
	k.putStamp[o.addr] = vf17Clock.Add(1)
	switch {
	case err == nil:
		k.putOK[o.addr]++
		if k.putOK[o.addr] > 1 {
			k.repeats = true
			k.r.Count("puts_ok_repeated_address", 1)
		}
		k.r.Count("puts_ok", 1)
	case errors.Is(err, ErrOutOfSpace):
		k.r.Count("puts_out_of_space", 1)
	default:
		k.r.Count("puts_other_error", 1)
	}
	return err
}

func (k *vf17Inst) del(a oid.Address) {
	k.mu.Lock()
	k.deleted[a] = true
	k.mu.Unlock()
	var err error
	k.r.Guard(k.desc, func() { err = k.c.Delete(a) })
	if err == nil {
		k.r.Count("deletes_ok", 1)
	} else {
		k.r.Count("deletes_not_found_or_error", 1)
	}
}

// ---- observation -------------------------------------------------------------------------

type vf17Snap struct {
	size      uint64
	objMap    map[oid.Address]uint64
	files     map[oid.Address]uint64
	junk      []string
	flushObjs map[oid.Address]bool // union of the marks read before and after the rest
	st        vf17StorStat
	torn      bool // reported size kept changing while the snapshot was taken
}

// walkFiles lists the object files of the cache tree with an independent directory walk
// (depth-1 layout: <first char>/<rest of "OID.CID">).
func (k *vf17Inst) walkFiles() (map[oid.Address]uint64, []string) {
	root := filepath.Join(k.dir, "wc")
	files := map[oid.Address]uint64{}
	var junk []string
	_ = filepath.WalkDir(root, func(p string, d fs.DirEntry, err error) error {
		if err != nil || d.IsDir() {
			return nil
		}
		rel, _ := filepath.Rel(root, p)
		if rel == ".fstree.json" || strings.HasPrefix(filepath.Base(rel), ".") {
			return nil
		}
		name := strings.ReplaceAll(rel, string(filepath.Separator), "")
		os_, cs, ok := strings.Cut(name, ".")
		var o oid.ID
		var c cid.ID
		if !ok || o.DecodeString(os_) != nil || c.DecodeString(cs) != nil {
			junk = append(junk, rel)
			return nil
		}
		fi, err := d.Info()
		if err != nil {
			return nil // removed meanwhile
		}
		files[oid.NewAddress(c, o)] = uint64(fi.Size())
		return nil
	})
	return files, junk
}

// snap reads the white-box state in a fixed order bracketed by two reads of the in-flight
// marks and of the reported size: fo1, size1, table, files, size2, fo2.  The in-flight set
// of the snapshot is the union of both reads; a snapshot whose reported size changed while
// it was taken is torn and retried.  This makes the SIZE oracle independent of how long a
// flush worker happens to be descheduled between removing a file and removing its table
// entry (it holds the address marked in flushObjs for that whole window), i.e. of machine load.
func (k *vf17Inst) snap() vf17Snap {
	var s vf17Snap
	for try := 0; try < 50; try++ {
		s = vf17Snap{flushObjs: map[oid.Address]bool{}}
		k.c.flushObjs.Range(func(key, _ any) bool { s.flushObjs[key.(oid.Address)] = true; return true })
		s.st = k.st.stat()
		s.size = k.c.objCounters.Size()
		s.objMap = k.c.objCounters.Map()
		s.files, s.junk = k.walkFiles()
		size2 := k.c.objCounters.Size()
		k.c.flushObjs.Range(func(key, _ any) bool { s.flushObjs[key.(oid.Address)] = true; return true })
		if size2 == s.size {
			break
		}
		s.torn = true
		runtime.Gosched()
	}
	return s
}

func vf17SameMap(a, b map[oid.Address]uint64) bool {
	if len(a) != len(b) {
		return false
	}
	for k, v := range a {
		if w, ok := b[k]; !ok || w != v {
			return false
		}
	}
	return true
}

func vf17SameSnap(a, b vf17Snap) bool {
	if a.size != b.size || a.st.started != b.st.started || a.st.finished != b.st.finished || len(a.flushObjs) != len(b.flushObjs) {
		return false
	}
	for x := range a.flushObjs {
		if !b.flushObjs[x] {
			return false
		}
	}
	return vf17SameMap(a.objMap, b.objMap) && vf17SameMap(a.files, b.files)
}

// stable returns a state seen unchanged in `need` consecutive samples; ok=false when the
// generous watchdog fired first (caller: inconclusive, never a violation).
func (k *vf17Inst) stable(need int, gap, watchdog time.Duration) (vf17Snap, bool) {
	start := time.Now()
	prev := k.snap()
	same := 1
	for same < need {
		if time.Since(start) > watchdog {
			return prev, false
		}
		time.Sleep(gap)
		cur := k.snap()
		if vf17SameSnap(prev, cur) {
			same++
		} else {
			same = 1
		}
		prev = cur
	}
	return prev, true
}

func vf17Sum(m map[oid.Address]uint64) (s uint64) {
	for _, v := range m {
		s += v
	}
	return
}

func (k *vf17Inst) dump(s vf17Snap) map[string]any {
	lst := func(m map[oid.Address]uint64) []string {
		var l []string
		for a, v := range m {
			l = append(l, fmt.Sprintf("%s:%d", vf17Short(a), v))
		}
		sort.Strings(l)
		return l
	}
	var fo []string
	for a := range s.flushObjs {
		fo = append(fo, vf17Short(a))
	}
	sort.Strings(fo)
	k.mu.Lock()
	ops := append([]string(nil), k.oplog...)
	k.mu.Unlock()
	return map[string]any{"case": k.desc, "reported_size": s.size, "objMap": lst(s.objMap), "cache_files": lst(s.files),
		"flushObjs": fo, "storage_calls_started": s.st.started, "storage_calls_finished": s.st.finished,
		"storage_calls_active": s.st.active, "ops": ops}
}

func (k *vf17Inst) repeatTag() string {
	k.mu.Lock()
	defer k.mu.Unlock()
	if k.repeats {
		return "after-repeated-put"
	}
	return "no-repeated-put"
}

// settled returns the table and the files restricted to addresses that are not marked as
// being flushed in this snapshot (an address in flight legitimately passes through
// file-without-entry / entry-without-file states under the cache's own serialization).
func (s vf17Snap) settled() (tbl, files map[oid.Address]uint64) {
	tbl, files = map[oid.Address]uint64{}, map[oid.Address]uint64{}
	for a, v := range s.objMap {
		if !s.flushObjs[a] {
			tbl[a] = v
		}
	}
	for a, v := range s.files {
		if !s.flushObjs[a] {
			files[a] = v
		}
	}
	return
}

// shape names how the per-address table relates to the files actually held.
func (s vf17Snap) shape() string {
	tbl, files := s.settled()
	if vf17SameMap(tbl, files) {
		if s.size != vf17Sum(s.objMap) {
			return "total-drift" // per-address table agrees with the files, only the total is off
		}
		return "consistent"
	}
	shape := "entry-mismatch"
	for a := range tbl {
		if _, ok := files[a]; !ok {
			shape = "entry-without-file"
		}
	}
	for a := range files {
		if _, ok := tbl[a]; !ok {
			shape = "file-without-entry"
		}
	}
	return shape
}

// checkSize is the SIZE oracle on a stable state.
func (k *vf17Inst) checkSize(s vf17Snap, phase string) {
	k.r.Count("quiescent_size_checks", 1)
	held := vf17Sum(s.files)
	if held > 0 {
		k.r.Count("quiescent_size_checks_nonempty_cache", 1)
	}
	if len(s.junk) > 0 {
		k.r.Seen("unparsable_cache_files", s.junk[0])
	}
	if s.size == held {
		return
	}
	if s.torn {
		k.r.Count("size_checks_skipped_torn_snapshot", 1)
		return
	}
	shape := s.shape()
	if shape == "consistent" {
		// the only disagreement concerns addresses a flush worker holds right now
		k.r.Count("size_checks_with_only_in_flight_disagreement", 1)
		return
	}
	dir := "reported>held"
	if s.size < held {
		dir = "reported<held"
	}
	key := fmt.Sprintf("size|%s|%s|%s", dir, shape, k.repeatTag())
	k.r.Violation(key, fmt.Sprintf("quiescent point (%s) of case %d: cache reports %d bytes used, cache tree holds %d bytes in %d object files (sum of per-address table %d, %d entries)",
		phase, k.idx, s.size, held, len(s.files), vf17Sum(s.objMap), len(s.objMap)), k.dump(s))
}

const (
	vf17Tick       = defaultMaxBatchDelay
	// bounded progress: the code's own back-off plus six ticks, tripled so that a machine under
	// heavy load (observed: load average 180 on 16 cores) cannot turn slowness into "stuck";
	// a cache that drains leaves the loop at once, so only non-draining cases pay for it
	vf17DrainBound = 3 * (defaultErrorDelay + 6*defaultMaxBatchDelay)
)

// drain waits (bounded) for the cache tree to become empty after writes and faults stopped
// and applies the DRAIN oracle.  Returns the last stable state.
func (k *vf17Inst) drain(scenario string) (vf17Snap, bool) {
	start := time.Now()
	drained := false
	for i := 0; time.Since(start) <= vf17DrainBound; i++ {
		if len(k.c.objCounters.Map()) == 0 || i%10 == 9 {
			if f, _ := k.walkFiles(); len(f) == 0 {
				drained = true
				break
			}
		}
		time.Sleep(20 * time.Millisecond)
	}
	var (
		s  vf17Snap
		ok bool
	)
	if drained {
		s, ok = k.stable(3, 30*time.Millisecond, 3*vf17DrainBound)
	} else {
		s, ok = k.stable(8, vf17Tick, 3*vf17DrainBound)
	}
	if !drained {
		// an object whose flush the main storage acknowledged after its latest put returned
		// must have left the cache long ago (removal is the step right after the flush)
		for a := range s.files {
			k.mu.Lock()
			issued := k.putStamp[a]
			k.mu.Unlock()
			if at := k.st.ackedAt(a); at > issued {
				k.r.Violation("not-removed|flush-acknowledged-but-still-in-cache|"+scenario,
					fmt.Sprintf("case %d: %.0fs after writes and faults stopped object %s is still in the cache although the main storage acknowledged a flush of it after its latest put", k.idx, time.Since(start).Seconds(), vf17Short(a)), k.dump(s))
				return s, true
			}
		}
	}
	if !ok {
		k.r.Inconclusive(fmt.Sprintf("case %d: cache state never became stable after writes and faults stopped", k.idx))
		return s, false
	}
	if len(s.files) == 0 {
		k.r.Count("cases_drained", 1)
		return s, true
	}
	// Not drained within errorDelay + 6 ticks, state stable over 2 more seconds, no
	// main-storage call in progress: decide by state.
	stuck := false
	for a := range s.files {
		_, inMap := s.objMap[a]
		switch {
		case s.st.active != 0:
		case inMap && s.flushObjs[a]:
			stuck = true
			reopened := ""
			if k.sameInstReopen {
				reopened = "|after-reopen-of-the-same-cache-instance"
			}
			k.r.Violation(fmt.Sprintf("stuck|marked-in-flight-forever|%s|%s|%s%s", k.st.attemptState(a), k.st.anyFailed(), scenario, reopened),
				fmt.Sprintf("case %d: object %s is still in the cache %.0fs after writes and faults stopped; it is marked as being flushed (flushObjs) but no flush call is active, so the scheduler skips it forever",
					k.idx, vf17Short(a), time.Since(start).Seconds()), k.dump(s))
		case !inMap:
			stuck = true
			k.r.Violation(fmt.Sprintf("stuck|file-without-counter-entry|%s|%s", k.st.anyFailed(), scenario),
				fmt.Sprintf("case %d: object file %s is in the cache tree but unknown to the size table, the scheduler never sees it", k.idx, vf17Short(a)), k.dump(s))
		}
		if stuck {
			break
		}
	}
	if !stuck {
		k.r.Inconclusive(fmt.Sprintf("case %d: cache not empty at the progress bound but no stuck object identified (still progressing?)", k.idx))
		return s, false
	}
	return s, true
}

// checkMain: every acknowledged, never deleted object that left the cache must be in the
// main storage with identical bytes (objects still held by the cache were judged by drain).
func (k *vf17Inst) checkMain(s vf17Snap) {
	k.mu.Lock()
	defer k.mu.Unlock()
	for a, n := range k.putOK {
		if n == 0 || k.deleted[a] {
			continue
		}
		if _, held := s.files[a]; held {
			continue
		}
		b, err := k.st.inner.GetBytes(a)
		switch {
		case err != nil:
			k.r.Violation("lost|not-in-cache-not-in-main|"+k.p.Kind, fmt.Sprintf("case %d: acknowledged object %s is neither in the cache nor in the main storage: %v", k.idx, vf17Short(a), err), k.desc)
		case !bytes.Equal(b, k.objs[a]):
			k.r.Violation("corrupt|main-bytes-differ|"+k.p.Kind, fmt.Sprintf("case %d: object %s flushed with different bytes (%d vs %d)", k.idx, vf17Short(a), len(b), len(k.objs[a])), k.desc)
		default:
			k.r.Count("objects_verified_in_main_storage", 1)
		}
	}
}

// probeFits: observable form of SIZE on an empty cache – an object of exactly the maximum
// size fits and must be admitted.
func (k *vf17Inst) probeFits(rng *rand.Rand, cnr cid.ID, owner user.ID, s vf17Snap) {
	if len(s.files) != 0 || len(s.flushObjs) != 0 || s.torn {
		return // not empty, or a worker still holds addresses: the reported size may legitimately lag
	}
	o := vf17MakeObj(rng, cnr, owner, int(k.p.MaxSize))
	if uint64(len(o.data)) != k.p.MaxSize {
		return
	}
	k.logf("probe put %s size=%d (== max cache size, cache tree empty)", vf17Short(o.addr), len(o.data))
	err := k.put(o)
	k.r.Count("admission_probes", 1)
	if errors.Is(err, ErrOutOfSpace) {
		k.r.Violation("admission|no-space-though-fits|"+k.snap().shape()+"|"+k.repeatTag(),
			fmt.Sprintf("case %d: cache tree is empty, max size %d, put of a %d-byte object refused with out-of-space (reported used size %d)", k.idx, k.p.MaxSize, len(o.data), k.c.objCounters.Size()), k.dump(s))
	}
}

func (k *vf17Inst) finish(rng *rand.Rand, cnr cid.ID, owner user.ID, scenario string) {
	s, ok := k.drain(scenario)
	if ok && len(s.files) == 0 && len(s.flushObjs) != 0 {
		// the tree is empty but a flush worker still holds addresses (it is between removing
		// the last file and dropping its table entry / mark): let it finish, state based,
		// with a generous watchdog whose firing only skips the admission probe
		if vf17Await(func() bool { n := 0; k.c.flushObjs.Range(func(_, _ any) bool { n++; return false }); return n == 0 }, 60*vf17Tick) {
			s, ok = k.stable(3, 30*time.Millisecond, 3*vf17DrainBound)
		} else {
			k.r.Count("cases_with_marks_left_on_an_empty_cache", 1)
		}
	}
	if ok {
		k.checkSize(s, "after drain")
		k.checkMain(s)
		k.probeFits(rng, cnr, owner, s)
	}
	st := k.st.stat()
	k.mu.Lock()
	nops := len(k.oplog)
	first := append([]string(nil), k.oplog[:min(6, nops)]...)
	k.mu.Unlock()
	k.r.Sample(map[string]any{"case": k.desc, "ops_logged": nops, "first_ops": first, "drained": ok && len(s.files) == 0,
		"main_calls_ok": st.okS + st.okB, "main_calls_failed": st.failS + st.failB})
	k.r.Count("main_put_ok", st.okS)
	k.r.Count("main_putbatch_ok", st.okB)
	k.r.Count("main_put_failed", st.failS)
	k.r.Count("main_putbatch_failed", st.failB)
	k.r.Guard(k.desc, func() { _ = k.c.Close() })
	k.cleanup()
}

// restart closes the cache at a quiescent point and opens it again (new process image:
// fresh struct, recount from disk; or the same struct re-opened).
func (k *vf17Inst) restart(fresh bool) bool {
	var err error
	k.r.Guard(k.desc, func() {
		if err = k.c.Close(); err == nil {
			err = k.open(fresh)
		}
	})
	if err != nil {
		k.r.Inconclusive(fmt.Sprintf("case %d: restart failed: %v", k.idx, err))
		return false
	}
	k.restarts++
	if !fresh {
		k.sameInstReopen = true
		k.r.Count("restarts_of_the_same_cache_instance", 1)
	}
	k.r.Count("restarts", 1)
	k.logf("restart fresh=%v", fresh)
	return true
}

// ---------------------------------------------------------------------------------------
// scenarios

// A: constructed.  All workers are busy inside a stalled main storage; small objects and one
// object above the batch threshold wait; the stalled flush then fails.  Afterwards the
// storage is healthy and nothing is written any more: everything must drain.
func vf17CaseLeak(r *verifkit.Run, idx int) {
	// The construction needs all puts to land between two scheduler ticks (the tick is the
	// code's own 1 s timer); when a tick falls in between, the attempt is abandoned and the
	// case is rebuilt on a fresh instance (bounded), so the outcome does not depend on load.
	for attempt := 0; attempt < 6; attempt++ {
		if !vf17CaseLeakTry(r, idx, attempt, attempt == 5) {
			return
		}
		r.Count("constructed_case_rebuilt_because_a_tick_fell_between_its_puts", 1)
	}
}

func vf17CaseLeakTry(r *verifkit.Run, idx, attempt int, last bool) (retry bool) {
	rng := r.Rand("leak", idx*16+attempt)
	p := vf17Params{Workers: 1 + idx%2, Thr: 2048, BCount: 8, BSize: 1 << 20, MaxSize: 1 << 20, Kind: "constructed-big-closes-batch-while-flush-fails"}
	k, err := vf17NewInst(r, idx, p, rng)
	if err != nil {
		r.Inconclusive("setup: " + err.Error())
		return false
	}
	nSmall := 1 + rng.IntN(3)
	k.desc = map[string]any{"scenario": p.Kind, "case": idx, "params": p, "small_waiting": nSmall}
	cnr, owner := verifkit.RandCID(rng), verifkit.RandUser(rng)
	gate := make(chan struct{})
	k.st.set(func() { k.st.gate = gate; k.st.gateFail = true })
	// occupy every worker with a flush of one small object (one per tick, so that each is
	// a batch of its own)
	for i := 0; i < p.Workers; i++ {
		k.put(vf17MakeObj(rng, cnr, owner, 400+i))
		if !vf17Await(func() bool { return k.st.stat().parked == i+1 }, 20*vf17Tick) {
			close(gate)
			k.finishQuiet()
			if !last {
				return true
			}
			r.Inconclusive(fmt.Sprintf("case %d: workers did not reach the stalled storage", idx))
			return false
		}
	}
	k.logf("occupied %d workers with flushes of one small object each (main storage stalls)", p.Workers)
	var smalls []vf17Obj
	for i := 0; i < nSmall; i++ {
		o := vf17MakeObj(rng, cnr, owner, 300+50*i)
		smalls = append(smalls, o)
		k.put(o)
	}
	big := vf17MakeObj(rng, cnr, owner, int(p.Thr)+1)
	k.put(big)
	k.logf("put %d small objects and big %s (size %d > threshold %d)", nSmall, vf17Short(big.addr), len(big.data), p.Thr)
	// scheduler: smalls form a pending batch, big closes it -> hand-off blocks (all workers busy)
	if !vf17Await(func() bool { _, ok := k.c.flushObjs.Load(big.addr); return ok }, 20*vf17Tick) {
		close(gate)
		k.finishQuiet()
		if !last {
			return true
		}
		r.Inconclusive(fmt.Sprintf("case %d: scheduler did not reach the big object", idx))
		return false
	}
	time.Sleep(vf17Tick / 10) // let the scheduler park in the hand-off select
	s, ok := k.stable(3, 30*time.Millisecond, 10*time.Second)
	if ok {
		k.checkSize(s, "workers stalled in main storage")
	}
	// the stalled flushes now fail; from here on the storage is healthy and writes stopped
	k.st.set(func() { k.st.gate = nil })
	close(gate)
	k.logf("stalled flushes fail now; storage healthy from here on, no more writes")
	r.Distinct(fmt.Sprintf("leak|w=%d|small=%d", p.Workers, nSmall))
	k.finish(rng, cnr, owner, p.Kind)
	r.Eval(1)
	return false
}

// D: constructed.  Only the flush of the LARGEST cached object (it sorts last in the
// scheduler's size order) stalls in the main storage; while it is in flight a few smaller
// objects arrive and the scheduler runs further rounds.  The storage is healthy for every other
// call and the stalled call succeeds in the end: everything must drain.  All steps are
// awaited by state (calls parked in the storage wrapper, in-flight marks / table entries of
// the cache), never by elapsed time; the verdict is the DRAIN oracle of finish().
func vf17CaseLargestInFlight(r *verifkit.Run, idx int) {
	rng := r.Rand("largest-in-flight", idx)
	thr := uint64(2048)
	// at least two workers: one is held by the stalled flush, the others keep the scheduler's hand-offs moving
	p := vf17Params{Workers: 2 + idx%3, Thr: thr, BCount: 8, BSize: 1 << 20, MaxSize: 1 << 20, Kind: "constructed-largest-in-flight-while-smaller-arrive"}
	k, err := vf17NewInst(r, 2000+idx, p, rng)
	if err != nil {
		r.Inconclusive("setup: " + err.Error())
		return
	}
	nSmall := 1 + rng.IntN(4)
	// the largest object is above the batch threshold (flushed alone) or below it (a batch of one)
	bigSize := int(thr) + 1 + rng.IntN(int(thr))
	if idx%2 == 1 {
		bigSize = 1200 + rng.IntN(int(thr)-1200)
	}
	k.desc = map[string]any{"scenario": p.Kind, "case": idx, "params": p, "small_arriving": nSmall, "largest_size": bigSize}
	cnr, owner := verifkit.RandCID(rng), verifkit.RandUser(rng)
	big := vf17MakeObj(rng, cnr, owner, bigSize)
	gate := make(chan struct{})
	k.st.set(func() { k.st.gate = gate; k.st.gateOnly = &big.addr })
	wd := 60 * vf17Tick // watchdogs only turn the case inconclusive
	k.put(big)
	if !vf17Await(func() bool { return k.st.stat().parked == 1 }, wd) {
		close(gate)
		r.Inconclusive(fmt.Sprintf("case %d: the flush of the largest object did not reach the stalled storage", k.idx))
		k.finishQuiet()
		return
	}
	k.logf("put largest %s size=%d; its flush is stalled inside the main storage (all other calls pass)", vf17Short(big.addr), len(big.data))
	var smalls []vf17Obj
	for i := 0; i < nSmall; i++ {
		o := vf17MakeObj(rng, cnr, owner, 300+rng.IntN(800)) // < largest, <= threshold, together far below batch count/size
		smalls = append(smalls, o)
		err := k.put(o)
		k.logf("put %s size=%d -> %v", vf17Short(o.addr), len(o.data), err)
	}
	// a scheduler round has dealt with a small object once it is marked in flight or has left the
	// size table; wait until that holds for all of them, then for one more full round (the next
	// small object put now is dealt with the same way) - the largest one is in flight throughout
	seen := func(objs []vf17Obj) func() bool {
		return func() bool {
			tbl := k.c.objCounters.Map()
			for _, o := range objs {
				_, marked := k.c.flushObjs.Load(o.addr)
				if _, in := tbl[o.addr]; in && !marked {
					return false
				}
			}
			return true
		}
	}
	ok := vf17Await(seen(smalls), wd)
	if ok {
		late := vf17MakeObj(rng, cnr, owner, 250+rng.IntN(50))
		smalls = append(smalls, late)
		err := k.put(late)
		k.logf("a scheduler round passed with the largest in flight; put %s size=%d -> %v", vf17Short(late.addr), len(late.data), err)
		ok = vf17Await(seen(smalls), wd)
	}
	if !ok || k.st.stat().parked != 1 {
		close(gate)
		r.Inconclusive(fmt.Sprintf("case %d: scheduler rounds with the largest object in flight were not observed", k.idx))
		k.finishQuiet()
		return
	}
	r.Count("constructed_rounds_with_largest_object_in_flight", 1)
	if s, ok := k.stable(3, 30*time.Millisecond, 30*time.Second); ok {
		k.checkSize(s, "flush of the largest object stalled in main storage")
	}
	k.st.set(func() { k.st.gate = nil; k.st.gateOnly = nil })
	close(gate)
	k.logf("two scheduler rounds passed with the largest in flight; stalled flush released (succeeds); no more writes")
	r.Distinct(fmt.Sprintf("largest|w=%d|small=%d|big=%d", p.Workers, nSmall, bigSize))
	k.finish(rng, cnr, owner, p.Kind)
	r.Eval(1)
}

func (k *vf17Inst) finishQuiet() {
	k.r.Guard(k.desc, func() { _ = k.c.Close() })
	k.cleanup()
}

func vf17Await(cond func() bool, watchdog time.Duration) bool {
	start := time.Now()
	for !cond() {
		if time.Since(start) > watchdog {
			return false
		}
		time.Sleep(5 * time.Millisecond)
	}
	return true
}

// B: sequential puts with repeats while the main storage stalls (nothing leaves the cache,
// so the reference content is exact); admission judged against the reference.
func vf17CaseSeq(r *verifkit.Run, idx int) {
	rng := r.Rand("seq", idx)
	thr := uint64(1024 << rng.IntN(3))
	p := vf17Params{Workers: 1 + rng.IntN(4), Thr: thr, BCount: 2 + rng.IntN(6), BSize: thr * uint64(2+rng.IntN(6)), Kind: "sequential-repeats-storage-stalled"}
	nObj := 3 + rng.IntN(6)
	withRepeats := (idx/2)%3 != 0
	cnr, owner := verifkit.RandCID(rng), verifkit.RandUser(rng)
	var objs []vf17Obj
	var total uint64
	for i := 0; i < nObj; i++ {
		var sz int
		switch rng.IntN(5) {
		case 0:
			sz = int(thr) - 1
		case 1:
			sz = int(thr)
		case 2:
			sz = int(thr) + 1
		case 3:
			sz = 250 + rng.IntN(300)
		default:
			sz = int(thr)*2 + rng.IntN(int(thr))
		}
		o := vf17MakeObj(rng, cnr, owner, sz)
		objs = append(objs, o)
		total += uint64(len(o.data))
	}
	// everything fits exactly once plus one more object of the universe; a cache that counts
	// a re-put twice runs out of admission room although the tree holds each object once
	var largest uint64
	for _, o := range objs {
		largest = max(largest, uint64(len(o.data)))
	}
	p.MaxSize = total + largest
	k, err := vf17NewInst(r, idx, p, rng)
	if err != nil {
		r.Inconclusive("setup: " + err.Error())
		return
	}
	k.desc = map[string]any{"scenario": p.Kind, "case": idx, "params": p, "objects": nObj, "repeats": withRepeats}
	gate := make(chan struct{})
	k.st.set(func() { k.st.gate = gate })
	held := map[oid.Address]uint64{}
	var heldSum uint64
	nOps := nObj + rng.IntN(2*nObj)
	order := rng.Perm(nObj)
	sig := fmt.Sprintf("seq|thr=%d|w=%d|", thr, p.Workers)
	for i := 0; i < nOps; i++ {
		var o vf17Obj
		if i < nObj {
			o = objs[order[i]]
		} else if withRepeats {
			o = objs[rng.IntN(nObj)]
		} else {
			break
		}
		// "must fit": used + size <= max even if the put does not replace anything.  (A put that
		// would only fit because it replaces its own copy may be refused: that is admission
		// policy, not size accounting – the statement does not speak about it.)
		fits := heldSum+uint64(len(o.data)) <= p.MaxSize
		err := k.put(o)
		k.logf("put %s size=%d -> %v", vf17Short(o.addr), len(o.data), err)
		sig += fmt.Sprintf("%d,", len(o.data))
		if err == nil {
			heldSum += uint64(len(o.data)) - held[o.addr]
			held[o.addr] = uint64(len(o.data))
		} else if errors.Is(err, ErrOutOfSpace) && fits {
			k.r.Violation("admission|no-space-though-fits|"+k.snap().shape()+"|"+k.repeatTagAfter(o.addr),
				fmt.Sprintf("case %d: cache holds %d of max %d bytes, put of %s (%d bytes) refused with out-of-space although held+size <= max; reported used size %d",
					idx, heldSum, p.MaxSize, vf17Short(o.addr), len(o.data), k.c.objCounters.Size()), k.dump(k.snap()))
		}
	}
	s, ok := k.stable(3, 30*time.Millisecond, 10*time.Second)
	if ok {
		k.checkSize(s, "all puts returned, main storage stalled")
		if !vf17SameMap(s.files, held) {
			r.Inconclusive(fmt.Sprintf("case %d: cache tree content differs from the reference although nothing could be flushed", idx))
		}
	} else {
		r.Inconclusive(fmt.Sprintf("case %d: no stable state while storage stalled", idx))
	}
	if idx%4 == 1 { // restart with a non-empty cache: the recount from disk must be exact too
		// parked and later flushes fail, so the content stays in the cache across the restart
		k.st.set(func() { k.st.gate = nil; k.st.gateFail = true; k.st.failAll = true })
		close(gate)
		if k.restart(idx%8 == 1) {
			if s, ok := k.stable(3, 30*time.Millisecond, 10*time.Second); ok {
				k.checkSize(s, "after restart with non-empty cache")
			}
		}
		k.st.set(func() { k.st.gateFail = false; k.st.failAll = false })
	} else {
		k.st.set(func() { k.st.gate = nil })
		close(gate)
	}
	r.Distinct(sig)
	k.finish(rng, cnr, owner, p.Kind)
	r.Eval(1)
}

func (k *vf17Inst) repeatTagAfter(a oid.Address) string {
	k.mu.Lock()
	defer k.mu.Unlock()
	if k.repeats || k.putOK[a] > 0 {
		return "after-repeated-put"
	}
	return "no-repeated-put"
}

// C: concurrent clients (repeated puts of few addresses, deletes) while the background
// flusher runs against a slow main storage with random transient failures.
func vf17CaseConc(r *verifkit.Run, idx int) {
	rng := r.Rand("conc", idx)
	thr := uint64(1024 << rng.IntN(2))
	p := vf17Params{Workers: 1 + rng.IntN(3), Thr: thr, BCount: 2 + rng.IntN(4), BSize: thr * uint64(2+rng.IntN(4)), MaxSize: 256 << 10, Kind: "concurrent-random-faults"}
	probs := []float64{0, 0.15, 0.4, 1}
	fp := probs[rng.IntN(len(probs))]
	p.FailProb = fmt.Sprint(fp)
	k, err := vf17NewInst(r, idx, p, rng)
	if err != nil {
		r.Inconclusive("setup: " + err.Error())
		return
	}
	withRepeats := idx%2 == 0
	withDeletes := idx%3 == 0
	k.desc = map[string]any{"scenario": p.Kind, "case": idx, "params": p, "repeats": withRepeats, "deletes": withDeletes}
	cnr, owner := verifkit.RandCID(rng), verifkit.RandUser(rng)
	k.st.set(func() {
		k.st.failProb = fp
		k.st.maxDelay = time.Duration(5+rng.IntN(60)) * time.Millisecond
		if rng.IntN(2) == 0 {
			k.st.failErr = common.ErrNoSpace
		}
	})
	nClients := 2 + rng.IntN(3)
	nObj := 6 + rng.IntN(10)
	var objs []vf17Obj
	for i := 0; i < nObj; i++ {
		var sz int
		switch rng.IntN(4) {
		case 0:
			sz = int(thr) + rng.IntN(3) - 1
		case 1, 2:
			sz = 250 + rng.IntN(400)
		default:
			sz = int(thr)*2 + rng.IntN(int(thr))
		}
		objs = append(objs, vf17MakeObj(rng, cnr, owner, sz))
	}
	var wg sync.WaitGroup
	for cl := 0; cl < nClients; cl++ {
		crng := rand.New(rand.NewPCG(rng.Uint64(), rng.Uint64()))
		var mine []vf17Obj
		if withRepeats {
			mine = objs // all clients hammer the same few addresses
		} else {
			for i := cl; i < nObj; i += nClients { // each address put exactly once
				mine = append(mine, objs[i])
			}
		}
		wg.Add(1)
		go func() {
			defer wg.Done()
			n := len(mine)
			if withRepeats {
				n = 12 + crng.IntN(20)
			}
			for i := 0; i < n; i++ {
				o := mine[i%len(mine)]
				if withRepeats {
					o = mine[crng.IntN(len(mine))]
				}
				if withDeletes && crng.IntN(6) == 0 {
					k.del(o.addr)
					k.logf("delete %s", vf17Short(o.addr))
				} else {
					err := k.put(o)
					k.logf("put %s size=%d -> %v", vf17Short(o.addr), len(o.data), err)
				}
				time.Sleep(time.Duration(crng.IntN(120)) * time.Millisecond)
			}
		}()
	}
	wg.Wait()
	// quiescent point with (usually) a non-empty cache: stall the storage, wait for a stable state
	gate := make(chan struct{})
	k.st.set(func() { k.st.gate = gate })
	if s, ok := k.stable(4, 40*time.Millisecond, 30*time.Second); ok {
		k.checkSize(s, "clients done, main storage stalled")
	} else {
		r.Inconclusive(fmt.Sprintf("case %d: no stable state after clients finished", idx))
	}
	k.st.set(func() { k.st.gate = nil; k.st.failProb = 0; k.st.failAll = false; k.st.maxDelay = 0 })
	close(gate)
	k.logf("faults off, writes stopped")
	r.Distinct(fmt.Sprintf("conc|%d|%v|%v|%v|w=%d|c=%d|n=%d", idx, fp, withRepeats, withDeletes, p.Workers, nClients, nObj))
	k.finish(rng, cnr, owner, p.Kind)
	r.Eval(1)
}

// R: constructed races between a client put and the cache removal that ends a flush of the
// same address (needs the pause points between file and size-table update; runs alone).
func vf17CaseRace(r *verifkit.Run, h *verifkit.Hooks, idx int) {
	rng := r.Rand("race", idx)
	variant := []string{"put-inside-flush-removal", "flush-removal-inside-put"}[idx%2]
	p := vf17Params{Workers: 1, Thr: 2048, BCount: 4, BSize: 1 << 16, MaxSize: 1 << 20, Kind: "constructed-" + variant}
	k, err := vf17NewInst(r, 1000+idx, p, rng)
	if err != nil {
		r.Inconclusive("setup: " + err.Error())
		return
	}
	k.desc = map[string]any{"scenario": p.Kind, "case": idx, "params": p}
	cnr, owner := verifkit.RandCID(rng), verifkit.RandUser(rng)
	x := vf17MakeObj(rng, cnr, owner, 300+rng.IntN(int(p.Thr)*2))
	wd := 30 * vf17Tick
	switch variant {
	case "put-inside-flush-removal":
		reached, release := h.PauseAt("writecache.delete.file", h.Counts()["writecache.delete.file"]+1)
		k.put(x)
		k.logf("put %s size=%d; flusher will park between file removal and size-table update", vf17Short(x.addr), len(x.data))
		if !verifkit.WaitOrTimeout(reached, wd) {
			release()
			r.Inconclusive("race case: pause point writecache.delete.file never reached")
			k.finishQuiet()
			return
		}
		// the second put runs while the flusher is parked (a tree that serializes the two
		// makes it wait for the flusher instead: release after a grace period either way)
		done := make(chan struct{})
		go func() { defer close(done); k.put(x) }()
		inside := verifkit.WaitOrTimeout(done, 300*time.Millisecond)
		k.logf("flusher parked after removing the file; put %s again (returned while parked: %v); flusher released", vf17Short(x.addr), inside)
		release()
		<-done
	case "flush-removal-inside-put":
		gate := make(chan struct{})
		k.st.set(func() { k.st.gate = gate })
		k.put(x)
		if !vf17Await(func() bool { return k.st.stat().parked == 1 }, wd) {
			close(gate)
			r.Inconclusive("race case: flusher did not reach the stalled storage")
			k.finishQuiet()
			return
		}
		reached, release := h.PauseAt("writecache.put.file", h.Counts()["writecache.put.file"]+1)
		done := make(chan struct{})
		go func() { defer close(done); k.put(x) }()
		if !verifkit.WaitOrTimeout(reached, wd) {
			release()
			close(gate)
			r.Inconclusive("race case: pause point writecache.put.file never reached")
			<-done
			k.finishQuiet()
			return
		}
		k.logf("put %s; second put of it parked between file write and size-table update; stalled flush released", vf17Short(x.addr))
		before := h.Counts()["writecache.worker.done"]
		k.st.set(func() { k.st.gate = nil })
		close(gate)
		// the flush removal runs while the put is parked (or waits for it on a serializing tree)
		inside := vf17Await(func() bool { return h.Counts()["writecache.worker.done"] > before }, 500*time.Millisecond)
		release()
		<-done
		if !vf17Await(func() bool { return h.Counts()["writecache.worker.done"] > before }, wd) {
			r.Inconclusive("race case: flush did not finish")
			k.finishQuiet()
			return
		}
		k.logf("flush finished (inside the parked put: %v); second put released", inside)
	}
	if s, ok := k.stable(3, 30*time.Millisecond, 10*time.Second); ok {
		k.checkSize(s, "after the constructed put/flush-removal interleaving")
	}
	r.Distinct("race|" + variant)
	r.Count("constructed_put_vs_flush_removal_interleavings", 1)
	k.finish(rng, cnr, owner, p.Kind)
	r.Eval(1)
}

// ---------------------------------------------------------------------------------------

func TestVerif_C17(t *testing.T) {
	r := verifkit.Start(t, "C17", "exploration")
	defer r.Finish()
	r.SetRule("cases = real write-caches (real tick/back-off) over a fault-injecting main storage: (A) constructed: all workers stalled, a big object closes a pending batch, stalled flush fails; (D) constructed: only the flush of the largest cached object stalls while smaller objects arrive and scheduler rounds pass, then it succeeds; (B) sequential puts with repeats under a stalled storage (exact reference content, admission judged); (C) concurrent clients with repeats/deletes under random transient failures and slow storage. Distinct = distinct (scenario, parameters, size sequence); non-trivial = at least one size check on a non-empty cache and a drain verdict")
	r.Assume("quiescent point = all client calls returned, no main-storage call in progress or all of them parked, identical white-box state in >=3 consecutive samples")
	r.Assume("bounded progress: drain bound = errorDelay(10s) + 6 ticks; beyond it only a stable state with an identifiable stuck object is a violation, anything else inconclusive")
	h := verifkit.InstallHooks()
	defer h.Uninstall()

	// phase 0 (alone, the pause points are process-global): constructed put/flush-removal races
	for i := 0; i < r.Pick(2, 8); i++ {
		vf17CaseRace(r, h, i)
	}
	nA, nB, nC, nD := r.Pick(4, 16), r.Pick(16, 120), r.Pick(28, 360), r.Pick(6, 24)
	par := r.Pick(16, 24)
	type job func()
	var jobs []job
	for i := 0; i < nD; i++ {
		jobs = append(jobs, func() { vf17CaseLargestInFlight(r, i) })
	}
	for i := 0; i < nA; i++ {
		jobs = append(jobs, func() { vf17CaseLeak(r, i) })
	}
	for i := 0; i < nB; i++ {
		jobs = append(jobs, func() { vf17CaseSeq(r, i) })
	}
	for i := 0; i < nC; i++ {
		jobs = append(jobs, func() { vf17CaseConc(r, i) })
	}
	// interleave the kinds so long (10 s back-off) and short cases overlap
	sem := make(chan struct{}, par)
	var wg sync.WaitGroup
	for _, j := range jobs {
		wg.Add(1)
		sem <- struct{}{}
		go func() {
			defer wg.Done()
			defer func() { <-sem }()
			j()
		}()
	}
	wg.Wait()

	cnt := h.Counts()
	for name, n := range cnt {
		if strings.HasPrefix(name, "writecache.") {
			r.Count("hook_"+name, n)
		}
	}
	if cnt["writecache.worker.got"] == 0 || cnt["writecache.sched.handoff"] == 0 {
		r.Inconclusive("H3 hook points of writecache/flush.go were never hit (hooks not compiled into this tree?)")
	} else if cnt["writecache.worker.got"] != cnt["writecache.worker.done"] {
		r.Inconclusive(fmt.Sprintf("flush workers took %d batches but finished %d", cnt["writecache.worker.got"], cnt["writecache.worker.done"]))
	}
	if r.Counter("quiescent_size_checks_nonempty_cache") == 0 || r.Counter("cases_drained") == 0 {
		r.Inconclusive("no size check on a non-empty cache or no drained case observed")
	}
}
