//go:build verif

package shard

import (
	"errors"
	"fmt"
	"os"
	"path/filepath"
	"sync"
	"testing"
	"time"

	"github.com/nspcc-dev/bbolt"
	"github.com/nspcc-dev/neofs-node/internal/verifkit"
	"github.com/nspcc-dev/neofs-node/pkg/local_object_storage/blobstor/fstree"
	meta "github.com/nspcc-dev/neofs-node/pkg/local_object_storage/metabase"
	cid "github.com/nspcc-dev/neofs-sdk-go/container/id"
	oid "github.com/nspcc-dev/neofs-sdk-go/object/id"
	"go.uber.org/zap"
)

// ---------------------------------------------------------------------------------------
// C47, shard leg: the new-epoch handler may discard a container only when payments are
// enabled, the payment check succeeded, and the container has been unpaid for at least
// three epochs counted from the epoch being processed (0 <= unpaidSince <= epoch and
// epoch - unpaidSince >= 3).  The oracle below is that sentence, nothing else.
// ---------------------------------------------------------------------------------------

const vf47Grace = 3

// vf47MayDiscard is the reference predicate of the statement (necessary condition).
func vf47MayDiscard(epoch uint64, since int64, paymentsDisabled, checkErr bool) bool {
	if paymentsDisabled || checkErr || since < 0 {
		return false
	}
	if uint64(since) > epoch { // mark newer than the processed epoch: not yet unpaid from its point of view
		return false
	}
	return epoch-uint64(since) >= vf47Grace
}

func vf47Why(epoch uint64, since int64, paymentsDisabled, checkErr bool) string {
	switch {
	case paymentsDisabled:
		return "payments-disabled"
	case checkErr:
		return "payment-check-error"
	case since < 0:
		return "paid"
	case uint64(since) > epoch:
		return "mark-newer-than-epoch"
	default:
		return "within-grace"
	}
}

type vf47Epoch struct{}

func (vf47Epoch) CurrentEpoch() uint64 { return 0 }

type vf47Mark struct {
	since int64
	err   bool
	errV  int64 // value returned together with the error (must be ignored)
}

// vf47Payments is the recording ContainerPayments fake.
type vf47Payments struct {
	mu       sync.Mutex
	disabled bool
	marks    map[cid.ID]vf47Mark
	asked    map[cid.ID]int
	entered  chan struct{} // signalled at every PaymentsDisabled call (= handler entry)
}

var errVf47Check = errors.New("vf47: FS chain RPC call: connection lost")

func (p *vf47Payments) PaymentsDisabled() bool {
	p.mu.Lock()
	d := p.disabled
	ch := p.entered
	p.mu.Unlock()
	if ch != nil {
		select {
		case ch <- struct{}{}:
		default:
		}
	}
	return d
}

func (p *vf47Payments) UnpaidSince(id cid.ID) (int64, error) {
	p.mu.Lock()
	defer p.mu.Unlock()
	p.asked[id]++
	m, ok := p.marks[id]
	if !ok {
		return -1, nil
	}
	if m.err {
		return m.errV, errVf47Check
	}
	return m.since, nil
}

func vf47NewShard(dir string, p ContainerPayments) (*Shard, error) {
	sh := New(
		WithLogger(zap.NewNop()),
		WithBlobstor(fstree.New(fstree.WithPath(filepath.Join(dir, "fstree")), fstree.WithDepth(1), fstree.WithNoSync(true))),
		WithMetaBaseOptions(
			meta.WithPath(filepath.Join(dir, "meta")),
			meta.WithEpochState(vf47Epoch{}),
			meta.WithLogger(zap.NewNop()),
			meta.WithBoltDBOptions(&bbolt.Options{NoSync: true}), // the property is not about durability
			meta.WithMaxBatchDelay(time.Microsecond),
		),
		WithContainerPayments(p),
	)
	if err := sh.Open(); err != nil {
		return nil, err
	}
	if err := sh.Init(); err != nil {
		_ = sh.Close()
		return nil, err
	}
	return sh, nil
}

type vf47Cnr struct {
	id    cid.ID
	addrs []oid.Address
}

// vf47Alive reports whether every object of the container is still available and whether
// none is (mixed states are reported as a violation by the caller).
func vf47Alive(sh *Shard, c vf47Cnr) (all, none bool, detail string) {
	all, none = true, true
	for _, a := range c.addrs {
		ex, err := sh.Exists(a, true)
		_, gerr := sh.Get(a, false)
		ok := err == nil && ex && gerr == nil
		if ok {
			none = false
		} else {
			all = false
			detail = fmt.Sprintf("%s: exists=%v/%v get=%v", a.Object(), ex, err, gerr)
		}
	}
	return
}

// vf47Deliver hands the epoch event to the shard: either a direct synchronous call of the
// handler or through the real notification channel (the wait is logical: the handler's
// entry is signalled by the fake, its end by the handler's own wait group).
func vf47Deliver(r *verifkit.Run, sh *Shard, p *vf47Payments, epoch uint64, viaChannel bool) bool {
	if !viaChannel {
		sh.setEpochEventHandler(EventNewEpoch(epoch))
		r.Count("events_direct", 1)
		return true
	}
	ent := make(chan struct{}, 1)
	p.mu.Lock()
	p.entered = ent
	p.mu.Unlock()
	sh.NotificationChannel() <- EventNewEpoch(epoch)
	if !verifkit.WaitOrTimeout(ent, 120*time.Second) {
		r.Inconclusive("watchdog: epoch event was not picked up by the shard's event listener")
		return false
	}
	sh.gc.mEventHandler[eventNewEpoch].prevGroup.Wait()
	p.mu.Lock()
	p.entered = nil
	p.mu.Unlock()
	r.Count("events_via_channel", 1)
	return true
}

func TestVerif_C47(t *testing.T) {
	r := verifkit.Start(t, "C47", "exploration")
	defer r.Finish()
	r.SetRule("grid: every (epoch 0..10, unpaidSince -1..12, payments on/off, payment check ok/error[returned value 0 or random]) is applied to a fresh one-or-two-object container through Shard.setEpochEventHandler, both by direct call and through the notification channel; histories: random non-monotonic epoch sequences with changing marks on a persistent container set; distinct = (route, epoch, unpaidSince, payments, check error, discarded)")
	r.SetExhaustive(true)
	r.Assume("container discard is observed as loss of availability (Exists/Get) of the container's objects right after the handler returned")

	base := os.Getenv("VERIF_SCRATCH")
	if base == "" {
		base = t.TempDir()
	}
	root, err := os.MkdirTemp(base, "c47-")
	if err != nil {
		t.Fatal(err)
	}
	defer os.RemoveAll(root)

	p := &vf47Payments{marks: map[cid.ID]vf47Mark{}, asked: map[cid.ID]int{}}
	sh, err := vf47NewShard(filepath.Join(root, "grid"), p)
	if err != nil {
		r.Inconclusive("cannot build shard: " + err.Error())
		return
	}
	defer func() { _ = sh.Close() }()
	owner := verifkit.RandUser(r.Rand("owner", 0))

	newCnr := func(rngIdx int) (vf47Cnr, bool) {
		rng := r.Rand("cnr", rngIdx)
		c := vf47Cnr{id: verifkit.RandCID(rng)}
		for i, n := 0, 1+rng.IntN(2); i < n; i++ {
			o := verifkit.NewObject(rng, c.id, owner, rng.IntN(64))
			if err := sh.Put(o, nil); err != nil {
				r.Inconclusive("put failed: " + err.Error())
				return c, false
			}
			c.addrs = append(c.addrs, o.Address())
		}
		return c, true
	}

	judge := func(route string, epoch uint64, c vf47Cnr, m vf47Mark, disabled bool, step any) {
		all, none, detail := vf47Alive(sh, c)
		r.Eval(1)
		may := vf47MayDiscard(epoch, m.since, disabled, m.err)
		discarded := !all
		r.Distinct(fmt.Sprintf("%s|%d|%d|%v|%v|%v", route, epoch, m.since, disabled, m.err, discarded))
		if (int(epoch)*31+int(m.since)*7)%53 == 0 {
			r.Sample(map[string]any{"route": route, "epoch": epoch, "unpaid_since": m.since, "payments_disabled": disabled, "payment_check_error": fmt.Sprint(m.err), "discarded": discarded, "reference_may_discard": may})
		}
		if !all && !none {
			r.Violation("epoch-handler|partial-discard", fmt.Sprintf("container %s partly unavailable after epoch %d: %s", c.id, epoch, detail), step)
		}
		switch {
		case discarded && !may:
			why := vf47Why(epoch, m.since, disabled, m.err)
			r.Count("discards_forbidden", 1)
			r.Violation("epoch-handler|discarded|"+why,
				fmt.Sprintf("processing epoch %d discarded container with unpaidSince=%d paymentsDisabled=%v checkError=%v (%s) via %s: %s", epoch, m.since, disabled, m.err, why, route, detail), step)
		case discarded:
			r.Count("discards_allowed_and_seen", 1)
		case may:
			r.Count("long_unpaid_kept", 1) // not demanded by the statement ("only if"), reported as observation
		default:
			r.Count("kept_as_required", 1)
		}
	}

	// ---- exhaustive grid ----
	cnrIdx := 0
	for _, viaChannel := range []bool{false, true} {
		route := "direct"
		if viaChannel {
			route = "channel"
		}
		for epoch := uint64(0); epoch <= 10; epoch++ {
			for _, disabled := range []bool{false, true} {
				type slot struct {
					c vf47Cnr
					m vf47Mark
				}
				var slots []slot
				p.mu.Lock()
				p.disabled = disabled
				p.marks = map[cid.ID]vf47Mark{}
				p.asked = map[cid.ID]int{}
				p.mu.Unlock()
				for since := int64(-1); since <= 12; since++ {
					for _, e := range []int{0, 1, 2} { // 0: check ok; 1: error with value 0; 2: error with the mark as value
						c, ok := newCnr(cnrIdx)
						cnrIdx++
						if !ok {
							return
						}
						m := vf47Mark{since: since, err: e != 0}
						if e == 2 {
							m.errV = since
						}
						p.mu.Lock()
						p.marks[c.id] = m
						p.mu.Unlock()
						slots = append(slots, slot{c, m})
					}
				}
				for _, s := range slots {
					if all, _, d := vf47Alive(sh, s.c); !all {
						r.Inconclusive("harness: fresh container not available before the event: " + d)
						return
					}
				}
				step := map[string]any{"part": "grid", "route": route, "epoch": epoch, "payments_disabled": disabled}
				delivered := false
				if r.Guard(step, func() { delivered = vf47Deliver(r, sh, p, epoch, viaChannel) }) || !delivered {
					return
				}
				asked := 0
				for _, s := range slots {
					judge(route, epoch, s.c, s.m, disabled, map[string]any{"part": "grid", "route": route, "epoch": epoch, "payments_disabled": disabled,
						"unpaid_since": s.m.since, "check_error": s.m.err, "value_with_error": s.m.errV})
					p.mu.Lock()
					asked += p.asked[s.c.id]
					p.mu.Unlock()
				}
				r.Count("payment_checks_observed", asked)
				// retire the containers of this round so that the next round sees only its own
				for _, s := range slots {
					_ = sh.InhumeContainer(s.c.id)
				}
				p.mu.Lock()
				p.marks = map[cid.ID]vf47Mark{}
				p.mu.Unlock()
			}
		}
	}

	// ---- histories: non-monotonic epochs, changing marks, persistent containers ----
	nHist := r.Pick(6, 60)
	for h := 0; h < nHist; h++ {
		rng := r.Rand("hist", h)
		p.mu.Lock()
		p.marks = map[cid.ID]vf47Mark{}
		p.disabled = false
		p.mu.Unlock()
		var cs []vf47Cnr
		for i := 0; i < 5; i++ {
			c, ok := newCnr(cnrIdx)
			cnrIdx++
			if !ok {
				return
			}
			cs = append(cs, c)
		}
		var trace []map[string]any
		for step := 0; step < 25; step++ {
			epoch := uint64(rng.IntN(11))
			if rng.IntN(3) == 0 && step > 0 {
				// delayed event: an epoch older than marks that were just set
				epoch = uint64(rng.IntN(4))
			}
			disabled := rng.IntN(6) == 0
			p.mu.Lock()
			p.disabled = disabled
			for _, c := range cs {
				if rng.IntN(2) == 0 {
					m := vf47Mark{since: int64(rng.IntN(14)) - 1, err: rng.IntN(7) == 0}
					if m.err && rng.IntN(2) == 0 {
						m.errV = m.since
					}
					p.marks[c.id] = m
				}
			}
			cur := map[cid.ID]vf47Mark{}
			for _, c := range cs {
				if m, ok := p.marks[c.id]; ok {
					cur[c.id] = m
				} else {
					cur[c.id] = vf47Mark{since: -1}
				}
			}
			p.mu.Unlock()
			viaChannel := rng.IntN(2) == 0
			route := "hist-direct"
			if viaChannel {
				route = "hist-channel"
			}
			st := map[string]any{"part": "history", "history": h, "step": step, "epoch": epoch, "payments_disabled": disabled, "route": route}
			trace = append(trace, st)
			delivered := false
			if r.Guard(trace, func() { delivered = vf47Deliver(r, sh, p, epoch, viaChannel) }) || !delivered {
				return
			}
			for i, c := range cs {
				m := cur[c.id]
				judge(route, epoch, c, m, disabled, map[string]any{"trace": trace, "container": i, "unpaid_since": m.since, "check_error": m.err})
				if all, _, _ := vf47Alive(sh, c); !all {
					// replace a discarded container by a fresh one
					_ = sh.InhumeContainer(c.id)
					p.mu.Lock()
					delete(p.marks, c.id)
					p.mu.Unlock()
					nc, ok := newCnr(cnrIdx)
					cnrIdx++
					if !ok {
						return
					}
					cs[i] = nc
				}
			}
		}
		for _, c := range cs {
			_ = sh.InhumeContainer(c.id)
		}
	}

	if r.Counter("discards_allowed_and_seen") == 0 {
		r.Inconclusive("the handler never discarded a long-unpaid container: the monitor observed no discard decision at all")
	}
	if r.Counter("payment_checks_observed") == 0 {
		r.Inconclusive("the handler never consulted the payment checker")
	}
}
