//go:build verif

package shard

// C44 "Garbage collection eventually removes everything that should be removed".
//
// Seeded histories (regular and split objects, tombstones, locks, expirations, operator
// marks, container removals, a few early GC passes) are applied to one real shard whose
// remover batch is smaller than the garbage volume.  Then epochs keep advancing and the
// real GC pass (removeGarbage) is run synchronously until a logical fixed point.  An
// oracle computed from the history says which objects must be gone by then; blob
// storage is asked through the storage interface and the metabase file is read raw
// (layout of metabase/VERSION.md) after the shard was closed.
//
// Split objects: the removal (tombstone, mark) of a parent extends to the pieces held by
// the shard only if the shard holds, at that moment, a piece naming the parent (last
// child, link).  Pieces held without one (the naming pieces never reached this shard, or
// were collected earlier as redundant replicas) cannot be related to the parent's ID by
// anything the shard has; for the shard they are not tombstoned/marked objects and the
// statement demands nothing for them.  Both shapes are generated on purpose.

import (
	"bytes"
	"context"
	"crypto/sha256"
	"errors"
	"fmt"
	"math/rand/v2"
	"os"
	"path/filepath"
	"sort"
	"strings"
	"sync"
	"sync/atomic"
	"testing"
	"time"

	"github.com/nspcc-dev/bbolt"
	"github.com/nspcc-dev/neofs-node/internal/verifkit"
	"github.com/nspcc-dev/neofs-node/pkg/local_object_storage/blobstor/fstree"
	meta "github.com/nspcc-dev/neofs-node/pkg/local_object_storage/metabase"
	apistatus "github.com/nspcc-dev/neofs-sdk-go/client/status"
	cid "github.com/nspcc-dev/neofs-sdk-go/container/id"
	"github.com/nspcc-dev/neofs-sdk-go/object"
	oid "github.com/nspcc-dev/neofs-sdk-go/object/id"
	"github.com/nspcc-dev/neofs-sdk-go/user"
	"go.uber.org/zap"
)

type vf44Epoch struct{ v atomic.Uint64 }

func (e *vf44Epoch) CurrentEpoch() uint64 { return e.v.Load() }

type vf44NoPayments struct{}

func (vf44NoPayments) PaymentsDisabled() bool            { return true }
func (vf44NoPayments) UnpaidSince(cid.ID) (int64, error) { return -1, nil }

// vf44CB: what the engine does with the expired objects of a single shard (skip locked,
// skip not found / already removed, delete the rest physically).
type vf44CB struct {
	mu       sync.Mutex
	sh       *Shard
	reported int
}

func (c *vf44CB) handle(addrs []oid.Address) {
	c.mu.Lock()
	c.reported += len(addrs)
	c.mu.Unlock()
	for _, a := range addrs {
		if locked, err := c.sh.IsLocked(a); err == nil && locked {
			continue
		}
		ok, err := c.sh.Exists(a, true)
		if err != nil || !ok {
			continue
		}
		_ = c.sh.Delete(a.Container(), []oid.ID{a.Object()})
	}
}

func vf44NewShard(dir string, ep *vf44Epoch, cb *vf44CB, rmBatch int) (*Shard, error) {
	fst := fstree.New(fstree.WithPath(filepath.Join(dir, "fstree")), fstree.WithNoSync(true))
	sh := New(
		WithLogger(zap.NewNop()),
		WithBlobstor(fst),
		WithMetaBaseOptions(
			meta.WithPath(filepath.Join(dir, "meta")),
			meta.WithEpochState(ep),
			meta.WithLogger(zap.NewNop()),
			meta.WithMaxBatchDelay(time.Microsecond),
			meta.WithBoltDBOptions(&bbolt.Options{NoSync: true, Timeout: time.Second}),
		),
		WithExpiredObjectsCallback(cb.handle),
		WithGCRemoverSleepInterval(240*time.Hour), // passes are driven by the monitor
		WithRemoverBatchSize(rmBatch),
		WithContainerPayments(vf44NoPayments{}),
	)
	cb.sh = sh
	if err := sh.Open(); err != nil {
		return nil, err
	}
	if err := sh.Init(); err != nil {
		return nil, err
	}
	return sh, nil
}

func vf44SendEpoch(sh *Shard, e uint64) bool {
	sh.NotificationChannel() <- EventNewEpoch(e)
	for i := 0; i < 400000; i++ {
		if sh.gc.currentEpoch.Load() == e {
			return true
		}
		time.Sleep(50 * time.Microsecond)
	}
	return false
}

const (
	vf44Reg = iota
	vf44Child
	vf44Link
	vf44Parent // virtual: only its header travels inside children
	vf44Lock
	vf44Tomb
)

var vf44KindName = [...]string{"reg", "child", "link", "parent", "lock", "tomb"}

type vf44Slot struct {
	name   string
	kind   int
	cnr    int
	obj    *object.Object
	addr   oid.Address
	exp    int64
	target int
	parent int   // children/link: slot of the parent
	pieces []int // parent: slots of children and link

	acked      bool // some Put of it was acknowledged (parent: a piece carrying its header)
	tombstoned bool
	marked     bool
	cnrRemoved bool
}

type vf44Cnr struct {
	id      cid.ID
	removed bool
}

type vf44Case struct {
	r     *verifkit.Run
	idx   int
	rng   *rand.Rand
	shape *rand.Rand // separate stream: decisions about unrelatable-piece shapes
	sh    *Shard
	ep    *vf44Epoch
	cb    *vf44CB
	owner user.ID
	cnrs  []*vf44Cnr
	slots []*vf44Slot
	epoch uint64
	log   []string
	rmB   int
	noBig bool // case without split objects
}

func (c *vf44Case) replay() map[string]any { return map[string]any{"case": c.idx, "ops": c.log} }

func (c *vf44Case) mk(kind, cnr int, exp int64, target int, payload int) *vf44Slot {
	o := verifkit.NewObject(c.rng, c.cnrs[cnr].id, c.owner, payload)
	if exp >= 0 {
		verifkit.SetExpiration(o, uint64(exp))
	}
	n := 0
	for _, s := range c.slots {
		if s.kind == kind {
			n++
		}
	}
	s := &vf44Slot{name: fmt.Sprintf("%s%d", vf44KindName[kind], n), kind: kind, cnr: cnr, obj: o, exp: exp, target: target, parent: -1}
	c.slots = append(c.slots, s)
	return s
}

func (c *vf44Case) idx4(s *vf44Slot) int {
	for i, x := range c.slots {
		if x == s {
			return i
		}
	}
	return -1
}

func (c *vf44Case) randExp(base int) int64 {
	if c.rng.IntN(4) == 0 {
		return -1
	}
	return int64(c.epoch) + int64(base) + int64(c.rng.IntN(5))
}

func (c *vf44Case) pick(kinds ...int) int {
	var cand []int
	for i, s := range c.slots {
		for _, k := range kinds {
			if s.kind == k {
				cand = append(cand, i)
			}
		}
	}
	if len(cand) == 0 {
		return -1
	}
	return cand[c.rng.IntN(len(cand))]
}

func vf44Err(err error) string {
	switch {
	case err == nil:
		return "ok"
	case errors.Is(err, meta.ErrObjectIsExpired):
		return "expired"
	case errors.Is(err, apistatus.ErrObjectAlreadyRemoved):
		return "removed"
	case errors.Is(err, apistatus.ErrObjectLocked):
		return "locked"
	case errors.Is(err, meta.ErrLockObjectRemoval):
		return "lock-removal"
	case errors.As(err, new(apistatus.LockNonRegularObject)):
		return "lock-non-regular"
	default:
		return "other"
	}
}

func (c *vf44Case) put(i int) bool {
	s := c.slots[i]
	var err error
	c.r.Guard(c.replay(), func() { err = c.sh.Put(s.obj, nil) })
	cls := vf44Err(err)
	tn := "-"
	if s.target >= 0 {
		tn = c.slots[s.target].name
	} else if s.kind == vf44Tomb {
		tn = "absent"
	}
	c.log = append(c.log, fmt.Sprintf("put %s(cnr=%d,exp=%d,target=%s) @%d -> %s", s.name, s.cnr, s.exp, tn, c.epoch, cls))
	c.r.Count("put_"+vf44KindName[s.kind]+"_"+cls, 1)
	if err != nil {
		return false
	}
	s.acked = true
	s.tombstoned, s.marked, s.cnrRemoved = false, false, false // the shard took it (again): earlier verdicts about it are void
	c.cnrs[s.cnr].removed = false
	if s.parent >= 0 && s.obj.Parent() != nil && !s.obj.Parent().GetID().IsZero() {
		// the piece carries the parent header: the shard (re)creates the virtual parent record
		p := c.slots[s.parent]
		p.acked = true
		p.tombstoned, p.marked, p.cnrRemoved = false, false, false
	}
	if s.kind == vf44Tomb && s.target >= 0 {
		c.markTree(s.target, func(x *vf44Slot) { x.tombstoned = true })
	}
	return true
}

// namesParent: the piece carries the parent's ID in its header (last child, link object).
// The first child carries the parent header without an ID and middle children carry
// nothing of the parent, so only through a stored naming piece can a shard relate the
// pieces it holds (by their common first-child ID) to the parent's ID.
func (s *vf44Slot) namesParent() bool {
	p := s.obj.Parent()
	return p != nil && !p.GetID().IsZero()
}

// stored: the piece was acknowledged and has not been collected yet (storage interface view).
func (c *vf44Case) stored(s *vf44Slot) bool {
	if !s.acked {
		return false
	}
	ok, err := c.sh.blobStor.Exists(s.addr)
	return err == nil && ok
}

// relatable: the shard holds right now a piece that names split parent i.  Without one
// the parent's ID means nothing to the shard: a tombstone or mark addressed to it is the
// removal of an object the shard never saw, and the pieces it may hold are - as far as any
// information available to the shard goes - neither tombstoned nor marked.
func (c *vf44Case) relatable(i int) bool {
	for _, p := range c.slots[i].pieces {
		if x := c.slots[p]; x.namesParent() && c.stored(x) {
			return true
		}
	}
	return false
}

// markTree applies f to slot i and, for a split parent, to those acknowledged pieces the
// removal of the parent extends to: all of them when the shard holds a piece naming the
// parent at this moment, none otherwise (see relatable).
func (c *vf44Case) markTree(i int, f func(*vf44Slot)) {
	s := c.slots[i]
	if s.acked {
		f(s)
	}
	if s.kind != vf44Parent {
		return
	}
	c.r.Count("parent_removals", 1)
	if !c.relatable(i) {
		orphans := 0
		for _, p := range s.pieces {
			if c.stored(c.slots[p]) {
				orphans++
			}
		}
		if orphans > 0 {
			c.r.Count("parent_removals_with_only_unrelatable_pieces_stored", 1)
			if s.acked {
				c.r.Count("parent_removals_after_naming_pieces_were_collected", 1)
			} else {
				c.r.Count("parent_removals_naming_pieces_never_stored", 1)
			}
			c.r.Count("unrelatable_pieces_not_bound_by_parent_removal", orphans)
			c.log = append(c.log, fmt.Sprintf("  (shard holds %d piece(s) of %s but none naming it: not bound)", orphans, s.name))
		} else {
			c.r.Count("parent_removals_with_no_piece_stored", 1)
		}
		return
	}
	for _, p := range s.pieces {
		if c.slots[p].acked {
			f(c.slots[p])
		}
	}
}

func (c *vf44Case) newBig(cnr int) {
	par := c.mk(vf44Parent, cnr, -1, -1, 0)
	par.addr = verifkit.Addr(par.obj)
	pi := c.idx4(par)
	n := 2 + c.rng.IntN(2)
	var chain []*vf44Slot
	for k := 0; k < n; k++ {
		ch := c.mk(vf44Child, cnr, -1, -1, 1+c.rng.IntN(48))
		ch.parent = pi
		chain = append(chain, ch)
	}
	for k, ch := range chain {
		if k == 0 {
			ch.obj.SetParent(par.obj)
			ch.obj.SetParentID(oid.ID{})
			continue
		}
		ch.obj.SetFirstID(chain[0].obj.GetID())
		ch.obj.SetPreviousID(chain[k-1].obj.GetID())
		if k == len(chain)-1 {
			ch.obj.SetParent(par.obj)
			ch.obj.SetParentID(par.obj.GetID())
		}
	}
	if c.rng.IntN(3) != 0 {
		l := c.mk(vf44Link, cnr, -1, -1, 0)
		l.parent = pi
		l.obj.SetType(object.TypeLink)
		l.obj.SetParent(par.obj)
		l.obj.SetParentID(par.obj.GetID())
		l.obj.SetFirstID(chain[0].obj.GetID())
		chain = append(chain, l)
	}
	for _, ch := range chain {
		ch.addr = verifkit.Addr(ch.obj)
		par.pieces = append(par.pieces, c.idx4(ch))
	}
	order := c.rng.Perm(len(chain))
	if c.rng.IntN(2) == 0 {
		sort.Ints(order)
	}
	// every fifth split object reaches this shard without the pieces naming its parent
	// (placement spreads the pieces of a big object over nodes and shards)
	partial := c.shape.IntN(5) == 0
	if partial {
		c.r.Count("split_objects_put_without_naming_pieces", 1)
	}
	for _, k := range order {
		if partial && chain[k].namesParent() {
			continue
		}
		c.put(c.idx4(chain[k]))
	}
}

// markNaming: the pieces naming split parent i are marked one by one (what a policer does
// with replicas it finds redundant); once GC collected them the remaining pieces are held
// without anything relating them to the parent.
func (c *vf44Case) markNaming(i int) {
	for _, p := range c.slots[i].pieces {
		x := c.slots[p]
		if !x.namesParent() || !x.acked {
			continue
		}
		var err error
		c.r.Guard(c.replay(), func() {
			err = c.sh.MarkGarbage(c.cnrs[x.cnr].id, []oid.ID{x.addr.Object()}, meta.GarbageMarkRedundant)
		})
		c.log = append(c.log, fmt.Sprintf("mark %s kind=%d (naming piece of %s) -> %v", x.name, meta.GarbageMarkRedundant, c.slots[i].name, err))
		c.r.Count("marks_of_naming_pieces", 1)
		if err == nil && !c.cnrs[x.cnr].removed {
			c.markTree(p, func(y *vf44Slot) { y.marked = true })
		}
	}
}

func (c *vf44Case) step() {
	rng := c.rng
	switch w := rng.IntN(100); {
	case w < 22:
		s := c.mk(vf44Reg, rng.IntN(len(c.cnrs)), c.randExp(0), -1, 1+rng.IntN(64))
		s.addr = verifkit.Addr(s.obj)
		c.put(c.idx4(s))
	case w < 32:
		if c.noBig {
			s := c.mk(vf44Reg, rng.IntN(len(c.cnrs)), c.randExp(0), -1, 1+rng.IntN(64))
			s.addr = verifkit.Addr(s.obj)
			c.put(c.idx4(s))
		} else {
			c.newBig(rng.IntN(len(c.cnrs)))
		}
	case w < 36: // repeat a put
		if i := c.pick(vf44Reg, vf44Child, vf44Lock, vf44Tomb); i >= 0 {
			c.put(i)
		}
	case w < 48: // lock
		t := c.pick(vf44Reg, vf44Reg, vf44Parent)
		if t < 0 {
			return
		}
		s := c.mk(vf44Lock, c.slots[t].cnr, c.randExp(0), t, 0)
		s.obj.AssociateLocked(c.slots[t].addr.Object())
		s.addr = verifkit.Addr(s.obj)
		c.put(c.idx4(s))
	case w < 66: // tombstone
		t := -1
		switch k := rng.IntN(10); {
		case k < 5:
			t = c.pick(vf44Reg)
		case k < 8:
			t = c.pick(vf44Parent)
		case k == 8:
			t = c.pick(vf44Lock, vf44Child)
		}
		cn := rng.IntN(len(c.cnrs))
		tid := verifkit.RandOID(rng) // k==9 or nothing to pick: tombstone of an object this shard never saw
		if t >= 0 {
			cn, tid = c.slots[t].cnr, c.slots[t].addr.Object()
		}
		exp := c.randExp(1)
		if t >= 0 && c.slots[t].kind == vf44Parent && c.shape.IntN(3) == 0 {
			// the pieces naming the parent were found redundant and collected before the
			// parent's tombstone arrives (collected only if the remover batch got to them)
			c.markNaming(t)
			for k := 0; k < 2; k++ {
				c.r.Guard(c.replay(), func() { c.sh.removeGarbage() })
				c.log = append(c.log, "gc")
				c.r.Count("gc_passes_inside_history", 1)
			}
		}
		s := c.mk(vf44Tomb, cn, exp, t, 0)
		s.obj.AssociateDeleted(tid)
		s.addr = verifkit.Addr(s.obj)
		c.put(c.idx4(s))
	case w < 74: // operator / policy mark
		i := c.pick(vf44Reg, vf44Reg, vf44Parent, vf44Parent, vf44Parent, vf44Child, vf44Lock, vf44Tomb)
		if i < 0 {
			return
		}
		s := c.slots[i]
		mark := meta.GarbageMarkDefault
		if rng.IntN(2) == 0 {
			mark = meta.GarbageMarkRedundant
		}
		if s.kind == vf44Parent && c.shape.IntN(4) == 0 {
			c.markNaming(i)
			return
		}
		var err error
		c.r.Guard(c.replay(), func() { err = c.sh.MarkGarbage(c.cnrs[s.cnr].id, []oid.ID{s.addr.Object()}, mark) })
		c.log = append(c.log, fmt.Sprintf("mark %s kind=%d -> %v", s.name, mark, err))
		c.r.Count(fmt.Sprintf("marks_kind%d", mark), 1)
		if err == nil && !c.cnrs[s.cnr].removed {
			c.markTree(i, func(x *vf44Slot) { x.marked = true })
		}
	case w < 77: // container removal
		cn := rng.IntN(len(c.cnrs))
		var err error
		which := "inhume"
		c.r.Guard(c.replay(), func() {
			if rng.IntN(2) == 0 {
				err = c.sh.InhumeContainer(c.cnrs[cn].id)
			} else {
				which = "delete"
				err = c.sh.DeleteContainer(context.Background(), c.cnrs[cn].id)
			}
		})
		c.log = append(c.log, fmt.Sprintf("container-%s %d -> %v", which, cn, err))
		c.r.Count("container_removals", 1)
		if err == nil {
			c.cnrs[cn].removed = true
			for _, s := range c.slots {
				if s.cnr == cn && s.acked {
					s.cnrRemoved = true
				}
			}
		}
	case w < 90:
		c.epoch += uint64(1 + rng.IntN(2))
		c.ep.v.Store(c.epoch)
		if !vf44SendEpoch(c.sh, c.epoch) {
			c.r.Inconclusive("epoch event was not handled by the shard")
		}
		c.log = append(c.log, fmt.Sprintf("epoch %d", c.epoch))
	default:
		c.r.Guard(c.replay(), func() { c.sh.removeGarbage() })
		c.log = append(c.log, "gc")
		c.r.Count("gc_passes_inside_history", 1)
	}
}

// signature of everything GC can still work on, through exported views only.
func (c *vf44Case) signature() (string, int) {
	h := sha256.New()
	var blobs []string
	_ = c.sh.blobStor.IterateAddresses(func(a oid.Address) error { blobs = append(blobs, a.String()); return nil }, true)
	sort.Strings(blobs)
	fmt.Fprintln(h, blobs)
	bins, _ := c.sh.metaBase.GetGarbage(1 << 30)
	ng := 0
	for _, b := range bins {
		fmt.Fprintln(h, b.Container, b.Objects)
		ng += len(b.Objects)
	}
	cn, _ := c.sh.metaBase.Containers()
	fmt.Fprintln(h, cn)
	_ = c.sh.metaBase.IterateExpired(c.epoch, func(a oid.Address, t object.Type) error { fmt.Fprintln(h, a, t); ng++; return nil })
	return string(h.Sum(nil)), ng
}

func (c *vf44Case) infLocked(i int) bool {
	for _, l := range c.slots {
		if l.kind == vf44Lock && l.target == i && l.acked && l.exp < 0 && !l.marked && !l.cnrRemoved {
			return true
		}
	}
	return false
}

// mustGo: why the statement requires slot i to be gone once every finite expiration has
// passed ("" = not required).
func (c *vf44Case) mustGo(i int) string {
	s := c.slots[i]
	if !s.acked {
		return ""
	}
	switch {
	case s.cnrRemoved:
		return "container-removed"
	case s.tombstoned:
		return "tombstoned"
	case s.marked:
		return "marked"
	case s.exp >= 0 && !(s.kind == vf44Reg && c.infLocked(i)):
		return "expired"
	}
	return ""
}

func TestVerif_C44(t *testing.T) {
	r := verifkit.Start(t, "C44", "exploration")
	defer r.Finish()
	r.SetRule("seeded histories (regular and split objects - some without the pieces naming the parent, some whose naming pieces are marked and collected before the parent is removed -, locks and tombstones with finite/no expiration, default and redundant marks, container removals, early GC passes) on one real shard with remover batch 1..4, then epoch advances and synchronous GC passes until nothing GC can see changes any more; distinct = (reason an object must go x object kind x batch size) observed; non-trivial = a case that left at least one object that must go")
	cases := r.Pick(40, 700)
	steps := r.Pick(45, 70)
	base := os.Getenv("VERIF_SCRATCH")
	if base == "" {
		base = t.TempDir()
	}
	for ci := 0; ci < cases; ci++ {
		rng := r.Rand("hist", ci)
		dir, err := os.MkdirTemp(base, "c44-")
		if err != nil {
			t.Fatal(err)
		}
		ep, cb := &vf44Epoch{}, &vf44CB{}
		rmB := 1 + rng.IntN(4)
		sh, err := vf44NewShard(dir, ep, cb, rmB)
		if err != nil {
			t.Fatalf("shard: %v", err)
		}
		c := &vf44Case{r: r, idx: ci, rng: rng, shape: r.Rand("shape", ci), sh: sh, ep: ep, cb: cb, owner: verifkit.RandUser(rng), rmB: rmB, noBig: rng.IntN(2) == 0}
		for k := 0; k < 2+rng.IntN(2); k++ {
			c.cnrs = append(c.cnrs, &vf44Cnr{id: verifkit.RandCID(rng)})
		}
		c.log = append(c.log, fmt.Sprintf("rmBatch=%d containers=%d split-objects=%v", rmB, len(c.cnrs), !c.noBig))
		for s := 0; s < steps; s++ {
			c.step()
		}
		c.finish(dir)
		if ci < 2 {
			r.Sample(map[string]any{"case": ci, "ops": c.log[:min(len(c.log), 30)]})
		}
		_ = os.RemoveAll(dir)
	}
}

func (c *vf44Case) finish(dir string) {
	r := c.r
	var maxExp uint64
	total := 0
	for _, s := range c.slots {
		if s.acked {
			total++
		}
		if s.exp >= 0 && uint64(s.exp) > maxExp {
			maxExp = uint64(s.exp)
		}
	}
	if c.epoch < maxExp+2 {
		c.epoch = maxExp + 2
	} else {
		c.epoch++
	}
	c.ep.v.Store(c.epoch)
	if !vf44SendEpoch(c.sh, c.epoch) {
		r.Inconclusive("epoch event was not handled by the shard")
	}
	c.log = append(c.log, fmt.Sprintf("final epoch %d", c.epoch))

	_, work := c.signature()
	limit := 6*total + 40
	var (
		prev          string
		stable        int
		passes        int
		lastChangedAt int
	)
	for passes < limit && stable < 6 {
		c.r.Guard(c.replay(), func() { c.sh.removeGarbage() })
		passes++
		sig, _ := c.signature()
		if sig == prev {
			stable++
		} else {
			stable, lastChangedAt = 0, passes
		}
		prev = sig
		if passes%2 == 0 { // epochs keep advancing
			c.epoch++
			c.ep.v.Store(c.epoch)
			if !vf44SendEpoch(c.sh, c.epoch) {
				r.Inconclusive("epoch event was not handled by the shard")
			}
		}
	}
	r.Eval(1)
	r.Count("gc_passes_until_quiescence", lastChangedAt)
	r.Max("max_passes_until_quiescence", int64(lastChangedAt))
	r.Max("max_work_items_at_quiescence_start", int64(work))
	if work > c.rmB {
		r.Count("cases_with_garbage_volume_above_batch", 1)
	}
	if stable < 6 {
		r.Inconclusive(fmt.Sprintf("case %d still changing after %d passes (%d stored objects, batch %d)", c.idx, passes, total, c.rmB))
		_ = c.sh.Close()
		return
	}
	c.log = append(c.log, fmt.Sprintf("quiescent after %d passes (last change at %d)", passes, lastChangedAt))

	// blob storage view
	type left struct{ blob, meta bool }
	res := map[int]*left{}
	need := 0
	for i, s := range c.slots {
		why := c.mustGo(i)
		if why == "" {
			continue
		}
		need++
		res[i] = &left{}
		if s.kind != vf44Parent {
			if ok, err := c.sh.blobStor.Exists(s.addr); err == nil && ok {
				res[i].blob = true
			}
		}
		r.Distinct(fmt.Sprintf("%s|%s|batch%d", why, vf44KindName[s.kind], c.rmB))
		r.Count("must_go_"+why, 1)
	}
	survivors := 0
	for i, s := range c.slots {
		if s.acked && c.mustGo(i) == "" && s.kind != vf44Parent {
			if ok, _ := c.sh.blobStor.Exists(s.addr); ok {
				survivors++
			}
		}
	}
	r.Count("objects_not_required_to_go_still_stored", survivors)
	// what does GC see at the head of its garbage batch now?
	// (known shape: only virtual split parents whose own pieces wait further down the list)
	headVirtual, headN := 0, 0
	listed := map[oid.Address]bool{}
	if bins, err := c.sh.metaBase.GetGarbage(1 << 30); err == nil {
		for _, b := range bins {
			for _, id := range b.Objects {
				listed[oid.NewAddress(b.Container, id)] = true
			}
		}
	}
	if bins, err := c.sh.metaBase.GetGarbage(c.rmB); err == nil {
		for _, b := range bins {
			for _, id := range b.Objects {
				headN++
				for _, s := range c.slots {
					if s.kind != vf44Parent || s.addr.Object() != id || c.cnrs[s.cnr].id != b.Container {
						continue
					}
					for _, p := range s.pieces {
						if listed[c.slots[p].addr] {
							headVirtual++
							break
						}
					}
				}
			}
		}
	}
	metaPath := filepath.Join(dir, "meta")
	if err := c.sh.Close(); err != nil {
		r.Inconclusive(fmt.Sprintf("shard close: %v", err))
		return
	}

	// metabase, raw
	db, err := bbolt.Open(metaPath, 0o600, &bbolt.Options{ReadOnly: true, Timeout: 5 * time.Second})
	if err != nil {
		r.Inconclusive(fmt.Sprintf("raw metabase open: %v", err))
		return
	}
	defer db.Close()
	cnrLeft := map[int]bool{}
	_ = db.View(func(tx *bbolt.Tx) error {
		for cn, cc := range c.cnrs {
			b := tx.Bucket(append([]byte{255}, cc.id[:]...))
			if b == nil {
				continue
			}
			if cc.removed {
				cnrLeft[cn] = true
			}
			_ = b.ForEach(func(k, _ []byte) error {
				if len(k) < 1+oid.Size {
					return nil
				}
				for i, lf := range res {
					s := c.slots[i]
					if s.cnr != cn {
						continue
					}
					id := s.addr.Object()
					switch k[0] {
					case 0, 3, 5:
						if bytes.HasPrefix(k[1:], id[:]) {
							lf.meta = true
						}
					case 1, 2:
						if bytes.HasSuffix(k, id[:]) {
							lf.meta = true
						}
					}
				}
				return nil
			})
		}
		return nil
	})

	var bad []string
	for i, lf := range res {
		if !lf.blob && !lf.meta {
			continue
		}
		s := c.slots[i]
		what := []string{}
		if lf.blob {
			what = append(what, "blob")
		}
		if lf.meta {
			what = append(what, "metadata")
		}
		bad = append(bad, fmt.Sprintf("%s|%s|%s", c.mustGo(i), vf44KindName[s.kind], strings.Join(what, "+")))
		c.log = append(c.log, fmt.Sprintf("LEFT %s (%s): %s", s.name, c.mustGo(i), strings.Join(what, "+")))
	}
	for cn := range cnrLeft {
		bad = append(bad, "container-removed|bucket|metadata")
		c.log = append(c.log, fmt.Sprintf("LEFT container %d bucket", cn))
	}
	if need > 0 {
		r.Count("cases_with_objects_that_must_go", 1)
	}
	if len(bad) == 0 {
		return
	}
	sort.Strings(bad)
	if headN > 0 && headVirtual == headN {
		// the whole garbage batch GC fetches consists of virtual split parents, which Delete
		// refuses to remove on their own: every later pass fetches the same batch
		r.Count("cases_stuck_on_virtual_parents", 1)
		r.Violation("left-at-fixed-point|gc-batch-filled-by-virtual-split-parents",
			fmt.Sprintf("case %d (batch %d): GC reached a fixed point after %d passes with epochs advancing; its garbage batch holds only %d virtual split parent(s) whose children are further down the list; %d item(s) that must be gone are left: %s",
				c.idx, c.rmB, lastChangedAt, headN, len(bad), strings.Join(bad, " ")), c.replay())
		return
	}
	seen := map[string]bool{}
	for _, k := range bad {
		if seen[k] {
			continue
		}
		seen[k] = true
		r.Violation("left-at-fixed-point|"+k, fmt.Sprintf("case %d (batch %d): GC reached a fixed point after %d passes with epochs advancing, but %d item(s) that must be gone are still there (%s)", c.idx, c.rmB, lastChangedAt, len(bad), k), c.replay())
	}
}
