//go:build verif

package shard

// C07 "A live lock protects its object from tombstones, expiry and garbage collection".
//
// Part 1 (TestVerif_C07): seeded sequential histories on one real Shard (real FSTree,
// real metabase, real GC code driven synchronously through removeGarbage and the real
// epoch event path).  An oracle written from the property statement is advanced in
// lock-step and judges every step.
//
// Part 2 (TestVerif_C07_Conc): lock and tombstone of the same target arrive
// concurrently (plus readers and GC passes); the recorded history is checked with
// porcupine against a two-flag sequential model.

import (
	"bytes"
	"errors"
	"fmt"
	"math/rand/v2"
	"os"
	"path/filepath"
	"sort"
	"strings"
	"sync"
	"sync/atomic"
	"testing"
	"time"

	"github.com/anishathalye/porcupine"
	"github.com/nspcc-dev/bbolt"
	"github.com/nspcc-dev/neofs-node/internal/verifkit"
	"github.com/nspcc-dev/neofs-node/pkg/local_object_storage/blobstor/fstree"
	meta "github.com/nspcc-dev/neofs-node/pkg/local_object_storage/metabase"
	apistatus "github.com/nspcc-dev/neofs-sdk-go/client/status"
	cid "github.com/nspcc-dev/neofs-sdk-go/container/id"
	"github.com/nspcc-dev/neofs-sdk-go/object"
	oid "github.com/nspcc-dev/neofs-sdk-go/object/id"
	"github.com/nspcc-dev/neofs-sdk-go/user"
	"go.uber.org/zap"
)

// ---------------------------------------------------------------------------------
// fixture

type vf07Epoch struct{ v atomic.Uint64 }

func (e *vf07Epoch) CurrentEpoch() uint64 { return e.v.Load() }

type vf07NoPayments struct{}

func (vf07NoPayments) PaymentsDisabled() bool            { return true }
func (vf07NoPayments) UnpaidSince(cid.ID) (int64, error) { return -1, nil }

// vf07CB plays the role of the engine's expired-objects handler for a single shard: it
// records what the shard reported as expired (that is what the oracle looks at) and
// then does what StorageEngine.processExpiredObjects does: skip locked, otherwise
// delete physically.
type vf07CB struct {
	mu       sync.Mutex
	sh       *Shard
	reported []oid.Address
}

func (c *vf07CB) handle(addrs []oid.Address) {
	c.mu.Lock()
	c.reported = append(c.reported, addrs...)
	c.mu.Unlock()
	for _, a := range addrs {
		if locked, err := c.sh.IsLocked(a); err == nil && locked {
			continue
		}
		ok, err := c.sh.Exists(a, true)
		if err != nil || !ok {
			continue
		}
		_ = c.sh.Delete(a.Container(), []oid.ID{a.Object()})
	}
}

func (c *vf07CB) take() []oid.Address {
	c.mu.Lock()
	defer c.mu.Unlock()
	r := c.reported
	c.reported = nil
	return r
}

func vf07NewShard(dir string, ep *vf07Epoch, cb *vf07CB, rmBatch int, batchDelay time.Duration) (*Shard, error) {
	fst := fstree.New(fstree.WithPath(filepath.Join(dir, "fstree")), fstree.WithNoSync(true))
	sh := New(
		WithLogger(zap.NewNop()),
		WithBlobstor(fst),
		WithMetaBaseOptions(
			meta.WithPath(filepath.Join(dir, "meta")),
			meta.WithEpochState(ep),
			meta.WithLogger(zap.NewNop()),
			meta.WithMaxBatchDelay(batchDelay),
			meta.WithBoltDBOptions(&bbolt.Options{NoSync: true, Timeout: time.Second}),
		),
		WithExpiredObjectsCallback(cb.handle),
		WithGCRemoverSleepInterval(240*time.Hour), // passes are driven by the monitor, never by the timer
		WithRemoverBatchSize(rmBatch),
		WithContainerPayments(vf07NoPayments{}),
	)
	cb.sh = sh
	if err := sh.Open(); err != nil {
		return nil, err
	}
	if err := sh.Init(); err != nil {
		return nil, err
	}
	return sh, nil
}

// vf07SendEpoch delivers the epoch through the shard's real notification channel and
// awaits the logical condition "GC has seen it".
func vf07SendEpoch(sh *Shard, e uint64) bool {
	sh.NotificationChannel() <- EventNewEpoch(e)
	for i := 0; i < 400000; i++ {
		if sh.gc.currentEpoch.Load() == e {
			// the handler goroutine may still be finishing; it does nothing else with payments disabled
			return true
		}
		time.Sleep(50 * time.Microsecond)
	}
	return false
}

func vf07MkObj(rng *rand.Rand, cnr cid.ID, owner user.ID, kind int, exp int64, target oid.ID) *object.Object {
	pl := 0
	if kind == vf07Reg {
		pl = 1 + rng.IntN(64)
	}
	o := verifkit.NewObject(rng, cnr, owner, pl)
	if exp >= 0 {
		verifkit.SetExpiration(o, uint64(exp))
	}
	switch kind {
	case vf07Lock:
		o.AssociateLocked(target)
	case vf07Tomb:
		o.AssociateDeleted(target)
	}
	return o
}

// ---------------------------------------------------------------------------------
// part 1: sequential histories with a statement-derived oracle

const (
	vf07Reg = iota
	vf07Lock
	vf07Tomb
)

var vf07KindName = [...]string{"reg", "lock", "tomb"}

const (
	vf07No = iota
	vf07Yes
	vf07Maybe
)

type vf07Slot struct {
	name   string
	kind   int
	obj    *object.Object
	bin    []byte
	addr   oid.Address
	exp    int64 // -1: no expiration
	target int   // slot index of the association target, -1 for regular objects

	held    bool   // the shard acknowledged a Put of it
	forced  bool   // an operator mark / physical delete was ever issued for it (sticky)
	doomed  bool   // an acknowledged tombstone targeted it (sticky)
	wasHeld bool   // the shard acknowledged it at least once
	marked  bool   // a default (not 'redundant') garbage mark was issued for it
	taint   string // sticky root-cause shape under which protection of this object was observed to be at risk
	present int    // regular objects: is the blob certainly / possibly / not in the shard
}

type vf07Case struct {
	r       *verifkit.Run
	idx     int
	rng     *rand.Rand
	sh      *Shard
	ep      *vf07Epoch
	cb      *vf07CB
	cnr     cid.ID
	owner   user.ID
	slots   []*vf07Slot
	epoch   uint64 // what the metabase sees
	gcEpoch uint64 // what GC was told last (never ahead of epoch)
	pending bool   // epoch state advanced but event not delivered to GC yet
	log     []string
	failed  bool
}

func (c *vf07Case) replay() map[string]any {
	return map[string]any{"case": c.idx, "ops": c.log}
}

func (c *vf07Case) unexpired(s *vf07Slot) bool { return s.exp < 0 || c.epoch <= uint64(s.exp) }

// liveLock: the shard holds an unexpired lock for slot i and the lock was not itself removed.
func (c *vf07Case) liveLock(i int) *vf07Slot {
	for _, l := range c.slots {
		if l.kind == vf07Lock && l.target == i && l.held && !l.forced && !l.doomed && c.unexpired(l) {
			return l
		}
	}
	return nil
}

// liveTomb: the shard holds an unexpired, not removed tombstone for slot i.
func (c *vf07Case) liveTomb(i int) *vf07Slot {
	for _, t := range c.slots {
		if t.kind == vf07Tomb && t.target == i && t.held && !t.forced && !t.doomed && c.unexpired(t) {
			return t
		}
	}
	return nil
}

func (c *vf07Case) protected(i int) bool {
	s := c.slots[i]
	return s.kind == vf07Reg && s.present == vf07Yes && !s.forced && !s.doomed && c.liveLock(i) != nil
}

func (c *vf07Case) stateClass(i int) string {
	if i < 0 {
		return "-"
	}
	s := c.slots[i]
	var b strings.Builder
	b.WriteString(vf07KindName[s.kind])
	b.WriteString([]string{":absent", ":present", ":maybe"}[s.present])
	if s.held {
		b.WriteString(",held")
	}
	if s.exp >= 0 {
		if c.unexpired(s) {
			if uint64(s.exp) == c.epoch {
				b.WriteString(",exp=now")
			} else {
				b.WriteString(",exp>now")
			}
		} else {
			b.WriteString(",expired")
		}
	}
	if s.forced {
		b.WriteString(",forced")
	}
	if s.doomed {
		b.WriteString(",tombstoned")
	}
	nl, nle := 0, 0
	for _, l := range c.slots {
		if l.kind == vf07Lock && l.target == i && l.held {
			if !l.forced && !l.doomed && c.unexpired(l) {
				nl++
			} else {
				nle++
			}
		}
	}
	if nl > 0 {
		fmt.Fprintf(&b, ",livelocks=%d", min(nl, 2))
	}
	if nle > 0 {
		b.WriteString(",deadlocks")
	}
	if c.liveTomb(i) != nil {
		b.WriteString(",livetomb")
	}
	return b.String()
}

func (c *vf07Case) newSlot(kind int, exp int64, target int) int {
	var tid oid.ID
	if target >= 0 {
		tid = c.slots[target].addr.Object()
	}
	o := vf07MkObj(c.rng, c.cnr, c.owner, kind, exp, tid)
	n := 0
	for _, s := range c.slots {
		if s.kind == kind {
			n++
		}
	}
	s := &vf07Slot{name: fmt.Sprintf("%s%d", vf07KindName[kind], n), kind: kind, obj: o, bin: o.Marshal(),
		addr: verifkit.Addr(o), exp: exp, target: target}
	c.slots = append(c.slots, s)
	return len(c.slots) - 1
}

func (c *vf07Case) pickKind(kind int) []int {
	var r []int
	for i, s := range c.slots {
		if s.kind == kind {
			r = append(r, i)
		}
	}
	return r
}

// pickTarget prefers a small hot set so that locks, tombstones and marks collide.
func (c *vf07Case) pickTarget(kinds ...int) int {
	var cand []int
	for _, k := range kinds {
		cand = append(cand, c.pickKind(k)...)
	}
	if len(cand) == 0 {
		return -1
	}
	sort.Ints(cand)
	if c.rng.IntN(10) < 6 {
		return cand[c.rng.IntN(min(2, len(cand)))]
	}
	return cand[c.rng.IntN(len(cand))]
}

func (c *vf07Case) randExp() int64 {
	if c.rng.IntN(4) == 0 {
		return -1
	}
	// around the current epoch: expirations in the past, now and a few epochs ahead
	e := int64(c.epoch) - 1 + int64(c.rng.IntN(5))
	if e < 0 {
		e = 0
	}
	return e
}

// violation reports to the run; a case is abandoned only after a violation that is not a
// listed known finding (the oracle excludes the affected objects, so it can go on).
func (c *vf07Case) violation(key, what string) {
	before := c.r.Violations()
	c.r.Violation(key, what, c.replay())
	if c.r.Violations() > before {
		c.failed = true
	}
}

// taintOf returns the sticky root-cause shape of slot i: a held, unexpired lock of the
// same object carries an operator's garbage mark while another lock of it is live.  All
// symptoms observed for such an object are reported under one class key.
func (c *vf07Case) taintOf(i int) string {
	s := c.slots[i]
	if s.taint == "" && c.liveLock(i) != nil {
		for _, l := range c.slots {
			if l.kind == vf07Lock && l.target == i && l.wasHeld && l.marked && (l.exp < 0 || uint64(l.exp) >= c.gcEpoch) {
				s.taint = "sibling-lock-garbage-marked"
			}
		}
	}
	return s.taint
}

// protViolation reports a symptom of lost protection of slot i.
func (c *vf07Case) protViolation(i int, symptom, shape, what string) {
	if t := c.taintOf(i); t != "" {
		c.violation("live-lock-ignored|"+t, symptom+": "+what)
		return
	}
	c.violation(symptom+"|"+shape, what)
}

func vf07ErrClass(err error) string {
	switch {
	case err == nil:
		return "ok"
	case errors.Is(err, meta.ErrObjectIsExpired):
		return "expired"
	case errors.Is(err, apistatus.ErrObjectAlreadyRemoved):
		return "removed"
	case errors.Is(err, apistatus.ErrObjectNotFound):
		return "notfound"
	case errors.Is(err, apistatus.ErrObjectLocked):
		return "locked"
	case errors.Is(err, meta.ErrLockObjectRemoval):
		return "lock-removal"
	case errors.As(err, new(apistatus.LockNonRegularObject)):
		return "lock-non-regular"
	default:
		return "other"
	}
}

func (c *vf07Case) put(i int) {
	s := c.slots[i]
	pre := c.stateClass(i)
	tpre := c.stateClass(s.target)
	var (
		lockOfTarget *vf07Slot
		tombOfTarget *vf07Slot
		tombOfSelf   = c.liveTomb(i)
		targetIsLive bool // target is a held, live lock object
	)
	if s.target >= 0 {
		lockOfTarget = c.liveLock(s.target)
		tombOfTarget = c.liveTomb(s.target)
		t := c.slots[s.target]
		targetIsLive = t.kind == vf07Lock && t.held && !t.forced && !t.doomed && c.unexpired(t)
	}
	wasProtected := c.protected(i)
	if !s.held {
		switch {
		case s.kind == vf07Tomb && lockOfTarget != nil:
			c.r.Count("attempts_tombstone_of_object_with_live_lock", 1)
		case s.kind == vf07Tomb && targetIsLive:
			c.r.Count("attempts_tombstone_of_held_lock_object", 1)
		case s.kind == vf07Lock && tombOfTarget != nil:
			c.r.Count("attempts_lock_of_object_with_held_tombstone", 1)
		case s.kind == vf07Lock && tombOfSelf != nil:
			c.r.Count("attempts_put_of_lock_object_with_held_tombstone", 1)
		}
	}
	var err error
	c.r.Guard(c.replay(), func() { err = c.sh.Put(s.obj, nil) })
	cls := vf07ErrClass(err)
	c.log = append(c.log, fmt.Sprintf("put %s(exp=%d,target=%s) @%d -> %s", s.name, s.exp, c.slotName(s.target), c.epoch, cls))
	c.r.Count("put_"+vf07KindName[s.kind]+"_"+cls, 1)
	c.r.Distinct("put|" + pre + "|" + tpre)
	if err != nil {
		// Shard.Put rolls a refused object back by deleting its blob, which also removes the
		// blob of an earlier accepted copy.  For an object that is not protected at this
		// moment that is outside this property; the oracle just stops assuming the blob.
		if s.kind == vf07Reg && s.present == vf07Yes && !wasProtected {
			s.present = vf07Maybe
			c.r.Count("refused_reput_of_stored_object", 1)
		}
		return
	}
	if s.held && s.kind != vf07Reg {
		// repeated Put of an association object the shard already holds: an idempotent
		// acknowledgement, not a new acceptance - nothing to judge
		c.r.Count("reput_of_held_"+vf07KindName[s.kind], 1)
		return
	}
	switch s.kind {
	case vf07Reg:
		s.present = vf07Yes
	case vf07Tomb:
		if lockOfTarget != nil {
			c.protViolation(s.target, "tombstone-accepted|target-locked", vf07Shape(c, s.target, lockOfTarget),
				fmt.Sprintf("Put(tombstone %s) of %s succeeded at epoch %d while lock %s (exp=%d) is held and unexpired",
					s.name, c.slotName(s.target), c.epoch, lockOfTarget.name, lockOfTarget.exp))
		}
		if targetIsLive {
			c.violation("lock-object-tombstoned|tombstone-after-lock",
				fmt.Sprintf("Put(tombstone %s) targeting held lock object %s succeeded at epoch %d", s.name, c.slotName(s.target), c.epoch))
		}
		c.slots[s.target].doomed = true
	case vf07Lock:
		if tombOfTarget != nil {
			tsh := "target-unexpired"
			if tg := c.slots[s.target]; tg.exp >= 0 && !c.unexpired(tg) {
				tsh = "target-expired"
			}
			what := fmt.Sprintf("Put(lock %s) of %s (exp=%d) succeeded at epoch %d while tombstone %s (exp=%d) is held",
				s.name, c.slotName(s.target), c.slots[s.target].exp, c.epoch, tombOfTarget.name, tombOfTarget.exp)
			if t := c.slots[s.target].taint; t != "" {
				// the tombstone got in past a live lock (root cause already reported under the
				// taint key); a locked-and-tombstoned object reads as available, so further
				// locks are taken too
				c.violation("live-lock-ignored|"+t, "lock-accepted over the tombstone that slipped in: "+what)
			} else {
				c.violation("lock-accepted|target-tombstoned|"+tsh, what)
			}
		}
		if tombOfSelf != nil {
			c.violation("lock-object-tombstoned|lock-after-tombstone",
				fmt.Sprintf("Put(lock %s) succeeded at epoch %d although tombstone %s targeting this lock object is held",
					s.name, c.epoch, tombOfSelf.name))
		}
	}
	s.held, s.wasHeld = true, true
}

func vf07Shape(c *vf07Case, target int, l *vf07Slot) string {
	t := c.slots[target]
	sh := "target-" + []string{"absent", "present", "maybe"}[t.present]
	if t.kind != vf07Reg {
		sh = "target-" + vf07KindName[t.kind]
	}
	if t.exp >= 0 && !c.unexpired(t) {
		sh += "-expired"
	}
	if t.forced {
		sh += "-forced"
	}
	if l.exp >= 0 && uint64(l.exp) == c.epoch {
		sh += "|lock-exp=now"
	}
	return sh
}

func (c *vf07Case) slotName(i int) string {
	if i < 0 {
		return "-"
	}
	return c.slots[i].name
}

// gcPass runs one synchronous pass of the real GC.
func (c *vf07Case) gcPass() {
	maxEpoch := c.epoch
	for i, s := range c.slots {
		if s.kind != vf07Reg || s.present != vf07Yes {
			continue
		}
		// who may legitimately be collected by this pass: forced / tombstoned objects and
		// expired objects without a live lock.
		if s.forced || s.doomed || (s.exp >= 0 && uint64(s.exp) < maxEpoch && c.liveLock(i) == nil) {
			s.present = vf07Maybe
		}
	}
	c.cb.take()
	c.r.Guard(c.replay(), func() { c.sh.removeGarbage() })
	rep := c.cb.take()
	c.log = append(c.log, fmt.Sprintf("gc @%d(gc epoch %d) reported=%d", c.epoch, c.sh.gc.currentEpoch.Load(), len(rep)))
	c.r.Count("gc_passes", 1)
	c.r.Count("gc_reported_expired", len(rep))
	for _, a := range rep {
		for i, s := range c.slots {
			if s.addr != a || s.kind != vf07Reg {
				continue
			}
			if l := c.liveLock(i); l != nil {
				c.protViolation(i, "reported-expired-while-locked", vf07Shape(c, i, l),
					fmt.Sprintf("GC pass at epoch %d handed %s (exp=%d) to the expired-objects handler while lock %s (exp=%d) is held and unexpired",
						c.epoch, s.name, s.exp, l.name, l.exp))
			}
		}
	}
}

// observe checks the protection invariants for every regular slot.
func (c *vf07Case) observe(after string) {
	for i, s := range c.slots {
		if s.kind != vf07Reg {
			continue
		}
		l := c.liveLock(i)
		if l == nil {
			continue
		}
		if s.present == vf07Yes && !s.forced && !s.doomed {
			c.r.Count("checks_protected_object", 1)
			var (
				got    *object.Object
				gerr   error
				ex     bool
				exerr  error
				herr   error
				inBlob bool
				berr   error
			)
			c.r.Guard(c.replay(), func() {
				got, gerr = c.sh.Get(s.addr, false)
				ex, exerr = c.sh.Exists(s.addr, false)
				_, herr = c.sh.Head(s.addr, false)
				inBlob, berr = c.sh.blobStor.Exists(s.addr)
			})
			shape := vf07Shape(c, i, l)
			if s.exp >= 0 && !c.unexpired(s) {
				c.r.Count("checks_protected_object_past_own_expiration", 1)
			}
			if berr == nil && !inBlob {
				c.protViolation(i, "locked-object-physically-deleted", shape,
					fmt.Sprintf("blob of %s is gone after %s at epoch %d while lock %s (exp=%d) is held; no forced mark was issued",
						s.name, after, c.epoch, l.name, l.exp))
			} else if gerr != nil {
				c.protViolation(i, "locked-object-get-"+vf07ErrClass(gerr), shape,
					fmt.Sprintf("Get(%s) = %v after %s at epoch %d while lock %s (exp=%d) is held", s.name, gerr, after, c.epoch, l.name, l.exp))
			} else if !bytes.Equal(got.Marshal(), s.bin) {
				c.protViolation(i, "locked-object-bytes-differ", shape, fmt.Sprintf("Get(%s) returned different bytes", s.name))
			}
			if exerr != nil || !ex {
				c.protViolation(i, "locked-object-exists-"+vf07ErrClass(exerr), shape,
					fmt.Sprintf("Exists(%s) = %v,%v at epoch %d while lock %s (exp=%d) is held", s.name, ex, exerr, c.epoch, l.name, l.exp))
			}
			if herr != nil {
				c.protViolation(i, "locked-object-head-"+vf07ErrClass(herr), shape,
					fmt.Sprintf("Head(%s) = %v at epoch %d while lock %s (exp=%d) is held", s.name, herr, c.epoch, l.name, l.exp))
			}
			c.r.Seen("protected_shapes", shape)
		}
		// the shard that holds a live lock must say so
		var (
			locked bool
			lerr   error
		)
		c.r.Guard(c.replay(), func() { locked, lerr = c.sh.IsLocked(s.addr) })
		c.r.Count("checks_islocked", 1)
		if lerr != nil || !locked {
			c.protViolation(i, "islocked-false-for-live-lock", vf07Shape(c, i, l),
				fmt.Sprintf("IsLocked(%s) = %v,%v after %s at epoch %d while lock %s (exp=%d) is held and unexpired", s.name, locked, lerr, after, c.epoch, l.name, l.exp))
		}
	}
}

func (c *vf07Case) step() {
	rng := c.rng
	after := ""
	switch w := rng.IntN(100); {
	case w < 16: // put regular (new or again)
		regs := c.pickKind(vf07Reg)
		var i int
		if len(regs) < 3 || (len(regs) < 7 && rng.IntN(3) == 0) {
			i = c.newSlot(vf07Reg, c.randExp(), -1)
		} else {
			i = c.pickTarget(vf07Reg)
		}
		c.put(i)
		after = "put-reg"
	case w < 38: // lock
		locks := c.pickKind(vf07Lock)
		var i int
		if len(locks) < 8 && (len(locks) < 2 || rng.IntN(4) != 0) {
			var t int
			if rng.IntN(12) == 0 {
				t = c.pickTarget(vf07Lock, vf07Tomb) // hostile: lock of a non-regular object (not constrained)
			} else {
				t = c.pickTarget(vf07Reg)
			}
			if t < 0 {
				return
			}
			i = c.newSlot(vf07Lock, c.randExp(), t)
		} else {
			i = locks[rng.IntN(len(locks))]
		}
		c.put(i)
		after = "put-lock"
	case w < 60: // tombstone
		tombs := c.pickKind(vf07Tomb)
		var i int
		if len(tombs) < 8 && (len(tombs) < 2 || rng.IntN(4) != 0) {
			var t int
			switch k := rng.IntN(12); {
			case k < 3:
				t = c.pickTarget(vf07Lock)
			case k == 3:
				t = c.pickTarget(vf07Tomb)
			default:
				t = c.pickTarget(vf07Reg)
			}
			if t < 0 {
				return
			}
			exp := c.randExp()
			if exp >= 0 {
				exp += 2 // tombstones normally outlive the present
			}
			i = c.newSlot(vf07Tomb, exp, t)
		} else {
			i = tombs[rng.IntN(len(tombs))]
		}
		c.put(i)
		after = "put-tomb"
	case w < 67: // forced mark (operator / policy)
		i := c.pickTarget(vf07Reg, vf07Lock)
		if rng.IntN(3) == 0 {
			i = c.pickTarget(vf07Lock)
		}
		if i < 0 {
			return
		}
		s := c.slots[i]
		mark := meta.GarbageMarkDefault
		if rng.IntN(3) == 0 {
			mark = meta.GarbageMarkRedundant
		}
		pre := c.stateClass(i)
		var err error
		c.r.Guard(c.replay(), func() { err = c.sh.MarkGarbage(s.addr.Container(), []oid.ID{s.addr.Object()}, mark) })
		s.forced = true
		s.held = false // a later acknowledged Put is a new acceptance
		if mark == meta.GarbageMarkDefault {
			s.marked = true
		}
		c.log = append(c.log, fmt.Sprintf("mark %s kind=%d -> %v", s.name, mark, err))
		c.r.Count("forced_marks", 1)
		c.r.Distinct(fmt.Sprintf("mark%d|%s", mark, pre))
		after = "mark"
	case w < 70: // operator's physical delete
		i := c.pickTarget(vf07Reg, vf07Lock)
		if i < 0 {
			return
		}
		s := c.slots[i]
		pre := c.stateClass(i)
		var err error
		c.r.Guard(c.replay(), func() { err = c.sh.Delete(s.addr.Container(), []oid.ID{s.addr.Object()}) })
		s.forced = true
		s.held = false
		c.log = append(c.log, fmt.Sprintf("delete %s -> %v", s.name, err))
		c.r.Count("forced_deletes", 1)
		c.r.Distinct("delete|" + pre)
		after = "delete"
	case w < 82: // epoch advance
		c.epoch += uint64(1 + rng.IntN(2))
		c.ep.v.Store(c.epoch)
		if rng.IntN(4) == 0 {
			c.pending = true // metabase already lives in the new epoch, GC learns later
			c.log = append(c.log, fmt.Sprintf("epoch-state %d (event pending)", c.epoch))
			c.r.Count("epoch_state_only", 1)
		} else {
			if !vf07SendEpoch(c.sh, c.epoch) {
				c.r.Inconclusive("epoch event was not handled by the shard")
			}
			c.pending = false
			c.gcEpoch = c.epoch
			c.log = append(c.log, fmt.Sprintf("epoch %d", c.epoch))
			c.r.Count("epoch_events", 1)
		}
		c.r.Max("max_epoch", int64(c.epoch))
		after = "epoch"
	case w < 86 && c.pending:
		if !vf07SendEpoch(c.sh, c.epoch) {
			c.r.Inconclusive("epoch event was not handled by the shard")
		}
		c.pending = false
		c.gcEpoch = c.epoch
		c.log = append(c.log, fmt.Sprintf("epoch-event %d", c.epoch))
		c.r.Count("epoch_events", 1)
		after = "epoch"
	default:
		c.gcPass()
		after = "gc"
		c.r.Distinct(fmt.Sprintf("gc|%d|%d", c.countProtected(), c.countCollectable()))
	}
	c.r.Eval(1)
	c.observe(after)
}

func (c *vf07Case) countProtected() int {
	n := 0
	for i := range c.slots {
		if c.protected(i) {
			n++
		}
	}
	return n
}

func (c *vf07Case) countCollectable() int {
	n := 0
	for _, s := range c.slots {
		if s.kind == vf07Reg && s.present != vf07No && (s.forced || s.doomed || (s.exp >= 0 && !c.unexpired(s))) {
			n++
		}
	}
	return min(n, 3)
}

func TestVerif_C07(t *testing.T) {
	r := verifkit.Start(t, "C07", "exploration")
	defer r.Finish()
	r.SetRule("seeded histories (put regular/lock/tombstone incl. repeats and hostile targets, forced marks, physical deletes, epoch advances with immediate or delayed GC notification, synchronous GC passes) on one real shard; distinct = (operation kind x oracle state class of the slot and of its target) and (GC pass x #protected x #collectable); non-trivial = a step that executed an operation on the shard")
	cases := r.Pick(45, 600)
	steps := r.Pick(70, 100)
	base := os.Getenv("VERIF_SCRATCH")
	if base == "" {
		base = t.TempDir()
	}
	for ci := 0; ci < cases; ci++ {
		rng := r.Rand("seq", ci)
		dir, err := os.MkdirTemp(base, "c07-")
		if err != nil {
			t.Fatal(err)
		}
		ep := &vf07Epoch{}
		cb := &vf07CB{}
		rmBatch := []int{1, 2, 3, 100}[rng.IntN(4)]
		sh, err := vf07NewShard(dir, ep, cb, rmBatch, time.Microsecond)
		if err != nil {
			t.Fatalf("shard: %v", err)
		}
		c := &vf07Case{r: r, idx: ci, rng: rng, sh: sh, ep: ep, cb: cb, cnr: verifkit.RandCID(rng), owner: verifkit.RandUser(rng)}
		c.log = append(c.log, fmt.Sprintf("rmBatch=%d", rmBatch))
		for s := 0; s < steps && !c.failed; s++ {
			c.step()
		}
		if ci < 2 {
			r.Sample(map[string]any{"case": ci, "ops": c.log[:min(len(c.log), 25)]})
		}
		_ = sh.Close()
		_ = os.RemoveAll(dir)
	}
	if r.Counter("checks_protected_object") == 0 || r.Counter("attempts_tombstone_of_object_with_live_lock") == 0 || r.Counter("attempts_lock_of_object_with_held_tombstone") == 0 {
		r.Inconclusive("no protected object / no tombstone against a live lock was observed")
	}
}

// ---------------------------------------------------------------------------------
// part 2: lock || tombstone, porcupine

type vf07In struct {
	op  string // lock, tomb, get, islocked
	who string
}

type vf07Out struct {
	ok  bool   // lock/tomb accepted; islocked answer
	cls string // get: ok / removed / expired / notfound / other
}

type vf07St struct{ locked, tomb bool }

var vf07Model = porcupine.Model{
	Init: func() interface{} { return vf07St{} },
	Step: func(state, input, output interface{}) (bool, interface{}) {
		st, in, out := state.(vf07St), input.(vf07In), output.(vf07Out)
		switch in.op {
		case "lock":
			if !out.ok {
				return true, st // a refusal changes nothing; the statement only forbids acceptances
			}
			if st.tomb {
				return false, st
			}
			st.locked = true
			return true, st
		case "tomb":
			if !out.ok {
				return true, st
			}
			if st.locked {
				return false, st
			}
			st.tomb = true
			return true, st
		case "get":
			if out.cls == "ok" {
				return !st.tomb, st
			}
			// removed / expired / not found / failure: never while locked; only a tombstone explains it
			return st.tomb && !st.locked, st
		case "islocked":
			return out.ok == st.locked, st
		}
		return false, st
	},
	Equal: func(a, b interface{}) bool { return a.(vf07St) == b.(vf07St) },
	DescribeOperation: func(input, output interface{}) string {
		in, out := input.(vf07In), output.(vf07Out)
		return fmt.Sprintf("%s[%s]->%v/%s", in.op, in.who, out.ok, out.cls)
	},
}

type vf07Hist struct {
	clock atomic.Int64
	mu    sync.Mutex
	ops   []porcupine.Operation
}

func (h *vf07Hist) do(client int, in vf07In, f func() vf07Out) vf07Out {
	call := h.clock.Add(1)
	out := f()
	ret := h.clock.Add(1)
	h.mu.Lock()
	h.ops = append(h.ops, porcupine.Operation{ClientId: client, Input: in, Call: call, Output: out, Return: ret})
	h.mu.Unlock()
	return out
}

func TestVerif_C07_Conc(t *testing.T) {
	r := verifkit.Start(t, "C07", "exploration")
	defer r.Finish()
	r.SetRule("per repetition one stored target; 1-2 locks and 1-2 tombstones of it are put from separate goroutines released together, with concurrent Get/IsLocked readers and (in a third of the repetitions) a concurrent GC pass; the call/return history is checked with porcupine against {lock accepted => no tombstone before; tombstone accepted => no lock before; reads agree}; distinct = outcome vector (which locks/tombstones were accepted, final read class, metabase batching mode)")
	shards := r.Pick(4, 8)
	reps := r.Pick(100, 400)
	base := os.Getenv("VERIF_SCRATCH")
	if base == "" {
		base = t.TempDir()
	}
	for si := 0; si < shards; si++ {
		rng := r.Rand("conc-shard", si)
		dir, err := os.MkdirTemp(base, "c07c-")
		if err != nil {
			t.Fatal(err)
		}
		ep := &vf07Epoch{}
		cb := &vf07CB{}
		// short delay: every Put is its own bolt transaction; long delay: concurrent Puts are
		// joined into one bolt batch (and re-run solo when one of them fails)
		delay := []time.Duration{time.Microsecond, 2 * time.Millisecond}[si%2]
		sh, err := vf07NewShard(dir, ep, cb, 100, delay)
		if err != nil {
			t.Fatalf("shard: %v", err)
		}
		cnr, owner := verifkit.RandCID(rng), verifkit.RandUser(rng)
		for rep := 0; rep < reps; rep++ {
			vf07ConcRep(r, sh, rng, cnr, owner, si, rep, delay)
		}
		_ = sh.Close()
		_ = os.RemoveAll(dir)
	}
	if r.Counter("winner_lock") == 0 || r.Counter("winner_tombstone") == 0 {
		r.Inconclusive(fmt.Sprintf("only one arrival order was observed (lock first %d, tombstone first %d)", r.Counter("winner_lock"), r.Counter("winner_tombstone")))
	}
}

func vf07ConcRep(r *verifkit.Run, sh *Shard, rng *rand.Rand, cnr cid.ID, owner user.ID, si, rep int, delay time.Duration) {
	target := vf07MkObj(rng, cnr, owner, vf07Reg, -1, oid.ID{})
	taddr := verifkit.Addr(target)
	tbin := target.Marshal()
	if err := sh.Put(target, nil); err != nil {
		r.Inconclusive(fmt.Sprintf("put of a fresh target failed: %v", err))
		return
	}
	nLocks, nTombs := 1+rng.IntN(2), 1+rng.IntN(2)
	withGC := rng.IntN(3) == 0
	type actor struct {
		in  vf07In
		obj *object.Object
	}
	var actors []actor
	for i := 0; i < nLocks; i++ {
		actors = append(actors, actor{vf07In{"lock", fmt.Sprintf("L%d", i)}, vf07MkObj(rng, cnr, owner, vf07Lock, -1, taddr.Object())})
	}
	for i := 0; i < nTombs; i++ {
		actors = append(actors, actor{vf07In{"tomb", fmt.Sprintf("T%d", i)}, vf07MkObj(rng, cnr, owner, vf07Tomb, 1000, taddr.Object())})
	}
	rng.Shuffle(len(actors), func(i, j int) { actors[i], actors[j] = actors[j], actors[i] })
	spin := make([]int, len(actors))
	for i := range spin {
		spin[i] = rng.IntN(3000)
	}

	h := &vf07Hist{}
	getOp := func(client int) vf07Out {
		return h.do(client, vf07In{op: "get"}, func() vf07Out {
			o, err := sh.Get(taddr, false)
			cls := vf07ErrClass(err)
			if err == nil && !bytes.Equal(o.Marshal(), tbin) {
				cls = "other"
			}
			return vf07Out{cls: cls}
		})
	}
	lockedOp := func(client int) vf07Out {
		return h.do(client, vf07In{op: "islocked"}, func() vf07Out {
			l, err := sh.IsLocked(taddr)
			return vf07Out{ok: err == nil && l}
		})
	}

	start := make(chan struct{})
	var wg sync.WaitGroup
	panics := make(chan any, 16)
	guard := func(f func()) {
		defer wg.Done()
		defer func() {
			if p := recover(); p != nil {
				panics <- p
			}
		}()
		<-start
		f()
	}
	outs := make([]vf07Out, len(actors))
	for i, a := range actors {
		wg.Add(1)
		go guard(func() {
			x := 0
			for k := 0; k < spin[i]; k++ {
				x += k
			}
			_ = x
			outs[i] = h.do(i, a.in, func() vf07Out {
				err := sh.Put(a.obj, nil)
				return vf07Out{ok: err == nil, cls: vf07ErrClass(err)}
			})
		})
	}
	for k := 0; k < 2; k++ {
		wg.Add(1)
		go guard(func() {
			for j := 0; j < 3; j++ {
				getOp(10 + k)
				lockedOp(10 + k)
			}
		})
	}
	if withGC {
		wg.Add(1)
		go guard(func() { sh.removeGarbage() })
	}
	close(start)
	done := make(chan struct{})
	go func() { wg.Wait(); close(done) }()
	if !verifkit.WaitOrTimeout(done, 5*time.Minute) {
		r.Inconclusive("concurrent repetition did not finish (watchdog)")
		return
	}
	select {
	case p := <-panics:
		r.Violation("panic|concurrent-lock-tombstone", fmt.Sprintf("panic in code under test: %v", p), map[string]any{"shard": si, "rep": rep})
	default:
	}
	// quiescent reads, then a GC pass, then again
	fin := getOp(20)
	finLocked := lockedOp(20)
	sh.removeGarbage()
	fin2 := getOp(20)
	inBlob, berr := sh.blobStor.Exists(taddr)

	r.Eval(1)
	var accL, accT int
	var desc []string
	for i, a := range actors {
		if outs[i].ok {
			if a.in.op == "lock" {
				accL++
			} else {
				accT++
			}
		}
		desc = append(desc, fmt.Sprintf("%s=%s", a.in.who, outs[i].cls))
		r.Count("put_"+a.in.op+"_"+outs[i].cls, 1)
	}
	sort.Strings(desc)
	switch {
	case accL > 0 && accT == 0:
		r.Count("winner_lock", 1)
	case accT > 0 && accL == 0:
		r.Count("winner_tombstone", 1)
	case accL == 0 && accT == 0:
		r.Count("winner_none", 1)
	}
	sig := fmt.Sprintf("L%d/%d T%d/%d fin=%s locked=%v gc=%v delay=%s", accL, nLocks, accT, nTombs, fin.cls, finLocked.ok, withGC, delay)
	r.Distinct(sig)
	r.Seen("outcome_vectors", sig)
	replay := map[string]any{"shard": si, "rep": rep, "outcomes": desc, "final_get": fin.cls, "final_get_after_gc": fin2.cls, "final_islocked": finLocked.ok, "batch_delay": delay.String()}

	if accL > 0 && accT > 0 {
		r.Violation("concurrent|lock-and-tombstone-both-accepted", "a lock and a tombstone of the same object were both accepted: "+strings.Join(desc, " "), replay)
	}
	if accL > 0 && berr == nil && !inBlob {
		r.Violation("concurrent|locked-object-physically-deleted", "the locked object's blob is gone after a GC pass", replay)
	}
	res := porcupine.CheckOperationsTimeout(vf07Model, h.ops, 60*time.Second)
	switch res {
	case porcupine.Ok:
		r.Count("porcupine_ok", 1)
	case porcupine.Illegal:
		r.Count("porcupine_illegal", 1)
		var hs []string
		sort.Slice(h.ops, func(i, j int) bool { return h.ops[i].Call < h.ops[j].Call })
		for _, o := range h.ops {
			hs = append(hs, fmt.Sprintf("[%d,%d] c%d %s", o.Call, o.Return, o.ClientId, vf07Model.DescribeOperation(o.Input, o.Output)))
		}
		replay["history"] = hs
		r.Violation(fmt.Sprintf("concurrent|history-not-linearizable|L%d T%d fin=%s locked=%v", min(accL, 1), min(accT, 1), fin.cls, finLocked.ok),
			"lock/tombstone/read history of one object admits no sequential order satisfying the lock rules", replay)
	default:
		r.Count("porcupine_unknown", 1)
		r.Inconclusive("porcupine timed out on a history")
	}
	if rep < 2 && si == 0 {
		r.Sample(replay)
	}
}
