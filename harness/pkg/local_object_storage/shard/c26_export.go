//go:build verif

package shard

// Thin exporter for the C26 monitor (policer package).  No logic of its own.

// Verif26RunGC runs one synchronous pass of the GC ticker body (removal of
// garbage-marked objects), so that the monitor observes the node after the marks set
// by the policer took effect without waiting for a timer.
func (s *Shard) Verif26RunGC() { s.removeGarbage() }
