//go:build verif

package shard

// C11, shard part: the range APIs of a real shard (with and without write-cache) must give
// the reference answer (internal/vf11) for objects put through Shard.Put (they live in the
// write-cache, then in combined or plain files of the blob storage) and for zstd /
// combined files planted in the blob storage directory.

import (
	"errors"
	"fmt"
	"io"
	"math/rand/v2"
	"path/filepath"
	"sync/atomic"
	"testing"
	"time"

	"github.com/nspcc-dev/neofs-node/internal/verifkit"
	"github.com/nspcc-dev/neofs-node/internal/vf11"
	"github.com/nspcc-dev/neofs-node/pkg/local_object_storage/blobstor/common"
	"github.com/nspcc-dev/neofs-node/pkg/local_object_storage/blobstor/fstree"
	meta "github.com/nspcc-dev/neofs-node/pkg/local_object_storage/metabase"
	"github.com/nspcc-dev/neofs-node/pkg/local_object_storage/writecache"
	oid "github.com/nspcc-dev/neofs-sdk-go/object/id"
	"go.uber.org/zap"
)

type vf11Epoch struct{}

func (vf11Epoch) CurrentEpoch() uint64 { return 0 }

// vf11Blob is the shard's blob storage: the real FSTree, except that writes are refused
// when the shard has a write-cache.  Shard.Put then keeps every object in the write-cache
// and the background flush can never move it, so the write-cache read path is exercised
// deterministically (the blob-storage path is exercised by the shard without write-cache
// and by the planted files).
type vf11Blob struct {
	*fstree.FSTree
	refuseWrites bool
	refused      atomic.Int64
}

func (b *vf11Blob) Put(a oid.Address, d []byte) error {
	if b.refuseWrites {
		b.refused.Add(1)
		return errors.New("verif: blob storage writes are refused to keep objects in the write-cache")
	}
	return b.FSTree.Put(a, d)
}

func (b *vf11Blob) PutBatch(m map[oid.Address][]byte) error {
	if b.refuseWrites {
		b.refused.Add(1)
		return errors.New("verif: blob storage writes are refused to keep objects in the write-cache")
	}
	return b.FSTree.PutBatch(m)
}

func vf11NewShard(t *testing.T, dir string, wc bool, depth int) (*Shard, *fstree.FSTree, string) {
	root := filepath.Join(dir, "blob")
	fst := fstree.New(fstree.WithPath(root), fstree.WithDepth(uint64(depth)), fstree.WithNoSync(true))
	sh := New(
		WithLogger(zap.NewNop()),
		WithBlobstor(&vf11Blob{FSTree: fst, refuseWrites: wc}),
		WithMetaBaseOptions(meta.WithPath(filepath.Join(dir, "meta")), meta.WithEpochState(vf11Epoch{}), meta.WithMaxBatchDelay(time.Microsecond)),
		WithWriteCache(wc),
		WithWriteCacheOptions(writecache.WithPath(filepath.Join(dir, "wcache")), writecache.WithNoSync(true)),
	)
	if err := sh.Open(); err != nil {
		t.Fatal(err)
	}
	if err := sh.Init(); err != nil {
		t.Fatal(err)
	}
	return sh, fst, root
}

func TestVerif_C11(t *testing.T) {
	r := verifkit.Start(t, "C11", "exploration")
	defer r.Finish()
	small := []int{0, 1, 2, 7, 20}
	if r.Thorough() {
		small = []int{0, 1, 2, 3, 4, 5, 8, 16, 33, 64}
	}
	nBig, nDirected, nMB := r.Pick(4, 14), r.Pick(60, 160), r.Pick(2, 5)
	r.SetRule(fmt.Sprintf("shard with and without write-cache: payload lengths %v with every request of the four modes (values 0..len+2) plus huge values, %d larger payloads with %d boundary-directed requests each; objects put through Shard.Put (also >128 KiB objects that become plain files) or planted as zstd / combined files in the blob storage, among them %d compressed objects whose zstd frame has many blocks (payloads of 0.3..1.5 MiB, compressed the way old nodes did); Shard.GetRangeStream, ReadRange, ReadPayloadRange, ReadObject, GetRangeStreamWithMetadataLookup with/without metabase lookup and header interception; undefined requests must get the blob storage's answer; then batches of 2..8 range reads with overlapping answer lifetimes (seeded schedule of issue / read chunk / abandon / close) and rounds of concurrent reads, judged by the same resolver; distinct = (write-cache on/off, api, format, length class, mode, request shape)", small, nBig, nDirected, nMB))
	cnr, owner := verifkit.RandCID(r.Rand("ids", 0)), verifkit.RandUser(r.Rand("ids", 1))
	k := 0
	for _, wcOn := range []bool{false, true} {
		depth := 1 + r.Rand("depth", 0).IntN(4)
		sh, fst, root := vf11NewShard(t, filepath.Join(t.TempDir(), fmt.Sprint(wcOn)), wcOn, depth)
		type item struct {
			o       *vf11.Obj
			reqs    []vf11.Req
			planted bool
		}
		var items []item
		var comb []*vf11.Obj
		add := func(stream string, i int, payload []byte, hk int, reqs func(o *vf11.Obj) []vf11.Req) {
			for _, f := range []string{"put", "zstd", "combined-planted"} {
				o := vf11.NewObj(r.Rand(fmt.Sprint(stream, f, wcOn), i), cnr, owner, payload, hk)
				o.Format = f
				switch f {
				case "put":
					if err := sh.Put(o.Object, o.Bin); err != nil {
						t.Fatalf("harness put: %v", err)
					}
					if wcOn {
						o.Format = "put-wc"
					}
				case "zstd":
					if err := vf11.PlantFile(root, depth, o.Addr, vf11.Zstd(o.Bin)); err != nil {
						t.Fatal(err)
					}
				default:
					comb = append(comb, o)
				}
				items = append(items, item{o, reqs(o), f != "put"})
			}
		}
		for i, l := range small {
			p := vf11.Payload(r.Rand("payload", i), l, false)
			add("small", i, p, l%3, func(*vf11.Obj) []vf11.Req {
				return append(vf11.Exhaustive(l), vf11.Huge(uint64(l), r.Rand("huge", i))...)
			})
		}
		for b := 0; b < nBig; b++ {
			rng := r.Rand("big", b)
			l := 1 + rng.IntN(100<<10)
			switch b % 4 {
			case 0:
				l = 45<<10 + rng.IntN(40<<10)
			case 1:
				l = 130<<10 + rng.IntN(20<<10) // above the combined threshold: plain file
			case 3:
				l = 21<<10 + rng.IntN(80<<10) // a second incompressible one that is streamed from its file
			}
			p := vf11.Payload(r.Rand("bigpayload", b), l, b%2 == 0)
			add("big", b, p, rng.IntN(3), func(o *vf11.Obj) []vf11.Req {
				return append(vf11.Directed(uint64(l), vf11.Marks(o), r.Rand("directed", b), nDirected), vf11.Huge(uint64(l), r.Rand("hugebig", b))...)
			})
		}
		// compressed objects whose frame has many blocks (vf11/c11_multiblock.go)
		mbFiles, mbMembers := vf11.MultiBlockSet(r, fmt.Sprint("shard", wcOn), cnr, owner, nMB)
		for i, o := range append(append([]*vf11.Obj(nil), mbFiles...), mbMembers...) {
			items = append(items, item{o, vf11.MultiBlockReqs(r, fmt.Sprint("shard", wcOn), i, o, nDirected), true})
		}
		nLarge := 3*nBig + 2*nMB // the items at the end of the list that have larger payloads
		if err := vf11.PlantMultiBlock(root, depth, mbFiles, mbMembers); err != nil {
			t.Fatal(err)
		}
		for i := 0; i < len(comb); i += 4 {
			grp := comb[i:min(i+4, len(comb))]
			cm := make([]bool, len(grp))
			for j := range cm {
				if cm[j] = (i+j)%3 == 0; cm[j] {
					grp[j].Format = "combined+zstd"
				}
			}
			if err := vf11.PlantCombined(root, depth, grp, cm); err != nil {
				t.Fatal(err)
			}
		}

		r.Sample(map[string]any{"part": "shard", "write_cache": wcOn, "objects": len(items), "fstree_depth": depth, "first_requests": fmt.Sprint(items[0].reqs[:min(6, len(items[0].reqs))])})
		layer := "shard"
		if wcOn {
			layer = "shard+wc"
		}
		lower := func(rng *rand.Rand, o *vf11.Obj, req vf11.Req) vf11.Answer {
			_, _, s, e := fst.GetRangeStream(o.Addr, req.Range(), false)
			a := vf11.StreamAnswer(rng, s, e)
			if a.Class() == "not-found" && wcOn {
				_, _, s, e = sh.writeCache.GetRangeStream(o.Addr, req.Range(), false)
				a = vf11.StreamAnswer(rng, s, e)
			}
			return a
		}
		for _, it := range items {
			o := it.o
			r.Seen("formats", o.Format)
			L := uint64(len(o.Payload))
			for _, req := range it.reqs {
				k++
				rng := r.Rand("read", k)
				desc := map[string]any{"request": req.String(), "addr": o.Addr.String(), "format": o.Format, "payload_len": L, "write_cache": wcOn}
				withHook := k%2 == 1
				skipMeta := it.planted || k%4 < 2
				var calls int
				var hook func([]byte) error
				if withHook {
					hook = vf11.Intercept(&calls)
				}
				_, _, want := vf11.Resolve(req, L)
				done := func(api string, a vf11.Answer, partsLike bool) {
					vf11.Judge(r, layer, api, o, req, a)
					if want == vf11.WantFree && !partsLike {
						vf11.Agree(r, layer, api, o, req, a, lower(rng, o, req))
					}
					r.Eval(1)
					r.Distinct(fmt.Sprintf("%s|%s|%s|%s|%s|%s|skipmeta=%v", layer, api, o.Format, vf11.LenClass(o), vf11.ModeName(req.Mode), vf11.ReqClass(req, L), skipMeta))
				}
				r.Guard(desc, func() {
					_, _, stream, err := sh.GetRangeStream(o.Addr.Container(), o.Addr.Object(), req.Range(), withHook)
					done("GetRangeStream", vf11.StreamAnswer(rng, stream, err), false)
				})
				r.Guard(desc, func() {
					_, stream, err := sh.GetRangeStreamWithMetadataLookup(o.Addr, req.Range(), withHook, skipMeta)
					done("GetRangeStreamWithMetadataLookup", vf11.StreamAnswer(rng, stream, err), false)
				})
				if req.Mode == common.PayloadRangeModeOffsetLength {
					r.Guard(desc, func() {
						var stream io.ReadCloser
						stream, err := sh.ReadRange(o.Addr.Container(), o.Addr.Object(), req.A, req.B, make([]byte, 2*vf11.NPFBL), hook)
						done("ReadRange", vf11.StreamAnswer(rng, stream, err), false)
					})
					r.Guard(desc, func() {
						stream, err := sh.ReadPayloadRange(o.Addr, req.A, req.B, skipMeta, make([]byte, 2*vf11.NPFBL))
						done("ReadPayloadRange", vf11.StreamAnswer(rng, stream, err), false)
					})
				}
				r.Guard(desc, func() {
					buf := make([]byte, 2*vf11.NPFBL)
					n, stream, err := sh.ReadObject(o.Addr, skipMeta, req.Range(), buf, hook)
					a := vf11.PartsAnswer(rng, req, buf, n, stream, err)
					done("ReadObject", a, true)
					if want == vf11.WantFree {
						buf2 := make([]byte, 2*vf11.NPFBL)
						n2, s2, e2 := fst.ReadObjectParts(buf2, o.Addr, req.Range(), nil)
						low := vf11.PartsAnswer(rng, req, buf2, n2, s2, e2)
						if low.Class() == "not-found" && wcOn {
							n2, s2, e2 = sh.writeCache.ReadObjectParts(buf2, o.Addr, req.Range(), nil)
							low = vf11.PartsAnswer(rng, req, buf2, n2, s2, e2)
						}
						vf11.Agree(r, layer, "ReadObject", o, req, a, low)
					}
				})
				if withHook {
					r.Count("header_interceptions", calls)
				}
			}
		}
		// answers with overlapping lifetimes and concurrent requests (see vf11.Overlapped)
		vf11.OverlapPhase(r, layer, 0, r.Pick(200, 800), r.Pick(2, 8), func(rng *rand.Rand) vf11.Call {
			it := items[rng.IntN(len(items))]
			if rng.IntN(2) == 0 { // larger payloads half of the time
				it = items[len(items)-1-rng.IntN(nLarge)]
			}
			o := it.o
			req := vf11.RandReq(rng, o)
			withHook := rng.IntN(2) == 0
			skipMeta := it.planted || rng.IntN(2) == 0
			var hook func([]byte) error
			if withHook {
				var calls int
				hook = vf11.Intercept(&calls)
			}
			cl := vf11.Call{Layer: layer, O: o, Req: req}
			api := rng.IntN(5)
			if api >= 3 && req.Mode != common.PayloadRangeModeOffsetLength {
				api -= 3
			}
			switch api {
			case 0:
				cl.API = "GetRangeStream"
				cl.Open = func() (io.ReadCloser, func() []byte, error) {
					_, _, stream, err := sh.GetRangeStream(o.Addr.Container(), o.Addr.Object(), req.Range(), withHook)
					return stream, nil, err
				}
			case 1:
				cl.API = "GetRangeStreamWithMetadataLookup"
				cl.Open = func() (io.ReadCloser, func() []byte, error) {
					_, stream, err := sh.GetRangeStreamWithMetadataLookup(o.Addr, req.Range(), withHook, skipMeta)
					return stream, nil, err
				}
			case 2:
				cl.API = "ReadObject"
				cl.Open = func() (io.ReadCloser, func() []byte, error) {
					buf := make([]byte, 2*vf11.NPFBL)
					n, stream, err := sh.ReadObject(o.Addr, skipMeta, req.Range(), buf, hook)
					return vf11.PartsOpen(req, buf, n, stream, err)
				}
			case 3:
				cl.API = "ReadRange"
				cl.Open = func() (io.ReadCloser, func() []byte, error) {
					var stream io.ReadCloser
					stream, err := sh.ReadRange(o.Addr.Container(), o.Addr.Object(), req.A, req.B, make([]byte, 2*vf11.NPFBL), hook)
					return stream, nil, err
				}
			default:
				cl.API = "ReadPayloadRange"
				cl.Open = func() (io.ReadCloser, func() []byte, error) {
					var stream io.ReadCloser
					stream, err := sh.ReadPayloadRange(o.Addr, req.A, req.B, skipMeta, make([]byte, 2*vf11.NPFBL))
					return stream, nil, err
				}
			}
			return cl
		})
		if wcOn {
			inWC := 0
			for _, it := range items {
				if !it.planted {
					if _, err := sh.writeCache.Head(it.o.Addr); err == nil {
						inWC++
					}
				}
			}
			r.Count("put_objects_still_in_write_cache_at_end", inWC)
			if inWC == 0 {
				r.Inconclusive("no put object stayed in the write-cache: its read path was not exercised")
			}
		}
		if err := sh.Close(); err != nil {
			t.Logf("close: %v", err)
		}
	}
}
