//go:build verif

package shard

// C18 monitor: "Rebuilding metadata from blobs gives the same object statuses in any blob
// order".
//
// 1. A seeded history (puts of regular objects, split children + link, EC parts,
//    tombstones and locks with and without expirations; epoch advances) is applied to a
//    real shard (FSTree + metabase).  Whatever blobs the shard keeps afterwards is the
//    "stored set" S; the statuses the shard reports then are the incremental statuses.
// 2. For every permutation of S (all of them for small sets, seeded samples above) a
//    fresh shard is opened over the same blobs through a common.Storage wrapper whose
//    Iterate replays exactly that permutation (real FSTree underneath, deletions kept in
//    an overlay), and the real DB.ResyncFromBlobstor rebuilds its metabase.
// 3. Oracle, written from the statement:
//    - the status of every stored object (available / removed by tombstone / expired,
//      plus the locked flag) is the same for every permutation;
//    - it equals the status that follows from the set S alone (reference rules: removed
//      iff a stored tombstone targets the object or its root; expired iff the epoch is
//      past its expiration and no live lock protects it; otherwise available) or,
//      where those two disagree, the incremental one;
//    - after the rebuild, at most |S|+2 synchronous passes of the real GC body delete the
//      blob of every removed object.
// 4. Big sets: a few histories per run additionally upload more plain filler objects than
//    the rebuild indexes in one batch, and the enumeration orders place the interesting
//    blobs on both sides of the filler runs (head / tail / random cuts), so that the
//    rebuild crosses batch boundaries between a tombstone or lock and its target's parts.
//    The oracle is the same; every filler must come out available.
// 5. Leaky histories: in some histories (own random stream, more locks) the best-effort
//    clean-up delete that Shard.Put performs after a refused metabase put fails (fault
//    injected in the blob storage of the incremental shard), so the blob of the refused
//    object stays: a tombstone next to a live lock of the same target, a lock next to a
//    tombstone, a part of an already removed root.  For a target that has both a stored
//    tombstone and a stored live lock the statement does not say which one prevails, but
//    the statuses must follow from ONE of the two readings for the target and all its
//    stored parts together: either the lock holds (target locked, nothing of it removed)
//    or the tombstone does (target and every part removed, GC reclaims them).

import (
	"encoding/json"
	"errors"
	"fmt"
	"io"
	"math/rand/v2"
	"os"
	"path/filepath"
	"slices"
	"sort"
	"strings"
	"sync"
	"sync/atomic"
	"testing"
	"time"

	"github.com/nspcc-dev/bbolt"
	iec "github.com/nspcc-dev/neofs-node/internal/ec"
	ierrors "github.com/nspcc-dev/neofs-node/internal/errors"
	"github.com/nspcc-dev/neofs-node/internal/verifkit"
	"github.com/nspcc-dev/neofs-node/pkg/local_object_storage/blobstor/common"
	"github.com/nspcc-dev/neofs-node/pkg/local_object_storage/blobstor/fstree"
	meta "github.com/nspcc-dev/neofs-node/pkg/local_object_storage/metabase"
	apistatus "github.com/nspcc-dev/neofs-sdk-go/client/status"
	cid "github.com/nspcc-dev/neofs-sdk-go/container/id"
	"github.com/nspcc-dev/neofs-sdk-go/object"
	oid "github.com/nspcc-dev/neofs-sdk-go/object/id"
	"github.com/nspcc-dev/neofs-sdk-go/user"
	"go.uber.org/zap"
)

type vf18Epoch struct{ v atomic.Uint64 }

func (e *vf18Epoch) CurrentEpoch() uint64 { return e.v.Load() }

type vf18NoPayments struct{}

func (vf18NoPayments) PaymentsDisabled() bool            { return true }
func (vf18NoPayments) UnpaidSince(cid.ID) (int64, error) { return -1, nil }

// ---------------------------------------------------------------------------------
// blob storage wrapper: imposes the enumeration order, keeps deletions in an overlay

type vf18Store struct {
	inner   *fstree.FSTree
	mu      sync.Mutex
	order   []oid.Address
	deleted map[oid.Address]bool
	puts    int
	iters   int
	handed  []oid.Address // addresses actually handed to the handler by the last Iterate
}

func (s *vf18Store) reset(order []oid.Address) {
	s.mu.Lock()
	s.order = slices.Clone(order)
	s.deleted = map[oid.Address]bool{}
	s.puts, s.iters, s.handed = 0, 0, nil
	s.mu.Unlock()
}

func (s *vf18Store) gone(a oid.Address) bool {
	s.mu.Lock()
	defer s.mu.Unlock()
	return s.deleted[a]
}

func (s *vf18Store) has(a oid.Address) bool {
	if s.gone(a) {
		return false
	}
	ok, err := s.inner.Exists(a)
	return err == nil && ok
}

var errVf18NotFound = apistatus.ErrObjectNotFound

func (s *vf18Store) Open(bool) error      { return nil } // the FSTree is opened once by the monitor
func (s *vf18Store) Init(common.ID) error { return nil }
func (s *vf18Store) Close() error         { return nil }
func (s *vf18Store) Type() string         { return s.inner.Type() }
func (s *vf18Store) Path() string         { return s.inner.Path() }
func (s *vf18Store) ShardID() common.ID   { return s.inner.ShardID() }

func (s *vf18Store) GetBytes(a oid.Address) ([]byte, error) {
	if s.gone(a) {
		return nil, errVf18NotFound
	}
	return s.inner.GetBytes(a)
}

func (s *vf18Store) Get(a oid.Address) (*object.Object, error) {
	if s.gone(a) {
		return nil, errVf18NotFound
	}
	return s.inner.Get(a)
}

func (s *vf18Store) GetRangeStream(a oid.Address, rng common.PayloadRange, readHeader bool) (*object.Object, uint64, io.ReadCloser, error) {
	if s.gone(a) {
		return nil, 0, nil, errVf18NotFound
	}
	return s.inner.GetRangeStream(a, rng, readHeader)
}

func (s *vf18Store) GetStream(a oid.Address) (*object.Object, io.ReadCloser, error) {
	if s.gone(a) {
		return nil, nil, errVf18NotFound
	}
	return s.inner.GetStream(a)
}

func (s *vf18Store) Head(a oid.Address) (*object.Object, error) {
	if s.gone(a) {
		return nil, errVf18NotFound
	}
	return s.inner.Head(a)
}

func (s *vf18Store) ReadHeader(a oid.Address, b []byte) (int, error) {
	if s.gone(a) {
		return 0, errVf18NotFound
	}
	return s.inner.ReadHeader(a, b)
}

func (s *vf18Store) ReadObject(a oid.Address, b []byte) (int, io.ReadCloser, error) {
	if s.gone(a) {
		return 0, nil, errVf18NotFound
	}
	return s.inner.ReadObject(a, b)
}

func (s *vf18Store) ReadPayloadRange(a oid.Address, off, ln uint64, b []byte, f func([]byte) error) (io.ReadCloser, error) {
	if s.gone(a) {
		return nil, errVf18NotFound
	}
	return s.inner.ReadPayloadRange(a, off, ln, b, f)
}

func (s *vf18Store) ReadObjectParts(buf []byte, a oid.Address, rng common.PayloadRange, f func([]byte) error) (int, io.ReadCloser, error) {
	if s.gone(a) {
		return 0, nil, errVf18NotFound
	}
	return s.inner.ReadObjectParts(buf, a, rng, f)
}

func (s *vf18Store) Exists(a oid.Address) (bool, error) {
	if s.gone(a) {
		return false, nil
	}
	return s.inner.Exists(a)
}

func (s *vf18Store) Put(a oid.Address, b []byte) error {
	s.mu.Lock()
	s.puts++
	s.mu.Unlock()
	return errors.New("vf18: the rebuilt shard is not supposed to write blobs")
}

func (s *vf18Store) PutBatch(map[oid.Address][]byte) error {
	s.mu.Lock()
	s.puts++
	s.mu.Unlock()
	return errors.New("vf18: the rebuilt shard is not supposed to write blobs")
}

func (s *vf18Store) Delete(a oid.Address) error {
	if !s.has(a) {
		return errVf18NotFound
	}
	s.mu.Lock()
	s.deleted[a] = true
	s.mu.Unlock()
	return nil
}

// Iterate replays the imposed order; the bytes come from the real FSTree.
func (s *vf18Store) Iterate(h func(oid.Address, []byte) error, eh func(oid.Address, error) error) error {
	s.mu.Lock()
	s.iters++
	order := slices.Clone(s.order)
	s.handed = nil
	s.mu.Unlock()
	for _, a := range order {
		if s.gone(a) {
			continue
		}
		data, err := s.inner.GetBytes(a)
		if err != nil {
			if eh != nil {
				if err = eh(a, err); err != nil {
					return err
				}
				continue
			}
			return err
		}
		s.mu.Lock()
		s.handed = append(s.handed, a)
		s.mu.Unlock()
		if err := h(a, data); err != nil {
			return err
		}
	}
	return nil
}

func (s *vf18Store) IterateAddresses(f func(oid.Address) error, _ bool) error {
	s.mu.Lock()
	order := slices.Clone(s.order)
	s.mu.Unlock()
	for _, a := range order {
		if s.gone(a) {
			continue
		}
		if err := f(a); err != nil {
			return err
		}
	}
	return nil
}

// vf18LeakyStore is the blob storage of the incremental shard: the real FSTree whose
// Delete can be told to fail.  Shard.Put deletes the blob it has just written when the
// metabase refuses the object; that clean-up is best effort (its error is only logged), so
// a failing delete (or a stop right before it) leaves the blob of a refused object behind.
type vf18LeakyStore struct {
	*fstree.FSTree
	failDelete atomic.Bool
	failed     atomic.Int64
}

func (s *vf18LeakyStore) Delete(a oid.Address) error {
	if s.failDelete.Load() {
		s.failed.Add(1)
		return errors.New("vf18: injected failure of the clean-up delete")
	}
	return s.FSTree.Delete(a)
}

// ---------------------------------------------------------------------------------
// universe

const (
	vf18Reg = iota
	vf18Child
	vf18ECPart
	vf18Link
	vf18Lock
	vf18Tomb
	vf18Root // virtual
)

var vf18KindName = [...]string{"regular", "split-child", "ec-part", "link", "lock", "tombstone", "virtual-root"}

// vf18BatchHint is the number of blobs the rebuild is known to index per transaction
// (metabase's unexported resyncBatchSize).  It only sizes the filler population of the
// big sets and feeds an evidence counter; no verdict depends on it.
const vf18BatchHint = 1000

type vf18Obj struct {
	filler bool
	name   string
	kind   int
	obj    *object.Object
	addr   oid.Address
	target oid.Address
	root   oid.Address
	exp    int64
}

type vf18Step struct {
	put   *vf18Obj
	epoch uint64 // when put == nil
}

type vf18Case struct {
	r      *verifkit.Run
	caseNo int
	rng    *rand.Rand
	cnr    cid.ID
	owner  user.ID
	objs   []*vf18Obj
	byAddr map[oid.Address]*vf18Obj
	hist   []vf18Step
	ops    []string
	final  uint64
	nviol  int
	big    bool // more fillers than one rebuild batch
	nfill  int
	leak   bool // refused puts may leave their blob behind; more locks are planned
}

func (x *vf18Case) mk(size int, exp int64) *object.Object {
	o := verifkit.NewObject(x.rng, x.cnr, x.owner, size)
	if exp >= 0 {
		verifkit.SetExpiration(o, uint64(exp))
	}
	return o
}

func (x *vf18Case) add(name string, kind int, o *object.Object, id oid.ID) *vf18Obj {
	s := &vf18Obj{name: name, kind: kind, obj: o, addr: oid.NewAddress(x.cnr, id), exp: -1}
	x.objs = append(x.objs, s)
	x.byAddr[s.addr] = s
	return s
}

func (x *vf18Case) expOrNone(p float64, lo, hi int) int64 {
	if x.rng.Float64() < p {
		return int64(lo + x.rng.IntN(hi-lo+1))
	}
	return -1
}

// build plans at most budget physical objects and a history that uploads them.
func (x *vf18Case) build(budget int) {
	rng := x.rng
	x.cnr, x.owner = verifkit.RandCID(rng), verifkit.RandUser(rng)
	x.final = uint64(4 + rng.IntN(4))
	var groups [][]*vf18Obj
	n := 0
	for g := 0; n < budget && g < 4; g++ {
		left := budget - n
		var grp []*vf18Obj
		// associated objects: tombstones never expire before the final epoch (so that
		// "removed by tombstone" is a fact of the stored set), locks may
		assoc := func(t *vf18Obj, label string, lockP, tombP float64) {
			if x.leak {
				lockP, tombP = 0.6, 0.85
			}
			if left > len(grp) && rng.Float64() < lockP {
				exp := x.expOrNone(0.6, 0, int(x.final)+3)
				o := x.mk(0, exp)
				o.SetPayload(nil)
				o.AssociateLocked(t.addr.Object())
				l := x.add("lock("+label+")", vf18Lock, o, o.GetID())
				l.target, l.exp = t.addr, exp
				grp = append(grp, l)
			}
			if left > len(grp) && rng.Float64() < tombP {
				exp := x.expOrNone(0.5, int(x.final)+1, int(x.final)+5)
				o := x.mk(0, exp)
				o.SetPayload(nil)
				o.AssociateDeleted(t.addr.Object())
				ts := x.add("tomb("+label+")", vf18Tomb, o, o.GetID())
				ts.target, ts.exp = t.addr, exp
				grp = append(grp, ts)
			}
		}
		switch v := rng.IntN(10); {
		case v < 5 || left < 3: // regular object
			exp := x.expOrNone(0.45, 0, int(x.final)+3)
			o := x.mk(rng.IntN(40), exp)
			s := x.add(fmt.Sprintf("r%d", g), vf18Reg, o, o.GetID())
			s.exp = exp
			grp = append(grp, s)
			assoc(s, s.name, 0.45, 0.6)
		case v < 8: // size-split object, V2
			root := x.mk(0, -1)
			root.SetPayloadSize(uint64(20 + rng.IntN(50)))
			noID := *root
			noID.ResetID()
			p := x.add(fmt.Sprintf("root%d", g), vf18Root, nil, root.GetID())
			first := x.mk(1+rng.IntN(20), -1)
			first.SetParent(&noID)
			f := x.add(fmt.Sprintf("first%d", g), vf18Child, first, first.GetID())
			last := x.mk(1+rng.IntN(20), -1)
			last.SetFirstID(f.addr.Object())
			last.SetPreviousID(f.addr.Object())
			last.SetParent(root)
			l := x.add(fmt.Sprintf("last%d", g), vf18Child, last, last.GetID())
			f.root, l.root = p.addr, p.addr
			grp = append(grp, f, l)
			if left >= 4 && rng.IntN(2) == 0 {
				link := x.mk(8, -1)
				link.SetType(object.TypeLink)
				link.SetFirstID(f.addr.Object())
				link.SetParent(root)
				k := x.add(fmt.Sprintf("link%d", g), vf18Link, link, link.GetID())
				k.root = p.addr
				grp = append(grp, k)
			}
			assoc(p, p.name, 0.15, 0.8)
		default: // EC parts
			par := x.mk(0, -1)
			par.SetPayloadSize(uint64(20 + rng.IntN(50)))
			p := x.add(fmt.Sprintf("ecroot%d", g), vf18Root, nil, par.GetID())
			for k := range 2 {
				o := x.mk(1+rng.IntN(20), -1)
				o.SetParent(par)
				verifkit.AddAttr(o, iec.AttributeRuleIdx, "0")
				verifkit.AddAttr(o, iec.AttributePartIdx, fmt.Sprint(k))
				c := x.add(fmt.Sprintf("ec%d.%d", g, k), vf18ECPart, o, o.GetID())
				c.root = p.addr
				grp = append(grp, c)
			}
			assoc(p, p.name, 0.1, 0.8)
		}
		n += len(grp)
		groups = append(groups, grp)
	}
	// history: objects of a group mostly in upload order (data, lock, tombstone), groups
	// interleaved, epochs advancing up to the final one
	var order []*vf18Obj
	idx := make([]int, len(groups))
	for {
		var live []int
		for gi := range groups {
			if idx[gi] < len(groups[gi]) {
				live = append(live, gi)
			}
		}
		if len(live) == 0 {
			break
		}
		gi := live[rng.IntN(len(live))]
		order = append(order, groups[gi][idx[gi]])
		idx[gi]++
	}
	if rng.IntN(4) == 0 { // sometimes a hostile upload order
		rng.Shuffle(len(order), func(i, j int) { order[i], order[j] = order[j], order[i] })
	}
	epoch := uint64(0)
	for _, o := range order {
		if epoch < x.final && rng.IntN(3) == 0 {
			epoch += uint64(1 + rng.IntN(int(x.final-epoch)))
			x.hist = append(x.hist, vf18Step{epoch: epoch})
		}
		x.hist = append(x.hist, vf18Step{put: o})
	}
	if epoch < x.final {
		x.hist = append(x.hist, vf18Step{epoch: x.final})
	}
}

// worthBig tells whether the planned universe is worth the cost of a big set: it has a
// tombstone or lock, and (two cases out of three) a tombstone of a split/EC root.
func (x *vf18Case) worthBig() bool {
	assoc, rootTomb := false, false
	for _, o := range x.objs {
		if o.kind == vf18Tomb || o.kind == vf18Lock {
			assoc = true
		}
		if o.kind == vf18Tomb {
			if t := x.byAddr[o.target]; t != nil && t.kind == vf18Root {
				rootTomb = true
			}
		}
	}
	return assoc && (rootTomb || x.caseNo%3 == 2)
}

// addFillers plans the plain objects (no expiration, no relations) that make the stored
// set larger than one rebuild batch: mostly somewhat above one batch, sometimes above
// two, sometimes such that the last regular blob sits exactly at / next to a boundary.
func (x *vf18Case) addFillers() {
	regular := 0
	for _, o := range x.objs {
		if o.kind != vf18Tomb && o.kind != vf18Lock && o.kind != vf18Root {
			regular++
		}
	}
	var n int
	switch x.caseNo % 6 {
	case 1:
		n = (1+(x.caseNo/6)%2)*vf18BatchHint + x.rng.IntN(4) - 1 - regular
	case 3:
		n = 2*vf18BatchHint + 50 + x.rng.IntN(600)
	default:
		n = vf18BatchHint + 50 + x.rng.IntN(450)
	}
	for i := range n {
		o := x.mk(x.rng.IntN(16), -1)
		f := x.add(fmt.Sprintf("fill%d", i), vf18Reg, o, o.GetID())
		f.filler = true
	}
	x.big, x.nfill = true, n
	// the fillers are uploaded partly before and partly after the planned history
	k := x.rng.IntN(n + 1)
	var hist []vf18Step
	for _, o := range x.objs {
		if o.filler {
			if k == 0 {
				hist = append(hist, x.hist...)
			}
			k--
			hist = append(hist, vf18Step{put: o})
		}
	}
	if k >= 0 {
		hist = append(hist, x.hist...)
	}
	x.hist = hist
}

// bigOrder builds one enumeration order of a big set: the fillers (shuffled) form the
// body and every interesting blob is inserted at a slot of it.  mode 0: tombstones and
// locks before all fillers, the rest after them; 1: the inverse; otherwise one of: head
// or tail per blob / uniformly random slots / clusters at the head, two random cuts and
// the tail.
func (x *vf18Case) bigOrder(mode int, inter, fill []oid.Address) ([]oid.Address, string) {
	rng := x.rng
	n := len(fill)
	f := slices.Clone(fill)
	rng.Shuffle(n, func(i, j int) { f[i], f[j] = f[j], f[i] })
	it := slices.Clone(inter)
	rng.Shuffle(len(it), func(i, j int) { it[i], it[j] = it[j], it[i] })
	slot := map[oid.Address]int{}
	assoc := func(a oid.Address) bool { k := x.byAddr[a].kind; return k == vf18Tomb || k == vf18Lock }
	var shape string
	switch {
	case mode == 0 || mode == 1:
		shape = [...]string{"tombstones-and-locks-head|rest-tail", "rest-head|tombstones-and-locks-tail"}[mode]
		for _, a := range it {
			if assoc(a) == (mode == 0) {
				slot[a] = 0
			} else {
				slot[a] = n
			}
		}
	default:
		switch rng.IntN(3) {
		case 0:
			shape = "head-or-tail"
			for _, a := range it {
				slot[a] = n * rng.IntN(2)
			}
		case 1:
			shape = "uniform"
			for _, a := range it {
				slot[a] = rng.IntN(n + 1)
			}
		default:
			shape = "clusters"
			cuts := [4]int{0, rng.IntN(n + 1), rng.IntN(n + 1), n}
			for _, a := range it {
				slot[a] = cuts[rng.IntN(4)]
			}
		}
	}
	slices.SortStableFunc(it, func(a, b oid.Address) int { return slot[a] - slot[b] })
	res := make([]oid.Address, 0, n+len(it))
	j := 0
	for i := 0; i <= n; i++ {
		for j < len(it) && slot[it[j]] == i {
			res = append(res, it[j])
			j++
		}
		if i < n {
			res = append(res, f[i])
		}
	}
	return res, shape
}

// acrossBatches counts (evidence only) the pairs <tombstone or lock, stored object it
// targets / stored part of the root it targets> of which the associated object is read
// first and at least one full rebuild batch ends in between.
func (x *vf18Case) acrossBatches(order []oid.Address) int {
	batch := map[oid.Address]int{}
	c := 0
	for _, a := range order {
		batch[a] = c / vf18BatchHint
		if k := x.byAddr[a].kind; k != vf18Tomb && k != vf18Lock {
			c++
		}
	}
	n := 0
	for _, a := range order {
		t := x.byAddr[a]
		if t.filler || (t.kind != vf18Tomb && t.kind != vf18Lock) {
			continue
		}
		for _, p := range x.objs {
			if p.filler || p.kind == vf18Root || (p.addr != t.target && p.root != t.target) {
				continue
			}
			if b, ok := batch[p.addr]; ok && b > batch[a] {
				n++
			}
		}
	}
	return n
}

// ---------------------------------------------------------------------------------
// shard construction

func vf18NewShard(bs common.Storage, metaPath string, ep *vf18Epoch) (*Shard, error) {
	sh := New(
		WithLogger(zap.NewNop()),
		WithBlobstor(bs),
		WithMetaBaseOptions(
			meta.WithPath(metaPath),
			meta.WithEpochState(ep),
			meta.WithLogger(zap.NewNop()),
			meta.WithMaxBatchDelay(time.Microsecond),
			meta.WithMaxBatchSize(1),
			meta.WithBoltDBOptions(&bbolt.Options{NoSync: true, NoGrowSync: true, NoFreelistSync: true, Timeout: 5 * time.Second}),
		),
		WithGCRemoverSleepInterval(1000*time.Hour), // passes are driven by the monitor
		WithRemoverBatchSize(100),
		WithContainerPayments(vf18NoPayments{}),
	)
	if err := sh.Open(); err != nil {
		return nil, err
	}
	if err := sh.Init(); err != nil {
		_ = sh.Close()
		return nil, err
	}
	return sh, nil
}

// ---------------------------------------------------------------------------------
// status observation and reference status

type vf18Status struct {
	base    string // available, removed, expired, notfound, virtual, error:...
	locked  bool
	garbage bool // listed by DB.GetGarbage: marked for removal, payload to be reclaimed by GC
}

// eff reads "not found, but listed as garbage" as removed: the object has been marked for
// removal and Exists merely answers with another error class (it does so for a part that
// is linked to its removed root through a sibling only).
func (s vf18Status) eff() string {
	if s.base == "notfound" && s.garbage {
		return "removed"
	}
	return s.base
}

// vf18Garbage returns what the metabase lists as garbage.
func vf18Garbage(db *meta.DB) map[oid.Address]bool {
	res := map[oid.Address]bool{}
	bins, err := db.GetGarbage(1 << 20)
	if err != nil {
		return res
	}
	for _, b := range bins {
		for _, id := range b.Objects {
			res[oid.NewAddress(b.Container, id)] = true
		}
	}
	return res
}

func (s vf18Status) String() string {
	res := s.base
	if s.base == "notfound" && s.garbage {
		res += "(garbage)"
	}
	if s.locked {
		res += "+locked"
	}
	return res
}

func vf18Observe(db *meta.DB, a oid.Address) vf18Status {
	var st vf18Status
	ok, err := db.Exists(a, false)
	var removed apistatus.ObjectAlreadyRemoved
	var nf apistatus.ObjectNotFound
	switch {
	case err == nil && ok:
		st.base = "available"
	case err == nil:
		st.base = "notfound"
	case errors.As(err, &removed):
		st.base = "removed"
	case errors.Is(err, meta.ErrObjectIsExpired):
		st.base = "expired"
	case errors.Is(err, ierrors.ErrParentObject):
		st.base = "virtual"
	case errors.As(err, &nf):
		st.base = "notfound"
	default:
		st.base = "error:" + err.Error()
	}
	if l, err := db.IsLocked(a); err == nil {
		st.locked = l
	}
	return st
}

type vf18Want struct {
	base        string
	alt         string // second status the stored set justifies equally (expired and tombstoned at once)
	constrained bool
	lockKnown   bool
	locked      bool
	why         string
}

func (x *vf18Case) tombed(stored map[oid.Address]bool, a oid.Address) bool {
	for _, t := range x.objs {
		if t.kind == vf18Tomb && t.target == a && stored[t.addr] {
			return true
		}
	}
	return false
}

func (x *vf18Case) liveLock(stored map[oid.Address]bool, a oid.Address) bool {
	for _, l := range x.objs {
		if l.kind == vf18Lock && l.target == a && stored[l.addr] && (l.exp < 0 || x.final <= uint64(l.exp)) {
			return true
		}
	}
	return false
}

func (x *vf18Case) reference(stored map[oid.Address]bool, o *vf18Obj) vf18Want {
	return x.referenceWithout(stored, o, oid.Address{}, oid.Address{})
}

// referenceWithout is the reference status under one reading of a tombstone-vs-live-lock
// conflict: the tombstones of noTomb (the lock holds) or the locks of noLock (the
// tombstone holds) are taken as void.  Zero addresses: nothing is void.
func (x *vf18Case) referenceWithout(stored map[oid.Address]bool, o *vf18Obj, noTomb, noLock oid.Address) vf18Want {
	tombed := func(a oid.Address) bool { return a != noTomb && x.tombed(stored, a) }
	liveLock := func(a oid.Address) bool { return a != noLock && x.liveLock(stored, a) }
	hasRoot := !o.root.Object().IsZero() && x.rootKnown(stored, o)
	w := vf18Want{constrained: true}
	removed := tombed(o.addr) || (hasRoot && tombed(o.root))
	locked := liveLock(o.addr)
	rootLocked := hasRoot && liveLock(o.root)
	w.lockKnown, w.locked = !hasRoot || !rootLocked, locked
	switch {
	case removed && (locked || rootLocked):
		w.constrained, w.why = false, "tombstone next to a live lock"
	case o.kind == vf18Tomb && liveLock(o.target):
		// the tombstone of an object under a live lock may have been refused
		w.constrained, w.why = false, "tombstone of an object under a live lock"
	case o.kind == vf18Lock && tombed(o.target) && (o.exp < 0 || x.final <= uint64(o.exp)):
		w.constrained, w.why = false, "live lock of an object that has a tombstone"
	case removed:
		w.base, w.why = "removed", "a stored tombstone targets it or its root"
		w.lockKnown = false
		if o.exp >= 0 && x.final > uint64(o.exp) {
			// expired and tombstoned at once: the statement does not rank the two
			w.alt = "expired"
		}
	case o.kind == vf18Root:
		w.base, w.why = "virtual", "known only through its stored parts"
	case o.exp >= 0 && x.final > uint64(o.exp) && !locked:
		w.base, w.why = "expired", fmt.Sprintf("expiration %d < epoch %d, no live lock", o.exp, x.final)
		if rootLocked {
			w.constrained = false
		}
	default:
		w.base, w.why = "available", "stored, not removed, not expired or protected by a live lock"
	}
	return w
}

// rootKnown tells whether the stored set itself links o to its root: the object carries
// the root's ID in its header, or (first child of a V2 chain, whose parent header has no
// ID) a stored sibling names both the root and this object as the first part.
func (x *vf18Case) rootKnown(stored map[oid.Address]bool, o *vf18Obj) bool {
	if o.kind == vf18Root || o.obj == nil {
		return false
	}
	if o.obj.GetParentID() == o.root.Object() {
		return true
	}
	for _, s := range x.objs {
		if s != o && s.obj != nil && stored[s.addr] && s.root == o.root && s.obj.GetParentID() == o.root.Object() && s.obj.GetFirstID() == o.addr.Object() {
			return true
		}
	}
	return false
}

// accepted maps an observed status onto the reference one when the stored set justifies
// both equally.
func (w vf18Want) norm(base string) string {
	if w.alt != "" && base == w.alt {
		return w.base
	}
	return base
}

func (x *vf18Case) describe() []string {
	var res []string
	if x.nfill > 0 {
		res = append(res, fmt.Sprintf("fill0..fill%d regular, no expiration, no relations", x.nfill-1))
	}
	for _, o := range x.objs {
		if o.filler {
			continue
		}
		d := fmt.Sprintf("%s %s %s", o.name, vf18KindName[o.kind], o.addr.Object().EncodeToString())
		if o.exp >= 0 {
			d += fmt.Sprintf(" exp=%d", o.exp)
		}
		res = append(res, d)
	}
	return res
}

// names renders an order; runs of fillers are folded into "<n fillers>".
func (x *vf18Case) names(l []oid.Address) []string {
	res := make([]string, 0, min(len(l), 64))
	run := 0
	flushRun := func() {
		if run > 0 {
			res = append(res, fmt.Sprintf("<%d fillers>", run))
			run = 0
		}
	}
	for _, a := range l {
		o := x.byAddr[a]
		if o != nil && o.filler {
			run++
			continue
		}
		flushRun()
		if o != nil {
			res = append(res, o.name)
		} else {
			res = append(res, a.String())
		}
	}
	flushRun()
	return res
}

func (x *vf18Case) violation(key, what string, extra map[string]any) {
	x.nviol++
	if x.nviol > 8 {
		return
	}
	rep := map[string]any{"case_index": x.caseNo, "big_set": x.big, "leaky_case": x.leak && !x.big, "final_epoch": x.final, "history": x.ops, "universe": x.describe()}
	for k, v := range extra {
		rep[k] = v
	}
	x.r.Violation(key, fmt.Sprintf("case %d: %s", x.caseNo, what), rep)
}

// trigger names the shape of the enumeration order around the object: whether the
// tombstone of its root was read before at least one stored part of that root, whether
// the tombstone of the object itself was read before it, or neither.
func (x *vf18Case) trigger(order []oid.Address, o *vf18Obj) string {
	pos := func(a oid.Address) int { return slices.Index(order, a) }
	res := "no-tombstone-read-early"
	for _, t := range x.objs {
		if t.kind != vf18Tomb || pos(t.addr) < 0 {
			continue
		}
		if !o.root.Object().IsZero() && t.target == o.root {
			for _, p := range x.objs {
				if p.root == o.root && pos(p.addr) > pos(t.addr) {
					return "root-tombstone-read-before-a-part"
				}
			}
		}
		if t.target == o.addr && pos(o.addr) > pos(t.addr) {
			res = "own-tombstone-read-before-object"
		}
		if o.kind == vf18Lock && t.target == o.target && pos(o.addr) > pos(t.addr) {
			res = "target-tombstone-read-before-lock"
		}
	}
	return res
}

func vf18NextPerm(p []int) bool {
	i := len(p) - 2
	for i >= 0 && p[i] >= p[i+1] {
		i--
	}
	if i < 0 {
		return false
	}
	j := len(p) - 1
	for p[j] <= p[i] {
		j--
	}
	p[i], p[j] = p[j], p[i]
	slices.Reverse(p[i+1:])
	return true
}

// vf18Conflict is a target that has both a stored tombstone and a stored live lock, with
// the watched addresses whose status depends on which of the two prevails (the target
// itself and the stored parts the set links to it) and their reference status under either
// reading.
type vf18Conflict struct {
	target  *vf18Obj
	members []*vf18Obj
	lockW   map[oid.Address]vf18Want // the lock holds: tombstones of the target are void
	tombW   map[oid.Address]vf18Want // the tombstone holds: locks of the target are void
}

// vf18RunCase runs one stored set.  big > 0: a big set (own random stream) rebuilt in
// that many enumeration orders.  leak: a leaky history (own random stream for small sets;
// every fourth big set is leaky by itself).
func vf18RunCase(r *verifkit.Run, caseNo, budget, maxFull, samples, big int, leak bool) {
	dir, err := os.MkdirTemp("", "vf18-")
	if err != nil {
		r.Inconclusive("mkdtemp: " + err.Error())
		return
	}
	defer os.RemoveAll(dir)
	var x *vf18Case
	if big == 0 {
		stream := "case"
		if leak {
			stream = "leakycase"
		}
		x = &vf18Case{r: r, caseNo: caseNo, rng: r.Rand(stream, caseNo), byAddr: map[oid.Address]*vf18Obj{}, leak: leak}
		x.build(budget)
	} else {
		leak = caseNo%4 == 2
		for att := 0; ; att++ {
			x = &vf18Case{r: r, caseNo: caseNo, rng: r.Rand("bigcase", caseNo*1000+att), byAddr: map[oid.Address]*vf18Obj{}, leak: leak}
			x.build(budget)
			if x.worthBig() || att == 500 {
				break
			}
		}
		x.addFillers()
	}
	rng := x.rng

	// 1. incremental construction on a real shard
	ep := &vf18Epoch{}
	fs := fstree.New(fstree.WithPath(filepath.Join(dir, "fstree")), fstree.WithDepth(1), fstree.WithNoSync(true))
	leaky := &vf18LeakyStore{FSTree: fs}
	leakRng := r.Rand("leak", caseNo)
	if x.leak {
		r.Count("leaky_histories", 1)
	}
	shA, err := vf18NewShard(leaky, filepath.Join(dir, "metaA"), ep)
	if err != nil {
		r.Inconclusive("incremental shard: " + err.Error())
		return
	}
	for _, st := range x.hist {
		if st.put == nil {
			ep.v.Store(st.epoch)
			x.ops = append(x.ops, fmt.Sprintf("epoch=%d", st.epoch))
			continue
		}
		// leaky history: the clean-up delete after a refused put fails three times of four
		leaky.failDelete.Store(x.leak && !st.put.filler && leakRng.IntN(4) != 0)
		nFailed := leaky.failed.Load()
		err := shA.Put(st.put.obj, nil)
		leaky.failDelete.Store(false)
		if st.put.filler {
			if err != nil {
				r.Inconclusive(fmt.Sprintf("big case %d: filler %s was rejected: %v", caseNo, st.put.name, err))
				return
			}
			r.Count("filler_puts_ok", 1)
			if n := len(x.ops); n > 0 && strings.HasPrefix(x.ops[n-1], "put(<fillers ") {
				x.ops[n-1] = fmt.Sprintf("put(<fillers ..%s>)->ok", st.put.name)
			} else {
				x.ops = append(x.ops, fmt.Sprintf("put(<fillers ..%s>)->ok", st.put.name))
			}
			continue
		}
		res := "ok"
		if err != nil {
			res = "rejected"
			r.Count("history_puts_rejected", 1)
			if leaky.failed.Load() > nFailed {
				res = "rejected, clean-up delete failed: blob stays"
				r.Count("history_puts_rejected_blob_left", 1)
				r.Seen("kinds_of_refused_objects_whose_blob_stayed", vf18KindName[st.put.kind])
			}
		} else {
			r.Count("history_puts_ok", 1)
		}
		x.ops = append(x.ops, fmt.Sprintf("put(%s)->%s", st.put.name, res))
	}
	stored := map[oid.Address]bool{}
	var set []oid.Address
	_ = fs.IterateAddresses(func(a oid.Address) error {
		if x.byAddr[a] != nil {
			stored[a] = true
			set = append(set, a)
		}
		return nil
	}, true)
	slices.SortFunc(set, func(a, b oid.Address) int { return a.Compare(b) })
	// addresses whose status is compared: stored objects and the virtual roots of stored parts
	watch := slices.Clone(set)
	for _, o := range x.objs {
		if o.kind != vf18Root {
			continue
		}
		for _, c := range x.objs {
			if c.root == o.addr && stored[c.addr] && c.obj.GetParentID() == o.addr.Object() {
				watch = append(watch, o.addr)
				break
			}
		}
	}
	incr := map[oid.Address]vf18Status{}
	garbageA := vf18Garbage(shA.metaBase)
	for _, a := range watch {
		st := vf18Observe(shA.metaBase, a)
		st.garbage = garbageA[a]
		incr[a] = st
	}
	// detach the FSTree from the incremental shard without closing it
	_ = shA.metaBase.Close()
	shA.gc.stop()
	r.Count("incremental_shards_built", 1)

	want := map[oid.Address]vf18Want{}
	kinds := map[string]bool{}
	for _, a := range watch {
		want[a] = x.reference(stored, x.byAddr[a])
		kinds[vf18KindName[x.byAddr[a].kind]] = true
		r.Seen("reference_statuses_seen", want[a].base)
	}
	// targets with both a stored tombstone and a stored live lock
	var conflicts []*vf18Conflict
	for _, t := range x.objs {
		if t.filler || !x.tombed(stored, t.addr) || !x.liveLock(stored, t.addr) {
			continue
		}
		c := &vf18Conflict{target: t, lockW: map[oid.Address]vf18Want{}, tombW: map[oid.Address]vf18Want{}}
		for _, a := range watch {
			m := x.byAddr[a]
			if m != t && !(m.root == t.addr && x.rootKnown(stored, m)) {
				continue
			}
			c.members = append(c.members, m)
			c.lockW[a] = x.referenceWithout(stored, m, t.addr, oid.Address{})
			c.tombW[a] = x.referenceWithout(stored, m, oid.Address{}, t.addr)
		}
		if len(c.members) > 0 {
			conflicts = append(conflicts, c)
			r.Count("stored_sets_with_tombstone_next_to_live_lock", 1)
			r.Seen("tombstone_vs_live_lock_target_kinds", vf18KindName[t.kind])
		}
	}
	if len(set) < 2 {
		r.Count("cases_with_trivial_set", 1)
		_ = fs.Close()
		return
	}

	// 2. permutations
	var perms [][]int
	var bigOrders [][]oid.Address
	var bigShapes []string
	id := make([]int, len(set))
	for i := range id {
		id[i] = i
	}
	exhaustive := len(set) <= maxFull
	if x.big {
		var inter, fill []oid.Address
		for _, a := range set {
			if x.byAddr[a].filler {
				fill = append(fill, a)
			} else {
				inter = append(inter, a)
			}
		}
		rev := slices.Clone(set)
		slices.Reverse(rev)
		bigOrders, bigShapes = append(bigOrders, set, rev), append(bigShapes, "by-address", "by-address-reversed")
		for m := 0; len(bigOrders) < max(big, 4); m++ {
			o, shape := x.bigOrder(m, inter, fill)
			bigOrders, bigShapes = append(bigOrders, o), append(bigShapes, shape)
		}
		perms = make([][]int, len(bigOrders))
		r.Count("big_sets", 1)
		r.Max("max_big_set_size", int64(len(set)))
		r.Seen("big_set_filler_counts", fmt.Sprint(len(fill)))
	} else if exhaustive {
		p := slices.Clone(id)
		for ok := true; ok; ok = vf18NextPerm(p) {
			perms = append(perms, slices.Clone(p))
		}
	} else {
		rev := slices.Clone(id)
		slices.Reverse(rev)
		perms = append(perms, id, rev)
		for range samples {
			perms = append(perms, rng.Perm(len(set)))
		}
	}
	switch {
	case x.big:
	case exhaustive:
		r.Count("sets_with_all_permutations", 1)
	default:
		r.Count("sets_with_sampled_permutations", 1)
	}
	if !x.big {
		r.Max("max_stored_set_size", int64(len(set)))
		r.Seen("stored_set_sizes", fmt.Sprint(len(set)))
	}
	// class keys of big sets carry their own shape suffix
	sfx := ""
	if x.big {
		sfx = "|set-larger-than-a-rebuild-batch"
	}

	w := &vf18Store{inner: fs}
	firstSeen := map[oid.Address]vf18Status{}
	var firstOrder []oid.Address
	reported := map[string]bool{}
	sigs := map[string]bool{}
	// one shard over the wrapper per stored set; every rebuild starts with the metabase
	// reset that ResyncFromBlobstor performs itself
	w.reset(set)
	shB, err := vf18NewShard(w, filepath.Join(dir, "metaB"), ep)
	if err != nil {
		r.Inconclusive("rebuilt shard: " + err.Error())
		_ = fs.Close()
		return
	}
	for pi, p := range perms {
		var order []oid.Address
		if x.big {
			order = bigOrders[pi]
			r.Count("big_set_resyncs", 1)
			r.Seen("big_order_shapes", bigShapes[pi])
			if n := x.acrossBatches(order); n > 0 {
				r.Count("big_orders_with_tombstone_or_lock_read_a_batch_before_its_target", 1)
				r.Count("big_pairs_tombstone_or_lock_read_a_batch_before_its_target", n)
			}
		} else {
			order = make([]oid.Address, len(p))
			for i, k := range p {
				order[i] = set[k]
			}
		}
		w.reset(order)
		var rerr error
		panicked := r.Guard(map[string]any{"case_index": caseNo, "order": x.names(order)}, func() {
			rerr = shB.metaBase.ResyncFromBlobstor(shB.blobStor, nil)
		})
		if panicked {
			break
		}
		r.Eval(1)
		r.Count("resyncs", 1)
		info := map[string]any{"order": x.names(order), "permutation_index": pi}
		if x.big {
			info["order_shape"] = bigShapes[pi]
		}
		if rerr != nil {
			x.violation("resync-error", fmt.Sprintf("ResyncFromBlobstor failed for order %v: %v", x.names(order), rerr), info)
			continue
		}
		if !slices.Equal(w.handed, order) {
			r.Inconclusive(fmt.Sprintf("case %d: the imposed order was not replayed (%d of %d blobs handed over)", caseNo, len(w.handed), len(order)))
		}
		var sig strings.Builder
		seen := map[oid.Address]vf18Status{}
		garbageB := vf18Garbage(shB.metaBase)
		for _, a := range watch {
			o := x.byAddr[a]
			got := vf18Observe(shB.metaBase, a)
			got.garbage = garbageB[a]
			if !o.filler {
				seen[a] = got
			}
			if !o.filler || got.base != "available" || got.locked {
				fmt.Fprintf(&sig, "%s=%s;", o.name, got)
			}
			if o.filler {
				r.Count("filler_status_checks", 1)
			}
			r.Seen("statuses_after_resync", got.base)
			wa := want[a]
			if pi == 0 {
				firstSeen[a], firstOrder = got, order
			} else if f := firstSeen[a]; wa.norm(f.base) != wa.norm(got.base) || (wa.lockKnown && f.locked != got.locked) {
				pair := []string{f.String(), got.String()}
				sort.Strings(pair)
				trg := x.trigger(order, o)
				if t0 := x.trigger(firstOrder, o); trg == "no-tombstone-read-early" {
					trg = t0
				}
				key := fmt.Sprintf("order-dependent-status|%s|%s~%s|%s", vf18KindName[o.kind], pair[0], pair[1], trg) + sfx
				if !reported[key+o.name] {
					reported[key+o.name] = true
					x.violation(key, fmt.Sprintf("%s (%s) is %s after a rebuild in order %v but %s in order %v; reference status %q (%s), incremental %s",
						o.name, vf18KindName[o.kind], f, x.names(firstOrder), got, x.names(order), wa.base, wa.why, incr[a]), info)
				}
			}
			if !wa.constrained {
				r.Count("comparisons_unconstrained", 1)
				continue
			}
			r.Count("comparisons_with_reference", 1)
			if wa.norm(got.eff()) != wa.base && got.base != incr[a].base {
				key := fmt.Sprintf("status-after-resync|%s|want=%s|got=%s|%s", vf18KindName[o.kind], wa.base, got.base, x.trigger(order, o)) + sfx
				if !reported[key+o.name] {
					reported[key+o.name] = true
					x.violation(key, fmt.Sprintf("after a rebuild in order %v, %s (%s) is %s; the stored set says %s (%s), incremental construction says %s",
						x.names(order), o.name, vf18KindName[o.kind], got, wa.base, wa.why, incr[a]), info)
				}
			} else if wa.norm(got.eff()) != wa.base {
				r.Count("resync_agrees_with_incremental_not_reference", 1)
			} else if got.base != incr[a].base {
				r.Count("resync_agrees_with_reference_not_incremental", 1)
			}
			if wa.lockKnown && wa.base != "removed" && got.locked != wa.locked && got.locked != incr[a].locked {
				key := fmt.Sprintf("lock-after-resync|%s|want=%v|got=%v", vf18KindName[o.kind], wa.locked, got.locked) + sfx
				if !reported[key+o.name] {
					reported[key+o.name] = true
					x.violation(key, fmt.Sprintf("after a rebuild in order %v, IsLocked(%s)=%v; the stored set says %v, incremental construction says %v",
						x.names(order), o.name, got.locked, wa.locked, incr[a].locked), info)
				}
			}
		}
		sigs[sig.String()] = true

		// tombstone next to a live lock of the same target: the statement does not say
		// which prevails, but one of them must - for the target and all its stored parts
		// alike
		reclaim := map[oid.Address]bool{}
		for _, c := range conflicts {
			lockHolds, tombHolds := true, true
			var parts []string
			tgt := "-"
			for _, m := range c.members {
				got := seen[m.addr]
				if lw := c.lockW[m.addr]; (lw.constrained && lw.norm(got.eff()) != lw.base) || (m == c.target && !got.locked) {
					lockHolds = false
				}
				if tw := c.tombW[m.addr]; !tw.constrained || tw.base != "removed" || tw.norm(got.eff()) != tw.base {
					tombHolds = false
				}
				if m == c.target {
					tgt = got.String()
				} else if !slices.Contains(parts, got.base) {
					parts = append(parts, got.base)
				}
			}
			sort.Strings(parts)
			r.Count("tombstone_vs_live_lock_checks", 1)
			if len(c.members) > 1 {
				r.Count("tombstone_vs_live_lock_checks_of_split_or_ec_objects", 1)
			}
			switch {
			case lockHolds:
				r.Count("tombstone_vs_live_lock_lock_holds", 1)
			case tombHolds:
				r.Count("tombstone_vs_live_lock_tombstone_holds", 1)
				for _, m := range c.members {
					if stored[m.addr] {
						reclaim[m.addr] = true
					}
				}
			default:
				key := fmt.Sprintf("tombstone-vs-live-lock-incoherent|%s|target=%s|parts=%s", vf18KindName[c.target.kind], tgt, strings.Join(parts, ",")) + sfx
				if !reported[key+c.target.name] {
					reported[key+c.target.name] = true
					var det []string
					for _, m := range c.members {
						det = append(det, fmt.Sprintf("%s=%s (lock holds: %s, tombstone holds: %s; incremental %s)", m.name, seen[m.addr], c.lockW[m.addr].base, c.tombW[m.addr].base, incr[m.addr]))
					}
					x.violation(key, fmt.Sprintf("after a rebuild in order %v, %s has a stored tombstone and a stored live lock, and the statuses of it and its stored parts follow neither from the lock holding (target locked, nothing removed) nor from the tombstone holding (everything removed): %s",
						x.names(order), c.target.name, strings.Join(det, "; ")), info)
				}
			}
		}

		// 3. garbage collection must be able to reclaim every removed object's blob
		for _, a := range set {
			if wa := want[a]; wa.constrained && wa.base == "removed" {
				reclaim[a] = true
			}
		}
		if len(reclaim) > 0 {
			// fillers are never garbage: the bound counts the other blobs only
			passes := 0
			for ; passes < len(set)-x.nfill+2; passes++ {
				left := 0
				for a := range reclaim {
					if w.has(a) {
						left++
					}
				}
				if left == 0 {
					break
				}
				shB.removeGarbage()
				r.Count("gc_passes", 1)
			}
			r.Max("max_gc_passes_needed", int64(passes))
			for _, a := range set {
				if !reclaim[a] {
					continue
				}
				r.Count("gc_checks_removed_objects", 1)
				if w.has(a) {
					o := x.byAddr[a]
					key := fmt.Sprintf("gc-cannot-reclaim|%s|%s", vf18KindName[o.kind], x.trigger(order, o)) + sfx
					if !reported[key+o.name] {
						reported[key+o.name] = true
						x.violation(key, fmt.Sprintf("after a rebuild in order %v and %d GC passes the blob of removed object %s (%s) is still stored; its status after the rebuild was reported before GC",
							x.names(order), passes, o.name, vf18KindName[o.kind]), info)
					}
				}
			}
		}
		if w.puts > 0 {
			r.Count("unexpected_blob_writes_by_rebuilt_shard", w.puts)
		}
	}
	_ = shB.Close()
	_ = fs.Close()
	kl := make([]string, 0, len(kinds))
	for k := range kinds {
		kl = append(kl, k)
	}
	sort.Strings(kl)
	// distinct non-trivial case: a stored set (by kinds, size, number of removed objects and
	// reference statuses) of at least two blobs with an associated object among them
	nAssoc := 0
	for _, a := range set {
		if k := x.byAddr[a].kind; k == vf18Tomb || k == vf18Lock {
			nAssoc++
		}
	}
	if nAssoc > 0 {
		var ws []string
		for _, a := range watch {
			if !x.byAddr[a].filler {
				ws = append(ws, vf18KindName[x.byAddr[a].kind]+":"+want[a].base)
			}
		}
		sort.Strings(ws)
		if x.big {
			r.Distinct(fmt.Sprintf("big%d|n%d|%s", x.nfill/vf18BatchHint, len(ws), strings.Join(ws, ",")))
		} else {
			r.Distinct(fmt.Sprintf("n%d|%s", len(set), strings.Join(ws, ",")))
		}
		r.Count("sets_with_tombstone_or_lock", 1)
	}
	r.Count("distinct_post_resync_states_per_set_total", len(sigs))
	if len(sigs) > 1 {
		r.Count("sets_with_order_dependent_state", 1)
	}
	if caseNo < 3 && !x.big {
		r.Sample(map[string]any{"case_index": caseNo, "history": x.ops, "stored_set": x.names(set), "permutations": len(perms), "final_epoch": x.final})
	}
}

func TestVerif_C18(t *testing.T) {
	r := verifkit.Start(t, "C18", "exploration")
	defer r.Finish()
	cases := r.Pick(300, 1500)
	budget, maxFull, samples := r.Pick(6, 7), r.Pick(5, 6), r.Pick(60, 300)
	bigCases, bigOrders := r.Pick(4, 24), r.Pick(8, 20)
	leakyCases := r.Pick(120, 600)
	r.SetRule(fmt.Sprintf("%d leaky histories (same generator, own random stream, more locks; the best-effort clean-up delete of Shard.Put after a refused metabase put is made to fail three times of four, so blobs of refused tombstones / locks / parts stay in the stored set; every fourth big set is leaky too): a target with a stored tombstone AND a stored live lock must come out, together with all its stored parts, either as 'the lock holds' or as 'the tombstone holds' (then GC must reclaim it). Plus ", leakyCases)+fmt.Sprintf("%d big sets: a history of the same kind plus plain filler objects (%d..%d of them, more than the %d blobs one rebuild batch indexes; every sixth set above two batches; every sixth sized so that the last regular blob sits exactly at / next to a batch end), each rebuilt in %d enumeration orders that insert the interesting blobs into the shuffled filler body (by address, reversed, tombstones+locks before all fillers and the rest after, the inverse, then seeded head-or-tail / uniform / clustered placements), same status + GC oracle, every filler must be available. Plus ", bigCases, vf18BatchHint+50, 2*vf18BatchHint+650, vf18BatchHint, bigOrders) + fmt.Sprintf("%d seeded histories (puts of regular objects, V2 split children + link, EC parts, tombstones and locks with/without expiration, epoch advances; mostly upload order, sometimes shuffled) of at most %d objects on a real shard; the blobs it keeps form the stored set. One evaluation = one real DB.ResyncFromBlobstor over one enumeration order of that set imposed by a common.Storage wrapper (all permutations for sets of <= %d blobs, native + reverse + %d seeded permutations above), followed by status reads of every stored object / virtual root and up to |S|+2 real GC passes. distinct = stored sets (size, kinds, reference statuses) of >= 2 blobs containing a tombstone or lock", cases, budget, maxFull, samples))
	r.Assume("status = class of DB.Exists (available / removed / expired / not found / virtual parent) plus DB.IsLocked; reference: removed iff a stored tombstone targets the object or its root, expired iff past expiration without a live lock, else available")
	r.Assume("tombstones do not expire before the final epoch; a tombstone next to a live lock of the same target (arises when the blob of a refused put stays) may resolve either way, but in the same way for the target and all its stored parts; the status of the losing tombstone / lock object itself is not constrained; GC passes are the shard's removeGarbage body driven synchronously, expiry handling is left out")
	if p := os.Getenv("VERIF_REPLAY"); p != "" {
		var doc struct {
			Case struct {
				CaseIndex int  `json:"case_index"`
				BigSet    bool `json:"big_set"`
				Leaky     bool `json:"leaky_case"`
			} `json:"case"`
		}
		if b, err := os.ReadFile(p); err == nil && json.Unmarshal(b, &doc) == nil {
			if doc.Case.BigSet {
				vf18RunCase(r, doc.Case.CaseIndex, budget, maxFull, samples, bigOrders, false)
			} else {
				vf18RunCase(r, doc.Case.CaseIndex, budget, maxFull, samples, 0, doc.Case.Leaky)
			}
			r.Distinct("replay-a")
			r.Distinct("replay-b")
			return
		}
	}
	var wg sync.WaitGroup
	type job struct {
		idx   int
		big   bool
		leaky bool
	}
	ch := make(chan job)
	for range 4 {
		wg.Add(1)
		go func() {
			defer wg.Done()
			for c := range ch {
				if c.big {
					vf18RunCase(r, c.idx, budget, maxFull, samples, bigOrders, false)
				} else {
					vf18RunCase(r, c.idx, budget, maxFull, samples, 0, c.leaky)
				}
			}
		}()
	}
	for c := range bigCases { // the expensive ones first
		ch <- job{idx: c, big: true}
	}
	for c := range leakyCases {
		ch <- job{idx: c, leaky: true}
	}
	for c := range cases {
		ch <- job{idx: c}
	}
	close(ch)
	wg.Wait()
	if r.Counter("big_orders_with_tombstone_or_lock_read_a_batch_before_its_target") == 0 || r.Counter("filler_status_checks") == 0 {
		r.Inconclusive("no big set was rebuilt with a tombstone or lock read at least one batch before its target")
	}
	if r.Counter("tombstone_vs_live_lock_checks_of_split_or_ec_objects") == 0 || r.Counter("history_puts_rejected_blob_left") == 0 {
		r.Inconclusive("no rebuild of a stored set with a tombstone next to a live lock of a split/EC object was observed")
	}
	if r.Counter("gc_checks_removed_objects") == 0 || r.Counter("comparisons_with_reference") == 0 {
		r.Inconclusive("no removed object / no constrained comparison was observed")
	}
}
