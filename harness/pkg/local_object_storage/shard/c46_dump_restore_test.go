//go:build verif

package shard

import (
	"bytes"
	"encoding/binary"
	"errors"
	"fmt"
	"io"
	"math/rand/v2"
	"os"
	"path/filepath"
	"runtime"
	"sort"
	"strings"
	"testing"
	"time"

	"github.com/nspcc-dev/neofs-node/internal/verifkit"
	"github.com/nspcc-dev/neofs-node/pkg/local_object_storage/blobstor/fstree"
	meta "github.com/nspcc-dev/neofs-node/pkg/local_object_storage/metabase"
	"github.com/nspcc-dev/neofs-node/pkg/local_object_storage/shard/mode"
	"github.com/nspcc-dev/neofs-node/pkg/local_object_storage/writecache"
	cid "github.com/nspcc-dev/neofs-sdk-go/container/id"
	"github.com/nspcc-dev/neofs-sdk-go/object"
	oid "github.com/nspcc-dev/neofs-sdk-go/object/id"
	"go.uber.org/zap"
)

// ---------------------------------------------------------------------------------------
// C46: restoring a shard dump reproduces exactly the dumped objects, however the reader
// chunks the stream; corrupted records are reported or skipped as requested.
//
// Oracle (written from the statement and the documented framing "NEOF" + (u32le size,
// body)*): the dump is parsed by the harness' own parser; the restored shard is read back
// through three independent views (Shard.Get, metabase listing, raw FSTree iteration) and
// must hold exactly the decodable records of the stream that was fed to Restore.
// ---------------------------------------------------------------------------------------

type vf46Epoch struct{}

func (vf46Epoch) CurrentEpoch() uint64 { return 0 }

type vf46Shard struct {
	sh  *Shard
	fst *fstree.FSTree
	wc  bool
}

func vf46NewShard(dir string, rng *rand.Rand, withWC bool) (*vf46Shard, error) {
	fst := fstree.New(
		fstree.WithPath(filepath.Join(dir, "fstree")),
		fstree.WithDepth(uint64(1+rng.IntN(3))),
		fstree.WithNoSync(true),
	)
	opts := []Option{
		WithLogger(zap.NewNop()),
		WithBlobstor(fst),
		WithMetaBaseOptions(
			meta.WithPath(filepath.Join(dir, "meta")),
			meta.WithEpochState(vf46Epoch{}),
			meta.WithLogger(zap.NewNop()),
		),
		WithWriteCache(withWC),
		WithWriteCacheOptions(
			writecache.WithPath(filepath.Join(dir, "wcache")),
			writecache.WithLogger(zap.NewNop()),
			writecache.WithNoSync(true),
		),
	}
	sh := New(opts...)
	if err := sh.Open(); err != nil {
		return nil, fmt.Errorf("open: %w", err)
	}
	if err := sh.Init(); err != nil {
		_ = sh.Close()
		return nil, fmt.Errorf("init: %w", err)
	}
	return &vf46Shard{sh: sh, fst: fst, wc: withWC}, nil
}

// vf46Record is one frame of a dump stream as seen by the harness' own parser.
type vf46Record struct {
	body  []byte
	valid bool        // body decodes as an object (independent SDK decode) and re-encodes to itself
	addr  oid.Address // when valid
}

// vf46ParseDump is the reference parser of the documented dump framing.
func vf46ParseDump(b []byte) ([]vf46Record, error) {
	if len(b) < 4 || string(b[:4]) != "NEOF" {
		return nil, errors.New("bad magic")
	}
	b = b[4:]
	var res []vf46Record
	for len(b) > 0 {
		if len(b) < 4 {
			return res, errors.New("truncated size")
		}
		sz := binary.LittleEndian.Uint32(b[:4])
		b = b[4:]
		if uint64(sz) > uint64(len(b)) {
			return res, errors.New("truncated body")
		}
		res = append(res, vf46Classify(b[:sz]))
		b = b[sz:]
	}
	return res, nil
}

func vf46Classify(body []byte) vf46Record {
	rec := vf46Record{body: bytes.Clone(body)}
	var o object.Object
	if err := o.Unmarshal(body); err != nil {
		return rec
	}
	if o.GetContainerID().IsZero() || o.GetID().IsZero() {
		return rec
	}
	if !bytes.Equal(o.Marshal(), body) {
		return rec // non-canonical: the harness never feeds such records
	}
	rec.valid = true
	rec.addr = o.Address()
	return rec
}

func vf46Frame(recs []vf46Record) ([]byte, map[int]int) {
	out := []byte("NEOF")
	bodies := map[int]int{}
	for _, r := range recs {
		var sz [4]byte
		binary.LittleEndian.PutUint32(sz[:], uint32(len(r.body)))
		out = append(out, sz[:]...)
		bodies[len(out)] = len(r.body)
		out = append(out, r.body...)
	}
	return out, bodies
}

// ---- hostile readers (all honour the io.Reader contract) ----

type vf46Reader struct {
	data   []byte
	pos    int
	mode   string
	rng    *rand.Rand
	maxChk int
	calls  int
	shorts int // reads that returned fewer bytes than requested although more data was available

	// Machine-protection valve (not part of the oracle).  bodies maps the stream offset of
	// every record body to its length (reference framing).  A consumer that asked for
	// exactly one whole body, got a short read and then asks for 4 bytes although a
	// different amount of the body is outstanding has demonstrably abandoned the body
	// (lostFraming latches).  From then on a 4-byte request whose bytes, taken as a size,
	// exceed everything left in the stream is answered with errVf46Valve instead of the
	// bytes: otherwise the desynchronised consumer allocates up to 4 GiB per record.  A
	// consumer that resumes short reads never latches, so the valve cannot touch it.
	bodies      map[int]int
	pendingBody int // outstanding bytes of a body requested as a whole, 0 if none
	lostFraming bool
	valveFired  int

	// Source failure (transport fault): when failOn is set the reader delivers the first
	// failAt bytes of the stream (chunked as the mode says) and from then on every call
	// fails with errVf46Transport, a real I/O error that is NOT io.EOF (dropped connection,
	// pipe closed with an error, bad sector).  The error is sticky, as for a broken
	// connection.  failWithData delivers the last bytes before the fault together with
	// the error in one call (legal: "n > 0 bytes ... before considering the error").
	failOn       bool
	failAt       int
	failWithData bool
	faults       int // calls answered with errVf46Transport
}

var errVf46Transport = errors.New("vf46 reader: connection reset by peer (injected source failure)")

var errVf46Valve = errors.New("vf46 reader: consumer lost the record framing, stream aborted to protect the machine")

func (r *vf46Reader) Read(p []byte) (int, error) {
	r.calls++
	if len(p) == 0 {
		return 0, nil
	}
	if r.failOn && r.pos >= r.failAt {
		r.faults++
		return 0, errVf46Transport
	}
	rest := len(r.data) - r.pos
	if rest == 0 {
		return 0, io.EOF
	}
	if len(p) > 64<<20 {
		// Backstop: no stream of this harness exceeds a few MiB, so a request buffer of more
		// than 64 MiB can only come from a garbage size field; stop before it happens again.
		r.valveFired++
		return 0, errVf46Valve
	}
	if r.pendingBody > 0 && len(p) == 4 && r.pendingBody != 4 {
		r.lostFraming = true
	}
	if r.lostFraming && len(p) == 4 && rest >= 4 && uint64(binary.LittleEndian.Uint32(r.data[r.pos:])) > uint64(rest) {
		r.valveFired++
		return 0, errVf46Valve
	}
	reqAtBody := r.bodies[r.pos] == len(p) && len(p) > 0
	defer func(start int) {
		got := r.pos - start
		switch {
		case reqAtBody && got < len(p):
			r.pendingBody = len(p) - got
		case r.pendingBody > 0 && !r.lostFraming && got <= r.pendingBody:
			r.pendingBody -= got
		default:
			r.pendingBody = 0
		}
	}(r.pos)
	n := len(p)
	switch r.mode {
	case "full", "dataerr":
	case "onebyte":
		n = 1
	case "halves":
		n = (len(p) + 1) / 2
	case "short":
		n = 1 + r.rng.IntN(r.maxChk)
	}
	if n > len(p) {
		n = len(p)
	}
	if n > rest {
		n = rest
	}
	if r.failOn && n > r.failAt-r.pos {
		n = r.failAt - r.pos
	}
	if n < len(p) && n < rest {
		r.shorts++
	}
	copy(p, r.data[r.pos:r.pos+n])
	r.pos += n
	if r.failOn && r.failWithData && r.pos == r.failAt {
		r.faults++
		return n, errVf46Transport
	}
	if r.mode == "dataerr" && r.pos == len(r.data) {
		// the contract allows returning the final bytes together with io.EOF
		return n, io.EOF
	}
	return n, nil
}

var vf46ReaderModes = []string{"full", "short", "onebyte", "halves", "dataerr"}

type vf46Case struct {
	Idx          int    `json:"case"`
	SrcWC        bool   `json:"src_write_cache"`
	DstWC        bool   `json:"dst_write_cache"`
	DumpMode     string `json:"dump_mode"`
	Objects      int    `json:"objects"`
	Sizes        []int  `json:"payload_sizes"`
	Reader       string `json:"reader"`
	MaxChunk     int    `json:"max_chunk,omitempty"`
	IgnoreErrors bool   `json:"ignore_errors"`
	BadRecords   []int  `json:"undecodable_records"`
	Flipped      []int  `json:"payload_flipped_records"`
	// mode change request issued while the dump is being streamed ("" = none)
	OpTarget  string `json:"mode_change_target,omitempty"`
	OpAtWrite int    `json:"mode_change_at_write,omitempty"`
	OpOutcome string `json:"mode_change_outcome,omitempty"`
	// second restore of the same stream from a source that breaks with a non-EOF error
	FaultKind     string `json:"source_failure_at,omitempty"`
	FaultOffset   int    `json:"source_failure_offset,omitempty"`
	FaultRecsDone int    `json:"source_failure_after_complete_records,omitempty"`
	FaultWithData bool   `json:"source_failure_with_last_bytes,omitempty"`
}

// ---- dump sink with an "operator" who asks for a mode change while the dump is streamed ----
//
// The statement promises that restoring a dump reproduces the dumped shard; a dump that was
// reported as successful therefore has to hold every object of the shard, whatever else is
// requested from the shard while it is streamed.  vf46Sink is the io.Writer handed to Dump.
// On its atWrite-th Write call (0 = the magic) it issues Shard.SetMode(target) from another
// goroutine, exactly like a control request that arrives in the middle of a long dump.
//
// The interleaving is built from logical conditions only, never from elapsed time:
//   - the request is issued from inside Write, i.e. at a known point of the dump;
//   - the sink waits for the request to COMPLETE only when it can complete without the dump
//     making progress: the shard's mode lock is free (probed with TryLock; while a dump holds
//     it the request simply stays pending until Dump returns, as on the unchanged tree) and
//     the calling stack is not inside the write-cache iteration (which holds the cache's own
//     mode lock until it ends);
//   - otherwise the request stays pending and is joined after Dump returned.
//
// The watchdog only guards the harness against a hang and yields Inconclusive.
type vf46Sink struct {
	bytes.Buffer
	sh      *Shard
	target  mode.Mode
	atWrite int

	writes   int
	issued   bool
	lockFree bool // the mode lock could be taken at the moment of the request
	inWC     bool // the request was issued from inside the write-cache iteration
	awaited  bool // the request completed before the Write call returned
	hung     bool
	done     chan error
	result   error
}

const vf46Watchdog = 5 * time.Minute

func (w *vf46Sink) Write(p []byte) (int, error) {
	if w.sh != nil && !w.issued && w.writes == w.atWrite {
		w.issue()
	}
	w.writes++
	return w.Buffer.Write(p)
}

func (w *vf46Sink) issue() {
	w.issued = true
	// A background worker may hold the lock for an instant; a dump holds it until it returns.
	for i := 0; i < 50 && !w.lockFree; i++ {
		if w.sh.m.TryLock() {
			w.sh.m.Unlock()
			w.lockFree = true
		} else {
			runtime.Gosched()
		}
	}
	w.inWC = vf46InsideWriteCache()
	w.done = make(chan error, 1)
	go func(sh *Shard, m mode.Mode, done chan<- error) { done <- sh.SetMode(m) }(w.sh, w.target, w.done)
	if w.lockFree && !w.inWC {
		w.join()
		w.awaited = !w.hung
	}
}

// join waits until the mode change request returned.
func (w *vf46Sink) join() {
	if !w.issued || w.done == nil {
		return
	}
	select {
	case w.result = <-w.done:
		w.done = nil
	case <-time.After(vf46Watchdog):
		w.hung = true
	}
}

// vf46InsideWriteCache reports whether the calling goroutine is currently inside a function of
// the write-cache package (the dump handler is then called back from Cache.Iterate).
func vf46InsideWriteCache() bool {
	pcs := make([]uintptr, 64)
	n := runtime.Callers(2, pcs)
	frames := runtime.CallersFrames(pcs[:n])
	for {
		f, more := frames.Next()
		if strings.Contains(f.Function, "/writecache.") {
			return true
		}
		if !more {
			return false
		}
	}
}

type vf46Outcome struct {
	symptom string
	what    string
	rerr    error // what Restore returned
}

// vf46Restore feeds stream to Restore of a fresh shard through the given reader and judges
// the result against the reference parse recs.  Returns nil when everything agrees.
func vf46Restore(r *verifkit.Run, dir string, rng *rand.Rand, dstWC bool, stream []byte, recs []vf46Record,
	rd *vf46Reader, ignoreErrors bool, desc any) (*vf46Outcome, error) {
	dst, err := vf46NewShard(dir, rng, dstWC)
	if err != nil {
		return nil, err
	}
	defer func() { _ = dst.sh.Close() }()

	var valid = map[oid.Address][]byte{}
	var nValid, nBad int
	for _, rc := range recs {
		if rc.valid {
			valid[rc.addr] = rc.body
			nValid++
		} else {
			nBad++
		}
	}

	var count, failed int
	var rerr error
	if r.Guard(desc, func() { count, failed, rerr = dst.sh.Restore(rd, ignoreErrors) }) {
		return &vf46Outcome{"panic", "Restore panicked", nil}, nil
	}
	r.Count("restore_calls", 1)
	r.Count("reader_calls", rd.calls)
	r.Count("reader_short_returns", rd.shorts)
	r.Count("reader_protection_valve_fired", rd.valveFired)

	var out *vf46Outcome
	set := func(sym, what string) {
		if out == nil {
			out = &vf46Outcome{sym, what, rerr}
		}
	}

	// The source itself broke (non-EOF read error delivered to Restore): the statement does
	// not say what a restore from a broken source returns, so an ERROR is accepted whatever
	// it is.  A nil error, however, claims "the dump was restored" and is judged against the
	// whole dump exactly like any other successful restore (all checks below).
	sourceFailed := rd.faults > 0
	if sourceFailed {
		r.Count("restores_from_failing_source", 1)
		if rerr == nil {
			r.Count("restores_from_failing_source_returned_nil", 1)
		} else {
			r.Count("restores_from_failing_source_returned_error", 1)
		}
	}

	mustComplete := nBad == 0 || ignoreErrors
	switch {
	case sourceFailed && rerr != nil:
		// accepted, see above
	case mustComplete && rerr != nil:
		set("error-on-restorable-stream", fmt.Sprintf("Restore returned error %q (count=%d failed=%d) although every record is intact or skippable (valid=%d bad=%d ignoreErrors=%v)", rerr, count, failed, nValid, nBad, ignoreErrors))
	case !mustComplete && rerr == nil:
		set("corruption-not-reported", fmt.Sprintf("stream holds %d undecodable record(s), ignoreErrors=false, but Restore returned nil error (count=%d failed=%d)", nBad, count, failed))
	}
	if rerr == nil {
		r.Count("restore_ok", 1)
		if count != nValid {
			set("wrong-success-count", fmt.Sprintf("Restore reported %d restored objects, stream holds %d decodable records", count, nValid))
		}
		if failed != nBad {
			set("wrong-failed-count", fmt.Sprintf("Restore reported %d failed objects, stream holds %d undecodable records", failed, nBad))
		}
	} else {
		r.Count("restore_err", 1)
		r.Seen("restore_errors", vf46ErrClass(rerr))
	}

	// ---- read back through three independent views ----
	if dst.wc {
		if err := dst.sh.FlushWriteCache(false); err != nil {
			return nil, fmt.Errorf("flush destination write-cache: %w", err)
		}
	}
	// view 1: Shard.Get per expected address
	got1 := 0
	for a, body := range valid {
		o, err := dst.sh.Get(a, false)
		if err != nil {
			if rerr == nil {
				set("object-missing", fmt.Sprintf("record %s of the stream is not readable after successful Restore: %v", a, err))
			}
			continue
		}
		got1++
		if !bytes.Equal(o.Marshal(), body) {
			set("bytes-differ", fmt.Sprintf("object %s read back with different bytes (%d vs %d in the stream)", a, len(o.Marshal()), len(body)))
		}
	}
	// view 2: metabase listing
	lst, err := dst.sh.List()
	if err != nil {
		return nil, fmt.Errorf("list destination: %w", err)
	}
	for _, a := range lst {
		if _, ok := valid[a]; !ok {
			set("foreign-object", fmt.Sprintf("destination lists %s which is not a record of the stream", a))
		}
	}
	if rerr == nil && len(lst) != len(valid) {
		set("listing-size", fmt.Sprintf("destination lists %d objects, stream holds %d distinct decodable records", len(lst), len(valid)))
	}
	// view 3: raw blob storage
	blobs := 0
	ierr := dst.fst.Iterate(func(a oid.Address, data []byte) error {
		blobs++
		body, ok := valid[a]
		if !ok {
			set("foreign-blob", fmt.Sprintf("destination blob storage holds %s which is not a record of the stream", a))
		} else if !bytes.Equal(data, body) {
			set("blob-bytes-differ", fmt.Sprintf("blob %s differs from the stream record (%d vs %d bytes)", a, len(data), len(body)))
		}
		return nil
	}, func(a oid.Address, err error) error {
		set("blob-unreadable", fmt.Sprintf("blob %s unreadable after restore: %v", a, err))
		return nil
	})
	if ierr != nil {
		return nil, fmt.Errorf("iterate destination blobs: %w", ierr)
	}
	if rerr == nil && blobs != len(valid) {
		set("blob-count", fmt.Sprintf("destination stores %d blobs, stream holds %d distinct decodable records", blobs, len(valid)))
	}
	r.Count("objects_read_back_identical", got1)
	return out, nil
}

func vf46ErrClass(err error) string {
	switch {
	case errors.Is(err, io.ErrUnexpectedEOF):
		return "unexpected-eof"
	case errors.Is(err, io.EOF):
		return "eof"
	case errors.Is(err, errVf46Valve):
		return "harness-valve(consumer lost framing)"
	case errors.Is(err, ErrInvalidMagic):
		return "invalid-magic"
	default:
		s := err.Error()
		if len(s) > 40 {
			s = s[:40]
		}
		return s
	}
}

func vf46SizeClass(n int) string {
	switch {
	case n == 0:
		return "0"
	case n < 256:
		return "<256"
	case n < 4096:
		return "<4K"
	case n < 65536:
		return "<64K"
	default:
		return ">=64K"
	}
}

func TestVerif_C46(t *testing.T) {
	r := verifkit.Start(t, "C46", "exploration")
	defer r.Finish()
	r.SetRule("case = random shard content (0..14 objects, payload 0 B..300 KiB, 1..3 containers, with/without write-cache, dumped in read-only or degraded-read-only) -> Dump (in every second case a SetMode request to read-write/degraded/other read-only mode is issued from inside the dump's io.Writer at write call 0 or a random later one; awaited only if the mode lock is free) -> optional corruption of some records (undecodable head / payload byte flip) -> Restore into an empty shard through a reader mode {full, short(random<=maxChunk), onebyte, halves, dataerr} -> second Restore of the same stream into another empty shard from a source that delivers a prefix (same chunking) and then fails with a sticky non-EOF read error {at a record boundary with records left, inside a body, inside a size prefix, inside the magic, at the end}, the place rotating with the case index; distinct = (reader, maxChunk class, src wc, dst wc, mode change target + at-magic/later, ignoreErrors, #undecodable>0, #flipped>0, size-class set); non-trivial = at least one object")
	r.Assume("the neofs-sdk-go object codec is the trusted decoder used by the reference dump parser")
	r.Assume("dump framing as documented in shard/dump.go: magic NEOF followed by (u32 little-endian size, body) records")

	nCases := r.Pick(50, 600)
	base := os.Getenv("VERIF_SCRATCH")
	if base == "" {
		base = t.TempDir()
	}
	root, err := os.MkdirTemp(base, "c46-")
	if err != nil {
		t.Fatal(err)
	}
	defer os.RemoveAll(root)

	owner := verifkit.RandUser(r.Rand("owner", 0))
	chunkChoices := []int{2, 3, 7, 64, 1000, 4096, 70000}

	for ci := 0; ci < nCases; ci++ {
		rng := r.Rand("case", ci)
		dir := filepath.Join(root, fmt.Sprintf("case%d", ci))
		c := vf46Case{Idx: ci, SrcWC: rng.IntN(2) == 0, DstWC: rng.IntN(3) == 0, IgnoreErrors: rng.IntN(2) == 0}
		// every reader mode gets an equal share; ci%len keeps coverage independent of the seed
		c.Reader = vf46ReaderModes[ci%len(vf46ReaderModes)]
		if c.Reader == "short" {
			c.MaxChunk = chunkChoices[rng.IntN(len(chunkChoices))]
		}
		dumpMode := mode.ReadOnly
		if rng.IntN(3) == 0 {
			dumpMode = mode.DegradedReadOnly
		}
		c.DumpMode = dumpMode.String()
		// Every second case gets a mode change request during the dump (own random stream:
		// the other dimensions of a case do not depend on it).  Two thirds of the requests
		// arrive with the very first Write (the magic, i.e. before any object was visited),
		// the others at a random later Write.
		var opTarget mode.Mode
		opAt := -1
		if ci%2 == 1 {
			org := r.Rand("operator", ci)
			switch org.IntN(6) {
			case 0, 1, 2:
				opTarget = mode.ReadWrite
			case 3, 4:
				opTarget = mode.Degraded
			default:
				opTarget = mode.DegradedReadOnly
				if dumpMode == mode.DegradedReadOnly {
					opTarget = mode.ReadOnly
				}
			}
			opAt = 0
			if (ci/2)%3 == 2 {
				opAt = 1 + org.IntN(30)
			}
			c.OpTarget, c.OpAtWrite = opTarget.String(), opAt
			if opAt == 0 {
				// the request races with the decision what to iterate: make sure the source has
				// a write-cache (whether objects are still in it is up to the flusher and the
				// explicit flush below)
				c.SrcWC = true
			}
		}

		// ---- content ----
		nObj := rng.IntN(15)
		if ci < 5 {
			nObj = 1 + ci // make sure small non-empty cases exist at every seed
		}
		cnrs := []cid.ID{verifkit.RandCID(rng), verifkit.RandCID(rng), verifkit.RandCID(rng)}[:1+rng.IntN(3)]
		want := map[oid.Address][]byte{}
		var objs []*object.Object
		sizeClasses := map[string]struct{}{}
		for i := 0; i < nObj; i++ {
			var sz int
			switch rng.IntN(10) {
			case 0:
				sz = 0
			case 1, 2, 3:
				sz = 1 + rng.IntN(255)
			case 4, 5, 6:
				sz = 256 + rng.IntN(4096)
			case 7, 8:
				sz = 4096 + rng.IntN(60000)
			default:
				sz = 65536 + rng.IntN(240000)
			}
			o := verifkit.NewObject(rng, cnrs[rng.IntN(len(cnrs))], owner, sz)
			for k := rng.IntN(3); k > 0; k-- {
				verifkit.AddAttr(o, fmt.Sprintf("k%d", k), fmt.Sprintf("v%d", rng.IntN(1000)))
			}
			objs = append(objs, o)
			want[o.Address()] = o.Marshal()
			c.Sizes = append(c.Sizes, sz)
			sizeClasses[vf46SizeClass(sz)] = struct{}{}
		}
		c.Objects = nObj
		r.Eval(1)

		src, err := vf46NewShard(filepath.Join(dir, "src"), rng, c.SrcWC)
		if err != nil {
			r.Inconclusive(fmt.Sprintf("case %d: cannot build source shard: %v", ci, err))
			return
		}
		func() {
			defer func() { _ = src.sh.Close() }()
			for _, o := range objs {
				if err := src.sh.Put(o, nil); err != nil {
					r.Inconclusive(fmt.Sprintf("case %d: source put failed: %v", ci, err))
					return
				}
			}
			// flush part of the cases explicitly so that the dump reads from both the cache and the blob storage
			if c.SrcWC && rng.IntN(3) == 0 {
				_ = src.sh.FlushWriteCache(false)
				r.Count("src_explicit_flush", 1)
			}
			if err := src.sh.SetMode(dumpMode); err != nil {
				r.Inconclusive(fmt.Sprintf("case %d: source SetMode(%s) failed: %v", ci, dumpMode, err))
				return
			}
			// evidence only: objects that live in the write-cache alone at the moment of the dump
			unflushed := 0
			if c.SrcWC {
				unflushed = vf46CountBlobFiles(filepath.Join(dir, "src", "wcache"))
				if unflushed > 0 {
					r.Count("dumps_with_unflushed_wc_objects", 1)
				}
			}
			buf := &vf46Sink{target: opTarget, atWrite: opAt}
			if opAt >= 0 {
				buf.sh = src.sh
			}
			var n int
			var derr error
			panicked := r.Guard(c, func() { n, derr = src.sh.Dump(buf, false) })
			buf.join() // a request that had to wait for the dump returns now
			if buf.hung {
				r.Inconclusive(fmt.Sprintf("case %d: mode change request issued at write %d of the dump did not return (watchdog)", ci, opAt))
				return
			}
			if panicked {
				return
			}
			r.Count("dumps", 1)
			underOp := ""
			if buf.issued {
				if buf.lockFree {
					// only then the request can have had any effect on the running dump
					underOp = "|mode-change-during-dump"
				}
				r.Count("mode_change_requests_during_dump", 1)
				r.Seen("mode_change_targets", c.OpTarget)
				switch {
				case !buf.lockFree:
					c.OpOutcome = "excluded-by-dump(mode lock held)"
				case buf.awaited && buf.result == nil:
					c.OpOutcome = "applied-during-dump"
				case buf.awaited:
					c.OpOutcome = "refused-during-dump"
				default:
					c.OpOutcome = "pending-until-iteration-end"
				}
				if buf.inWC {
					r.Count("mode_change_requests_inside_wc_iteration", 1)
				}
				if opAt == 0 && unflushed > 0 && !opTarget.ReadOnly() {
					r.Count("mode_change_before_wc_iteration_with_unflushed_objects", 1)
				}
				r.Seen("mode_change_outcomes", c.OpOutcome)
				if got := src.sh.GetMode(); buf.result == nil && got != opTarget {
					r.Inconclusive(fmt.Sprintf("case %d: SetMode(%s) returned nil but the shard is in mode %s", ci, opTarget, got))
					return
				}
			} else if opAt >= 0 {
				r.Count("mode_change_requests_not_reached", 1) // fewer Write calls than atWrite
			}
			if derr != nil && buf.issued && buf.lockFree {
				// The mode was really changed (or attempted) under the running dump and the dump
				// REPORTED a failure: the statement only speaks about dumps that were produced.
				r.Count("dumps_failed_under_mode_change", 1)
				r.Seen("dump_errors_under_mode_change", vf46ErrClass(derr))
				return
			}
			if derr != nil {
				r.Violation("dump|error-on-healthy-shard"+underOp, fmt.Sprintf("Dump of a healthy %s shard failed: %v", dumpMode, derr), c)
				return
			}
			recs, perr := vf46ParseDump(buf.Bytes())
			if perr != nil {
				r.Violation("dump|malformed-stream"+underOp, fmt.Sprintf("Dump output does not follow the documented framing: %v", perr), c)
				return
			}
			r.Count("dump_records", len(recs))
			r.Count("dump_bytes", buf.Len())
			if n != len(recs) {
				r.Violation("dump|count-mismatch"+underOp, fmt.Sprintf("Dump reported %d objects, stream holds %d records", n, len(recs)), c)
			}
			// the dump must hold exactly the stored objects, byte-identical
			inDump := map[oid.Address]struct{}{}
			for i, rc := range recs {
				if !rc.valid {
					r.Violation("dump|undecodable-record"+underOp, fmt.Sprintf("record %d of a fresh dump does not decode", i), c)
					return
				}
				body, ok := want[rc.addr]
				if !ok {
					r.Violation("dump|foreign-record"+underOp, fmt.Sprintf("dump holds %s which was never stored", rc.addr), c)
					return
				}
				if !bytes.Equal(body, rc.body) {
					r.Violation("dump|bytes-differ"+underOp, fmt.Sprintf("dump record %s differs from the stored object", rc.addr), c)
					return
				}
				inDump[rc.addr] = struct{}{}
			}
			if len(inDump) != len(want) {
				where := "nowc"
				if c.SrcWC {
					where = "wc"
				}
				r.Violation("dump|object-missing|src="+where+underOp, fmt.Sprintf("Dump returned nil error but holds %d of %d stored objects%s", len(inDump), len(want), vf46OpText(c)), c)
				return
			}
			if len(recs) != len(want) {
				r.Count("dump_duplicate_records", len(recs)-len(want))
			}

			// ---- corruption of some records ----
			if len(recs) > 0 && rng.IntN(2) == 0 {
				k := 1 + rng.IntN(2)
				for ; k > 0; k-- {
					i := rng.IntN(len(recs))
					if !recs[i].valid || len(recs[i].body) < 8 {
						continue
					}
					orig := recs[i]
					if rng.IntN(2) == 0 {
						// undecodable head: invalid protobuf field/wire-type bytes
						b := bytes.Clone(orig.body)
						for j := 0; j < 4; j++ {
							b[j] = 0xFF
						}
						nr := vf46Classify(b)
						if nr.valid {
							continue
						}
						// must really be undecodable for the independent decoder
						var o object.Object
						if o.Unmarshal(b) == nil {
							continue
						}
						recs[i] = nr
						c.BadRecords = append(c.BadRecords, i)
					} else if psz := c.sizeOf(want, objs, orig.addr); psz > 0 {
						// payload is the last field of the encoding: flip one of its bytes
						b := bytes.Clone(orig.body)
						b[len(b)-1-rng.IntN(psz)] ^= 0x5A
						nr := vf46Classify(b)
						if !nr.valid || nr.addr != orig.addr {
							continue
						}
						recs[i] = nr
						c.Flipped = append(c.Flipped, i)
					}
				}
				sort.Ints(c.BadRecords)
			}
			stream, bodies := vf46Frame(recs)
			if len(c.BadRecords) == 0 && len(c.Flipped) == 0 && !bytes.Equal(stream, buf.Bytes()) {
				r.Inconclusive("harness: re-framed dump differs from the original")
				return
			}

			// ---- restore through the hostile reader ----
			rd := &vf46Reader{data: stream, mode: c.Reader, rng: r.Rand("reader", ci), maxChk: c.MaxChunk, bodies: bodies}
			out, herr := vf46Restore(r, filepath.Join(dir, "dst"), rng, c.DstWC, stream, recs, rd, c.IgnoreErrors, c)
			if herr != nil {
				r.Inconclusive(fmt.Sprintf("case %d: %v", ci, herr))
				return
			}
			r.Seen("reader_modes", c.Reader)
			if len(c.BadRecords) > 0 {
				r.Count("cases_with_undecodable_records", 1)
			}
			if len(c.Flipped) > 0 {
				r.Count("cases_with_payload_flips", 1)
			}
			if nObj > 0 {
				keys := make([]string, 0, len(sizeClasses))
				for k := range sizeClasses {
					keys = append(keys, k)
				}
				sort.Strings(keys)
				r.Distinct(fmt.Sprintf("%s|%d|%v|%v|%s@%v|%v|%v|%v|%v", c.Reader, c.MaxChunk, c.SrcWC, c.DstWC, c.OpTarget, opAt == 0, c.IgnoreErrors, len(c.BadRecords) > 0, len(c.Flipped) > 0, keys))
				r.Sample(c)
			}
			if out == nil {
				r.Count("cases_agree", 1)
				// ---- the same stream once more, from a source that breaks ----
				vf46FaultStage(r, &c, filepath.Join(dir, "flt"), stream, bodies, recs)
				return
			}
			if c.Reader == "full" {
				r.Violation(fmt.Sprintf("restore|%s|reader=full", out.symptom), out.what, c)
				return
			}
			// Differential attribution: does the same stream restore correctly when the reader
			// returns full reads?  If so the divergence is caused by chunking alone.
			ctl := &vf46Reader{data: stream, mode: "full", bodies: bodies}
			cout, herr := vf46Restore(r, filepath.Join(dir, "ctl"), rng, c.DstWC, stream, recs, ctl, c.IgnoreErrors, c)
			if herr != nil {
				r.Inconclusive(fmt.Sprintf("case %d (control): %v", ci, herr))
				return
			}
			r.Count("control_restores", 1)
			if cout == nil {
				r.Violation("restore|chunking-dependent|reader="+c.Reader,
					fmt.Sprintf("stream restores correctly from a full-read reader but not from reader %q (%d short returns): %s", c.Reader, rd.shorts, out.what), c)
			} else {
				r.Violation(fmt.Sprintf("restore|%s|reader=%s", out.symptom, c.Reader), out.what, c)
			}
		}()
		_ = os.RemoveAll(dir)
	}
	if r.Counter("reader_short_returns") == 0 {
		r.Inconclusive("no short read was ever delivered to Restore")
	}
	if r.Counter("source_failures_at_record_boundary_with_records_left") == 0 {
		r.Inconclusive("no restore ever met a source that failed between two records of the dump")
	}
	if r.Counter("mode_change_before_wc_iteration_with_unflushed_objects") == 0 {
		r.Inconclusive("no mode change request ever met a dump of a shard whose write-cache still held objects")
	}
}

// vf46FaultStage restores the stream of the case a second time into a fresh shard, now from a
// source that delivers only a prefix (chunked by the case's reader mode) and then fails with
// a real, sticky, non-EOF read error: a dump streamed over a connection that is reset, a pipe
// whose writer aborts (a streaming Dump that fails stops exactly between two records because
// it writes whole records), a medium with a bad sector.  Where the source breaks rotates with
// the case index so that every reader mode meets every place at every seed:
//
//	record-boundary  right after the magic or after a complete record, further records follow
//	record-body      inside the body of a record (possibly 0 bytes into it)
//	size-prefix      1..3 bytes into a size field
//	magic            inside the magic
//	end-of-stream    after the last byte (the source reports the error instead of io.EOF)
//
// Oracle: see vf46Restore - an error return is accepted, a nil return is held to "the shard now
// holds exactly the decodable records of the dump"; whatever is stored must be records of the
// stream with identical bytes.
func vf46FaultStage(r *verifkit.Run, c *vf46Case, dir string, stream []byte, bodies map[int]int, recs []vf46Record) {
	frng := r.Rand("fault", c.Idx)
	bounds := []int{4} // bounds[k] = offset right after k complete records
	for _, rc := range recs {
		bounds = append(bounds, bounds[len(bounds)-1]+4+len(rc.body))
	}
	n := len(recs)
	kind, off, done := "end-of-stream", len(stream), n
	slot := (c.Idx / len(vf46ReaderModes)) % 4
	switch {
	case n == 0 && slot == 3:
		kind, off, done = "magic", frng.IntN(4), 0
	case n == 0:
	case slot == 0 || slot == 2:
		if frng.IntN(8) != 0 { // else: end of stream
			done = frng.IntN(n)
			if c.Idx%3 == 0 && frng.IntN(2) == 0 {
				done = 0 // right after the magic
			}
			kind, off = "record-boundary", bounds[done]
		}
	case slot == 1:
		done = frng.IntN(n)
		kind, off = "record-body", bounds[done]+4+frng.IntN(len(recs[done].body)+1)
		if off == bounds[done+1] {
			off-- // keep at least the last body byte undelivered
		}
	default:
		switch frng.IntN(3) {
		case 0:
			done = frng.IntN(n)
			kind, off = "size-prefix", bounds[done]+1+frng.IntN(3)
		case 1:
			kind, off, done = "magic", frng.IntN(4), 0
		}
	}
	c.FaultKind, c.FaultOffset, c.FaultRecsDone = kind, off, done
	c.FaultWithData = off > 0 && frng.IntN(3) == 0
	frd := &vf46Reader{data: stream, mode: c.Reader, rng: r.Rand("fault-reader", c.Idx), maxChk: c.MaxChunk, bodies: bodies,
		failOn: true, failAt: off, failWithData: c.FaultWithData}
	fout, herr := vf46Restore(r, dir, frng, c.DstWC, stream, recs, frd, c.IgnoreErrors, *c)
	if herr != nil {
		r.Inconclusive(fmt.Sprintf("case %d (failing source): %v", c.Idx, herr))
		return
	}
	r.Count("source_failure_restores", 1)
	if frd.faults > 0 {
		r.Seen("source_failures_delivered_at", kind)
		if kind == "record-boundary" {
			r.Count("source_failures_at_record_boundary_with_records_left", 1)
		}
	} else {
		r.Count("source_failure_not_reached", 1) // Restore stopped reading earlier (reported record)
	}
	if fout == nil {
		r.Count("source_failure_cases_agree", 1)
		return
	}
	where := fmt.Sprintf("source delivered %d of %d stream bytes (%d of %d records complete) and then failed with a non-EOF error at %s", off, len(stream), done, n, kind)
	if frd.faults > 0 && fout.rerr == nil && fout.symptom != "panic" {
		r.Violation("restore|source-failure-reported-as-success|at="+kind,
			fmt.Sprintf("%s, yet Restore returned nil error: %s", where, fout.what), *c)
		return
	}
	r.Violation(fmt.Sprintf("restore|%s|source-failure-at=%s", fout.symptom, kind), where+": "+fout.what, *c)
}

// vf46CountBlobFiles counts the object files below an FSTree root (evidence counters only).
func vf46CountBlobFiles(root string) int {
	n := 0
	_ = filepath.Walk(root, func(_ string, fi os.FileInfo, err error) error {
		if err == nil && fi.Mode().IsRegular() && !strings.HasPrefix(fi.Name(), ".") {
			n++
		}
		return nil
	})
	return n
}

func vf46OpText(c vf46Case) string {
	if c.OpOutcome == "" {
		return ""
	}
	return fmt.Sprintf(" (SetMode(%s) requested at write call %d of the dump: %s)", c.OpTarget, c.OpAtWrite, c.OpOutcome)
}

func (c *vf46Case) sizeOf(_ map[oid.Address][]byte, objs []*object.Object, a oid.Address) int {
	for _, o := range objs {
		if o.Address() == a {
			return len(o.Payload())
		}
	}
	return 0
}
