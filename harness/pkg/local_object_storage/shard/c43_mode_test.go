//go:build verif

package shard

import (
	"bytes"
	"errors"
	"fmt"
	"math/rand/v2"
	"os"
	"path/filepath"
	"runtime/debug"
	"sort"
	"strings"
	"testing"
	"time"

	"github.com/nspcc-dev/bbolt"
	"github.com/nspcc-dev/neofs-node/internal/verifkit"
	"github.com/nspcc-dev/neofs-node/pkg/local_object_storage/blobstor/fstree"
	meta "github.com/nspcc-dev/neofs-node/pkg/local_object_storage/metabase"
	"github.com/nspcc-dev/neofs-node/pkg/local_object_storage/shard/mode"
	"github.com/nspcc-dev/neofs-node/pkg/local_object_storage/writecache"
	cid "github.com/nspcc-dev/neofs-sdk-go/container/id"
	"github.com/nspcc-dev/neofs-sdk-go/object"
	oid "github.com/nspcc-dev/neofs-sdk-go/object/id"
	"github.com/nspcc-dev/neofs-sdk-go/user"
	"go.uber.org/zap"
)

// ---------------------------------------------------------------------------------------
// C43: after any sequence of mode changes, including ones where a component fails to
// switch, the operations a shard accepts and rejects match the mode it REPORTS
// (Shard.GetMode).  Returning to read-write restores full service with all previously
// stored objects intact.
//
// Oracle (written from the statement and the mode descriptions of docs/shard-modes.md):
//
//	reported mode      | modifying requests           | object reads | metabase-backed requests
//	read-write         | accepted                     | served       | served
//	read-only          | rejected                     | served       | served
//	degraded           | Put accepted (rest: silent)  | served       | rejected
//	degraded-read-only | rejected                     | served       | rejected
//
// "served" for object reads means: every object whose Put was acknowledged (and which
// was not removed by an acknowledged Delete/MarkGarbage) is returned with identical
// bytes.  After EVERY step the mode is re-read from GetMode(), a Put probe checks write
// acceptance, and every tracked object is read back.  The final step clears all faults,
// repairs the metabase file, switches to read-write and demands full service.
//
// A divergence does not end a history: the statement quantifies over ANY sequence of mode
// changes, so the switches that follow a failed one (and should repair the shard) are
// driven and judged as well.  Class key = what | reported mode | kind of failed switch
// seen in the case | what SetMode has returned since the most recent failed switch
// (nothing succeeded / only SetMode(already reported mode) / a switch that changed the
// reported mode) - all four taken from observed results, none from component internals.
//
// Component failures: (a) verifhook.Fault("shard.setmode.<component>") makes the
// component refuse to switch (it stays in its old mode), (b) the metabase file is really
// made unopenable (replaced by garbage while the original is moved aside), (c) a shard
// is started over an unopenable metabase (handleMetabaseFailure path).
// ---------------------------------------------------------------------------------------

type vf43Epoch struct{}

func (vf43Epoch) CurrentEpoch() uint64 { return 0 }

const (
	vf43Live    = iota // Put acknowledged, no acknowledged removal
	vf43Removed        // Delete / MarkGarbage(default) acknowledged in read-write
	vf43Unknown        // outcome of a modifying request was not the demanded one / silent cell
)

type vf43Obj struct {
	addr    oid.Address
	obj     *object.Object
	bin     []byte
	state   int
	viaMeta bool // acknowledged while the shard reported a mode with metabase
	putStep int
	putMode mode.Mode
}

type vf43Env struct {
	dir    string
	withWC bool
	depth  uint64
	sh     *Shard

	metaPath   string
	metaBroken bool // the real file is moved aside, garbage in place
	down       bool // no running shard to close
}

var vf43ErrInjected = errors.New("verif: injected component switch failure")

var vf43AllModes = []mode.Mode{mode.ReadWrite, mode.ReadOnly, mode.Degraded, mode.DegradedReadOnly}

func (env *vf43Env) build() *Shard {
	return New(
		WithLogger(zap.NewNop()),
		WithBlobstor(fstree.New(fstree.WithPath(filepath.Join(env.dir, "blob")), fstree.WithDepth(env.depth), fstree.WithNoSync(true))),
		WithMetaBaseOptions(
			meta.WithPath(env.metaPath),
			meta.WithEpochState(vf43Epoch{}),
			meta.WithLogger(zap.NewNop()),
			meta.WithBoltDBOptions(&bbolt.Options{NoSync: true, Timeout: 5 * time.Second}),
			meta.WithMaxBatchDelay(time.Microsecond),
		),
		WithWriteCache(env.withWC),
		WithWriteCacheOptions(
			writecache.WithPath(filepath.Join(env.dir, "wcache")),
			writecache.WithLogger(zap.NewNop()),
			writecache.WithNoSync(true),
		),
		WithGCRemoverSleepInterval(time.Hour),
	)
}

func (env *vf43Env) start() error {
	env.sh = env.build()
	if err := env.sh.Open(); err != nil {
		return fmt.Errorf("open: %w", err)
	}
	if err := env.sh.Init(); err != nil {
		_ = env.sh.Close()
		return fmt.Errorf("init: %w", err)
	}
	return nil
}

// breakMeta makes the metabase file really unopenable: the real file is moved aside (an
// already open handle keeps working on it), a file of garbage takes its place.
func (env *vf43Env) breakMeta() error {
	if env.metaBroken {
		return nil
	}
	if err := os.Rename(env.metaPath, env.metaPath+".good"); err != nil {
		return err
	}
	if err := os.WriteFile(env.metaPath, bytes.Repeat([]byte{0xA5}, 1<<16), 0o600); err != nil {
		return err
	}
	env.metaBroken = true
	return nil
}

func (env *vf43Env) healMeta() error {
	if !env.metaBroken {
		return nil
	}
	if err := os.Remove(env.metaPath); err != nil {
		return err
	}
	if err := os.Rename(env.metaPath+".good", env.metaPath); err != nil {
		return err
	}
	env.metaBroken = false
	return nil
}

func vf43ErrClass(err error) string {
	switch {
	case err == nil:
		return "nil"
	case errors.Is(err, ErrReadOnlyMode):
		return "shard-read-only"
	case errors.Is(err, ErrDegradedMode):
		return "shard-degraded"
	case errors.Is(err, errWriteCacheDisabled):
		return "write-cache-disabled"
	case errors.Is(err, meta.ErrDegradedMode):
		return "metabase-degraded"
	case errors.Is(err, meta.ErrReadOnlyMode):
		return "metabase-read-only"
	default:
		return "other"
	}
}

// vf43Comp is the harness's picture of the components, advanced ONLY by the transition
// order documented in docs/shard-modes.md; it is used for class keys and evidence, never
// for verdicts.
type vf43Comp struct {
	withWC         bool
	wc, blob, meta string
	realFail       bool // a real metabase open failure happened in this case
	wcFail         bool // a switch failed with neither an injected fault nor a broken metabase file
	injFail        bool // an injected refusal happened in this case
	startupFail    bool

	// what has been observed (SetMode results and GetMode only) since the most recent
	// failed switch / failed startup: nothing, only SetMode(m) == nil with m equal to the
	// mode reported before the call, or at least one SetMode(m) == nil that changed the
	// reported mode.  The documentation promises that either kind of successful switch
	// puts every component into m ("all mode changing operations are idempotent").
	since int
	via   []string // modes of the successful switches since the most recent failure
}

const (
	vf43SinceNone     = iota // no SetMode returned nil since the most recent failed switch
	vf43SinceSameOnly        // only SetMode(already reported mode) returned nil since
	vf43SinceChanged         // >= 1 SetMode that changed the reported mode returned nil since
)

var vf43SinceNames = []string{"no-successful-switch-since", "only-same-mode-switches-since", "mode-change-since"}

// switchFailed / switchOK advance the since-shape from the observed SetMode outcome.
func (c *vf43Comp) switchFailed() { c.since, c.via = vf43SinceNone, nil }

func (c *vf43Comp) switchOK(from, to mode.Mode) {
	if c.cause() == "no-failed-switch-so-far" {
		return
	}
	c.via = append(c.via, to.String())
	if from != to {
		c.since = vf43SinceChanged
	} else if c.since == vf43SinceNone {
		c.since = vf43SinceSameOnly
	}
}

// shape = sticky cause of the case + what happened since the most recent failure; it is
// the history part of every class key.
func (c *vf43Comp) shape() string {
	cs := c.cause()
	if cs == "no-failed-switch-so-far" {
		return cs
	}
	return cs + "|" + vf43SinceNames[c.since]
}

func (c *vf43Comp) setAll(m mode.Mode) { c.wc, c.blob, c.meta = m.String(), m.String(), m.String() }

func (c *vf43Comp) order(to mode.Mode) []string {
	var o []string
	if to == mode.ReadWrite {
		o = []string{"metabase", "blobstor"}
		if c.withWC {
			o = append(o, "writecache")
		}
		return o
	}
	if c.withWC {
		o = append(o, "writecache")
	}
	return append(o, "blobstor", "metabase")
}

// apply advances the picture for a transition to `to` that failed at component failAt
// ("" = none failed).
func (c *vf43Comp) apply(to mode.Mode, failAt string, real bool) {
	for _, n := range c.order(to) {
		if n == failAt {
			if real {
				c.meta = "BROKEN"
			}
			return
		}
		switch n {
		case "metabase":
			c.meta = to.String()
		case "blobstor":
			c.blob = to.String()
		case "writecache":
			c.wc = to.String()
		}
	}
}

func (c *vf43Comp) diverged(reported mode.Mode) string {
	var d []string
	if c.blob != reported.String() {
		d = append(d, "blobstor")
	}
	if c.meta != reported.String() {
		if c.meta == "BROKEN" {
			d = append(d, "metabase(open failed)")
		} else {
			d = append(d, "metabase")
		}
	}
	if c.withWC && c.wc != reported.String() {
		d = append(d, "writecache")
	}
	if len(d) == 0 {
		return "none"
	}
	return strings.Join(d, "+")
}

// cause names what kind of failed switch the case has seen so far (sticky for the case:
// the documentation promises that a later successful switch repairs everything, the
// class key must not rely on that promise).
func (c *vf43Comp) cause() string {
	switch {
	case c.startupFail:
		return "after-startup-over-unopenable-metabase"
	case c.realFail:
		return "after-real-metabase-open-failure"
	case c.injFail:
		return "after-injected-refusal"
	case c.wcFail:
		// the write-cache is the first component of every switch that makes it
		// flush, so by the documented order nothing else has switched
		return "after-write-cache-flush-refusal"
	}
	return "no-failed-switch-so-far"
}

func (c *vf43Comp) String() string {
	s := fmt.Sprintf("wc=%s blob=%s meta=%s", c.wc, c.blob, c.meta)
	if c.cause() != "no-failed-switch-so-far" {
		s += fmt.Sprintf("; successful switches since the most recent failed one: %v", c.via)
	}
	return s
}

type vf43Case struct {
	r      *verifkit.Run
	h      *verifkit.Hooks
	ci     int
	kind   string
	rng    *rand.Rand
	env    *vf43Env
	comp   *vf43Comp
	owner  user.ID
	cnrs   []cid.ID
	objs   []*vf43Obj
	never  []oid.Address
	trace  []string
	step   int
	final  bool // judging the final return to read-write
	failed bool // a violation was reported in the current step: the rest of the step is skipped, the history goes on
	fatal  bool // panic / harness trouble: stop immediately

	lastSwitchFailed bool // the most recent SetMode returned an error
	probeAfterRepair bool // the next accepted Put is the first one after a mode-changing switch that followed a failed one
}

func (c *vf43Case) desc() map[string]any {
	return map[string]any{"case": c.ci, "kind": c.kind, "write_cache": c.env.withWC, "step": c.step,
		"reported_mode": c.env.sh.GetMode().String(), "components_by_documented_order": c.comp.String(),
		"trace": append([]string(nil), c.trace[max(0, len(c.trace)-40):]...)}
}

func (c *vf43Case) violate(what, detail string) {
	rm := c.env.sh.GetMode()
	if c.final {
		what = "after-return-to-read-write|" + what
	}
	key := fmt.Sprintf("%s|reported=%s|%s", what, rm, c.comp.shape())
	c.r.Count("divergences_"+vf43SinceNames[c.comp.since], 1)
	c.r.Violation(key, fmt.Sprintf("%s while the shard reports %s (components per documented switch order: %s): %s", what, rm, c.comp, detail), c.desc())
	c.r.Seen("violating_component_pictures", fmt.Sprintf("%s reported=%s %s", what, rm, c.comp))
	c.failed = true
}

// guard runs a request of the code under test; a panic below it is a violation (the
// request could not give the answer the reported mode demands), a panic in harness code
// is inconclusive.
func (c *vf43Case) guard(op string, f func()) (panicked bool) {
	defer func() {
		p := recover()
		if p == nil {
			return
		}
		panicked = true
		c.fatal = true
		st := string(debug.Stack())
		lines := strings.Split(st, "\n")
		seen, frame := false, "unknown"
		for _, l := range lines {
			if strings.HasPrefix(l, "panic(") {
				seen = true
				continue
			}
			if !seen || strings.HasPrefix(l, "\t") || !strings.Contains(l, "neofs-node/") {
				continue
			}
			frame = l
			if j := strings.LastIndex(frame, "("); j > 0 {
				frame = frame[:j]
			}
			break
		}
		if strings.Contains(frame, "vf43") || strings.Contains(frame, "verifkit") {
			c.r.Inconclusive(fmt.Sprintf("harness panic: %v at %s", p, frame))
			return
		}
		d := c.desc()
		d["stack"] = st
		rm := c.env.sh.GetMode()
		what := "panic-on-request"
		if op == "setmode" || op == "startup" {
			what = "panic-in-" + op
		}
		if c.final {
			what = "after-return-to-read-write|" + what
		}
		c.r.Violation(fmt.Sprintf("%s|reported=%s|%s", what, rm, c.comp.shape()),
			fmt.Sprintf("%s panicked while the shard reports %s (components per documented switch order: %s): %v at %s", op, rm, c.comp, p, frame), d)
		c.r.Seen("panic_frames", frame)
		c.failed = true
	}()
	f()
	return false
}

func (c *vf43Case) newObj() *object.Object {
	sz := []int{0, 1 + c.rng.IntN(64), 1 + c.rng.IntN(2000), 20000 + c.rng.IntN(60000)}[c.rng.IntN(4)]
	return verifkit.NewObject(c.rng, c.cnrs[c.rng.IntN(len(c.cnrs))], c.owner, sz)
}

// put issues a Put of a fresh object and judges acceptance against the reported mode.
func (c *vf43Case) put(tag string) {
	sh := c.env.sh
	rm := sh.GetMode()
	o := c.newObj()
	var err error
	if c.guard("put", func() { err = sh.Put(o, nil) }) {
		return
	}
	cls := vf43ErrClass(err)
	c.trace = append(c.trace, fmt.Sprintf("%s@%s:%s", tag, rm, cls))
	c.r.Count("put_"+rm.String()+"_"+cls, 1)
	c.r.Distinct(fmt.Sprintf("put|%s|%s|%v|%s|%s", rm, cls, c.env.withWC, c.comp.diverged(rm), c.comp.shape()))
	u := &vf43Obj{addr: o.Address(), obj: o, bin: o.Marshal(), putStep: c.step, putMode: rm, viaMeta: !rm.NoMetabase()}
	switch {
	case rm.ReadOnly() && err == nil:
		u.state = vf43Unknown
		c.objs = append(c.objs, u)
		c.violate("put-accepted", fmt.Sprintf("Put of %s returned nil", u.addr))
	case rm.ReadOnly():
		c.r.Count("writes_rejected_as_demanded", 1)
		if !errors.Is(err, ErrReadOnlyMode) {
			c.r.Seen("put_rejections_without_ErrReadOnlyMode", cls)
		}
		// a rejected Put must not have stored the object
		var g *object.Object
		var gerr error
		if c.guard("get", func() { g, gerr = sh.Get(u.addr, true) }) {
			return
		}
		if gerr == nil && g != nil {
			c.violate("rejected-put-stored", fmt.Sprintf("Put of %s was rejected (%v) but the object is readable afterwards", u.addr, err))
		}
	case err != nil:
		u.state = vf43Unknown
		c.objs = append(c.objs, u)
		c.violate("put-rejected", fmt.Sprintf("Put of %s failed: %v", u.addr, err))
	default:
		c.r.Count("writes_accepted_as_demanded", 1)
		u.state = vf43Live
		c.objs = append(c.objs, u)
		if c.probeAfterRepair {
			c.r.Count("writes_accepted_after_mode_change_following_failed_switch", 1)
		}
	}
	c.probeAfterRepair = false
}

func (c *vf43Case) pickLive(needMeta bool) *vf43Obj {
	var l []*vf43Obj
	for _, u := range c.objs {
		if u.state == vf43Live && (!needMeta || u.viaMeta) {
			l = append(l, u)
		}
	}
	if len(l) == 0 {
		return nil
	}
	return l[c.rng.IntN(len(l))]
}

// remove issues Delete or MarkGarbage for a live object and judges acceptance.
func (c *vf43Case) remove(useMark bool) {
	sh := c.env.sh
	rm := sh.GetMode()
	u := c.pickLive(true)
	if u == nil {
		return
	}
	name := "delete"
	if useMark {
		name = "mark-garbage"
	}
	var err error
	if c.guard(name, func() {
		if useMark {
			err = sh.MarkGarbage(u.addr.Container(), []oid.ID{u.addr.Object()}, meta.GarbageMarkDefault)
		} else {
			err = sh.Delete(u.addr.Container(), []oid.ID{u.addr.Object()})
		}
	}) {
		return
	}
	cls := vf43ErrClass(err)
	c.trace = append(c.trace, fmt.Sprintf("%s@%s:%s", name, rm, cls))
	c.r.Count(name+"_"+rm.String()+"_"+cls, 1)
	c.r.Distinct(fmt.Sprintf("%s|%s|%s|%v|%s", name, rm, cls, c.env.withWC, c.comp.diverged(rm)))
	switch {
	case rm.ReadOnly() && err == nil:
		u.state = vf43Unknown
		c.violate("removal-accepted", fmt.Sprintf("%s of %s returned nil", name, u.addr))
	case rm.ReadOnly():
		c.r.Count("writes_rejected_as_demanded", 1)
	case rm == mode.Degraded:
		// docs: "allow PUT/DELETE operations without the metabase if really necessary",
		// the shard API documents nothing -> not constrained, only observed
		c.r.Seen("degraded_"+name+"_outcomes", cls)
		if err == nil {
			u.state = vf43Unknown
		}
	case err != nil:
		u.state = vf43Unknown
		c.violate("removal-rejected", fmt.Sprintf("%s of %s failed: %v", name, u.addr, err))
	default:
		c.r.Count("writes_accepted_as_demanded", 1)
		u.state = vf43Removed
	}
}

func (c *vf43Case) flush() {
	if !c.env.withWC {
		return
	}
	sh := c.env.sh
	rm := sh.GetMode()
	var err error
	if c.guard("flush", func() { err = sh.FlushWriteCache(false) }) {
		return
	}
	cls := vf43ErrClass(err)
	c.trace = append(c.trace, fmt.Sprintf("flush@%s:%s", rm, cls))
	c.r.Count("flush_"+rm.String()+"_"+cls, 1)
	c.r.Distinct(fmt.Sprintf("flush|%s|%s|%s", rm, cls, c.comp.diverged(rm)))
	switch {
	case rm == mode.ReadWrite && err != nil:
		c.violate("flush-rejected", fmt.Sprintf("FlushWriteCache failed: %v", err))
	case rm.ReadOnly() && err == nil:
		c.violate("flush-accepted", "FlushWriteCache returned nil")
	}
}

// metaReads issues the metabase-backed requests and judges them against the reported mode.
func (c *vf43Case) metaReads() {
	sh := c.env.sh
	rm := sh.GetMode()
	var (
		lst           []oid.Address
		lerr, kerr    error
		cerr, serr    error
		sel           []oid.Address
		probe         = c.never[0]
		selCnr        = c.cnrs[c.rng.IntN(len(c.cnrs))]
		livePerCnrPhy = map[oid.Address]bool{}
	)
	if u := c.pickLive(true); u != nil {
		probe = u.addr
	}
	if c.guard("metabase-request", func() {
		lst, lerr = sh.List()
		_, kerr = sh.IsLocked(probe)
		_, cerr = sh.ListContainers()
		fs := object.NewSearchFilters()
		fs.AddPhyFilter()
		sel, serr = sh.Select(selCnr, fs)
	}) {
		return
	}
	c.r.Count("metabase_requests_"+rm.String(), 4)
	res := map[string]error{"list": lerr, "is-locked": kerr, "list-containers": cerr, "select": serr}
	names := []string{"list", "is-locked", "list-containers", "select"}
	var served, failed []string
	for _, n := range names {
		err := res[n]
		cls := vf43ErrClass(err)
		c.r.Distinct(fmt.Sprintf("metaread|%s|%s|%s|%s", n, rm, cls, c.comp.diverged(rm)))
		if rm.NoMetabase() {
			if err == nil {
				served = append(served, n)
			} else {
				c.r.Count("metabase_requests_rejected_as_demanded", 1)
				if !errors.Is(err, ErrDegradedMode) {
					c.r.Seen("degraded_rejections_without_ErrDegradedMode", n+":"+cls)
				}
			}
		} else if err != nil {
			failed = append(failed, fmt.Sprintf("%s: %v", n, err))
		} else {
			c.r.Count("metabase_requests_served_as_demanded", 1)
		}
	}
	if len(served) > 0 {
		c.violate("metabase-request-served-without-metabase", fmt.Sprint(served)+" returned nil although the reported mode has no metabase")
	}
	if len(failed) > 0 {
		c.violate("metabase-request-failed", strings.Join(failed, "; "))
	}
	c.trace = append(c.trace, fmt.Sprintf("metareads@%s:%s", rm, vf43ErrClass(lerr)))
	if rm.NoMetabase() || lerr != nil || serr != nil || c.failed {
		return
	}
	got := map[oid.Address]bool{}
	for _, a := range lst {
		got[a] = true
	}
	for _, a := range sel {
		livePerCnrPhy[a] = true
	}
	for _, u := range c.objs {
		if u.state == vf43Live && u.viaMeta {
			if !got[u.addr] {
				c.violate("listing-misses-stored-object", fmt.Sprintf("List lacks %s (put at step %d in %s)", u.addr, u.putStep, u.putMode))
				u.state = vf43Unknown
				return
			}
			if u.addr.Container() == selCnr && !livePerCnrPhy[u.addr] {
				c.violate("listing-misses-stored-object", fmt.Sprintf("Select(phy) lacks %s (put at step %d in %s)", u.addr, u.putStep, u.putMode))
				u.state = vf43Unknown
				return
			}
		}
	}
	c.r.Count("listings_complete", 1)
}

// audit reads every tracked object back and compares with the model.
func (c *vf43Case) audit(_ bool) {
	sh := c.env.sh
	rm := sh.GetMode()
	for _, u := range c.objs {
		if c.failed || c.fatal {
			return
		}
		switch u.state {
		case vf43Live:
			var (
				o, hd *object.Object
				gerr  error
				herr  error
				ex    bool
				eerr  error
			)
			skip := !u.viaMeta // stored without metadata (degraded Put): only the bytes are demanded
			if c.guard("get", func() {
				o, gerr = sh.Get(u.addr, skip)
				if !skip {
					hd, herr = sh.Head(u.addr, false)
					ex, eerr = sh.Exists(u.addr, false)
				}
			}) {
				return
			}
			c.r.Count("reads_checked", 1)
			tag := "stored-object"
			switch {
			case gerr != nil:
				c.violate(tag+"-unreadable", fmt.Sprintf("Get(%s, skipMeta=%v) of an object acknowledged at step %d in %s: %v", u.addr, skip, u.putStep, u.putMode, gerr))
			case !bytes.Equal(o.Marshal(), u.bin):
				c.violate(tag+"-bytes-differ", fmt.Sprintf("Get(%s) returned different bytes", u.addr))
			case !skip && (herr != nil || hd == nil || hd.GetID() != u.addr.Object() || hd.PayloadSize() != u.obj.PayloadSize()):
				c.violate(tag+"-metadata-read-fails", fmt.Sprintf("Head(%s): %v", u.addr, herr))
			case !skip && !rm.NoMetabase() && (eerr != nil || !ex):
				c.violate(tag+"-metadata-read-fails", fmt.Sprintf("Exists(%s) = %v, %v", u.addr, ex, eerr))
			default:
				c.r.Count("reads_served_as_demanded", 1)
			}
			if c.failed {
				u.state = vf43Unknown // reported once; the history goes on
			}
		case vf43Removed:
			if rm.NoMetabase() {
				continue
			}
			var gerr error
			if c.guard("get", func() { _, gerr = sh.Get(u.addr, false) }) {
				return
			}
			c.r.Count("removed_reads_checked", 1)
			if gerr == nil {
				c.violate("removed-object-readable", fmt.Sprintf("Get(%s) of an object removed in read-write succeeded", u.addr))
				u.state = vf43Unknown // reported once; the history goes on
			}
		}
	}
	for _, a := range c.never {
		var gerr error
		if c.guard("get", func() { _, gerr = sh.Get(a, false) }) {
			return
		}
		if gerr == nil {
			c.violate("never-stored-readable", a.String())
		}
	}
}

// setMode performs one transition, optionally with a refusing component.
func (c *vf43Case) setMode(to mode.Mode, failAt string) (err error) {
	sh := c.env.sh
	from := sh.GetMode()
	if failAt != "" {
		c.h.FailAlways("shard.setmode."+failAt, fmt.Errorf("%w: %s", vf43ErrInjected, failAt))
	}
	pan := c.guard("setmode", func() { err = sh.SetMode(to) })
	c.h.ClearFaults()
	if pan {
		return errors.New("panic")
	}
	after := sh.GetMode()
	out := "ok"
	if err != nil {
		out = "err"
	}
	c.trace = append(c.trace, fmt.Sprintf("setmode %s->%s fail@%s meta-file-broken=%v: %s, reports %s", from, to, failAt, c.env.metaBroken, out, after))
	c.r.Count("setmode_"+out, 1)
	c.r.Seen("transitions", fmt.Sprintf("%s->%s:%s", from, to, out))
	c.lastSwitchFailed = err != nil
	if err != nil {
		c.comp.switchFailed()
		c.probeAfterRepair = false
	}
	switch {
	case err == nil:
		if failAt != "" {
			// the refusing component was not part of the transition (no write-cache) or
			// the hook is missing; not a verdict
			c.r.Count("injected_failure_not_consumed", 1)
		}
		c.comp.apply(to, "", false)
		c.comp.switchOK(from, to)
		if c.comp.cause() != "no-failed-switch-so-far" {
			c.r.Count("successful_switches_after_failed_switch_"+vf43SinceNames[c.comp.since], 1)
			if from != to {
				c.r.Seen("mode_changes_after_failed_switch", fmt.Sprintf("%s->%s", from, to))
				c.probeAfterRepair = !to.ReadOnly()
			}
		}
		if after != to {
			c.violate("setmode-ok-but-other-mode-reported", fmt.Sprintf("SetMode(%s) returned nil, GetMode() = %s", to, after))
		}
	case errors.Is(err, vf43ErrInjected):
		c.r.Count("injected_component_failures", 1)
		c.r.Seen("injected_failures", fmt.Sprintf("%s->%s@%s", from, to, failAt))
		c.comp.injFail = true
		c.comp.apply(to, failAt, false)
	case c.env.metaBroken && !to.NoMetabase():
		// real failure: the metabase file cannot be opened
		c.r.Count("real_component_failures", 1)
		c.r.Seen("real_failures", fmt.Sprintf("%s->%s", from, to))
		c.comp.realFail = true
		c.comp.apply(to, "metabase", true)
	default:
		// a component failed on its own (seen: the write-cache cannot flush into a
		// read-only blob storage when asked to go degraded)
		c.r.Count("spontaneous_component_failures", 1)
		c.r.Seen("spontaneous_failures", fmt.Sprintf("%s->%s: %.80s", from, to, err.Error()))
		c.comp.wcFail = true
		if c.env.withWC {
			c.comp.apply(to, "writecache", false)
		}
	}
	c.r.Distinct(fmt.Sprintf("setmode|%s|%s|%s|%v|%s|wc=%v", from, to, failAt, c.env.metaBroken, out, c.env.withWC))
	return err
}

func (c *vf43Case) afterStep() {
	if c.failed || c.fatal {
		return
	}
	c.audit(false)
}

// finish: clear faults, repair the file, return to read-write, demand full service.
func (c *vf43Case) finish() {
	if c.fatal {
		return
	}
	sh := c.env.sh
	c.h.ClearFaults()
	if err := c.env.healMeta(); err != nil {
		c.r.Inconclusive("heal metabase file: " + err.Error())
		return
	}
	c.failed = false // the final demand is judged on its own
	c.final = true
	c.step = -1
	from := sh.GetMode()
	err := c.setMode(mode.ReadWrite, "")
	if c.fatal {
		return
	}
	if err != nil {
		c.violate("switch-failed", fmt.Sprintf("SetMode(READ_WRITE) from reported %s with no fault left: %v", from, err))
		return
	}
	if c.failed {
		return
	}
	c.r.Count("final_returns_to_read_write", 1)
	// full service: write, read everything, list, remove
	c.put("final-put")
	if c.failed || c.fatal {
		c.retag()
		return
	}
	c.audit(true)
	if c.failed || c.fatal {
		return
	}
	c.metaReads()
	if c.failed || c.fatal {
		c.retag()
		return
	}
	c.remove(false)
	if c.failed || c.fatal {
		c.retag()
		return
	}
	c.flush()
	if c.failed || c.fatal {
		c.retag()
		return
	}
	c.audit(true)
	if !c.failed && !c.fatal {
		c.r.Count("final_full_service_confirmed", 1)
	}
}

func (c *vf43Case) retag() { c.r.Count("final_service_violations", 1) }

func vf43Run(r *verifkit.Run, h *verifkit.Hooks, root string, ci int, kind string) {
	rng := r.Rand("case-"+kind, ci)
	env := &vf43Env{dir: filepath.Join(root, fmt.Sprintf("%s%d", kind, ci)), withWC: rng.IntN(2) == 0, depth: uint64(1 + rng.IntN(2))}
	env.metaPath = filepath.Join(env.dir, "meta", "meta.db")
	defer os.RemoveAll(env.dir)
	c := &vf43Case{r: r, h: h, ci: ci, kind: kind, rng: rng, env: env, comp: &vf43Comp{withWC: env.withWC},
		owner: verifkit.RandUser(rng), cnrs: []cid.ID{verifkit.RandCID(rng), verifkit.RandCID(rng)}}
	c.never = []oid.Address{oid.NewAddress(c.cnrs[0], verifkit.RandOID(rng)), oid.NewAddress(verifkit.RandCID(rng), verifkit.RandOID(rng))}
	if err := env.start(); err != nil {
		r.Inconclusive(fmt.Sprintf("case %s/%d: start shard: %v", kind, ci, err))
		return
	}
	defer func() {
		if !env.down {
			_ = env.sh.Close()
		}
	}()
	c.comp.setAll(mode.ReadWrite)
	r.Eval(1)

	// fill in read-write
	for i, n := 0, 3+rng.IntN(5); i < n; i++ {
		c.put("fill")
	}
	if c.failed || c.fatal {
		return
	}
	if env.withWC && rng.IntN(2) == 0 {
		c.flush()
	}
	for i := 0; i < 2; i++ {
		c.put("fill-late")
	}
	c.remove(rng.IntN(2) == 0)
	c.failed = false

	switch kind {
	case "startup":
		// restart the shard over an unopenable metabase: Open/Init go through
		// handleMetabaseFailure; whatever mode comes out, behaviour must match it
		if err := env.sh.Close(); err != nil {
			r.Inconclusive("close before restart: " + err.Error())
			env.down = true
			return
		}
		env.down = true
		if err := env.breakMeta(); err != nil {
			r.Inconclusive("break metabase file: " + err.Error())
			return
		}
		var serr error
		if c.guard("startup", func() { serr = env.start() }) {
			return
		}
		if serr != nil {
			// refusing to start is not a mode mismatch; nothing to monitor
			r.Count("startup_over_broken_metabase_refused", 1)
			r.Seen("startup_refusals", vf43ErrClass(serr))
			env.down = true
			return
		}
		env.down = false
		rm := env.sh.GetMode()
		r.Seen("startup_over_broken_metabase_reports", rm.String())
		c.trace = append(c.trace, "restart over unopenable metabase: reports "+rm.String())
		c.comp.setAll(rm)
		c.comp.startupFail = true
		c.comp.switchFailed()
		// objects whose metadata cannot be consulted now: in modes with metabase the
		// statement demands service, in degraded ones the bytes
		c.step = 1000
		c.put("probe")
		c.afterStep()
		if !c.failed && !c.fatal {
			c.metaReads()
		}
		if rng.IntN(2) == 0 && !c.failed && !c.fatal {
			// an operator tries the other read-only mode first
			_ = c.setMode([]mode.Mode{mode.ReadOnly, mode.DegradedReadOnly, mode.Degraded}[rng.IntN(3)], "")
			if !c.failed && !c.fatal {
				c.put("probe")
				c.afterStep()
			}
		}
		c.finish()
	default:
		nSteps := 20 + rng.IntN(30)
		for c.step = 1; c.step <= nSteps && !c.fatal; c.step++ {
			// a divergence does not end the history: the statement quantifies over ANY
			// sequence of mode changes, the ones that follow a divergence included
			c.failed = false
			if c.lastSwitchFailed && rng.IntN(100) < 50 {
				// the operator reacts to a failed switch: 1..3 fault-free switches to
				// random modes (in kind 'real' the file may still be unopenable), write
				// acceptance probed and everything read back after each of them
				c.lastSwitchFailed = false
				c.r.Count("recovery_walks", 1)
				for i, n := 0, 1+rng.IntN(3); i < n && !c.fatal; i++ {
					c.failed = false
					_ = c.setMode(vf43AllModes[rng.IntN(len(vf43AllModes))], "")
					if c.failed || c.fatal {
						continue
					}
					c.put("probe")
					if !c.failed && !c.fatal && rng.IntN(2) == 0 {
						c.metaReads()
					}
					if i+1 < n {
						c.afterStep()
					}
				}
				c.afterStep()
				continue
			}
			switch k := rng.IntN(100); {
			case k < 38:
				to := vf43AllModes[rng.IntN(len(vf43AllModes))]
				failAt := ""
				if kind != "clean" && rng.IntN(100) < 55 {
					failAt = c.comp.order(to)[rng.IntN(len(c.comp.order(to)))]
				}
				_ = c.setMode(to, failAt)
				if c.failed || c.fatal {
					break
				}
				// probe write acceptance and the metabase requests right after every transition attempt
				c.put("probe")
				if !c.failed && !c.fatal && rng.IntN(2) == 0 {
					c.metaReads()
				}
			case k < 58:
				c.put("put")
			case k < 66:
				c.remove(false)
			case k < 72:
				c.remove(true)
			case k < 84:
				c.metaReads()
			case k < 88:
				c.flush()
			case k < 94:
				if kind == "real" {
					if env.metaBroken {
						if err := env.healMeta(); err != nil {
							r.Inconclusive("heal: " + err.Error())
							c.fatal = true
						}
						c.trace = append(c.trace, "metabase file repaired")
					} else {
						if err := env.breakMeta(); err != nil {
							r.Inconclusive("break: " + err.Error())
							c.fatal = true
						}
						c.trace = append(c.trace, "metabase file made unopenable")
					}
					r.Count("metabase_file_swaps", 1)
				} else {
					c.put("put")
				}
			default:
				// handleMetabaseFailure-like recovery ladder issued by an operator
				if c.setMode(mode.ReadOnly, "") != nil && !c.failed && !c.fatal {
					_ = c.setMode(mode.DegradedReadOnly, "")
				}
				if !c.failed && !c.fatal {
					c.put("probe")
				}
			}
			c.afterStep()
		}
		c.finish()
	}
	r.Sample(map[string]any{"case": ci, "kind": kind, "write_cache": env.withWC, "trace_head": c.trace[:min(len(c.trace), 14)]})
}

func TestVerif_C43(t *testing.T) {
	r := verifkit.Start(t, "C43", "exploration")
	defer r.Finish()
	r.SetRule("case = real shard (fstree + bbolt metabase, with/without write-cache) filled in read-write, then 20..49 seeded steps: SetMode to a random mode (55%: one component of the documented switch order refuses via verifhook.Fault shard.setmode.<component>; kind 'real': the metabase file is really swapped for garbage / repaired between steps; kind 'startup': shard restarted over an unopenable metabase), Put, Delete, MarkGarbage, List/Select/IsLocked/ListContainers, FlushWriteCache; after EVERY step GetMode() is re-read, write acceptance is probed and every acknowledged object is read back; a divergence does NOT end the history (the steps after it - later switches that should repair the shard - are judged too; an object whose read diverged is reported once); after a failed switch 50% of the next steps are a recovery walk of 1..3 fault-free switches to random modes, each probed; last step: faults cleared, file repaired, SetMode(READ_WRITE), full service check. distinct = (request kind, reported mode, outcome class, write-cache, components diverged per documented order, history shape since the most recent failed switch) and (transition, refusing component, outcome)")
	r.Assume("a refusing component (injected) leaves that component in its previous mode; components switched before it, per the documented order, are switched")
	r.Assume("Delete/MarkGarbage in degraded (read-write) mode and error identities are not constrained; Exists is demanded only in modes with metabase")
	r.SetMaxSamples(4)

	base := os.Getenv("VERIF_SCRATCH")
	if base == "" {
		base = t.TempDir()
	}
	root, err := os.MkdirTemp(base, "c43-")
	if err != nil {
		t.Fatal(err)
	}
	defer os.RemoveAll(root)

	h := verifkit.InstallHooks()
	defer h.Uninstall()

	nInj, nReal, nStart, nClean := r.Pick(50, 1200), r.Pick(26, 480), r.Pick(8, 100), r.Pick(14, 220)
	for ci := 0; ci < nClean; ci++ {
		vf43Run(r, h, root, ci, "clean")
	}
	for ci := 0; ci < nInj; ci++ {
		vf43Run(r, h, root, ci, "injected")
	}
	for ci := 0; ci < nReal; ci++ {
		vf43Run(r, h, root, ci, "real")
	}
	for ci := 0; ci < nStart; ci++ {
		vf43Run(r, h, root, ci, "startup")
	}

	fc := h.FaultCounts()
	var names []string
	for k, v := range fc {
		if strings.HasPrefix(k, "shard.setmode.") {
			names = append(names, k)
			r.Count("hook_"+k+"_consulted", v)
		}
	}
	sort.Strings(names)
	for _, n := range names {
		r.Seen("hook_points_hit", n)
	}
	if len(names) < 2 || r.Counter("injected_component_failures") == 0 {
		r.Inconclusive("fault points shard.setmode.<component> were never reached (hook commit missing from the tree?)")
	}
	if r.Counter("real_component_failures") == 0 {
		r.Inconclusive("no real metabase open failure was produced")
	}
	if r.Counter("writes_accepted_after_mode_change_following_failed_switch") == 0 || r.Counter("successful_switches_after_failed_switch_"+vf43SinceNames[vf43SinceSameOnly]) == 0 {
		r.Inconclusive("no history continued past a failed switch into a successful switch followed by a served write (repair by a later switch was never exercised)")
	}
	if r.Counter("final_returns_to_read_write") == 0 {
		r.Inconclusive("no case reached the final return to read-write")
	}
}
