//go:build verif

package shard

import (
	meta "github.com/nspcc-dev/neofs-node/pkg/local_object_storage/metabase"
)

// Thin exporters for the C06 monitor (engine package).  No logic of their own.

// Verif06Meta gives the monitor the shard's metabase so that DB.ListWithCursor can be
// observed on exactly the data the shard and the engine list.
func (s *Shard) Verif06Meta() *meta.DB { return s.metaBase }

// Verif06RunGC runs one synchronous pass of the GC ticker body.
func (s *Shard) Verif06RunGC() { s.removeGarbage() }
