//go:build verif

package shard

// C16 – "Objects written through the write-cache stay readable through every flush".
//
// Runtime monitor (history checking).  Real shards with a real write-cache (small batch
// thresholds, the code's own 1 s tick) run concurrent putters, readers (Get, GetBytes,
// GetStream), deleters, explicit FlushWriteCache, mode switches RW<->RO<->degraded-RO,
// blobstor put failures and restarts.  Every client call is stamped (call/return) from one
// logical clock; the per-address histories are checked with porcupine against a register
// model written from the statement:
//
//   absent --put ok (through the cache)--> present --delete--> deleted --put ok--> present
//   a read in state present must return the object with identical bytes;
//   after a delete was issued the statement is silent (either answer is legal);
//   a read can never return different bytes, and never an object that was not put.
//
// Plus: when FlushWriteCache(false) returns nil, every object whose cached put had
// returned before the flush was called (and that nobody deletes, or - re-created objects -
// that no delete overlaps or follows) is in the blobstor tree with identical bytes.
//
// Objects are also deleted and put again within one run of the shard: by the deleter, and by
// a client aligned with the phases of background flush batches (vf16Round.phase), so that
// an address is removed / re-created while a batch that scheduled it is composed, read,
// written or cleaned up.

import (
	"bytes"
	"errors"
	"fmt"
	"io"
	"math/rand/v2"
	"os"
	"path/filepath"
	"runtime"
	"sort"
	"strconv"
	"sync"
	"sync/atomic"
	"testing"
	"time"

	"github.com/anishathalye/porcupine"
	"github.com/nspcc-dev/neofs-node/internal/verifkit"
	"github.com/nspcc-dev/neofs-node/pkg/local_object_storage/blobstor/common"
	"github.com/nspcc-dev/neofs-node/pkg/local_object_storage/blobstor/fstree"
	meta "github.com/nspcc-dev/neofs-node/pkg/local_object_storage/metabase"
	"github.com/nspcc-dev/neofs-node/pkg/local_object_storage/shard/mode"
	"github.com/nspcc-dev/neofs-node/pkg/local_object_storage/writecache"
	"github.com/nspcc-dev/neofs-sdk-go/object"
	oid "github.com/nspcc-dev/neofs-sdk-go/object/id"
	"go.uber.org/zap"
)

type vf16Epoch struct{}

func (vf16Epoch) CurrentEpoch() uint64 { return 0 }

// vf16Blob is the blobstor: a real FSTree whose writes can be made to fail.
type vf16Blob struct {
	*fstree.FSTree
	failPermille atomic.Int32
	mu           sync.Mutex
	rng          *rand.Rand
	failed, ok   atomic.Int64
	batches      atomic.Int64  // batch writes asked for
	inflight     map[int64]int // batch writes in progress: entry stamp -> largest object
	batchObjs    atomic.Int64  // objects in them

	// onBatch, when set, is called on the flush worker's goroutine right before (phase 0)
	// and right after (phase 1) the objects of a background flush batch are written.
	onBatch atomic.Pointer[func(phase int, m map[oid.Address][]byte, entered int64)]
	wmu     sync.Mutex
	writes  map[oid.Address][]*vf16Write // every write of an address the blobstor was asked for
}

// vf16Write is one write the blobstor was asked for (a flush of the write-cache, or a put
// that bypassed the cache), with the moment the flush finished removing the cached copies.
type vf16Write struct {
	start, end int64
	ok         bool
	direct     atomic.Bool  // written by a client put that bypassed the cache: no cache clean-up follows
	cleaned    atomic.Int64 // stamp of the end of the cache clean-up that followed the write; 0 = not seen
}

// vf16Flights: goroutine id -> the latest write that goroutine made; the flush step points
// that end a flush run on the same goroutine and close the record (step points are global,
// the goroutine tells which round and which write they belong to).
var vf16Flights sync.Map

func vf16Gid() uint64 {
	var b [64]byte
	f := bytes.Fields(b[:runtime.Stack(b[:], false)])
	if len(f) < 2 {
		return 0
	}
	id, _ := strconv.ParseUint(string(f[1]), 10, 64)
	return id
}

// vf16FlushEnded is called from the step points "flush of a single object removed the cached
// copy" and "worker is done with its batch".
func vf16FlushEnded() {
	if v, ok := vf16Flights.LoadAndDelete(vf16Gid()); ok {
		v.(*vf16Write).cleaned.Store(vf16Clock.Add(1))
	}
}

func (b *vf16Blob) logWrites(start int64, ok bool, addrs ...oid.Address) {
	w := &vf16Write{start: start, end: vf16Clock.Add(1), ok: ok}
	b.wmu.Lock()
	if b.writes == nil {
		b.writes = map[oid.Address][]*vf16Write{}
	}
	for _, a := range addrs {
		b.writes[a] = append(b.writes[a], w)
	}
	b.wmu.Unlock()
	if ok {
		vf16Flights.Store(vf16Gid(), w)
	}
}

func (b *vf16Blob) writesOf(a oid.Address) []*vf16Write {
	b.wmu.Lock()
	defer b.wmu.Unlock()
	return append([]*vf16Write(nil), b.writes[a]...)
}

var errVf16Blob = errors.New("vf16: injected blobstor write failure")

// fail decides whether the next write fails: with a generic I/O error or with "no space".
func (b *vf16Blob) fail() error {
	p := b.failPermille.Load()
	if p == 0 {
		return nil
	}
	b.mu.Lock()
	defer b.mu.Unlock()
	if b.rng.IntN(1000) >= int(p) {
		return nil
	}
	b.failed.Add(1)
	if b.rng.IntN(2) == 0 {
		return fmt.Errorf("vf16: injected: %w", common.ErrNoSpace)
	}
	return errVf16Blob
}

func (b *vf16Blob) Put(a oid.Address, d []byte) error {
	start := vf16Clock.Add(1)
	if err := b.fail(); err != nil {
		b.logWrites(start, false, a)
		return err
	}
	b.ok.Add(1)
	err := b.FSTree.Put(a, d)
	b.logWrites(start, err == nil, a)
	return err
}

func (b *vf16Blob) PutBatch(m map[oid.Address][]byte) error {
	addrs := make([]oid.Address, 0, len(m))
	for a := range m {
		addrs = append(addrs, a)
	}
	f := b.onBatch.Load()
	entered := vf16Clock.Add(1)
	b.batches.Add(1)
	b.batchObjs.Add(int64(len(m)))
	mx := 0
	for _, d := range m {
		mx = max(mx, len(d))
	}
	b.wmu.Lock()
	if b.inflight == nil {
		b.inflight = map[int64]int{}
	}
	b.inflight[entered] = mx
	b.wmu.Unlock()
	defer func() {
		b.wmu.Lock()
		delete(b.inflight, entered)
		b.wmu.Unlock()
	}()
	if f != nil {
		(*f)(0, m, entered)
	}
	start := vf16Clock.Add(1)
	if err := b.fail(); err != nil {
		b.logWrites(start, false, addrs...)
		return err
	}
	b.ok.Add(1)
	err := b.FSTree.PutBatch(m)
	b.logWrites(start, err == nil, addrs...)
	if f != nil {
		(*f)(1, m, entered)
	}
	return err
}

// vf16WC records which puts/reads the write-cache itself served.
type vf16WC struct {
	writecache.Cache
	mu      sync.Mutex
	putOK   map[oid.Address]int
	hits    atomic.Int64
	misses  atomic.Int64
	putFull atomic.Int64
}

func (w *vf16WC) Put(a oid.Address, o *object.Object, b []byte) error {
	err := w.Cache.Put(a, o, b)
	if err == nil {
		w.mu.Lock()
		w.putOK[a]++
		w.mu.Unlock()
	} else if errors.Is(err, writecache.ErrOutOfSpace) {
		w.putFull.Add(1)
	}
	return err
}

func (w *vf16WC) puts(a oid.Address) int { w.mu.Lock(); defer w.mu.Unlock(); return w.putOK[a] }

func (w *vf16WC) Get(a oid.Address) (*object.Object, error) {
	o, err := w.Cache.Get(a)
	w.note(err)
	return o, err
}

func (w *vf16WC) GetBytes(a oid.Address) ([]byte, error) {
	b, err := w.Cache.GetBytes(a)
	w.note(err)
	return b, err
}

func (w *vf16WC) GetStream(a oid.Address) (*object.Object, io.ReadCloser, error) {
	o, r, err := w.Cache.GetStream(a)
	w.note(err)
	return o, r, err
}

func (w *vf16WC) note(err error) {
	if err == nil {
		w.hits.Add(1)
	} else {
		w.misses.Add(1)
	}
}

// ---- history ----------------------------------------------------------------------------

type vf16In struct {
	Kind string // put | read | delete
	API  string
}

type vf16Out struct {
	Res string // put: ok-cached | ok-direct | failed ; read: found | notfound ; delete: done | failed
	Err string
}

type vf16Op struct {
	addr oid.Address
	op   porcupine.Operation
}

const (
	vf16Absent  = 1
	vf16Present = 2
	vf16Deleted = 4
)

// vf16Model: state = set (bit mask) of register states the address may be in.
var vf16Model = porcupine.Model{
	Init: func() interface{} { return uint8(vf16Absent) },
	Step: func(st, in, out interface{}) (bool, interface{}) {
		s, i, o := st.(uint8), in.(vf16In), out.(vf16Out)
		var n uint8
		switch i.Kind {
		case "put":
			switch o.Res {
			case "ok-cached":
				n = vf16Present
			default: // failed, or stored without the write-cache: may or may not be there
				n = s | vf16Present
			}
		case "delete":
			if o.Res == "done" {
				n = vf16Deleted
			} else {
				n = s | vf16Deleted
			}
		case "read":
			if o.Res == "found" {
				n = s & (vf16Present | vf16Deleted)
			} else {
				n = s & (vf16Absent | vf16Deleted)
			}
		}
		return n != 0, n
	},
	Equal: func(a, b interface{}) bool { return a.(uint8) == b.(uint8) },
	DescribeOperation: func(in, out interface{}) string {
		return fmt.Sprintf("%s/%s -> %s %s", in.(vf16In).Kind, in.(vf16In).API, out.(vf16Out).Res, out.(vf16Out).Err)
	},
}

// ---- one round ----------------------------------------------------------------------------

type vf16Obj struct {
	obj  *object.Object
	bin  []byte
	addr oid.Address
	del  bool // a deleter may remove it
}

type vf16Round struct {
	r    *verifkit.Run
	idx  int
	dir  string
	desc map[string]any
	blob *vf16Blob
	wc   *vf16WC
	sh   *Shard
	shMu sync.RWMutex // restart excludes client calls

	wcOpts []writecache.Option
	objs   []*vf16Obj

	mu       sync.Mutex
	ops      []vf16Op
	acked    map[oid.Address]int64 // stamp of the first return of a successful cached put
	delCall  map[oid.Address]int64 // stamp of the first delete call
	clientID atomic.Int32

	// per address, for the "in blob storage after a flush" oracle on re-created objects
	delCalls, delRets map[oid.Address]int        // delete calls issued / returned
	stable            map[oid.Address]vf16Stable // latest acknowledged cached put that no delete overlaps or follows
	live              map[oid.Address]bool       // harness view: last finished cached put is not followed by a delete call

	// phase-aligned client (see phase)
	phaseOn   atomic.Bool
	phMu      sync.Mutex
	modeGate  sync.RWMutex // a mode switch excludes the phase-aligned client
	flushGate sync.RWMutex // an explicit flush excludes the phase-aligned client
	phRng     *rand.Rand
	phCl      int
	workers   int
	pending   []*vf16Pending
}

type vf16Stable struct {
	call int64
	ret  int64 // return stamp of the put
	dc   int   // delete calls issued when the put was called (none of them in flight)
}

// vf16Pending is an object the phase-aligned client deleted and will put again.
type vf16Pending struct {
	o    *vf16Obj
	hold int // batch writes to let pass before the re-put
}

var vf16Clock atomic.Int64

func vf16IsModeErr(err error) bool {
	return errors.Is(err, ErrReadOnlyMode) || errors.Is(err, ErrDegradedMode) || errors.Is(err, writecache.ErrReadOnly) || errors.Is(err, meta.ErrDegradedMode) || errors.Is(err, meta.ErrReadOnlyMode)
}

func (x *vf16Round) open() error {
	x.blob.FSTree = fstree.New(fstree.WithPath(filepath.Join(x.dir, "blob")), fstree.WithDepth(1))
	sh := New(
		WithLogger(zap.NewNop()),
		WithBlobstor(x.blob),
		WithMetaBaseOptions(meta.WithPath(filepath.Join(x.dir, "meta")), meta.WithEpochState(vf16Epoch{}),
			meta.WithLogger(zap.NewNop()), meta.WithMaxBatchDelay(time.Microsecond)),
		WithWriteCache(true),
		WithWriteCacheOptions(append([]writecache.Option{writecache.WithPath(filepath.Join(x.dir, "wc")), writecache.WithLogger(zap.NewNop())}, x.wcOpts...)...),
		WithGCRemoverSleepInterval(time.Hour),
	)
	old := x.wc
	x.wc = &vf16WC{Cache: sh.writeCache, putOK: map[oid.Address]int{}}
	if old != nil {
		x.wc.putOK = old.putOK
		x.wc.hits.Store(old.hits.Load())
		x.wc.misses.Store(old.misses.Load())
		x.wc.putFull.Store(old.putFull.Load())
	}
	sh.writeCache = x.wc
	if err := sh.Open(); err != nil {
		return err
	}
	if err := sh.Init(); err != nil {
		return err
	}
	x.sh = sh
	return nil
}

func (x *vf16Round) record(a oid.Address, in vf16In, out vf16Out, call, ret int64, cl int) {
	x.mu.Lock()
	x.ops = append(x.ops, vf16Op{addr: a, op: porcupine.Operation{ClientId: cl, Input: in, Output: out, Call: call, Return: ret}})
	x.mu.Unlock()
}

func (x *vf16Round) put(o *vf16Obj, cl int) {
	x.shMu.RLock()
	defer x.shMu.RUnlock()
	x.putNL(o, cl)
}

// putNL: the caller holds shMu for reading.
func (x *vf16Round) putNL(o *vf16Obj, cl int) {
	before := x.wc.puts(o.addr)
	x.mu.Lock()
	dc, dr := x.delCalls[o.addr], x.delRets[o.addr]
	x.mu.Unlock()
	gid := vf16Gid()
	prevW, hadW := vf16Flights.Load(gid)
	call := vf16Clock.Add(1)
	var err error
	panicked := x.r.Guard(x.desc, func() { err = x.sh.Put(o.obj, o.bin) })
	// a blobstor write made on this goroutine during the call is the put itself bypassing the
	// cache, not a flush
	if w, ok := vf16Flights.Load(gid); ok && (!hadW || w != prevW) {
		w.(*vf16Write).direct.Store(true)
		if hadW {
			vf16Flights.Store(gid, prevW)
		} else {
			vf16Flights.Delete(gid)
		}
	}
	if panicked {
		return
	}
	ret := vf16Clock.Add(1)
	switch {
	case err == nil && x.wc.puts(o.addr) > before:
		x.r.Count("puts_ok_through_cache", 1)
		x.mu.Lock()
		if _, ok := x.acked[o.addr]; !ok {
			x.acked[o.addr] = ret
		}
		if dc == dr && x.delCalls[o.addr] == dc {
			// no delete was in flight when the put was called and none was called since
			x.stable[o.addr] = vf16Stable{call: call, ret: ret, dc: dc}
			x.live[o.addr] = true
			if dc > 0 {
				x.r.Count("puts_ok_through_cache_of_a_deleted_object", 1)
			}
		}
		x.mu.Unlock()
		x.record(o.addr, vf16In{Kind: "put"}, vf16Out{Res: "ok-cached"}, call, ret, cl)
	case err == nil:
		x.r.Count("puts_ok_direct_to_blobstor", 1)
		x.record(o.addr, vf16In{Kind: "put"}, vf16Out{Res: "ok-direct"}, call, ret, cl)
	case vf16IsModeErr(err):
		x.r.Count("puts_refused_by_mode", 1)
	default:
		x.r.Count("puts_failed", 1)
		x.record(o.addr, vf16In{Kind: "put"}, vf16Out{Res: "failed", Err: err.Error()}, call, ret, cl)
	}
}

func (x *vf16Round) del(o *vf16Obj, cl int) {
	x.shMu.RLock()
	defer x.shMu.RUnlock()
	x.delNL(o, cl)
}

// delNL: the caller holds shMu for reading.
func (x *vf16Round) delNL(o *vf16Obj, cl int) {
	call := vf16Clock.Add(1)
	x.mu.Lock()
	if _, ok := x.delCall[o.addr]; !ok {
		x.delCall[o.addr] = call
	}
	x.delCalls[o.addr]++
	x.live[o.addr] = false
	x.mu.Unlock()
	var err error
	panicked := x.r.Guard(x.desc, func() { err = x.sh.Delete(o.addr.Container(), []oid.ID{o.addr.Object()}) })
	x.mu.Lock()
	x.delRets[o.addr]++
	x.mu.Unlock()
	if panicked {
		return
	}
	ret := vf16Clock.Add(1)
	switch {
	case err == nil:
		x.r.Count("deletes_done", 1)
		x.record(o.addr, vf16In{Kind: "delete"}, vf16Out{Res: "done"}, call, ret, cl)
	case vf16IsModeErr(err):
		x.r.Count("deletes_refused_by_mode", 1)
	default:
		x.r.Count("deletes_failed", 1)
		x.record(o.addr, vf16In{Kind: "delete"}, vf16Out{Res: "failed", Err: err.Error()}, call, ret, cl)
	}
}

func (x *vf16Round) read(o *vf16Obj, api string, cl int) {
	x.shMu.RLock()
	defer x.shMu.RUnlock()
	call := vf16Clock.Add(1)
	var (
		err error
		got []byte
	)
	panicked := x.r.Guard(x.desc, func() {
		switch api {
		case "Get":
			var ob *object.Object
			if ob, err = x.sh.Get(o.addr, false); err == nil {
				got = ob.Marshal()
			}
		case "GetBytes":
			got, err = x.sh.GetBytes(o.addr)
		case "GetBytesWithMetadataLookup":
			got, err = x.sh.GetBytesWithMetadataLookup(o.addr)
		case "GetStream":
			var (
				hdr *object.Object
				rc  io.ReadCloser
			)
			if hdr, rc, err = x.sh.GetStream(o.addr, false); err == nil {
				var pl []byte
				pl, err = io.ReadAll(rc)
				_ = rc.Close()
				if err == nil {
					full := *hdr
					full.SetPayload(pl)
					got = full.Marshal()
				}
			}
		}
	})
	if panicked {
		return
	}
	ret := vf16Clock.Add(1)
	x.r.Count("reads_"+api, 1)
	switch {
	case err == nil && bytes.Equal(got, o.bin):
		x.r.Count("reads_found_identical", 1)
		x.record(o.addr, vf16In{Kind: "read", API: api}, vf16Out{Res: "found"}, call, ret, cl)
	case err == nil:
		x.r.Violation("read-returns-different-bytes|"+api, fmt.Sprintf("round %d: %s of %s returned %d bytes that differ from the %d bytes stored", x.idx, api, o.addr, len(got), len(o.bin)), x.desc)
	case vf16IsModeErr(err):
		x.r.Count("reads_refused_by_mode", 1)
	default:
		x.r.Count("reads_not_found_or_error", 1)
		x.record(o.addr, vf16In{Kind: "read", API: api}, vf16Out{Res: "notfound", Err: err.Error()}, call, ret, cl)
	}
}

// flush: explicit flush + the "after a flush the object is in blob storage" oracle.
func (x *vf16Round) flush() {
	x.shMu.RLock()
	defer x.shMu.RUnlock()
	call := vf16Clock.Add(1)
	var err error
	x.flushGate.Lock()
	panicked := x.r.Guard(x.desc, func() { err = x.sh.FlushWriteCache(false) })
	x.flushGate.Unlock()
	if panicked {
		return
	}
	if err != nil {
		if vf16IsModeErr(err) {
			x.r.Count("flushes_refused_by_mode", 1)
		} else {
			x.r.Count("flushes_failed", 1)
		}
		return
	}
	x.r.Count("flushes_ok", 1)
	// Bound by the statement: objects with a cached put acknowledged before the flush was
	// called that are not deleted: nobody ever deletes them, or (re-created objects) no delete
	// overlapped or followed that put up to the end of the comparison.
	type mustT struct {
		o  *vf16Obj
		dc int
		sp vf16Stable
	}
	x.mu.Lock()
	var must []mustT
	for _, o := range x.objs {
		if st, ok := x.acked[o.addr]; ok && st < call && !o.del {
			must = append(must, mustT{o: o, dc: -1})
		} else if sp, ok := x.stable[o.addr]; ok && o.del && sp.ret < call && x.delCalls[o.addr] == sp.dc {
			must = append(must, mustT{o: o, dc: sp.dc, sp: sp})
		}
	}
	x.mu.Unlock()
	for _, mu := range must {
		o := mu.o
		b, gerr := x.blob.FSTree.GetBytes(o.addr)
		kind := "never-deleted"
		if mu.dc >= 0 {
			x.mu.Lock()
			same := x.delCalls[o.addr] == mu.dc
			x.mu.Unlock()
			if !same {
				continue // a delete was called meanwhile: the statement no longer binds
			}
			kind = "not-deleted-since-its-put"
			if mu.dc > 0 {
				kind = "put-again-after-delete"
				if gerr != nil && x.staleFlush(o.addr, mu.sp.call, mu.sp.ret) {
					kind += "|" + vf16StaleKey
				}
			}
		}
		switch {
		case gerr != nil:
			x.r.Violation("flush-ok-but-object-not-in-blobstor|"+kind, fmt.Sprintf("round %d: FlushWriteCache returned nil but %s (put through the cache acknowledged before the flush, %s) is not in the blobstor: %v", x.idx, o.addr, kind, gerr), x.desc)
		case !bytes.Equal(b, o.bin):
			x.r.Violation("flush-ok-but-blobstor-bytes-differ|"+kind, fmt.Sprintf("round %d: after flush %s has %d bytes in the blobstor, %d were put", x.idx, o.addr, len(b), len(o.bin)), x.desc)
		default:
			x.r.Count("objects_verified_in_blobstor_after_flush", 1)
			if mu.dc > 0 {
				x.r.Count("recreated_objects_verified_in_blobstor_after_flush", 1)
			}
		}
	}
}

// phase is the phase-aligned client.  It runs on the goroutine of a background flush worker,
// at the two moments the blobstor sees of a flush batch: ph 0 = the batch was read from the
// cache and is about to be written, ph 1 = it was written and its cached copies are about to
// be removed.  After a batch write it deletes a few acknowledged objects (preferably the ones
// the scheduler flushes next: the next sizes in ascending order); before a later batch write
// it puts them again.  That gives every order of "object removed / re-created" against
// "batch composed / read / written / cleaned up" for addresses that sit in the flush
// pipeline - with the ordinary client calls Shard.Delete and Shard.Put.
// To stay clear of self-deadlock (the worker holds the cache's mode lock for reading) it
// steps aside whenever a mode switch, an explicit flush or a restart is running or waiting.
func (x *vf16Round) phase(ph int, m map[oid.Address][]byte, entered int64) {
	if !x.phaseOn.Load() {
		return
	}
	if !x.shMu.TryRLock() {
		return
	}
	defer x.shMu.RUnlock()
	if !x.modeGate.TryRLock() {
		return
	}
	defer x.modeGate.RUnlock()
	if !x.flushGate.TryRLock() {
		return
	}
	defer x.flushGate.RUnlock()
	x.phMu.Lock()
	defer x.phMu.Unlock()
	if !x.phaseOn.Load() {
		return
	}
	x.r.Count("phase_client_steps", 1)
	if ph == 0 {
		keep := x.pending[:0]
		for _, p := range x.pending {
			if p.hold--; p.hold > 0 {
				keep = append(keep, p)
				continue
			}
			x.r.Count("phase_client_puts_again_while_a_batch_is_written", 1)
			x.putNL(p.o, x.phCl)
		}
		x.pending = keep
		return
	}
	const maxPending = 6
	if len(x.pending) >= maxPending {
		return
	}
	// the largest object of all batches being written now: what the scheduler hands over
	// next is larger
	mx := 0
	x.blob.wmu.Lock()
	for _, v := range x.blob.inflight {
		mx = max(mx, v)
	}
	x.blob.wmu.Unlock()
	type candT struct {
		o      *vf16Obj
		cached bool // harness guess: its latest cached put is younger than every blobstor write of it and older than this batch
	}
	var cand []candT
	x.mu.Lock()
	for _, o := range x.objs {
		if o.del && x.live[o.addr] {
			cand = append(cand, candT{o: o, cached: true})
		}
	}
	for i := range cand {
		putRet := x.stable[cand[i].o.addr].ret
		if putRet > entered {
			cand[i].cached = false
		}
		for _, w := range x.blob.writesOf(cand[i].o.addr) {
			if w.ok && w.end > putRet {
				cand[i].cached = false
			}
		}
	}
	x.mu.Unlock()
	sort.SliceStable(cand, func(i, j int) bool { return len(cand[i].o.bin) < len(cand[j].o.bin) })
	next := 0
	for _, c := range cand {
		o := c.o
		_, inBatch := m[o.addr]
		pick := false
		switch {
		case inBatch:
			pick = x.phRng.IntN(6) == 0
		case c.cached && len(o.bin) >= mx && next < 2: // next in the flush order
			next++
			pick = x.phRng.IntN(6) != 0
		default:
			pick = x.phRng.IntN(8) == 0
		}
		if !pick || len(x.pending) >= maxPending {
			continue
		}
		x.r.Count("phase_client_deletes_after_a_batch_was_written", 1)
		x.delNL(o, x.phCl)
		hold := 1
		if x.phRng.IntN(4) == 0 {
			hold = 2
		}
		x.pending = append(x.pending, &vf16Pending{o: o, hold: hold})
	}
}

// staleFlush tells whether the loss of an object after its cached put [pCall,pRet] can be the
// work of a flush of an OLDER copy of the address: the flush wrote the address to the
// blobstor, a delete that finished after that write began (so it could remove the written
// copy) was called before the put returned, and the flush had not finished removing cached
// copies when the put was called (so it could remove the new one).
func (x *vf16Round) staleFlush(a oid.Address, pCall, pRet int64) bool {
	var dels [][2]int64
	x.mu.Lock()
	for _, op := range x.ops {
		if op.addr == a && op.op.Input.(vf16In).Kind == "delete" {
			dels = append(dels, [2]int64{op.op.Call, op.op.Return})
		}
	}
	x.mu.Unlock()
	for _, w := range x.blob.writesOf(a) {
		if !w.ok || w.direct.Load() || w.start > pRet {
			continue
		}
		if c := w.cleaned.Load(); c != 0 && c < pCall {
			continue
		}
		for _, d := range dels {
			if d[1] > w.start && d[0] < pRet {
				return true
			}
		}
	}
	return false
}

const vf16StaleKey = "older-copy-flush-cleans-up-after-delete-and-put-again"

// phaseStop disarms the phase-aligned client and puts back what it still holds.
func (x *vf16Round) phaseStop() {
	x.phaseOn.Store(false)
	x.phMu.Lock()
	pend := x.pending
	x.pending = nil
	x.phMu.Unlock()
	for _, p := range pend {
		x.put(p.o, x.phCl)
	}
}

func (x *vf16Round) setMode(m mode.Mode) {
	x.shMu.RLock()
	defer x.shMu.RUnlock()
	var err error
	x.modeGate.Lock()
	x.r.Guard(x.desc, func() { err = x.sh.SetMode(m) })
	x.modeGate.Unlock()
	if err != nil {
		x.r.Count("mode_switch_errors", 1)
	} else {
		x.r.Count("mode_switches", 1)
		x.r.Seen("modes_entered", m.String())
	}
}

func (x *vf16Round) restart() bool {
	x.shMu.Lock()
	defer x.shMu.Unlock()
	var err error
	x.r.Guard(x.desc, func() {
		if err = x.sh.Close(); err == nil {
			err = x.open()
		}
	})
	if err != nil {
		x.r.Inconclusive(fmt.Sprintf("round %d: restart failed: %v", x.idx, err))
		return false
	}
	x.r.Count("restarts", 1)
	return true
}

// judge checks the recorded history of every address against the register model.
func (x *vf16Round) judge() {
	r, idx := x.r, x.idx
	byAddr := map[oid.Address][]porcupine.Operation{}
	for _, op := range x.ops {
		byAddr[op.addr] = append(byAddr[op.addr], op.op)
	}
	for a, h := range byAddr {
		// The statement starts to bind when a put has RETURNED.  While a put is in flight the
		// object may already be visible through one path (cache) and not yet through another
		// (metadata written last), so a "found" that overlaps a put of the same address says
		// nothing about the register: it is left out (a "not found" stays: it must then be
		// explainable by an order in which no acknowledged cached put precedes it).
		var puts [][2]int64
		for _, op := range h {
			if op.Input.(vf16In).Kind == "put" {
				puts = append(puts, [2]int64{op.Call, op.Return})
			}
		}
		kept := h[:0:0]
		for _, op := range h {
			drop := false
			if op.Input.(vf16In).Kind == "read" && op.Output.(vf16Out).Res == "found" {
				for _, p := range puts {
					if op.Call <= p[1] && op.Return >= p[0] {
						drop = true
					}
				}
			}
			if drop {
				r.Count("reads_found_during_inflight_put_not_judged", 1)
			} else {
				kept = append(kept, op)
			}
		}
		h = kept
		res, info := porcupine.CheckOperationsVerbose(vf16Model, h, 60*time.Second)
		r.Count("histories_checked", 1)
		r.Max("longest_history_ops", int64(len(h)))
		switch res {
		case porcupine.Ok:
			r.Count("histories_linearizable", 1)
		case porcupine.Unknown:
			r.Inconclusive(fmt.Sprintf("round %d: history checker timed out on %s (%d ops)", idx, a, len(h)))
		default:
			_ = info
			sort.Slice(h, func(i, j int) bool { return h[i].Call < h[j].Call })
			var lines []string
			bad := ""
			for _, op := range h {
				in, out := op.Input.(vf16In), op.Output.(vf16Out)
				lines = append(lines, fmt.Sprintf("[%d,%d] c%d %s%s -> %s %s", op.Call, op.Return, op.ClientId, in.Kind, map[bool]string{true: "/" + in.API, false: ""}[in.API != ""], out.Res, out.Err))
				if in.Kind == "read" && out.Res == "notfound" && bad == "" {
					bad = in.API
				}
			}
			x.mu.Lock()
			_, deleted := x.delCall[a]
			x.mu.Unlock()
			// The first "not found" that follows an acknowledged cached put which no delete
			// overlaps or follows, and what the blobstor saw of the address around that put:
			// tells "the cache dropped a copy that never went to the blobstor" from "a flush
			// of an older copy removed the new one" from "a flushed copy disappeared".
			wr, stale := "no-unexcused-not-found", false
		find:
			for _, rd := range h {
				if rd.Input.(vf16In).Kind != "read" || rd.Output.(vf16Out).Res != "notfound" {
					continue
				}
				var p *porcupine.Operation
				for i := range h {
					if h[i].Input.(vf16In).Kind == "put" && h[i].Output.(vf16Out).Res == "ok-cached" && h[i].Return < rd.Call && (p == nil || h[i].Call > p.Call) {
						p = &h[i]
					}
				}
				if p == nil {
					continue
				}
				for _, d := range h {
					if d.Input.(vf16In).Kind == "delete" && d.Return > p.Call && d.Call < rd.Return {
						continue find
					}
				}
				bad = rd.Input.(vf16In).API
				stale = x.staleFlush(a, p.Call, p.Return)
				wr = "not-written-to-blobstor-since-that-put"
				for _, w := range x.blob.writesOf(a) {
					if w.ok && w.start > p.Call && w.start < rd.Call {
						wr = "written-to-blobstor-since-that-put"
					}
				}
				break
			}
			key := fmt.Sprintf("history-not-linearizable|read=%s|deleted-in-history=%v|%s", bad, deleted, wr)
			if stale {
				key = "history-not-linearizable|" + vf16StaleKey
			}
			r.Violation(key, fmt.Sprintf("round %d: no order of the calls on %s explains the answers: an object put through the write-cache was not readable (or an object appeared that nobody put)", idx, a),
				map[string]any{"round": x.desc, "address": a.String(), "history": lines})
		}
	}
}

func vf16RunRound(r *verifkit.Run, idx int) {
	rng := r.Rand("round", idx)
	base := os.Getenv("VERIF_SCRATCH")
	if base == "" {
		base = os.TempDir()
	}
	dir, err := os.MkdirTemp(base, fmt.Sprintf("c16-%d-", idx))
	if err != nil {
		r.Inconclusive(err.Error())
		return
	}
	defer os.RemoveAll(dir)
	thr := uint64(1024 << rng.IntN(2))
	workers, bcount := 1+rng.IntN(3), 2+rng.IntN(4)
	maxSize := uint64(24<<10) << rng.IntN(4) // small caches overflow: some puts bypass the cache
	failP := []int32{0, 0, 300, 600}[rng.IntN(4)]
	phaseClient := rng.IntN(4) != 0
	x := &vf16Round{r: r, idx: idx, dir: dir, acked: map[oid.Address]int64{}, delCall: map[oid.Address]int64{},
		delCalls: map[oid.Address]int{}, delRets: map[oid.Address]int{}, stable: map[oid.Address]vf16Stable{}, live: map[oid.Address]bool{},
		phRng: rand.New(rand.NewPCG(rng.Uint64(), rng.Uint64())),
		blob:  &vf16Blob{rng: rand.New(rand.NewPCG(rng.Uint64(), rng.Uint64()))},
		wcOpts: []writecache.Option{writecache.WithFlushWorkersCount(workers), writecache.WithMaxFlushBatchThreshold(thr),
			writecache.WithMaxFlushBatchCount(bcount), writecache.WithMaxFlushBatchSize(thr * uint64(2+rng.IntN(4))), writecache.WithMaxCacheSize(maxSize)}}
	x.desc = map[string]any{"round": idx, "workers": workers, "batch_threshold": thr, "batch_count": bcount, "max_cache_size": maxSize, "blob_fail_permille": failP, "phase_aligned_client": phaseClient}
	x.phCl = int(x.clientID.Add(1))
	x.workers = workers
	if phaseClient {
		f := x.phase
		x.blob.onBatch.Store(&f)
	}
	if err := x.open(); err != nil {
		r.Inconclusive("open: " + err.Error())
		return
	}
	cnr, owner := verifkit.RandCID(rng), verifkit.RandUser(rng)
	nObj := 28 + rng.IntN(16)
	for i := 0; i < nObj; i++ {
		var pl int
		switch rng.IntN(6) {
		case 0:
			pl = int(thr) - 220 + rng.IntN(60) // marshalled size around the batch threshold
		case 1, 2, 3, 4:
			pl = 16 + rng.IntN(400)
		default:
			pl = int(thr)*2 + rng.IntN(int(thr))
		}
		ob := verifkit.NewObject(rng, cnr, owner, pl)
		x.objs = append(x.objs, &vf16Obj{obj: ob, bin: ob.Marshal(), addr: verifkit.Addr(ob), del: i%2 == 1})
	}
	segments := 2 + rng.IntN(2)
	for seg := 0; seg < segments; seg++ {
		var wg sync.WaitGroup
		client := func(f func(crng *rand.Rand, cl int)) {
			crng := rand.New(rand.NewPCG(rng.Uint64(), rng.Uint64()))
			cl := int(x.clientID.Add(1))
			wg.Add(1)
			go func() { defer wg.Done(); f(crng, cl) }()
		}
		pause := func(crng *rand.Rand, maxMs int) { time.Sleep(time.Duration(crng.IntN(maxMs*1000)) * time.Microsecond) }
		x.phaseOn.Store(phaseClient)
		// putters: each owns a slice of the universe; repeats allowed
		nPut := 2 + rng.IntN(2)
		for p := 0; p < nPut; p++ {
			client(func(crng *rand.Rand, cl int) {
				for i := p; i < len(x.objs); i += nPut {
					if seg > 0 && crng.IntN(3) != 0 {
						continue // later segments re-put only some (also re-creates deleted ones)
					}
					x.put(x.objs[i], cl)
					if crng.IntN(5) == 0 {
						x.put(x.objs[i], cl)
					}
					pause(crng, 280) // spread over several flush ticks
				}
			})
		}
		// churn: acknowledged small objects are put again all along the segment, so that every
		// flush tick finds something to batch (a repeated put goes through the cache again)
		for ch := 0; ch < 2; ch++ {
			client(func(crng *rand.Rand, cl int) {
				for i := 0; i < 60; i++ {
					pause(crng, 80)
					o := x.objs[crng.IntN(len(x.objs))]
					x.mu.Lock()
					_, ack := x.acked[o.addr]
					gone := o.del && !x.live[o.addr]
					x.mu.Unlock()
					if ack && !gone && len(o.bin) <= int(thr) {
						x.r.Count("churn_puts", 1)
						x.put(o, cl)
					}
				}
			})
		}
		// readers
		apis := []string{"Get", "GetBytes", "GetStream", "GetBytesWithMetadataLookup"}
		for rd := 0; rd < 3; rd++ {
			client(func(crng *rand.Rand, cl int) {
				for i := 0; i < 110; i++ {
					x.read(x.objs[crng.IntN(len(x.objs))], apis[crng.IntN(len(apis))], cl)
					pause(crng, 40)
				}
			})
		}
		// deleter
		client(func(crng *rand.Rand, cl int) {
			for i := 0; i < 14; i++ {
				pause(crng, 300)
				// only objects whose cached put was acknowledged are deleted ("until the object
				// is deleted"); deleting never-stored addresses is not part of this property
				o := x.objs[crng.IntN(len(x.objs))]
				x.mu.Lock()
				_, ack := x.acked[o.addr]
				x.mu.Unlock()
				if o.del && ack {
					x.del(o, cl)
					// half of the deleted objects are created again in the same run of the
					// shard, at once or a little later (background flushes of the removed
					// copy may still be anywhere between "scheduled" and "cleaned up")
					if crng.IntN(2) == 0 {
						if crng.IntN(2) == 0 {
							pause(crng, 40)
						}
						x.put(o, cl)
					}
				}
			}
		})
		// explicit flushes
		client(func(crng *rand.Rand, _ int) {
			for i := 0; i < 2; i++ {
				pause(crng, 2200)
				x.flush()
			}
		})
		// mode switches
		client(func(crng *rand.Rand, _ int) {
			for i := 0; i < 2; i++ {
				pause(crng, 1800)
				m := []mode.Mode{mode.ReadOnly, mode.ReadOnly, mode.DegradedReadOnly}[crng.IntN(3)]
				x.setMode(m)
				pause(crng, 150)
				x.setMode(mode.ReadWrite)
			}
		})
		// blobstor fault windows
		client(func(crng *rand.Rand, _ int) {
			for i := 0; i < 3 && failP > 0; i++ {
				pause(crng, 500)
				x.blob.failPermille.Store(failP)
				pause(crng, 900)
				x.blob.failPermille.Store(0)
			}
		})
		wg.Wait()
		x.blob.failPermille.Store(0)
		x.setMode(mode.ReadWrite)
		x.phaseStop()
		if seg < segments-1 && !x.restart() {
			return
		}
	}
	// final: everything acknowledged and never deleted must be readable now, after a restart,
	// and after a successful explicit flush it must be in the blobstor
	for pass := 0; pass < 2; pass++ {
		for _, o := range x.objs {
			x.mu.Lock()
			_, ack := x.acked[o.addr]
			x.mu.Unlock()
			if ack {
				x.read(o, []string{"Get", "GetStream"}[pass], 0)
			}
		}
		if pass == 0 {
			x.flush()
			if !x.restart() {
				return
			}
		}
	}
	x.r.Guard(x.desc, func() { _ = x.sh.Close() })

	x.judge()
	r.Count("cache_read_hits", int(x.wc.hits.Load()))
	r.Count("cache_read_misses_fell_back_to_blobstor", int(x.wc.misses.Load()))
	r.Count("cache_puts_refused_full", int(x.wc.putFull.Load()))
	r.Count("blobstor_writes_ok", int(x.blob.ok.Load()))
	r.Count("blobstor_writes_failed", int(x.blob.failed.Load()))
	if phaseClient {
		r.Count("rounds_with_phase_aligned_client", 1)
	}
	r.Count("blobstor_batch_writes", int(x.blob.batches.Load()))
	r.Count("blobstor_batch_write_objects", int(x.blob.batchObjs.Load()))
	r.Max("most_batch_writes_in_a_round", x.blob.batches.Load())
	r.Eval(1)
	r.Distinct(fmt.Sprintf("round|%d|w=%d|thr=%d|bc=%d|max=%d|fail=%d|ops=%d", idx, workers, thr, bcount, maxSize, failP, len(x.ops)))
	r.Sample(map[string]any{"round": x.desc, "objects": nObj, "segments": segments, "recorded_ops": len(x.ops)})
}

// vf16RunConstructed runs, alone and before the random rounds, the one order the random rounds
// reach only by luck: an object is deleted and put again exactly between "a background flush
// wrote it to the blobstor" and "the flush removes the cached copy" (the flush worker is held
// at that step point).  which: "batch" (two small objects flushed as a batch) or "single" (an
// object above the batch threshold flushed alone).  The calls are recorded and judged like in
// every other round.
func vf16RunConstructed(r *verifkit.Run, h *verifkit.Hooks, which string, idx int) {
	rng := r.Rand("constructed", idx)
	base := os.Getenv("VERIF_SCRATCH")
	if base == "" {
		base = os.TempDir()
	}
	dir, err := os.MkdirTemp(base, fmt.Sprintf("c16-constructed-%d-", idx))
	if err != nil {
		r.Inconclusive(err.Error())
		return
	}
	defer os.RemoveAll(dir)
	const thr = 1024
	x := &vf16Round{r: r, idx: idx, dir: dir, acked: map[oid.Address]int64{}, delCall: map[oid.Address]int64{},
		delCalls: map[oid.Address]int{}, delRets: map[oid.Address]int{}, stable: map[oid.Address]vf16Stable{}, live: map[oid.Address]bool{},
		phRng: rand.New(rand.NewPCG(1, 1)), workers: 1,
		blob: &vf16Blob{rng: rand.New(rand.NewPCG(1, 1))},
		wcOpts: []writecache.Option{writecache.WithFlushWorkersCount(1), writecache.WithMaxFlushBatchThreshold(thr),
			writecache.WithMaxFlushBatchCount(2), writecache.WithMaxFlushBatchSize(8 * thr), writecache.WithMaxCacheSize(1 << 20)}}
	x.desc = map[string]any{"round": idx, "constructed": "delete-and-put-again-between-" + which + "-flush-write-and-cache-cleanup", "workers": 1, "batch_threshold": thr, "batch_count": 2}
	x.phCl = int(x.clientID.Add(1))
	if err := x.open(); err != nil {
		r.Inconclusive("open: " + err.Error())
		return
	}
	closed := false
	defer func() {
		if !closed {
			x.r.Guard(x.desc, func() { _ = x.sh.Close() })
		}
	}()
	cnr, owner := verifkit.RandCID(rng), verifkit.RandUser(rng)
	sizes, point := []int{100, 200}, "writecache.flushBatch.stored"
	if which == "single" {
		sizes, point = []int{3 * thr}, "writecache.flushSingle.stored"
	}
	for _, pl := range sizes {
		ob := verifkit.NewObject(rng, cnr, owner, pl)
		x.objs = append(x.objs, &vf16Obj{obj: ob, bin: ob.Marshal(), addr: verifkit.Addr(ob), del: true})
	}
	done := h.Counts()["writecache.worker.done"]
	reached, release := h.PauseAt(point, h.Counts()[point]+1)
	defer release()
	for _, o := range x.objs {
		x.put(o, 1)
	}
	// the next flush tick hands the objects to the worker; it stops after the blobstor write
	if !verifkit.WaitOrTimeout(reached, 2*time.Minute) {
		r.Inconclusive(fmt.Sprintf("constructed %s: the background flush did not reach %s", which, point))
		return
	}
	o := x.objs[0]
	x.del(o, 2)
	x.put(o, 2)
	x.mu.Lock()
	_, again := x.stable[o.addr]
	again = again && x.live[o.addr] && x.delRets[o.addr] == 1
	x.mu.Unlock()
	release()
	for i := 0; h.Counts()["writecache.worker.done"] == done; i++ { // the flush finishes its clean-up
		if i > 60000 {
			r.Inconclusive(fmt.Sprintf("constructed %s: the flush worker did not finish", which))
			return
		}
		time.Sleep(2 * time.Millisecond)
	}
	if !again {
		r.Inconclusive(fmt.Sprintf("constructed %s: the object could not be deleted and put again through the cache", which))
		return
	}
	for _, api := range []string{"Get", "GetBytes", "GetStream", "GetBytesWithMetadataLookup"} {
		x.read(o, api, 3)
	}
	x.flush()
	if !x.restart() {
		return
	}
	x.read(o, "Get", 3)
	closed = true
	x.r.Guard(x.desc, func() { _ = x.sh.Close() })
	x.judge()
	r.Count("constructed_delete_and_put_again_inside_a_flush_"+which, 1)
	r.Eval(1)
	r.Distinct("constructed|" + which)
}

func TestVerif_C16(t *testing.T) {
	r := verifkit.Start(t, "C16", "exploration")
	defer r.Finish()
	r.SetRule("round = one real shard with write-cache (random workers/threshold/batch count/cache size/blobstor failure rate) driven by concurrent putters, churn putters (repeated puts), readers (4 read APIs), a deleter that puts half of the deleted objects again, explicit flushes, mode switches RW<->RO/degraded-RO, blobstor fault windows, 2-3 restarts and (3 rounds of 4) a phase-aligned client that deletes objects right after a background batch was written and puts them again right before a later batch is written; plus 2 constructed rounds (delete + put again while a flush is held between blobstor write and cache clean-up); distinct = round with its recorded history; non-trivial = reads overlapping background flushes (cache hits and fall-backs both observed), objects re-created around flush batches")
	r.Assume("puts issued while the shard is in a degraded (no-metabase) mode are not produced: docs/shard-modes.md declares writes in that mode unsupported")
	r.Assume("restarts happen between client calls (the process is not killed mid-call here; see C15)")
	h := verifkit.InstallHooks()
	defer h.Uninstall()
	// widen the windows between the steps of a flush / cache removal / shard put
	var hmu sync.Mutex
	hrng := r.Rand("hooks", 0)
	h.OnPoint(func(name string, _ int) {
		switch name {
		case "writecache.flushSingle.deleted", "writecache.worker.done":
			vf16FlushEnded()
			return
		}
		switch name {
		case "writecache.flushSingle.read", "writecache.flushSingle.stored", "writecache.flushBatch.read", "writecache.flushBatch.stored",
			"writecache.delete.file", "writecache.put.file", "shard.put.data", "shard.delete.wc", "shard.delete.meta":
			hmu.Lock()
			d := time.Duration(0)
			if hrng.IntN(3) == 0 {
				d = time.Duration(hrng.IntN(4000)) * time.Microsecond
			}
			hmu.Unlock()
			if d > 0 {
				time.Sleep(d)
			}
		}
	})
	vf16RunConstructed(r, h, "batch", -1)
	vf16RunConstructed(r, h, "single", -2)
	n := r.Pick(10, 150)
	par := r.Pick(5, 8)
	sem := make(chan struct{}, par)
	var wg sync.WaitGroup
	for i := 0; i < n; i++ {
		wg.Add(1)
		sem <- struct{}{}
		go func() {
			defer wg.Done()
			defer func() { <-sem }()
			vf16RunRound(r, i)
		}()
	}
	wg.Wait()
	cnt := h.Counts()
	for _, name := range []string{"writecache.flushSingle.stored", "writecache.flushBatch.stored", "writecache.worker.got", "shard.put.data", "shard.delete.meta"} {
		r.Count("hook_"+name, cnt[name])
	}
	if cnt["writecache.flushSingle.stored"]+cnt["writecache.flushBatch.stored"] == 0 {
		r.Inconclusive("no flush step point was hit (hooks H3 not compiled into this tree, or no flush happened)")
	}
	if r.Counter("phase_client_puts_again_while_a_batch_is_written") == 0 || r.Counter("puts_ok_through_cache_of_a_deleted_object") == 0 {
		r.Inconclusive("no object was deleted and created again around a background flush batch")
	}
	if r.Counter("cache_read_hits") == 0 || r.Counter("cache_read_misses_fell_back_to_blobstor") == 0 || r.Counter("reads_found_identical") == 0 {
		r.Inconclusive("reads did not observe both cache hits and fall-backs to the blobstor")
	}
}
