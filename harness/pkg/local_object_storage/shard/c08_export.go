//go:build verif

package shard

// Thin exporters for the C08 monitor (engine package): drive the shard's garbage
// collector synchronously and in logical steps.  No logic of their own.

// Verif08RunGC runs one synchronous pass of the GC ticker body (expired-object
// collection for the current epoch + removal of garbage-marked objects).
func (s *Shard) Verif08RunGC() { s.removeGarbage() }

// Verif08SetEpoch tells the shard's GC which epoch is current (what the new-epoch
// event handler stores before anything else).
func (s *Shard) Verif08SetEpoch(e uint64) { s.gc.currentEpoch.Store(e) }
