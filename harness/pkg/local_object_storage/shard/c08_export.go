//go:build verif

package shard

import (
	meta "github.com/nspcc-dev/neofs-node/pkg/local_object_storage/metabase"
	oid "github.com/nspcc-dev/neofs-sdk-go/object/id"
)

// Thin exporters for the C08 monitor (engine package): drive the shard's garbage
// collector synchronously and in logical steps.  No logic of their own.

// Verif08RunGC runs one synchronous pass of the GC ticker body (expired-object
// collection for the current epoch + removal of garbage-marked objects).
func (s *Shard) Verif08RunGC() { s.removeGarbage() }

// Verif08SetEpoch tells the shard's GC which epoch is current (what the new-epoch
// event handler stores before anything else).
func (s *Shard) Verif08SetEpoch(e uint64) { s.gc.currentEpoch.Store(e) }

// Verif08HasGarbageMark tells whether the shard's metabase keeps a garbage mark for
// the object, whatever overrides it for readers (a lock, expiration).  Diagnosis only.
func (s *Shard) Verif08HasGarbageMark(a oid.Address) (bool, error) {
	found := false
	err := s.metaBase.IterateOverGarbage(func(id oid.ID) error {
		if id == a.Object() {
			found = true
			return meta.ErrInterruptIterator
		}
		return nil
	}, a.Container(), oid.ID{})
	return found, err
}
