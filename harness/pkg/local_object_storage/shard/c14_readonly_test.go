//go:build verif

package shard

import (
	"bytes"
	"context"
	"crypto/sha256"
	"encoding/binary"
	"encoding/hex"
	"errors"
	"fmt"
	"io"
	"io/fs"
	"math/rand/v2"
	"os"
	"path/filepath"
	"sort"
	"sync"
	"sync/atomic"
	"testing"
	"time"

	"github.com/nspcc-dev/bbolt"
	"github.com/nspcc-dev/neofs-node/internal/verifkit"
	"github.com/nspcc-dev/neofs-node/pkg/local_object_storage/blobstor/fstree"
	meta "github.com/nspcc-dev/neofs-node/pkg/local_object_storage/metabase"
	"github.com/nspcc-dev/neofs-node/pkg/local_object_storage/shard/mode"
	"github.com/nspcc-dev/neofs-node/pkg/local_object_storage/writecache"
	cid "github.com/nspcc-dev/neofs-sdk-go/container/id"
	"github.com/nspcc-dev/neofs-sdk-go/object"
	oid "github.com/nspcc-dev/neofs-sdk-go/object/id"
	"go.uber.org/zap"
)

// ---------------------------------------------------------------------------------------
// C14: while a shard is read-only / degraded-read-only nothing changes its stored objects,
// metadata or write-cache contents; every modifying request fails with a mode error; reads
// keep working.
//
// Oracle: (1) a persisted-state snapshot (every file of the blob storage and write-cache
// trees by relative path, size and SHA-256; every bucket/key/value of the metabase read
// through an independent read-only bbolt handle) taken right after the mode switch must
// equal the snapshot taken after EVERY later step; (2) every modifying request must return
// the shard's mode error; (3) objects that were plainly available before the switch stay
// readable with identical bytes, never-stored addresses stay unreadable.
//
// The read-only period is entered in every way a shard gets there: (a) SetMode at run time,
// (b) start-up of a stopped shard with the mode given in its configuration (shard.WithMode +
// Open + Init, what `mode: read-only` of the node config does), (c) a run-time entry followed
// by an attempt to return to read-write that an injected component failure aborts (the shard
// keeps reporting the read-only mode).  Before the period starts the GC backlog is staged in
// read-write: untouched, one pass done, a removed container whose objects are already gone
// while its record is still pending, or fully drained.
// ---------------------------------------------------------------------------------------

type vf14Epoch struct{ v atomic.Uint64 }

func (e *vf14Epoch) CurrentEpoch() uint64 { return e.v.Load() }

type vf14Payments struct {
	mu      sync.Mutex
	unpaid  map[cid.ID]int64
	entered chan struct{}
	asked   atomic.Int64
}

func (p *vf14Payments) PaymentsDisabled() bool {
	p.mu.Lock()
	ch := p.entered
	p.mu.Unlock()
	if ch != nil {
		select {
		case ch <- struct{}{}:
		default:
		}
	}
	return false
}

func (p *vf14Payments) UnpaidSince(id cid.ID) (int64, error) {
	p.asked.Add(1)
	p.mu.Lock()
	defer p.mu.Unlock()
	if v, ok := p.unpaid[id]; ok {
		return v, nil
	}
	return -1, nil
}

type vf14Env struct {
	dir     string
	sh      *Shard
	fst     *fstree.FSTree
	depth   uint64
	wc      bool
	epoch   *vf14Epoch
	pay     *vf14Payments
	expired atomic.Int64 // expired-objects callback invocations
}

func vf14New(dir string, rng *rand.Rand, withWC bool, realTimer bool) (*vf14Env, error) {
	env := &vf14Env{dir: dir, wc: withWC, epoch: &vf14Epoch{}, pay: &vf14Payments{unpaid: map[cid.ID]int64{}}}
	env.depth = uint64(1 + rng.IntN(2))
	return env, env.open(realTimer)
}

// open builds a Shard instance over the case directory and starts it the way the node does
// (New + Open + Init); extra carries the configured mode of a restart.
func (env *vf14Env) open(realTimer bool, extra ...Option) error {
	dir, withWC := env.dir, env.wc
	env.fst = fstree.New(fstree.WithPath(filepath.Join(dir, "blob")), fstree.WithDepth(env.depth), fstree.WithNoSync(true))
	gcInt := time.Hour
	if realTimer {
		gcInt = 3 * time.Millisecond
	}
	env.sh = New(append([]Option{
		WithLogger(zap.NewNop()),
		WithBlobstor(env.fst),
		WithMetaBaseOptions(
			meta.WithPath(filepath.Join(dir, "meta", "meta.db")),
			meta.WithEpochState(env.epoch),
			meta.WithLogger(zap.NewNop()),
			meta.WithBoltDBOptions(&bbolt.Options{NoSync: true}),
			meta.WithMaxBatchDelay(time.Microsecond),
		),
		WithWriteCache(withWC),
		WithWriteCacheOptions(
			writecache.WithPath(filepath.Join(dir, "wcache")),
			writecache.WithLogger(zap.NewNop()),
			writecache.WithNoSync(true),
		),
		WithGCRemoverSleepInterval(gcInt),
		WithRemoverBatchSize(3),
		WithContainerPayments(env.pay),
		WithExpiredObjectsCallback(func([]oid.Address) { env.expired.Add(1) }),
	}, extra...)...)
	if err := env.sh.Open(); err != nil {
		return err
	}
	if err := env.sh.Init(); err != nil {
		_ = env.sh.Close()
		return err
	}
	return nil
}

// ---- persisted-state snapshot ----

type vf14Snap struct {
	files map[string]string // relative path -> "size:sha256"
	meta  map[string]string // "bucket/path" -> hash over its sorted key/value pairs
	nKV   int
	own   bool // metabase read through the shard's own (writable) handle
}

func vf14WalkFiles(root, prefix string, out map[string]string) error {
	return filepath.WalkDir(root, func(p string, d fs.DirEntry, err error) error {
		if err != nil {
			if errors.Is(err, fs.ErrNotExist) {
				return nil
			}
			return err
		}
		rel, _ := filepath.Rel(root, p)
		if d.IsDir() {
			out[prefix+rel+"/"] = "dir"
			return nil
		}
		b, err := os.ReadFile(p)
		if err != nil {
			return err
		}
		h := sha256.Sum256(b)
		out[prefix+rel] = fmt.Sprintf("%d:%s", len(b), hex.EncodeToString(h[:8]))
		return nil
	})
}

func vf14DumpBucket(b *bbolt.Bucket, path string, out map[string]string, n *int) error {
	h := sha256.New()
	err := b.ForEach(func(k, v []byte) error {
		if v == nil {
			if nb := b.Bucket(k); nb != nil {
				return vf14DumpBucket(nb, path+"/"+hex.EncodeToString(k), out, n)
			}
		}
		var l [8]byte
		binary.LittleEndian.PutUint32(l[:4], uint32(len(k)))
		binary.LittleEndian.PutUint32(l[4:], uint32(len(v)))
		h.Write(l[:])
		h.Write(k)
		h.Write(v)
		*n++
		return nil
	})
	out[path] = hex.EncodeToString(h.Sum(nil)[:8])
	return err
}

func (env *vf14Env) snapshot() (*vf14Snap, error) {
	s := &vf14Snap{files: map[string]string{}, meta: map[string]string{}}
	if err := vf14WalkFiles(filepath.Join(env.dir, "blob"), "blob/", s.files); err != nil {
		return nil, fmt.Errorf("walk blob storage: %w", err)
	}
	if err := vf14WalkFiles(filepath.Join(env.dir, "wcache"), "wcache/", s.files); err != nil {
		return nil, fmt.Errorf("walk write-cache: %w", err)
	}
	// the metabase directory must hold the same files too (no stray journal/copy)
	names, _ := os.ReadDir(filepath.Join(env.dir, "meta"))
	for _, n := range names {
		s.files["meta/"+n.Name()] = "present"
	}
	dump := func(tx *bbolt.Tx) error {
		return tx.ForEach(func(name []byte, b *bbolt.Bucket) error {
			return vf14DumpBucket(b, hex.EncodeToString(name), s.meta, &s.nKV)
		})
	}
	// A metabase the shard holds opened WRITABLE (start-up with a configured read-only mode,
	// aborted return to read-write) keeps an exclusive file lock: its committed content is
	// read in a read transaction of that very handle.  Otherwise (handle opened read-only or
	// closed) an independent read-only handle is used.
	if writable, open, verr := env.sh.metaBase.Verif14View(dump); open && writable && verr == nil {
		s.own = true
		return s, nil
	}
	s.meta, s.nKV = map[string]string{}, 0
	db, err := bbolt.Open(filepath.Join(env.dir, "meta", "meta.db"), 0o600, &bbolt.Options{ReadOnly: true, Timeout: 60 * time.Second})
	if err != nil {
		return nil, fmt.Errorf("independent read-only open of the metabase: %w", err)
	}
	defer db.Close()
	return s, db.View(dump)
}

// vf14Change is one changed component of the persisted state.
type vf14Change struct {
	comp   string // blobstor | write-cache | metabase-dir | metabase
	shape  string // what happened to its entries: removed/added/modified (joined by '+')
	detail string
}

// vf14Diff compares two snapshots component by component (a change of one component never
// hides a change of another one).
func vf14Diff(a, b *vf14Snap) []vf14Change {
	diffMap := func(x, y map[string]string, prefix, unit string) (string, string) {
		var d []string
		kinds := map[string]bool{}
		for k, v := range x {
			if len(k) < len(prefix) || k[:len(prefix)] != prefix {
				continue
			}
			if w, ok := y[k]; !ok {
				d = append(d, "-"+k)
				kinds[unit+"-removed"] = true
			} else if w != v {
				d = append(d, "~"+k)
				kinds[unit+"-modified"] = true
			}
		}
		for k := range y {
			if len(k) < len(prefix) || k[:len(prefix)] != prefix {
				continue
			}
			if _, ok := x[k]; !ok {
				d = append(d, "+"+k)
				kinds[unit+"-added"] = true
			}
		}
		if len(d) == 0 {
			return "", ""
		}
		sort.Strings(d)
		if len(d) > 6 {
			d = append(d[:6], fmt.Sprintf("...(%d more)", len(d)-6))
		}
		var ks []string
		for k := range kinds {
			ks = append(ks, k)
		}
		sort.Strings(ks)
		shape := ""
		for i, k := range ks {
			if i > 0 {
				shape += "+"
			}
			shape += k
		}
		return shape, fmt.Sprint(d)
	}
	var out []vf14Change
	for _, c := range [][2]string{{"blob/", "blobstor"}, {"wcache/", "write-cache"}, {"meta/", "metabase-dir"}} {
		if sh, d := diffMap(a.files, b.files, c[0], "files"); sh != "" {
			out = append(out, vf14Change{c[1], sh, d})
		}
	}
	if sh, d := diffMap(a.meta, b.meta, "", "buckets"); sh != "" {
		out = append(out, vf14Change{"metabase", sh, d})
	}
	return out
}

// ---- universe ----

type vf14Obj struct {
	obj    *object.Object
	addr   oid.Address
	bin    []byte
	plain  bool // stored, no expiration, no tombstone, no garbage mark, container alive: must stay readable
	tombed bool // target of a stored tombstone (read-only mode must keep refusing it)
	note   string
}

func vf14IsModeErr(err error) bool {
	return errors.Is(err, ErrReadOnlyMode) || errors.Is(err, ErrDegradedMode)
}

func vf14ErrClass(err error) string {
	switch {
	case err == nil:
		return "nil"
	case errors.Is(err, ErrReadOnlyMode):
		return "shard-read-only"
	case errors.Is(err, ErrDegradedMode):
		return "shard-degraded"
	case errors.Is(err, errWriteCacheDisabled):
		return "write-cache-disabled"
	default:
		s := err.Error()
		if len(s) > 60 {
			s = s[:60]
		}
		return "other:" + s
	}
}

func vf14Frame(objs ...*object.Object) []byte {
	out := []byte("NEOF")
	for _, o := range objs {
		b := o.Marshal()
		out = binary.LittleEndian.AppendUint32(out, uint32(len(b)))
		out = append(out, b...)
	}
	return out
}

func TestVerif_C14(t *testing.T) {
	r := verifkit.Start(t, "C14", "exploration")
	defer r.Finish()
	r.SetRule("case = shard (with/without write-cache, real 3 ms GC timer or manual GC passes) filled in read-write with plain, expiring, tombstoned, locked, garbage-marked objects, an inhumed and a long-unpaid container, unflushed write-cache content; then a sequence of 1..2 read-only modes (RO, DRO, RO->DRO, DRO->RO); in each mode 40..120 random steps (put/re-put/tombstone/lock, delete, mark default/redundant, container inhume/delete, restore, revive, flush, GC pass, epoch event via channel or direct, dump, reads); persisted-state snapshot compared with the one taken at mode entry after EVERY step; distinct = (mode, write-cache, step kind, outcome class)")
	r.Assume("metabase content is read through an independent read-only bbolt handle (shared flock) while the shard is read-only or degraded")
	r.Assume("mode error = errors.Is(err, shard.ErrReadOnlyMode) || errors.Is(err, shard.ErrDegradedMode)")

	nCases := r.Pick(12, 120)
	base := os.Getenv("VERIF_SCRATCH")
	if base == "" {
		base = t.TempDir()
	}
	root, err := os.MkdirTemp(base, "c14-")
	if err != nil {
		t.Fatal(err)
	}
	defer os.RemoveAll(root)
	owner := verifkit.RandUser(r.Rand("owner", 0))
	modeSeqs := [][]mode.Mode{{mode.ReadOnly}, {mode.DegradedReadOnly}, {mode.ReadOnly, mode.DegradedReadOnly}, {mode.DegradedReadOnly, mode.ReadOnly}}
	dwellLeft := r.Pick(2, 10)

	for ci := 0; ci < nCases; ci++ {
		rng := r.Rand("case", ci)
		withWC := ci%2 == 0
		realTimer := ci%3 == 0
		seq := modeSeqs[(ci/2)%len(modeSeqs)]
		dir := filepath.Join(root, fmt.Sprintf("case%d", ci))
		desc := map[string]any{"case": ci, "write_cache": withWC, "real_gc_timer": realTimer, "modes": fmt.Sprint(seq)}
		env, err := vf14New(dir, rng, withWC, realTimer)
		if err != nil {
			r.Inconclusive(fmt.Sprintf("case %d: build shard: %v", ci, err))
			return
		}
		sh := env.sh
		stop := func() { _ = sh.Close(); _ = os.RemoveAll(dir) }

		// ---- fill in read-write ----
		cnrs := []cid.ID{verifkit.RandCID(rng), verifkit.RandCID(rng), verifkit.RandCID(rng)}
		cnrGone, cnrUnpaid := verifkit.RandCID(rng), verifkit.RandCID(rng)
		var uni []*vf14Obj
		put := func(o *object.Object) bool {
			if err := sh.Put(o, nil); err != nil {
				r.Inconclusive(fmt.Sprintf("case %d: fill put failed: %v", ci, err))
				return false
			}
			return true
		}
		newObj := func(cnr cid.ID) *object.Object {
			sz := []int{0, 1 + rng.IntN(100), 1 + rng.IntN(3000), 1 + rng.IntN(40000), 100000 + rng.IntN(100000)}[rng.IntN(5)]
			return verifkit.NewObject(rng, cnr, owner, sz)
		}
		okFill := true
		add := func(o *object.Object, plain bool, note string) *vf14Obj {
			u := &vf14Obj{obj: o, addr: o.Address(), bin: o.Marshal(), plain: plain, note: note}
			uni = append(uni, u)
			if !put(o) {
				okFill = false
			}
			return u
		}
		for i, n := 0, 6+rng.IntN(6); i < n && okFill; i++ {
			add(newObj(cnrs[rng.IntN(len(cnrs))]), true, "plain")
		}
		for i := 0; i < 2 && okFill; i++ { // expiring later / already expired once the epoch advances
			o := newObj(cnrs[0])
			verifkit.SetExpiration(o, uint64(1+rng.IntN(4)))
			add(o, false, "expiring")
		}
		var tombTargets, lockTargets, garbage []*vf14Obj
		for i := 0; i < 2 && okFill; i++ {
			tg := add(newObj(cnrs[1]), false, "tombstoned")
			tg.tombed = true
			tombTargets = append(tombTargets, tg)
			ts := verifkit.NewObject(rng, cnrs[1], owner, 0)
			ts.AssociateDeleted(tg.addr.Object())
			verifkit.SetExpiration(ts, uint64(2+rng.IntN(6)))
			add(ts, false, "tombstone")
		}
		for i := 0; i < 2 && okFill; i++ {
			tg := add(newObj(cnrs[2]), true, "locked")
			lockTargets = append(lockTargets, tg)
			lk := verifkit.NewObject(rng, cnrs[2], owner, 0)
			lk.AssociateLocked(tg.addr.Object())
			verifkit.SetExpiration(lk, uint64(3+rng.IntN(6)))
			add(lk, false, "lock")
		}
		for i := 0; i < 2 && okFill; i++ {
			add(newObj(cnrGone), false, "in-removed-container")
			add(newObj(cnrUnpaid), true, "in-unpaid-container")
		}
		if !okFill {
			stop()
			return
		}
		if err := sh.InhumeContainer(cnrGone); err != nil {
			r.Inconclusive("fill: inhume container: " + err.Error())
			stop()
			return
		}
		env.pay.mu.Lock()
		env.pay.unpaid[cnrUnpaid] = 0 // long unpaid from the point of view of every epoch >= 3
		env.pay.mu.Unlock()
		if withWC && rng.IntN(2) == 0 {
			_ = sh.FlushWriteCache(false)
		}
		// late content: stays in the write-cache / stays garbage-marked when the mode flips
		for i := 0; i < 3; i++ {
			add(newObj(cnrs[rng.IntN(len(cnrs))]), true, "late-plain")
		}
		for i := 0; i < 4; i++ {
			g := add(newObj(cnrs[0]), false, "garbage-marked")
			garbage = append(garbage, g)
		}
		if !okFill {
			stop()
			return
		}
		for i, g := range garbage {
			mk := meta.GarbageMarkDefault
			if i%2 == 1 {
				mk = meta.GarbageMarkRedundant
			}
			if err := sh.MarkGarbage(g.addr.Container(), []oid.ID{g.addr.Object()}, mk); err != nil {
				r.Inconclusive("fill: mark garbage: " + err.Error())
				stop()
				return
			}
		}
		never := []oid.Address{oid.NewAddress(cnrs[0], verifkit.RandOID(rng)), oid.NewAddress(verifkit.RandCID(rng), verifkit.RandOID(rng))}

		violated := false
		for phase, m := range seq {
			if violated {
				break
			}
			var serr error
			if r.Guard(desc, func() { serr = sh.SetMode(m) }) {
				violated = true
				break
			}
			if serr != nil {
				// a refused/failed transition is C43's subject; nothing to monitor in this mode
				r.Count("mode_switch_errors", 1)
				r.Seen("mode_switch_error_texts", fmt.Sprintf("%v->%v: %s", sh.GetMode(), m, vf14ErrClass(serr)))
				break
			}
			if sh.GetMode() != m {
				r.Inconclusive(fmt.Sprintf("case %d: SetMode(%s) returned nil but shard reports %s", ci, m, sh.GetMode()))
				break
			}
			s0, err := env.snapshot()
			if err != nil {
				r.Inconclusive(fmt.Sprintf("case %d: snapshot: %v", ci, err))
				break
			}
			r.Count("snapshots_files", len(s0.files))
			r.Count("snapshots_meta_kv", s0.nKV)
			nWC := 0
			for k := range s0.files {
				if len(k) > 7 && k[:7] == "wcache/" && k[len(k)-1] != '/' {
					nWC++
				}
			}
			if nWC > 0 {
				r.Count("mode_entries_with_unflushed_cache_files", 1)
			}
			r.Eval(1)

			nSteps := 40 + rng.IntN(r.Pick(40, 80))
			var trace []string
			for step := 0; step < nSteps && !violated; step++ {
				kind, class := "", ""
				var opErr error
				modifying := true
				pick := uni[rng.IntN(len(uni))]
				stepDesc := func() map[string]any {
					return map[string]any{"case": ci, "write_cache": withWC, "real_gc_timer": realTimer, "modes": fmt.Sprint(seq), "phase": phase, "mode": m.String(), "step": step, "kind": kind, "target": pick.note, "trace_tail": trace[max(0, len(trace)-12):]}
				}
				panicked := r.Guard(desc, func() {
					switch k := rng.IntN(22); k {
					case 0:
						kind = "put-new"
						opErr = sh.Put(newObj(cnrs[rng.IntN(len(cnrs))]), nil)
					case 1:
						kind = "put-existing"
						opErr = sh.Put(pick.obj, pick.bin)
					case 2:
						kind = "put-tombstone"
						ts := verifkit.NewObject(rng, pick.addr.Container(), owner, 0)
						ts.AssociateDeleted(pick.addr.Object())
						opErr = sh.Put(ts, nil)
					case 3:
						kind = "put-lock"
						lk := verifkit.NewObject(rng, pick.addr.Container(), owner, 0)
						lk.AssociateLocked(pick.addr.Object())
						opErr = sh.Put(lk, nil)
					case 4:
						kind = "delete"
						opErr = sh.Delete(pick.addr.Container(), []oid.ID{pick.addr.Object()})
					case 5:
						kind = "delete-many"
						var ids []oid.ID
						for _, u := range uni {
							if u.addr.Container() == pick.addr.Container() && rng.IntN(2) == 0 {
								ids = append(ids, u.addr.Object())
							}
						}
						opErr = sh.Delete(pick.addr.Container(), ids)
					case 6:
						kind = "mark-garbage-default"
						opErr = sh.MarkGarbage(pick.addr.Container(), []oid.ID{pick.addr.Object()}, meta.GarbageMarkDefault)
					case 7:
						kind = "mark-garbage-redundant"
						opErr = sh.MarkGarbage(pick.addr.Container(), []oid.ID{pick.addr.Object()}, meta.GarbageMarkRedundant)
					case 8:
						kind = "inhume-container"
						opErr = sh.InhumeContainer(pick.addr.Container())
					case 9:
						kind = "delete-container"
						opErr = sh.DeleteContainer(context.Background(), pick.addr.Container())
					case 10:
						kind = "restore"
						_, _, opErr = sh.Restore(bytes.NewReader(vf14Frame(newObj(cnrs[0]), pick.obj)), rng.IntN(2) == 0)
					case 11:
						kind = "revive"
						tg := pick
						if rng.IntN(2) == 0 {
							tg = tombTargets[rng.IntN(len(tombTargets))]
						} else if rng.IntN(2) == 0 {
							tg = garbage[rng.IntN(len(garbage))]
						}
						_, opErr = sh.ReviveObject(tg.addr)
					case 12:
						kind = "flush-write-cache"
						opErr = sh.FlushWriteCache(rng.IntN(2) == 0)
						if !withWC && errors.Is(opErr, errWriteCacheDisabled) {
							modifying = false // nothing to flush on a shard without a write-cache
							class = "write-cache-disabled"
						}
					case 13, 14:
						kind = "gc-pass"
						modifying = false
						if rng.IntN(2) == 0 {
							sh.removeGarbage()
						} else {
							sh.gc.remover()
						}
						class = "done"
					case 15, 16:
						kind = "epoch-event"
						modifying = false
						e := env.epoch.v.Load() + uint64(1+rng.IntN(3))
						env.epoch.v.Store(e)
						if rng.IntN(2) == 0 {
							sh.setEpochEventHandler(EventNewEpoch(e))
							class = "direct"
						} else {
							ent := make(chan struct{}, 1)
							env.pay.mu.Lock()
							env.pay.entered = ent
							env.pay.mu.Unlock()
							sh.NotificationChannel() <- EventNewEpoch(e)
							if !verifkit.WaitOrTimeout(ent, 120*time.Second) {
								class = "watchdog"
							} else {
								sh.gc.mEventHandler[eventNewEpoch].prevGroup.Wait()
								class = "channel"
							}
							env.pay.mu.Lock()
							env.pay.entered = nil
							env.pay.mu.Unlock()
						}
					case 17:
						kind = "dump"
						modifying = false
						_, derr := sh.Dump(io.Discard, false)
						class = vf14ErrClass(derr)
						if derr != nil {
							r.Violation("read|dump-fails|"+m.String(), fmt.Sprintf("Dump (a read operation that requires a read-only mode) failed in %s: %v", m, derr), stepDesc())
						}
					default:
						kind = "reads"
						modifying = false
						class = "checked"
					}
				})
				if panicked {
					violated = true
					break
				}
				if class == "watchdog" {
					r.Inconclusive("watchdog: epoch event not handled")
					violated = true
					break
				}
				if modifying {
					class = vf14ErrClass(opErr)
					r.Count("modifying_requests", 1)
					if !vf14IsModeErr(opErr) {
						r.Violation(fmt.Sprintf("no-mode-error|%s|%s", kind, m), fmt.Sprintf("%s in %s returned %q instead of the shard's mode error", kind, m, class), stepDesc())
					} else {
						r.Count("modifying_requests_refused_with_mode_error", 1)
					}
				}
				trace = append(trace, kind+":"+class)
				r.Distinct(fmt.Sprintf("%s|%v|%s|%s", m, withWC, kind, class))
				r.Seen("step_kinds", kind)
				r.Count("steps", 1)

				// (3) reads: every step re-checks a few addresses, a "reads" step checks all
				nReads := 2
				if kind == "reads" {
					nReads = len(uni)
				}
				for i := 0; i < nReads; i++ {
					u := uni[(step*7+i)%len(uni)]
					if kind != "reads" {
						u = uni[rng.IntN(len(uni))]
					}
					o, gerr := sh.Get(u.addr, false)
					switch {
					case u.plain && gerr != nil:
						r.Violation(fmt.Sprintf("read|available-object-unreadable|%s", m), fmt.Sprintf("%s object %s unreadable in %s: %v", u.note, u.addr, m, gerr), stepDesc())
					case gerr == nil && !bytes.Equal(o.Marshal(), u.bin):
						r.Violation(fmt.Sprintf("read|bytes-differ|%s", m), fmt.Sprintf("%s object read back with different bytes in %s", u.note, m), stepDesc())
					case u.tombed && gerr == nil && !m.NoMetabase():
						r.Violation(fmt.Sprintf("read|tombstoned-object-readable|%s", m), fmt.Sprintf("tombstoned object %s readable in %s", u.addr, m), stepDesc())
					}
					if u.plain {
						if b, berr := sh.GetBytes(u.addr); berr != nil || !bytes.Equal(b, u.bin) {
							r.Violation(fmt.Sprintf("read|getbytes|%s", m), fmt.Sprintf("GetBytes of %s object in %s: err=%v", u.note, m, berr), stepDesc())
						}
						if ex, eerr := sh.Exists(u.addr, false); eerr != nil || !ex {
							r.Violation(fmt.Sprintf("read|exists|%s", m), fmt.Sprintf("Exists of %s object in %s: %v/%v", u.note, m, ex, eerr), stepDesc())
						}
						if h, herr := sh.Head(u.addr, false); herr != nil || h.GetID() != u.addr.Object() {
							r.Violation(fmt.Sprintf("read|head|%s", m), fmt.Sprintf("Head of %s object in %s: %v", u.note, m, herr), stepDesc())
						}
					}
					r.Count("reads_checked", 1)
				}
				for _, a := range never {
					if _, gerr := sh.Get(a, false); gerr == nil {
						r.Violation(fmt.Sprintf("read|never-stored-readable|%s", m), fmt.Sprintf("never stored %s readable in %s", a, m), stepDesc())
					}
				}
				if !m.NoMetabase() && kind == "reads" {
					if lst, lerr := sh.List(); lerr != nil {
						r.Violation(fmt.Sprintf("read|list|%s", m), fmt.Sprintf("List failed in %s: %v", m, lerr), stepDesc())
					} else {
						r.Count("listings", 1)
						_ = lst
					}
					for _, tg := range lockTargets {
						if l, lerr := sh.IsLocked(tg.addr); lerr != nil {
							r.Violation(fmt.Sprintf("read|is-locked|%s", m), fmt.Sprintf("IsLocked failed in %s: %v", m, lerr), stepDesc())
						} else if l {
							r.Count("locks_seen", 1)
						}
					}
				}

				// optional dwell so that the write-cache flush scheduler (1 s tick) and the GC timer run
				if withWC && nWC > 0 && dwellLeft > 0 && step == nSteps/2 {
					dwellLeft--
					time.Sleep(1300 * time.Millisecond)
					r.Count("dwells_over_flush_scheduler_tick", 1)
				}

				// (1) persisted state must equal the snapshot taken at mode entry
				s1, err := env.snapshot()
				if err != nil {
					r.Inconclusive(fmt.Sprintf("case %d step %d: snapshot: %v", ci, step, err))
					violated = true
					break
				}
				r.Count("snapshot_comparisons", 1)
				if comp, d := vf14Diff(s0, s1); comp != "" {
					r.Violation(fmt.Sprintf("state-changed|%s|%s|after=%s", m, comp, kind), fmt.Sprintf("persisted %s state changed while the shard was %s (step %d %s:%s): %s", comp, m, step, kind, class, d), stepDesc())
					violated = true
				}
			}
		}
		r.Count("payment_checks_observed", int(env.pay.asked.Load()))
		r.Count("expired_callbacks_observed", int(env.expired.Load()))
		r.Sample(desc)
		stop()
	}
	if r.Counter("modifying_requests") == 0 || r.Counter("snapshot_comparisons") == 0 {
		r.Inconclusive("nothing was monitored")
	}
}
