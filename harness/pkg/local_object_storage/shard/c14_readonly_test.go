//go:build verif

package shard

import (
	"bytes"
	"context"
	"crypto/sha256"
	"encoding/binary"
	"encoding/hex"
	"errors"
	"fmt"
	"io"
	"io/fs"
	"math/rand/v2"
	"os"
	"path/filepath"
	"sort"
	"sync"
	"sync/atomic"
	"testing"
	"time"

	"github.com/nspcc-dev/bbolt"
	"github.com/nspcc-dev/neofs-node/internal/verifkit"
	"github.com/nspcc-dev/neofs-node/pkg/local_object_storage/blobstor/fstree"
	meta "github.com/nspcc-dev/neofs-node/pkg/local_object_storage/metabase"
	"github.com/nspcc-dev/neofs-node/pkg/local_object_storage/shard/mode"
	"github.com/nspcc-dev/neofs-node/pkg/local_object_storage/writecache"
	cid "github.com/nspcc-dev/neofs-sdk-go/container/id"
	"github.com/nspcc-dev/neofs-sdk-go/object"
	oid "github.com/nspcc-dev/neofs-sdk-go/object/id"
	"go.uber.org/zap"
)

// ---------------------------------------------------------------------------------------
// C14: while a shard is read-only / degraded-read-only nothing changes its stored objects,
// metadata or write-cache contents; every modifying request fails with a mode error; reads
// keep working.
//
// Oracle: (1) a persisted-state snapshot (every file of the blob storage and write-cache
// trees by relative path, size and SHA-256; every bucket/key/value of the metabase read
// through an independent read-only bbolt handle) taken right after the mode switch must
// equal the snapshot taken after EVERY later step; (2) every modifying request must return
// the shard's mode error; (3) objects that were plainly available before the switch stay
// readable with identical bytes, never-stored addresses stay unreadable.
//
// The read-only period is entered in every way a shard gets there: (a) SetMode at run time,
// (b) start-up of a stopped shard with the mode given in its configuration (shard.WithMode +
// Open + Init, what `mode: read-only` of the node config does), (c) a run-time entry followed
// by an attempt to return to read-write that an injected component failure aborts (the shard
// keeps reporting the read-only mode).  Before the period starts the GC backlog is staged in
// read-write: untouched, one pass done, a removed container whose objects are already gone
// while its record is still pending, or fully drained.
// ---------------------------------------------------------------------------------------

type vf14Epoch struct{ v atomic.Uint64 }

func (e *vf14Epoch) CurrentEpoch() uint64 { return e.v.Load() }

type vf14Payments struct {
	mu      sync.Mutex
	unpaid  map[cid.ID]int64
	entered chan struct{}
	asked   atomic.Int64
}

func (p *vf14Payments) PaymentsDisabled() bool {
	p.mu.Lock()
	ch := p.entered
	p.mu.Unlock()
	if ch != nil {
		select {
		case ch <- struct{}{}:
		default:
		}
	}
	return false
}

func (p *vf14Payments) UnpaidSince(id cid.ID) (int64, error) {
	p.asked.Add(1)
	p.mu.Lock()
	defer p.mu.Unlock()
	if v, ok := p.unpaid[id]; ok {
		return v, nil
	}
	return -1, nil
}

type vf14Env struct {
	dir     string
	sh      *Shard
	fst     *fstree.FSTree
	depth   uint64
	wc      bool
	epoch   *vf14Epoch
	pay     *vf14Payments
	expired atomic.Int64 // expired-objects callback invocations
}

func vf14New(dir string, rng *rand.Rand, withWC bool, realTimer bool) (*vf14Env, error) {
	env := &vf14Env{dir: dir, wc: withWC, epoch: &vf14Epoch{}, pay: &vf14Payments{unpaid: map[cid.ID]int64{}}}
	env.depth = uint64(1 + rng.IntN(2))
	return env, env.open(realTimer)
}

// open builds a Shard instance over the case directory and starts it the way the node does
// (New + Open + Init); extra carries the configured mode of a restart.
func (env *vf14Env) open(realTimer bool, extra ...Option) error {
	dir, withWC := env.dir, env.wc
	env.fst = fstree.New(fstree.WithPath(filepath.Join(dir, "blob")), fstree.WithDepth(env.depth), fstree.WithNoSync(true))
	gcInt := time.Hour
	if realTimer {
		gcInt = 3 * time.Millisecond
	}
	env.sh = New(append([]Option{
		WithLogger(zap.NewNop()),
		WithBlobstor(env.fst),
		WithMetaBaseOptions(
			meta.WithPath(filepath.Join(dir, "meta", "meta.db")),
			meta.WithEpochState(env.epoch),
			meta.WithLogger(zap.NewNop()),
			meta.WithBoltDBOptions(&bbolt.Options{NoSync: true}),
			meta.WithMaxBatchDelay(time.Microsecond),
		),
		WithWriteCache(withWC),
		WithWriteCacheOptions(
			writecache.WithPath(filepath.Join(dir, "wcache")),
			writecache.WithLogger(zap.NewNop()),
			writecache.WithNoSync(true),
		),
		WithGCRemoverSleepInterval(gcInt),
		WithRemoverBatchSize(3),
		WithContainerPayments(env.pay),
		WithExpiredObjectsCallback(func([]oid.Address) { env.expired.Add(1) }),
	}, extra...)...)
	if err := env.sh.Open(); err != nil {
		return err
	}
	if err := env.sh.Init(); err != nil {
		_ = env.sh.Close()
		return err
	}
	return nil
}

// ---- persisted-state snapshot ----

type vf14Snap struct {
	files map[string]string // relative path -> "size:sha256"
	meta  map[string]string // "bucket/path" -> hash over its sorted key/value pairs
	nKV   int
	own   bool // metabase read through the shard's own (writable) handle
}

func vf14WalkFiles(root, prefix string, out map[string]string) error {
	return filepath.WalkDir(root, func(p string, d fs.DirEntry, err error) error {
		if err != nil {
			if errors.Is(err, fs.ErrNotExist) {
				return nil
			}
			return err
		}
		rel, _ := filepath.Rel(root, p)
		if d.IsDir() {
			out[prefix+rel+"/"] = "dir"
			return nil
		}
		b, err := os.ReadFile(p)
		if err != nil {
			if errors.Is(err, fs.ErrNotExist) {
				return nil // removed while the tree was being walked: absent from this snapshot
			}
			return err
		}
		h := sha256.Sum256(b)
		out[prefix+rel] = fmt.Sprintf("%d:%s", len(b), hex.EncodeToString(h[:8]))
		return nil
	})
}

func vf14DumpBucket(b *bbolt.Bucket, path string, out map[string]string, n *int) error {
	h := sha256.New()
	err := b.ForEach(func(k, v []byte) error {
		if v == nil {
			if nb := b.Bucket(k); nb != nil {
				return vf14DumpBucket(nb, path+"/"+hex.EncodeToString(k), out, n)
			}
		}
		var l [8]byte
		binary.LittleEndian.PutUint32(l[:4], uint32(len(k)))
		binary.LittleEndian.PutUint32(l[4:], uint32(len(v)))
		h.Write(l[:])
		h.Write(k)
		h.Write(v)
		*n++
		return nil
	})
	out[path] = hex.EncodeToString(h.Sum(nil)[:8])
	return err
}

func (env *vf14Env) snapshot() (*vf14Snap, error) {
	s := &vf14Snap{files: map[string]string{}, meta: map[string]string{}}
	if err := vf14WalkFiles(filepath.Join(env.dir, "blob"), "blob/", s.files); err != nil {
		return nil, fmt.Errorf("walk blob storage: %w", err)
	}
	if err := vf14WalkFiles(filepath.Join(env.dir, "wcache"), "wcache/", s.files); err != nil {
		return nil, fmt.Errorf("walk write-cache: %w", err)
	}
	// the metabase directory must hold the same files too (no stray journal/copy)
	names, _ := os.ReadDir(filepath.Join(env.dir, "meta"))
	for _, n := range names {
		s.files["meta/"+n.Name()] = "present"
	}
	dump := func(tx *bbolt.Tx) error {
		return tx.ForEach(func(name []byte, b *bbolt.Bucket) error {
			return vf14DumpBucket(b, hex.EncodeToString(name), s.meta, &s.nKV)
		})
	}
	// A metabase the shard holds opened WRITABLE (start-up with a configured read-only mode,
	// aborted return to read-write) keeps an exclusive file lock: its committed content is
	// read in a read transaction of that very handle.  Otherwise (handle opened read-only or
	// closed) an independent read-only handle is used.
	if writable, open, verr := env.sh.metaBase.Verif14View(dump); open && writable && verr == nil {
		s.own = true
		return s, nil
	}
	s.meta, s.nKV = map[string]string{}, 0
	db, err := bbolt.Open(filepath.Join(env.dir, "meta", "meta.db"), 0o600, &bbolt.Options{ReadOnly: true, Timeout: 60 * time.Second})
	if err != nil {
		return nil, fmt.Errorf("independent read-only open of the metabase: %w", err)
	}
	defer db.Close()
	return s, db.View(dump)
}

// vf14Change is one changed component of the persisted state.
type vf14Change struct {
	comp   string // blobstor | write-cache | metabase-dir | metabase
	shape  string // what happened to its entries: removed/added/modified (joined by '+')
	detail string
}

// vf14Diff compares two snapshots component by component (a change of one component never
// hides a change of another one).
func vf14Diff(a, b *vf14Snap) []vf14Change {
	diffMap := func(x, y map[string]string, prefix, unit string) (string, string) {
		var d []string
		kinds := map[string]bool{}
		for k, v := range x {
			if len(k) < len(prefix) || k[:len(prefix)] != prefix {
				continue
			}
			if w, ok := y[k]; !ok {
				d = append(d, "-"+k)
				kinds[unit+"-removed"] = true
			} else if w != v {
				d = append(d, "~"+k)
				kinds[unit+"-modified"] = true
			}
		}
		for k := range y {
			if len(k) < len(prefix) || k[:len(prefix)] != prefix {
				continue
			}
			if _, ok := x[k]; !ok {
				d = append(d, "+"+k)
				kinds[unit+"-added"] = true
			}
		}
		if len(d) == 0 {
			return "", ""
		}
		sort.Strings(d)
		if len(d) > 6 {
			d = append(d[:6], fmt.Sprintf("...(%d more)", len(d)-6))
		}
		var ks []string
		for k := range kinds {
			ks = append(ks, k)
		}
		sort.Strings(ks)
		shape := ""
		for i, k := range ks {
			if i > 0 {
				shape += "+"
			}
			shape += k
		}
		return shape, fmt.Sprint(d)
	}
	var out []vf14Change
	for _, c := range [][2]string{{"blob/", "blobstor"}, {"wcache/", "write-cache"}, {"meta/", "metabase-dir"}} {
		if sh, d := diffMap(a.files, b.files, c[0], "files"); sh != "" {
			out = append(out, vf14Change{c[1], sh, d})
		}
	}
	if sh, d := diffMap(a.meta, b.meta, "", "buckets"); sh != "" {
		out = append(out, vf14Change{"metabase", sh, d})
	}
	return out
}

// ---- universe ----

type vf14Obj struct {
	obj    *object.Object
	addr   oid.Address
	bin    []byte
	plain  bool // stored, no expiration, no tombstone, no garbage mark, container alive: must stay readable
	tombed bool // target of a stored tombstone (read-only mode must keep refusing it)
	note   string
}

func vf14IsModeErr(err error) bool {
	return errors.Is(err, ErrReadOnlyMode) || errors.Is(err, ErrDegradedMode)
}

func vf14ErrClass(err error) string {
	switch {
	case err == nil:
		return "nil"
	case errors.Is(err, ErrReadOnlyMode):
		return "shard-read-only"
	case errors.Is(err, ErrDegradedMode):
		return "shard-degraded"
	case errors.Is(err, errWriteCacheDisabled):
		return "write-cache-disabled"
	default:
		s := err.Error()
		if len(s) > 60 {
			s = s[:60]
		}
		return "other:" + s
	}
}

func vf14Frame(objs ...*object.Object) []byte {
	out := []byte("NEOF")
	for _, o := range objs {
		b := o.Marshal()
		out = binary.LittleEndian.AppendUint32(out, uint32(len(b)))
		out = append(out, b...)
	}
	return out
}

var vf14ErrInjected = errors.New("verif: injected component failure")

func TestVerif_C14(t *testing.T) {
	r := verifkit.Start(t, "C14", "exploration")
	defer r.Finish()
	r.SetRule("case = shard (with/without write-cache, real 3 ms GC timer or manual GC passes) filled in read-write with plain, expiring, tombstoned, locked, garbage-marked objects, removed containers (objects pending / objects already collected but record pending), a long-unpaid container, unflushed write-cache content, an epoch 0..2 announced before; GC backlog staged (untouched / one pass / removed-container record pending / drained); the read-only period is ENTERED by run-time SetMode, by restart of the stopped shard with the mode in its configuration (WithMode+Open+Init; baseline after a first start with a silent GC timer, then one more stop/start with the case's timer), or by run-time SetMode followed by a return to read-write aborted by an injected component failure; first mode RO or DRO, optionally followed by the other one; in each mode 40..120 steps, the first 22 a permutation of ALL step kinds (put/re-put/tombstone/lock, delete, mark default/redundant, container inhume/delete, restore, revive, flush, GC pass, epoch event via channel or direct, dump, reads), then random; persisted-state snapshot compared per component with the one taken at mode entry after EVERY step; distinct = (mode, entry, write-cache, step kind, outcome class)")
	r.Assume("metabase content is read through an independent read-only bbolt handle (shared flock) while the metabase is opened read-only or closed; when the shard keeps it opened writable (exclusive flock) committed content is read in a read transaction of the shard's own handle")
	r.Assume("mode error = errors.Is(err, shard.ErrReadOnlyMode) || errors.Is(err, shard.ErrDegradedMode)")
	r.Assume("a shard 'is read-only' when Shard.GetMode reports READ_ONLY or DEGRADED_READ_ONLY, however it got there")

	hooks := verifkit.InstallHooks()
	defer hooks.Uninstall()

	nCases := r.Pick(24, 240)
	base := os.Getenv("VERIF_SCRATCH")
	if base == "" {
		base = t.TempDir()
	}
	root, err := os.MkdirTemp(base, "c14-")
	if err != nil {
		t.Fatal(err)
	}
	defer os.RemoveAll(root)
	owner := verifkit.RandUser(r.Rand("owner", 0))
	entries := []string{"runtime", "config", "aborted-rw-return"}
	stages := []string{"untouched", "one-pass", "container-record-pending", "drained"}
	firstModes := []mode.Mode{mode.ReadOnly, mode.DegradedReadOnly}
	dwellLeft := r.Pick(3, 20)

	for ci := 0; ci < nCases; ci++ {
		rng := r.Rand("case", ci)
		// entry x stage x first mode are enumerated (24 combinations), the rest is drawn
		entry := entries[ci%3]
		stage := stages[(ci/3)%4]
		seq := []mode.Mode{firstModes[(ci/12)%2]}
		if rng.IntN(2) == 0 {
			seq = append(seq, firstModes[1-(ci/12)%2])
		}
		withWC := rng.IntN(2) == 0
		realTimer := rng.IntN(3) == 0
		epoch0 := uint64(rng.IntN(3))
		dir := filepath.Join(root, fmt.Sprintf("case%d", ci))
		desc := map[string]any{"case": ci, "entry": entry, "gc_backlog_stage": stage, "write_cache": withWC, "real_gc_timer": realTimer, "modes": fmt.Sprint(seq), "epoch_before": epoch0}
		// a shard that is going to be restarted is filled with manually driven GC so that the
		// staged backlog is what the restarted shard finds
		env, err := vf14New(dir, rng, withWC, realTimer && entry != "config")
		if err != nil {
			r.Inconclusive(fmt.Sprintf("case %d: build shard: %v", ci, err))
			return
		}
		sh := env.sh
		shClosed := false
		stop := func() {
			if !shClosed {
				_ = sh.Close()
			}
			_ = os.RemoveAll(dir)
		}

		// ---- fill in read-write ----
		cnrs := []cid.ID{verifkit.RandCID(rng), verifkit.RandCID(rng), verifkit.RandCID(rng)}
		cnrGone, cnrCollected, cnrGoneLate, cnrUnpaid := verifkit.RandCID(rng), verifkit.RandCID(rng), verifkit.RandCID(rng), verifkit.RandCID(rng)
		dead := map[cid.ID]bool{cnrGone: true, cnrCollected: true, cnrGoneLate: true}
		var uni []*vf14Obj
		put := func(o *object.Object) bool {
			if err := sh.Put(o, nil); err != nil {
				r.Inconclusive(fmt.Sprintf("case %d: fill put failed: %v", ci, err))
				return false
			}
			return true
		}
		newObj := func(cnr cid.ID) *object.Object {
			sz := []int{0, 1 + rng.IntN(100), 1 + rng.IntN(3000), 1 + rng.IntN(40000), 100000 + rng.IntN(100000)}[rng.IntN(5)]
			return verifkit.NewObject(rng, cnr, owner, sz)
		}
		okFill := true
		add := func(o *object.Object, plain bool, note string) *vf14Obj {
			u := &vf14Obj{obj: o, addr: o.Address(), bin: o.Marshal(), plain: plain, note: note}
			uni = append(uni, u)
			if !put(o) {
				okFill = false
			}
			return u
		}
		for i, n := 0, 6+rng.IntN(6); i < n && okFill; i++ {
			add(newObj(cnrs[rng.IntN(len(cnrs))]), true, "plain")
		}
		for i := 0; i < 2 && okFill; i++ { // expiring later / already expired once the epoch advances
			o := newObj(cnrs[0])
			verifkit.SetExpiration(o, uint64(1+rng.IntN(4)))
			add(o, false, "expiring")
		}
		var tombTargets, lockTargets, garbage []*vf14Obj
		for i := 0; i < 2 && okFill; i++ {
			tg := add(newObj(cnrs[1]), false, "tombstoned")
			tg.tombed = true
			tombTargets = append(tombTargets, tg)
			ts := verifkit.NewObject(rng, cnrs[1], owner, 0)
			ts.AssociateDeleted(tg.addr.Object())
			verifkit.SetExpiration(ts, uint64(2+rng.IntN(6)))
			add(ts, false, "tombstone")
		}
		for i := 0; i < 2 && okFill; i++ {
			tg := add(newObj(cnrs[2]), true, "locked")
			lockTargets = append(lockTargets, tg)
			lk := verifkit.NewObject(rng, cnrs[2], owner, 0)
			lk.AssociateLocked(tg.addr.Object())
			verifkit.SetExpiration(lk, uint64(3+rng.IntN(6)))
			add(lk, false, "lock")
		}
		for i := 0; i < 2 && okFill; i++ {
			add(newObj(cnrGone), false, "in-removed-container")
			add(newObj(cnrUnpaid), true, "in-unpaid-container")
		}
		for i, n := 0, 1+rng.IntN(3); i < n && okFill; i++ {
			add(newObj(cnrCollected), false, "in-removed-container-collected-early")
		}
		if !okFill {
			stop()
			return
		}
		fillErr := func(what string, err error) bool {
			if err != nil {
				r.Inconclusive(fmt.Sprintf("case %d: fill: %s: %v", ci, what, err))
				stop()
				return true
			}
			return false
		}
		if fillErr("inhume container", sh.InhumeContainer(cnrGone)) {
			return
		}
		if rng.IntN(2) == 0 {
			err = sh.InhumeContainer(cnrCollected)
		} else {
			err = sh.DeleteContainer(context.Background(), cnrCollected)
		}
		if fillErr("remove container", err) {
			return
		}
		if epoch0 > 0 { // an epoch < 3 announced in read-write (the unpaid container is not yet due)
			env.epoch.v.Store(epoch0)
			sh.setEpochEventHandler(EventNewEpoch(epoch0))
		}
		// ---- stage the GC backlog (steered by the metabase's own garbage listing; not an oracle) ----
		backlog := func() (recordPending, deadObjs, garbageObjs int, ok bool) {
			bins, gerr := sh.metaBase.GetGarbage(1 << 20)
			if gerr != nil {
				return 0, 0, 0, false
			}
			for _, b := range bins {
				switch {
				case len(b.Objects) == 0:
					recordPending++
				case dead[b.Container]:
					deadObjs += len(b.Objects)
				default:
					garbageObjs += len(b.Objects)
				}
			}
			return recordPending, deadObjs, garbageObjs, true
		}
		fillTimer := realTimer && entry != "config"
		if fillTimer {
			// the 3 ms GC timer of this shard already works on the backlog in read-write; manual
			// passes next to it would only race with the timer's pass (removeGarbage is written
			// for a single caller), the backlog at entry is whatever the timer has left
			stage = "left-to-timer"
			desc["gc_backlog_stage"] = stage
		}
		switch stage {
		case "one-pass":
			sh.removeGarbage()
		case "container-record-pending":
			for i := 0; i < 40; i++ {
				if rp, _, _, ok := backlog(); !ok || rp > 0 {
					break
				}
				sh.removeGarbage()
			}
		case "drained":
			for i := 0; i < 60; i++ {
				if rp, d, g, ok := backlog(); !ok || rp+d+g == 0 {
					break
				}
				sh.removeGarbage()
			}
		}
		env.pay.mu.Lock()
		env.pay.unpaid[cnrUnpaid] = 0 // long unpaid from the point of view of every epoch >= 3
		env.pay.mu.Unlock()
		if withWC && rng.IntN(2) == 0 {
			_ = sh.FlushWriteCache(false)
		}
		// late content: stays in the write-cache / stays garbage-marked / stays in a removed
		// container when the mode flips
		for i := 0; i < 3; i++ {
			add(newObj(cnrs[rng.IntN(len(cnrs))]), true, "late-plain")
		}
		for i := 0; i < 4; i++ {
			g := add(newObj(cnrs[0]), false, "garbage-marked")
			garbage = append(garbage, g)
		}
		for i := 0; i < 2; i++ {
			add(newObj(cnrGoneLate), false, "in-removed-container-late")
		}
		if !okFill {
			stop()
			return
		}
		for i, g := range garbage {
			mk := meta.GarbageMarkDefault
			if i%2 == 1 {
				mk = meta.GarbageMarkRedundant
			}
			if fillErr("mark garbage", sh.MarkGarbage(g.addr.Container(), []oid.ID{g.addr.Object()}, mk)) {
				return
			}
		}
		if fillErr("inhume late container", sh.InhumeContainer(cnrGoneLate)) {
			return
		}
		never := []oid.Address{oid.NewAddress(cnrs[0], verifkit.RandOID(rng)), oid.NewAddress(verifkit.RandCID(rng), verifkit.RandOID(rng))}
		if rp, d, g, ok := backlog(); ok {
			if rp > 0 {
				r.Count("entries_with_removed_container_record_pending|"+entry, 1)
			}
			if d > 0 {
				r.Count("entries_with_removed_container_objects_pending", 1)
			}
			if g > 0 {
				r.Count("entries_with_garbage_objects_pending", 1)
			}
			if rp+d+g == 0 {
				r.Count("entries_with_empty_gc_backlog", 1)
			}
		}

		violated := false
		for phase, m := range seq {
			if violated {
				break
			}
			// ---- enter the mode ----
			how := "runtime"
			if phase == 0 {
				how = entry
			}
			var stopped *vf14Snap
			var serr error
			if how == "config" {
				// the node is stopped and started again with the mode in the shard's configuration
				if cerr := sh.Close(); cerr != nil {
					r.Inconclusive(fmt.Sprintf("case %d: close before restart: %v", ci, cerr))
					_ = os.RemoveAll(dir)
					return
				}
				shClosed = true
				// First start in the configured mode with a GC timer that never fires: start-up
				// itself (Open+Init, e.g. the metabase's counter synchronisation) is outside the
				// statement.  The snapshot taken after it is the state the read-only period starts
				// from.  Then the read-only shard is stopped and started once more in the same
				// configured mode with the case's GC timer: its background workers start inside
				// Init, so whatever they do before Init returns is compared with that snapshot too.
				restart := func(timer bool) bool {
					var oerr error
					if r.Guard(desc, func() { oerr = env.open(timer, WithMode(m)) }) {
						violated = true
						return false
					}
					if oerr != nil {
						r.Inconclusive(fmt.Sprintf("case %d: restart with configured mode %s: %v", ci, m, oerr))
						violated = true
						return false
					}
					sh, shClosed = env.sh, false
					return true
				}
				if !restart(false) {
					break
				}
				var err error
				if stopped, err = env.snapshot(); err == nil {
					err = sh.Close()
					shClosed = true
				}
				if err != nil {
					r.Inconclusive(fmt.Sprintf("case %d: snapshot/stop of the shard started in configured mode: %v", ci, err))
					violated = true
					break
				}
				if !restart(realTimer) {
					break
				}
				r.Count("entries_by_restart_with_configured_mode", 1)
			} else {
				if r.Guard(desc, func() { serr = sh.SetMode(m) }) {
					violated = true
					break
				}
			}
			if serr != nil {
				// a refused/failed transition is C43's subject; nothing to monitor in this mode
				r.Count("mode_switch_errors", 1)
				r.Seen("mode_switch_error_texts", fmt.Sprintf("%v->%v: %s", sh.GetMode(), m, vf14ErrClass(serr)))
				break
			}
			if how == "aborted-rw-return" {
				// an operator/engine tries to bring the shard back to read-write; a component
				// (not the first one) fails, SetMode reports the error, the shard stays in m
				comps := []string{"blobstor"}
				if withWC {
					comps = append(comps, "writecache")
				}
				site := "shard.setmode." + comps[rng.IntN(len(comps))]
				hooks.FailAlways(site, vf14ErrInjected)
				var rerr error
				p := r.Guard(desc, func() { rerr = sh.SetMode(mode.ReadWrite) })
				hooks.ClearFaults()
				if p {
					violated = true
					break
				}
				if !errors.Is(rerr, vf14ErrInjected) {
					if rerr == nil {
						r.Inconclusive("fault point " + site + " not reached: return to read-write could not be aborted")
					} else {
						r.Count("mode_switch_errors", 1)
						r.Seen("mode_switch_error_texts", fmt.Sprintf("%v->READ_WRITE: %s", m, vf14ErrClass(rerr)))
					}
					break
				}
				r.Count("entries_after_aborted_return_to_read_write", 1)
				r.Seen("aborted_return_failed_component", site)
				desc["aborted_at"] = site
			}
			if sh.GetMode() != m {
				r.Inconclusive(fmt.Sprintf("case %d: shard entered %s via %s but reports %s", ci, m, how, sh.GetMode()))
				break
			}
			s0, err := env.snapshot()
			if err != nil {
				r.Inconclusive(fmt.Sprintf("case %d: snapshot: %v", ci, err))
				break
			}
			if stopped != nil {
				r.Count("snapshot_comparisons", 1)
				for _, c := range vf14Diff(stopped, s0) {
					r.Violation(fmt.Sprintf("state-changed|%s|entry=%s|write-cache=%v|%s", m, how, withWC, c.comp), fmt.Sprintf("persisted %s state changed (%s) over a stop and start of a shard that was already running in configured mode %s: %s", c.comp, c.shape, m, c.detail), desc)
					r.Seen("state_change_shapes", c.comp+"|"+c.shape)
					r.Count("state_changes_reported", 1)
				}
			}
			r.Count("snapshots_files", len(s0.files))
			r.Count("snapshots_meta_kv", s0.nKV)
			if s0.own {
				r.Count("mode_entries_with_writable_metabase_handle", 1)
			}
			nWC := 0
			for k := range s0.files {
				if len(k) > 7 && k[:7] == "wcache/" && k[len(k)-1] != '/' {
					nWC++
				}
			}
			if nWC > 0 {
				r.Count("mode_entries_with_unflushed_cache_files", 1)
			}
			r.Eval(1)
			r.Seen("entries_seen", fmt.Sprintf("%s|%s", m, how))
			nPlain := 0
			for _, u := range uni {
				if u.plain {
					nPlain++
				}
			}

			nSteps := 40 + rng.IntN(r.Pick(40, 80))
			const nKinds = 22
			order := rng.Perm(nKinds) // every step kind at least once in every mode period
			var trace []string
			for step := 0; step < nSteps && !violated; step++ {
				kind, class := "", ""
				var opErr error
				modifying := true
				pick := uni[rng.IntN(len(uni))]
				stepDesc := func() map[string]any {
					return map[string]any{"case": ci, "entry": entry, "gc_backlog_stage": stage, "write_cache": withWC, "real_gc_timer": realTimer, "modes": fmt.Sprint(seq), "epoch_before": epoch0, "aborted_at": desc["aborted_at"], "phase": phase, "mode": m.String(), "entered_by": how, "step": step, "kind": kind, "target": pick.note, "trace_tail": trace[max(0, len(trace)-12):]}
				}
				k := rng.IntN(nKinds)
				if step < nKinds {
					k = order[step]
				}
				panicked := r.Guard(desc, func() {
					switch k {
					case 0:
						kind = "put-new"
						opErr = sh.Put(newObj(cnrs[rng.IntN(len(cnrs))]), nil)
					case 1:
						kind = "put-existing"
						opErr = sh.Put(pick.obj, pick.bin)
					case 2:
						kind = "put-tombstone"
						ts := verifkit.NewObject(rng, pick.addr.Container(), owner, 0)
						ts.AssociateDeleted(pick.addr.Object())
						opErr = sh.Put(ts, nil)
					case 3:
						kind = "put-lock"
						lk := verifkit.NewObject(rng, pick.addr.Container(), owner, 0)
						lk.AssociateLocked(pick.addr.Object())
						opErr = sh.Put(lk, nil)
					case 4:
						kind = "delete"
						opErr = sh.Delete(pick.addr.Container(), []oid.ID{pick.addr.Object()})
					case 5:
						kind = "delete-many"
						var ids []oid.ID
						for _, u := range uni {
							if u.addr.Container() == pick.addr.Container() && rng.IntN(2) == 0 {
								ids = append(ids, u.addr.Object())
							}
						}
						opErr = sh.Delete(pick.addr.Container(), ids)
					case 6:
						kind = "mark-garbage-default"
						opErr = sh.MarkGarbage(pick.addr.Container(), []oid.ID{pick.addr.Object()}, meta.GarbageMarkDefault)
					case 7:
						kind = "mark-garbage-redundant"
						opErr = sh.MarkGarbage(pick.addr.Container(), []oid.ID{pick.addr.Object()}, meta.GarbageMarkRedundant)
					case 8:
						kind = "inhume-container"
						opErr = sh.InhumeContainer(pick.addr.Container())
					case 9:
						kind = "delete-container"
						opErr = sh.DeleteContainer(context.Background(), pick.addr.Container())
					case 10:
						kind = "restore"
						_, _, opErr = sh.Restore(bytes.NewReader(vf14Frame(newObj(cnrs[0]), pick.obj)), rng.IntN(2) == 0)
					case 11:
						kind = "revive"
						tg := pick
						if rng.IntN(2) == 0 {
							tg = tombTargets[rng.IntN(len(tombTargets))]
						} else if rng.IntN(2) == 0 {
							tg = garbage[rng.IntN(len(garbage))]
						}
						_, opErr = sh.ReviveObject(tg.addr)
					case 12:
						kind = "flush-write-cache"
						opErr = sh.FlushWriteCache(rng.IntN(2) == 0)
						if !withWC && errors.Is(opErr, errWriteCacheDisabled) {
							modifying = false // nothing to flush on a shard without a write-cache
							class = "write-cache-disabled"
						}
					case 13, 14:
						kind = "gc-pass"
						modifying = false
						if rng.IntN(2) == 0 {
							sh.removeGarbage()
						} else {
							sh.gc.remover()
						}
						class = "done"
					case 15, 16:
						kind = "epoch-event"
						modifying = false
						e := env.epoch.v.Load() + uint64(1+rng.IntN(3))
						env.epoch.v.Store(e)
						if rng.IntN(2) == 0 {
							sh.setEpochEventHandler(EventNewEpoch(e))
							class = "direct"
						} else {
							ent := make(chan struct{}, 1)
							env.pay.mu.Lock()
							env.pay.entered = ent
							env.pay.mu.Unlock()
							sh.NotificationChannel() <- EventNewEpoch(e)
							if !verifkit.WaitOrTimeout(ent, 300*time.Second) {
								class = "watchdog"
							} else {
								sh.gc.mEventHandler[eventNewEpoch].prevGroup.Wait()
								class = "channel"
							}
							env.pay.mu.Lock()
							env.pay.entered = nil
							env.pay.mu.Unlock()
						}
					case 17:
						kind = "dump"
						modifying = false
						n, derr := sh.Dump(io.Discard, false)
						class = vf14ErrClass(derr)
						if derr != nil {
							r.Violation(fmt.Sprintf("read|dump-fails|%s|entry=%s", m, how), fmt.Sprintf("Dump (a read operation that requires a read-only mode) failed in %s (entered by %s): %v", m, how, derr), stepDesc())
						} else if n < nPlain {
							// every plainly available object is stored in the blob storage or in the
							// write-cache; a dump of a read-only shard has to carry all of them
							class = "incomplete"
							r.Violation(fmt.Sprintf("read|dump-incomplete|%s|entry=%s", m, how), fmt.Sprintf("Dump in %s (entered by %s) carried %d objects while %d plainly available objects are stored", m, how, n, nPlain), stepDesc())
						}
					default:
						kind = "reads"
						modifying = false
						class = "checked"
					}
				})
				if panicked {
					violated = true
					break
				}
				if class == "watchdog" {
					r.Inconclusive("watchdog: epoch event not handled")
					violated = true
					break
				}
				if modifying {
					class = vf14ErrClass(opErr)
					r.Count("modifying_requests", 1)
					if !vf14IsModeErr(opErr) {
						r.Violation(fmt.Sprintf("no-mode-error|%s|%s|entry=%s", kind, m, how), fmt.Sprintf("%s in %s (entered by %s) returned %q instead of the shard's mode error", kind, m, how, class), stepDesc())
					} else {
						r.Count("modifying_requests_refused_with_mode_error", 1)
					}
				}
				trace = append(trace, kind+":"+class)
				r.Distinct(fmt.Sprintf("%s|%s|%v|%s|%s", m, how, withWC, kind, class))
				r.Seen("step_kinds", kind)
				r.Count("steps", 1)

				// (3) reads: every step re-checks a few addresses, a "reads" step checks all
				nReads := 2
				if kind == "reads" {
					nReads = len(uni)
				}
				for i := 0; i < nReads; i++ {
					u := uni[(step*7+i)%len(uni)]
					if kind != "reads" {
						u = uni[rng.IntN(len(uni))]
					}
					o, gerr := sh.Get(u.addr, false)
					switch {
					case u.plain && gerr != nil:
						r.Violation(fmt.Sprintf("read|available-object-unreadable|%s|entry=%s", m, how), fmt.Sprintf("%s object %s unreadable in %s: %v", u.note, u.addr, m, gerr), stepDesc())
					case gerr == nil && !bytes.Equal(o.Marshal(), u.bin):
						r.Violation(fmt.Sprintf("read|bytes-differ|%s|entry=%s", m, how), fmt.Sprintf("%s object read back with different bytes in %s", u.note, m), stepDesc())
					case u.tombed && gerr == nil && !m.NoMetabase():
						r.Violation(fmt.Sprintf("read|tombstoned-object-readable|%s|entry=%s", m, how), fmt.Sprintf("tombstoned object %s readable in %s", u.addr, m), stepDesc())
					}
					if u.plain {
						if b, berr := sh.GetBytes(u.addr); berr != nil || !bytes.Equal(b, u.bin) {
							r.Violation(fmt.Sprintf("read|getbytes|%s|entry=%s", m, how), fmt.Sprintf("GetBytes of %s object in %s: err=%v", u.note, m, berr), stepDesc())
						}
						if ex, eerr := sh.Exists(u.addr, false); eerr != nil || !ex {
							r.Violation(fmt.Sprintf("read|exists|%s|entry=%s", m, how), fmt.Sprintf("Exists of %s object in %s: %v/%v", u.note, m, ex, eerr), stepDesc())
						}
						if h, herr := sh.Head(u.addr, false); herr != nil || h.GetID() != u.addr.Object() {
							r.Violation(fmt.Sprintf("read|head|%s|entry=%s", m, how), fmt.Sprintf("Head of %s object in %s: %v", u.note, m, herr), stepDesc())
						}
					}
					r.Count("reads_checked", 1)
				}
				for _, a := range never {
					if _, gerr := sh.Get(a, false); gerr == nil {
						r.Violation(fmt.Sprintf("read|never-stored-readable|%s|entry=%s", m, how), fmt.Sprintf("never stored %s readable in %s", a, m), stepDesc())
					}
				}
				if !m.NoMetabase() && kind == "reads" {
					if lst, lerr := sh.List(); lerr != nil {
						r.Violation(fmt.Sprintf("read|list|%s|entry=%s", m, how), fmt.Sprintf("List failed in %s: %v", m, lerr), stepDesc())
					} else {
						r.Count("listings", 1)
						_ = lst
					}
					for _, tg := range lockTargets {
						if l, lerr := sh.IsLocked(tg.addr); lerr != nil {
							r.Violation(fmt.Sprintf("read|is-locked|%s|entry=%s", m, how), fmt.Sprintf("IsLocked failed in %s: %v", m, lerr), stepDesc())
						} else if l {
							r.Count("locks_seen", 1)
						}
					}
				}

				// dwell until the write-cache flush scheduler (1 s ticker) has handed a batch to a
				// flush worker and the worker is done with it - a logical condition observed at the
				// repository's instrumentation point, not a sleep of a fixed length; the wait is bounded
				// (~4 s) and when the bound is hit the run just goes on: no verdict depends on it
				if withWC && nWC > 0 && step == nSteps/2 && (how == "config" || dwellLeft > 0) {
					if how != "config" { // periods entered by restart always dwell, the others share a budget
						dwellLeft--
					}
					c0 := hooks.Counts()["writecache.worker.done"]
					seen := false
					for i := 0; i < 800 && !seen; i++ {
						time.Sleep(5 * time.Millisecond)
						seen = hooks.Counts()["writecache.worker.done"] > c0
					}
					if seen {
						r.Count("dwells_over_flush_worker_round", 1)
					} else {
						r.Count("dwells_without_flush_worker_round", 1)
					}
				}

				// (1) persisted state must equal the snapshot taken at mode entry
				s1, err := env.snapshot()
				if err != nil {
					r.Inconclusive(fmt.Sprintf("case %d step %d: snapshot: %v", ci, step, err))
					violated = true
					break
				}
				r.Count("snapshot_comparisons", 1)
				if chg := vf14Diff(s0, s1); len(chg) > 0 {
					for _, c := range chg {
						r.Violation(fmt.Sprintf("state-changed|%s|entry=%s|write-cache=%v|%s", m, how, withWC, c.comp), fmt.Sprintf("persisted %s state changed (%s) while the shard was %s (entered by %s; seen after step %d %s:%s): %s", c.comp, c.shape, m, how, step, kind, class, c.detail), stepDesc())
						r.Seen("state_change_shapes", c.comp+"|"+c.shape)
					}
					// go on from the new state so that later, different changes are reported too
					s0 = s1
					r.Count("state_changes_reported", 1)
				}
			}
		}
		r.Count("payment_checks_observed", int(env.pay.asked.Load()))
		r.Count("expired_callbacks_observed", int(env.expired.Load()))
		r.Sample(desc)
		stop()
	}
	if r.Counter("modifying_requests") == 0 || r.Counter("snapshot_comparisons") == 0 {
		r.Inconclusive("nothing was monitored")
	}
	if r.Counter("entries_by_restart_with_configured_mode") == 0 {
		r.Inconclusive("no read-only period entered by restart with a configured mode was monitored")
	}
}
