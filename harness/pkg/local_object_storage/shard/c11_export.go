//go:build verif

package shard

import "github.com/nspcc-dev/neofs-sdk-go/object"

// VerifC11MetaPut records obj in the shard's metabase only (thin wrapper for the engine
// part of the C11 monitor, which plants the object's file in the blob storage itself).
func (s *Shard) VerifC11MetaPut(obj *object.Object) error { return s.metaBase.Put(obj) }
