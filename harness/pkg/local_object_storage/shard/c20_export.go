//go:build verif

package shard

// Verif20RunGC runs one synchronous garbage-removal pass of the shard (the body of
// the GC ticker).  Thin exporter for the C20 monitor, no logic of its own.
func (s *Shard) Verif20RunGC() { s.removeGarbage() }
