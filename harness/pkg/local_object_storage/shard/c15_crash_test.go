//go:build verif

package shard

// C15 – "After a crash, every object the metadata lists as available is readable".
//
// Fault enumeration.  For every scripted history of <= 10 shard operations (put, repeated
// put, direct delete, garbage marks, tombstones, GC passes, explicit and background
// write-cache flushes; write-cache on and off) a dry-run child process records every step
// boundary (hook points H3/H4) the history passes.  Then, for EVERY (point, k-th hit), a
// fresh child replays the history on a fresh store and is SIGKILLed exactly there.  The
// parent reopens the store (no resync) and demands the statement: every address the
// metadata reports as available is returned by Shard.Get/GetBytes with the bytes that
// were put.

import (
	"bytes"
	"encoding/json"
	"fmt"
	"io/fs"
	"os"
	"path/filepath"
	"sort"
	"strings"
	"sync"
	"syscall"
	"testing"
	"time"

	"github.com/nspcc-dev/neofs-node/internal/verifkit"
	"github.com/nspcc-dev/neofs-node/pkg/local_object_storage/blobstor/fstree"
	meta "github.com/nspcc-dev/neofs-node/pkg/local_object_storage/metabase"
	"github.com/nspcc-dev/neofs-node/pkg/local_object_storage/writecache"
	"github.com/nspcc-dev/neofs-sdk-go/object"
	oid "github.com/nspcc-dev/neofs-sdk-go/object/id"
	"go.uber.org/zap"
)

type vf15Epoch struct{}

func (vf15Epoch) CurrentEpoch() uint64 { return 0 }

type vf15Op struct {
	Kind string `json:"kind"` // put | delete | mark-redundant | mark-garbage | tombstone | gc | flush | bgflush
	Obj  int    `json:"obj"`
}

func (o vf15Op) String() string {
	switch o.Kind {
	case "gc", "flush", "bgflush":
		return o.Kind
	}
	return fmt.Sprintf("%s(%d)", o.Kind, o.Obj)
}

type vf15Spec struct {
	Dir       string   `json:"dir"`
	WC        bool     `json:"wc"`
	Thr       uint64   `json:"thr"`
	BCount    int      `json:"bcount"`
	Objects   [][]byte `json:"objects"`    // canonical binaries of the universe
	Tombs     [][]byte `json:"tombstones"` // tombstone object for universe member i
	Ops       []vf15Op `json:"ops"`
	CrashName string   `json:"crash_name,omitempty"`
	CrashK    int      `json:"crash_k,omitempty"`
	Out       string   `json:"out"`
	Journal   string   `json:"journal"`
}

func vf15Open(dir string, wc bool, thr uint64, bcount int) (*Shard, error) {
	sh := New(
		WithLogger(zap.NewNop()),
		WithBlobstor(fstree.New(fstree.WithPath(filepath.Join(dir, "blob")), fstree.WithDepth(1))),
		WithMetaBaseOptions(meta.WithPath(filepath.Join(dir, "meta")), meta.WithEpochState(vf15Epoch{}),
			meta.WithLogger(zap.NewNop()), meta.WithMaxBatchDelay(time.Microsecond)),
		WithWriteCache(wc),
		WithWriteCacheOptions(writecache.WithPath(filepath.Join(dir, "wc")), writecache.WithLogger(zap.NewNop()),
			writecache.WithFlushWorkersCount(2), writecache.WithMaxFlushBatchThreshold(thr), writecache.WithMaxFlushBatchCount(bcount)),
		WithGCRemoverSleepInterval(time.Hour),
	)
	if err := sh.Open(); err != nil {
		return nil, err
	}
	if err := sh.Init(); err != nil {
		return nil, err
	}
	return sh, nil
}

func vf15CacheFiles(dir string) int {
	n := 0
	_ = filepath.WalkDir(filepath.Join(dir, "wc"), func(p string, d fs.DirEntry, err error) error {
		if err == nil && !d.IsDir() && !strings.HasPrefix(d.Name(), ".") {
			n++
		}
		return nil
	})
	return n
}

// vf15Child replays the scripted history; with a crash point armed the process dies there.
func vf15Child(specPath string) {
	b, err := os.ReadFile(specPath)
	if err != nil {
		fmt.Println("child: read spec:", err)
		os.Exit(4)
	}
	var sp vf15Spec
	if err := json.Unmarshal(b, &sp); err != nil {
		fmt.Println("child: spec:", err)
		os.Exit(4)
	}
	var objs, tombs []*object.Object
	for _, raw := range sp.Objects {
		o := new(object.Object)
		if err := o.Unmarshal(raw); err != nil {
			os.Exit(4)
		}
		objs = append(objs, o)
	}
	for _, raw := range sp.Tombs {
		o := new(object.Object)
		if err := o.Unmarshal(raw); err != nil {
			os.Exit(4)
		}
		tombs = append(tombs, o)
	}
	sh, err := vf15Open(sp.Dir, sp.WC, sp.Thr, sp.BCount)
	if err != nil {
		fmt.Println("child: open:", err)
		os.Exit(4)
	}
	j, err := verifkit.OpenJournal(sp.Journal)
	if err != nil {
		os.Exit(4)
	}
	h := verifkit.InstallHooks()
	if sp.CrashName != "" {
		h.CrashAt(sp.CrashName, sp.CrashK)
	}
	for i, op := range sp.Ops {
		var err error
		switch op.Kind {
		case "put":
			err = sh.Put(objs[op.Obj], sp.Objects[op.Obj])
		case "delete":
			a := objs[op.Obj].Address()
			err = sh.Delete(a.Container(), []oid.ID{a.Object()})
		case "mark-redundant":
			a := objs[op.Obj].Address()
			err = sh.MarkGarbage(a.Container(), []oid.ID{a.Object()}, meta.GarbageMarkRedundant)
		case "mark-garbage":
			a := objs[op.Obj].Address()
			err = sh.MarkGarbage(a.Container(), []oid.ID{a.Object()}, meta.GarbageMarkDefault)
		case "tombstone":
			err = sh.Put(tombs[op.Obj], sp.Tombs[op.Obj])
		case "gc":
			sh.removeGarbage()
		case "flush":
			err = sh.FlushWriteCache(false)
		case "bgflush":
			start := time.Now()
			for vf15CacheFiles(sp.Dir) > 0 {
				if time.Since(start) > 40*time.Second {
					fmt.Println("child: background flush did not finish")
					os.Exit(5)
				}
				time.Sleep(10 * time.Millisecond)
			}
		}
		res := "ok"
		if err != nil {
			res = "err " + err.Error()
		}
		j.Append(fmt.Sprintf("%d %s %s", i, op, res))
	}
	order := h.Order()
	h.Uninstall()
	ob, _ := json.Marshal(order)
	_ = os.WriteFile(sp.Out, ob, 0o644)
	_ = sh.Close()
	os.Exit(0)
}

type vf15Hist struct {
	idx   int
	wc    bool
	thr   uint64
	bc    int
	objs  []*object.Object
	bins  [][]byte
	tombs [][]byte
	ops   []vf15Op
}

func (hs *vf15Hist) describe() map[string]any {
	var ops []string
	for _, o := range hs.ops {
		ops = append(ops, o.String())
	}
	var sizes []int
	for _, b := range hs.bins {
		sizes = append(sizes, len(b))
	}
	return map[string]any{"history": hs.idx, "write_cache": hs.wc, "batch_threshold": hs.thr, "object_sizes": sizes, "ops": ops}
}

func vf15GenHist(r *verifkit.Run, idx int) *vf15Hist {
	rng := r.Rand("hist", idx)
	hs := &vf15Hist{idx: idx, wc: idx%3 != 2, thr: 2048, bc: 2 + rng.IntN(3)}
	cnr, owner := verifkit.RandCID(rng), verifkit.RandUser(rng)
	n := 3 + rng.IntN(3)
	for i := 0; i < n; i++ {
		pl := 32 + rng.IntN(300)
		if rng.IntN(3) == 0 {
			pl = 2100 + rng.IntN(2000) // above the batch threshold: flushed alone
		}
		o := verifkit.NewObject(rng, cnr, owner, pl)
		hs.objs = append(hs.objs, o)
		hs.bins = append(hs.bins, o.Marshal())
		ts := verifkit.NewObject(rng, cnr, owner, 0)
		ts.SetType(object.TypeTombstone)
		ts.AssociateDeleted(o.GetID())
		verifkit.SetExpiration(ts, 100)
		hs.tombs = append(hs.tombs, ts.Marshal())
	}
	put := map[int]bool{}
	nOps := 6 + rng.IntN(5)
	for len(hs.ops) < nOps {
		var kinds []string
		if len(put) < n {
			kinds = append(kinds, "put", "put", "put")
		}
		if len(put) > 0 {
			kinds = append(kinds, "put-again", "delete", "delete", "mark-redundant", "mark-garbage", "tombstone", "gc", "gc")
			if hs.wc {
				kinds = append(kinds, "flush", "bgflush")
			}
		}
		k := kinds[rng.IntN(len(kinds))]
		var have []int
		for i := range put {
			have = append(have, i)
		}
		sort.Ints(have)
		switch k {
		case "put":
			i := rng.IntN(n)
			for put[i] {
				i = (i + 1) % n
			}
			put[i] = true
			hs.ops = append(hs.ops, vf15Op{Kind: "put", Obj: i})
		case "put-again":
			hs.ops = append(hs.ops, vf15Op{Kind: "put", Obj: have[rng.IntN(len(have))]})
		case "gc", "flush", "bgflush":
			hs.ops = append(hs.ops, vf15Op{Kind: k})
		default:
			hs.ops = append(hs.ops, vf15Op{Kind: k, Obj: have[rng.IntN(len(have))]})
		}
	}
	// make sure marks are followed by a GC pass and cached data meets a flush
	hs.ops = append(hs.ops, vf15Op{Kind: "gc"})
	if hs.wc && idx%2 == 0 {
		hs.ops = append(hs.ops, vf15Op{Kind: "bgflush"})
	}
	if len(hs.ops) > 10 {
		hs.ops = hs.ops[len(hs.ops)-10:]
		// the cut may have removed a first put: keep the script meaningful by putting first
		seen := map[int]bool{}
		var fixed []vf15Op
		for _, o := range hs.ops {
			if o.Kind != "put" && o.Kind != "gc" && o.Kind != "flush" && o.Kind != "bgflush" && !seen[o.Obj] {
				continue // operation on an object the shortened script never stored
			}
			if o.Kind == "put" {
				seen[o.Obj] = true
			}
			fixed = append(fixed, o)
		}
		hs.ops = fixed
	}
	return hs
}

type vf15Job struct {
	hs    *vf15Hist
	name  string
	k     int
	dry   bool
	order []string
}

func vf15RunChild(r *verifkit.Run, base string, jb *vf15Job) (dir string, res verifkit.ChildResult, journal []string) {
	dir, err := os.MkdirTemp(base, fmt.Sprintf("c15-h%d-", jb.hs.idx))
	if err != nil {
		r.Inconclusive(err.Error())
		return "", res, nil
	}
	sp := vf15Spec{Dir: dir, WC: jb.hs.wc, Thr: jb.hs.thr, BCount: jb.hs.bc, Objects: jb.hs.bins, Tombs: jb.hs.tombs, Ops: jb.hs.ops,
		Out: filepath.Join(dir, "order.json"), Journal: filepath.Join(dir, "journal")}
	if !jb.dry {
		sp.CrashName, sp.CrashK = jb.name, jb.k
	}
	sb, _ := json.Marshal(sp)
	specPath := filepath.Join(dir, "spec.json")
	_ = os.WriteFile(specPath, sb, 0o644)
	res = verifkit.SpawnChild("TestVerif_C15", specPath, nil, 120*time.Second)
	if jb.dry {
		if ob, err := os.ReadFile(sp.Out); err == nil {
			_ = json.Unmarshal(ob, &jb.order)
		}
	}
	return dir, res, verifkit.ReadJournal(sp.Journal)
}

// vf15Recover reopens the crashed store and applies the oracle.
func vf15Recover(r *verifkit.Run, jb *vf15Job, dir string, journal []string) {
	desc := jb.hs.describe()
	desc["crash_point"] = fmt.Sprintf("%s#%d", jb.name, jb.k)
	inProgress := "none"
	if len(journal) < len(jb.hs.ops) {
		inProgress = jb.hs.ops[len(journal)].Kind
	}
	desc["op_in_progress"] = inProgress
	desc["ops_completed_before_crash"] = len(journal)
	var sh *Shard
	var err error
	if r.Guard(desc, func() { sh, err = vf15Open(dir, jb.hs.wc, jb.hs.thr, jb.hs.bc) }) {
		return
	}
	if err != nil {
		r.Violation(fmt.Sprintf("reopen-failed|wc=%v|crash@%s|during=%s", jb.hs.wc, jb.name, inProgress), "shard does not reopen after the crash: "+err.Error(), desc)
		return
	}
	defer func() { r.Guard(desc, func() { _ = sh.Close() }) }()
	type item struct {
		addr oid.Address
		bin  []byte
		what string
	}
	var items []item
	for i, o := range jb.hs.objs {
		items = append(items, item{o.Address(), jb.hs.bins[i], fmt.Sprintf("object %d", i)})
		ts := new(object.Object)
		if ts.Unmarshal(jb.hs.tombs[i]) == nil {
			items = append(items, item{ts.Address(), jb.hs.tombs[i], fmt.Sprintf("tombstone of %d", i)})
		}
	}
	for _, it := range items {
		var (
			ex   bool
			eerr error
		)
		if r.Guard(desc, func() { ex, eerr = sh.Exists(it.addr, false) }) {
			continue
		}
		r.Count("addresses_checked_after_crash", 1)
		if eerr != nil || !ex {
			r.Count("addresses_not_listed_as_available", 1)
			continue
		}
		r.Count("addresses_listed_as_available", 1)
		var (
			got  *object.Object
			gerr error
			gb   []byte
			berr error
		)
		if r.Guard(desc, func() { got, gerr = sh.Get(it.addr, false); gb, berr = sh.GetBytes(it.addr) }) {
			continue
		}
		key := fmt.Sprintf("wc=%v|crash@%s|during=%s", jb.hs.wc, jb.name, inProgress)
		switch {
		case gerr != nil || berr != nil:
			e := gerr
			if e == nil {
				e = berr
			}
			r.Violation("listed-but-unreadable|"+key, fmt.Sprintf("after a crash at %s#%d (during %s) the metadata lists %s (%s) as available but it cannot be read: %v", jb.name, jb.k, inProgress, it.what, it.addr, e), desc)
		case !bytes.Equal(got.Marshal(), it.bin) || !bytes.Equal(gb, it.bin):
			r.Violation("listed-but-different-bytes|"+key, fmt.Sprintf("after a crash at %s#%d the object %s reads back with different bytes", jb.name, jb.k, it.what), desc)
		default:
			r.Count("available_objects_read_back_identical", 1)
		}
	}
}

func TestVerif_C15(t *testing.T) {
	if spec, ok := verifkit.ChildSpec(); ok {
		vf15Child(spec)
		return
	}
	r := verifkit.Start(t, "C15", "fault_enumeration")
	defer r.Finish()
	r.SetRule("history = seeded script of <=10 shard operations over 3-5 objects (sizes on both sides of the write-cache batch threshold; write-cache on in 2 of 3 histories); case = (history, hook point, k-th hit) enumerated from a dry run; a case is non-trivial when the child really died at the point; distinct = distinct (history, point, k)")
	r.Assume("process-crash model: SIGKILL at the step boundary, everything handed to the kernel survives (no power loss)")
	r.Assume("reopen without metabase resync; GC passes and flushes are driven explicitly by the script, background flush only inside the 'bgflush' operation")
	base := os.Getenv("VERIF_SCRATCH")
	if base == "" {
		base = os.TempDir()
	}
	nHist := r.Pick(9, 60)
	par := r.Pick(8, 10)
	var hists []*vf15Hist
	for i := 0; i < nHist; i++ {
		hists = append(hists, vf15GenHist(r, i))
	}
	run := func(jobs []*vf15Job, f func(*vf15Job)) {
		sem := make(chan struct{}, par)
		var wg sync.WaitGroup
		for _, jb := range jobs {
			wg.Add(1)
			sem <- struct{}{}
			go func() {
				defer wg.Done()
				defer func() { <-sem }()
				f(jb)
			}()
		}
		wg.Wait()
	}
	// 1. dry runs: which step boundaries does each history pass, and how often
	var dry []*vf15Job
	for _, hs := range hists {
		dry = append(dry, &vf15Job{hs: hs, dry: true})
	}
	run(dry, func(jb *vf15Job) {
		dir, res, journal := vf15RunChild(r, base, jb)
		defer os.RemoveAll(dir)
		if res.ExitCode != 0 || res.Signaled || len(journal) != len(jb.hs.ops) {
			r.Inconclusive(fmt.Sprintf("history %d: dry run did not complete (exit %d, %d/%d ops): %s", jb.hs.idx, res.ExitCode, len(journal), len(jb.hs.ops), strings.TrimSpace(res.Output)))
			jb.order = nil
		}
		r.Sample(map[string]any{"history": jb.hs.describe(), "step_boundaries_passed": len(jb.order)})
	})
	// 2. one crash child per (point, k)
	var jobs []*vf15Job
	for _, d := range dry {
		cnt := map[string]int{}
		for _, name := range d.order {
			cnt[name]++
			jobs = append(jobs, &vf15Job{hs: d.hs, name: name, k: cnt[name]})
			r.Seen("crash_points_enumerated", name)
		}
		r.Count("crash_cases_enumerated", len(d.order))
	}
	if len(jobs) == 0 {
		r.Inconclusive("no hook point was passed by any history (hooks H3/H4 not compiled into this tree?)")
		return
	}
	run(jobs, func(jb *vf15Job) {
		dir, res, journal := vf15RunChild(r, base, jb)
		defer os.RemoveAll(dir)
		r.Eval(1)
		switch {
		case res.Signaled && res.Signal == syscall.SIGKILL:
			r.Count("crash_cases_reached", 1)
			r.Seen("crash_points_reached", jb.name)
			r.Distinct(fmt.Sprintf("h%d|%s|%d", jb.hs.idx, jb.name, jb.k))
			vf15Recover(r, jb, dir, journal)
		case res.ExitCode == 0 && !res.TimedOut:
			// the schedule of the background flusher differed from the dry run
			r.Count("crash_cases_point_not_reached", 1)
			vf15Recover(r, jb, dir, journal) // clean shutdown: the oracle holds a fortiori
		default:
			r.Inconclusive(fmt.Sprintf("history %d crash@%s#%d: child ended unexpectedly (exit %d, timeout %v): %s", jb.hs.idx, jb.name, jb.k, res.ExitCode, res.TimedOut, strings.TrimSpace(res.Output)))
		}
	})
	if e, re := r.Counter("crash_cases_enumerated"), r.Counter("crash_cases_reached"); re*10 < e*8 {
		r.Inconclusive(fmt.Sprintf("only %d of %d enumerated crash points were reached", re, e))
	}
	r.SetExhaustive(r.Counter("crash_cases_reached") == r.Counter("crash_cases_enumerated"))
}
